(* C13 level-3 model runner for syrk / herk / trsm: prints the BLAS call and the outcome the Coq model
   (Modelc13.syrk_model / herk_model / trsm_model) predicts. *)
open Modelc13
open C13_zu

let show_where (addr : int) : string =
  let b = (addr + 500000) / 1000000 in
  let off = addr - b * 1000000 in
  let name = match b with 1 -> "A" | 2 -> "B" | 3 -> "C" | 4 -> "R" | _ -> "?" in
  if b = 8 && off = 0 then "null" else Printf.sprintf "%s+%d" name off

let ch (c : z) : char = Char.chr (i c)

let run (obs : Buffer.t) (id : string) (routine : string) (et : string) (debug : bool) (form : string) (flags : string list)
    (al : int * int) (be : int * int) (mats : (char * mat) list) =
  let pr fmt = Printf.ksprintf (fun s -> Buffer.add_string obs s) fmt in
  let cplx = (et = "c" || et = "z") in
  let flag k = try List.nth flags k with _ -> "-" in
  match routine with
  | "syrk" | "herk" ->
      let a = List.assoc 'A' mats in
      let c = (match List.assoc_opt 'C' mats with Some c -> c | None -> a) in   (* value forms have no c operand: hstmt_out *)
      let upper = (flag 0 = "upper") in
      let herm = (routine = "herk") && cplx in
      let name = et ^ (if herm then "herk" else "syrk") in
      (* the spelling decides the passes (fill, alpha, beta): Model/BlasC13Expr.v hstmt_passes
         (herk(alpha, a, c) = herk(lower, alpha, a, herk(upper, alpha, a, c)) : herk.hpp:158-161) *)
      let al0 = if herm then (fst al, 0) else al in
      let be0 = if herm then (fst be, 0) else be in
      let st = (match form with
                | "nobeta" -> HkNoBeta (upper, al0) | "both" -> HkBoth al0 | "both1" -> HkBoth1
                | "value" -> HkValue al0 | "value1" -> HkValue1 | _ -> HkFull (upper, al0, be0)) in
      let passes3 = hstmt_passes (0, 0) (1, 0) st in
      let passes = List.map (fun ((up, _), _) -> up) passes3 in
      let (al', be') = (match passes3 with ((_, a1), b1) :: _ -> (a1, b1) | [] -> (al0, be0)) in
      let c = hstmt_out st a c (z (if i a.rows = 0 then 8000000 else 4000000)) in
      let n_call = ref 0 in
      let final = ref "outcome=ok why=-" in
      let site = ref 0 and crit = ref 1 in
      (try
        List.iter (fun up ->
          let o = if herm then herk_model debug up a c else syrk_model debug up a c in
          match o with
          | L3NoCall -> ()
          | L3Abort -> final := "outcome=abort why=assert"; raise Exit
          | L3Throw -> final := "outcome=throw why=ld"; raise Exit
          | L3Call k ->
              site := i k.r_site;
              (* the criterion is evaluated on what herk really dispatches on: the hermitized view when c is conjugated *)
              let (up', c') = if herm && c.mconj then (not up, hermitized c) else (up, c) in
              if not (rk_implements_b herm up' k a c') then crit := 0;
              pr "K %s %d %s %c %c %d %d %s %d %s %d a=%d,%d b=%d,%d info=%d\n" id !n_call name (ch k.r_uplo) (ch k.r_trans) (i k.r_n) (i k.r_k)
                (show_where (i k.r_pa)) (i k.r_lda) (show_where (i k.r_pc)) (i k.r_ldc) (fst al') (snd al') (fst be') (snd be') (i (rk_info k));
              incr n_call) passes
      with Exit -> ());
      (* the site even when the wrapper rejected the call *)
      if !site = 0 then begin
        let (up', c') = if herm && c.mconj then (not upper, hermitized c) else (upper, c) in
        (match (if herm then herk_dispatch up' a c' else L3Call (syrk_dispatch upper a c)) with L3Call k -> site := i k.r_site | _ -> ())
      end;
      (* no call at all: certified only when there is nothing to compute (empty c) *)
      if !n_call = 0 && not (i c.rows = 0 && !final = "outcome=ok why=-") then crit := 0;
      pr "S %s routine=%s site=%d wf=%d conform=%d crit=%d\n" id routine !site
        (if wf_matb a && wf_matb c then 1 else 0) (if i a.rows = i c.rows && i c.rows = i c.cols then 1 else 0) !crit;
      pr "O %s %s\n" id !final
  | "trsm" ->
      let a = List.assoc 'A' mats and b = List.assoc 'B' mats in
      (* the spelling decides side / diagonal / scalar: Model/BlasC13Expr.v tstmt_args *)
      let tri = if flag 1 = "lower" then TriL else TriU in
      let st = (match form with
                | "nonunit5" -> TsNonUnit (flag 0 = "left", flag 1 = "lower", al)
                | "tri" -> TsTri (flag 0 = "left", al, tri)
                | "opdiv" -> TsDivEq tri | "opor" -> TsOrEq tri
                | _ -> TsFull (flag 0 = "left", flag 1 = "lower", flag 2 = "unit", al)) in
      let g = tstmt_args (1, 0) st in
      let left = g.ta_left and lower = g.ta_lower and unit = g.ta_unit and al = g.ta_alpha in
      let o = tstmt_model (1, 0) debug st a b in
      let site = (match trsm_dispatch left lower unit a b with L3Call k -> i k.t_site | _ -> 0) in
      let m = if left then i b.rows else i b.cols in
      (* certified by C13_trsm_criterion_sound: the call passes trsm_implements_b; or there is nothing to solve *)
      let crit = (match o with
                  | L3Call k -> trsm_implements_b left lower unit k a b
                  | L3NoCall -> i b.rows = 0
                  | _ -> false) in
      pr "S %s routine=trsm site=%d wf=%d conform=%d crit=%d\n" id site (if wf_matb a && wf_matb b then 1 else 0)
        (if i a.rows = m && i a.cols = m then 1 else 0) (if crit then 1 else 0);
      (match o with
       | L3NoCall -> pr "O %s outcome=ok why=-\n" id
       | L3Abort -> pr "O %s outcome=abort why=assert\n" id
       | L3Throw -> pr "O %s outcome=throw why=ld\n" id
       | L3Call k ->
           let (ar, ai) = if k.t_conj_alpha then (fst al, - (snd al)) else al in
           pr "K %s 0 %strsm %c %c %c %c %d %d %s %d %s %d a=%d,%d info=%d\n" id et (ch k.t_side) (ch k.t_uplo) (ch k.t_trans) (ch k.t_diag)
             (i k.t_m) (i k.t_n) (show_where (i k.t_pa)) (i k.t_lda) (show_where (i k.t_pb)) (i k.t_ldb) ar ai (i (trsm_info k));
           pr "O %s outcome=ok why=-\n" id)
  | _ -> pr "O %s outcome=model-error why=unsupported-%s\n" id routine

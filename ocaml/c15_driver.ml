(* C15: generator + model runner for FFTW-adaptor cases.  Everything random derives from --seed.
   usage: driver_c15 gen --seed S --pairs N [--maxd 4] --prog FILE --obs FILE   (prints the distribution as JSON)
          driver_c15 run --prog FILE --obs FILE
   A case is a text block (see harness/h_fftw_c15.cpp for the reader on the C++ side):
     case <id> / dim D / inroot e.. / [inbase b..] / inop <op> .. / out separate|same|shared / outroot e.. /
     [outbase b..] / outop <op> .. / which b.. / sign s / api a / end
   (inbase / outbase: the first index of every extension of the root array, default 0; ops include reindexed,
   reindexedl, blocked, so that views with ANY index base are reached).
   The model side builds both views with the (C01-proved) view model, asks the C15 model for the
   external calls of the front end, and prints the observation lines the harness must reproduce. *)
open Modelc15
open C15_zu


type side = { root : int list; rbase : int list; ops : op list }   (* rbase = [] stands for all zeros *)
type outmode = Separate | Same | Shared
type case = {
  id : string; d : int; inp : side; mode : outmode; out : side;   (* out.root ignored unless Separate *)
  which : bool list; sign : int; api : string }

let p = Printf.sprintf

let op_text (o : op) : string =
  match o with
  | OSliced (a, b) -> p "sliced %d %d" (i a) (i b)
  | OStrided s -> p "strided %d" (i s)
  | ORotated -> "rotated"
  | OUnrotated -> "unrotated"
  | OTransposed -> "transposed"
  | OReversed -> "reversed"
  | OReindexed a -> p "reindexed %d" (i a)
  | OReindexedL l -> p "reindexedl %s" (join " " string_of_int (il l))
  | OBlocked (a, b) -> p "blocked %d %d" (i a) (i b)
  | _ -> failwith "op not in the C15 alphabet"

let op_of_words (w : string list) : op =
  match w with
  | ["sliced"; a; b] -> OSliced (z (int_of_string a), z (int_of_string b))
  | ["strided"; s] -> OStrided (z (int_of_string s))
  | ["rotated"] -> ORotated
  | ["unrotated"] -> OUnrotated
  | ["transposed"] -> OTransposed
  | ["reversed"] -> OReversed
  | ["reindexed"; a] -> OReindexed (z (int_of_string a))
  | "reindexedl" :: l when l <> [] -> OReindexedL (List.map (fun a -> z (int_of_string a)) l)
  | ["blocked"; a; b] -> OBlocked (z (int_of_string a), z (int_of_string b))
  | _ -> failwith ("bad op: " ^ String.concat " " w)

let mode_text = function Separate -> "separate" | Same -> "same" | Shared -> "shared"

let case_text (c : case) : string =
  let b = Buffer.create 256 in
  let add s = Buffer.add_string b s; Buffer.add_char b '\n' in
  add (p "case %s" c.id);
  add (p "dim %d" c.d);
  add (p "inroot %s" (join " " string_of_int c.inp.root));
  if List.exists (fun b -> b <> 0) c.inp.rbase then add (p "inbase %s" (join " " string_of_int c.inp.rbase));
  List.iter (fun o -> add ("inop " ^ op_text o)) c.inp.ops;
  add (p "out %s" (mode_text c.mode));
  (match c.mode with
   | Separate ->
       add (p "outroot %s" (join " " string_of_int c.out.root));
       if List.exists (fun b -> b <> 0) c.out.rbase then add (p "outbase %s" (join " " string_of_int c.out.rbase))
   | _ -> ());
  (match c.mode with
   | Same -> ()
   | _ -> List.iter (fun o -> add ("outop " ^ op_text o)) c.out.ops);
  add (p "which %s" (join " " (fun x -> if x then "1" else "0") c.which));
  add (p "sign %d" c.sign);
  add (p "api %s" c.api);
  add "end";
  Buffer.contents b

(* ---- the model side ---- *)
let root_exts (s : side) : (z * z) list =
  let rb = if s.rbase = [] then List.map (fun _ -> 0) s.root else s.rbase in
  List.map2 (fun b e -> (z b, z (b + e))) rb s.root
let view_of (s : side) : view option = run_ops s.ops (root_view (root_exts s))

let views (c : case) : (view * view) option =
  match view_of c.inp with
  | None -> None
  | Some vin ->
      (match c.mode with
       | Same -> Some (vin, vin)
       | Separate -> (match view_of c.out with Some vo -> Some (vin, vo) | None -> None)
       | Shared -> (match view_of { c.inp with ops = c.out.ops } with Some vo -> Some (vin, vo) | None -> None))

let events (c : case) (vin : view) (vout : view) : fftw_event list =
  let w = c.which in
  match c.api, c.mode with
  | "dft", Same -> fe_dft_inplace w vin (z c.sign)            (* dft(which, inout, sign) *)
  | "fftrange", _ -> fe_fft_range w vin vout (z c.sign)           (* out = fft::dft(which, in, dir) *)
  | "plan", _ -> fe_plan_execute w vin vout (z c.sign)            (* plan::forward/backward(...).execute(...) *)
  | ("fb" | "fft"), _ -> if c.sign < 0 then fe_dft_forward w vin vout else fe_dft_backward w vin vout
  | _, _ -> fe_dft w vin vout (z c.sign)                         (* dft / dft4 / plan *)

(* the stride of a dimension with fewer than two valid indices has no effect on the transform and is
   not an observable of the property: printed as '*' on both sides *)
let iodims l =
  join "," (fun d -> if i d.io_n >= 2 then p "%d:%d:%d" (i d.io_n) (i d.io_is) (i d.io_os) else p "%d:*:*" (i d.io_n)) l
let masked_strides sz st =
  String.concat "," (List.map2 (fun n s -> if n >= 2 then string_of_int s else "*") sz st)

(* the W line: the set of written locations; above w_list_max elements a digest (count, min, max and two
   order-independent sums of h(a) = (48271 a + 11) mod 1000000007) instead of the list itself *)
(* the planner flags compared with the implementation: DESTROY_INPUT 1, EXHAUSTIVE 8, PRESERVE_INPUT 16, PATIENT 32,
   ESTIMATE 64, WISDOM_ONLY 1 lsl 21 (same mask in harness/h_fftw_c15.cpp) *)
let semantic_flags = 1 lor 8 lor 16 lor 32 lor 64 lor (1 lsl 21)
let w_list_max = 20000
let w_extracted_max = 300000
let digest_add (n, lo, hi, s1, s2) a =
  let pm = 1000000007 in
  let h = ((a mod pm + pm) mod pm * 48271 + 11) mod pm in
  (n + 1, min lo a, max hi a, (s1 + h) mod pm, (s2 + h * h mod pm) mod pm)
let digest_text (n, lo, hi, s1, s2) = p "n=%d min=%d max=%d s1=%d s2=%d" n lo hi s1 s2
let digest_empty = (0, max_int, min_int, 0, 0)
(* the locations the guru plan g writes, enumerated with native integers straight from FFTW's reading of the
   tensors (out + sum of index * os over all dims and howmany_dims): used only above w_extracted_max elements,
   or when one dimension is longer than 2000 (zrange goes through unary numbers: quadratic), where the extracted
   plan_out_addresses is too heavy *)
let native_out_digest (g : guru_call) =
  let ds = List.map (fun d -> (i d.io_n, i d.io_os)) (g.g_dims @ g.g_hdims) in
  let rec go acc base = function
    | [] -> digest_add acc base
    | (n, os) :: rest ->
        let a = ref acc in
        for k = 0 to n - 1 do a := go !a (base + k * os) rest done;
        !a in
  go digest_empty (i g.g_out) ds

let model_obs (c : case) (ob : Buffer.t) : unit =
  let add s = Buffer.add_string ob s; Buffer.add_char ob '\n' in
  match views c with
  | None -> add (p "U %s out-of-domain view operation" c.id); add (p "E %s" c.id)
  | Some (vin, vout) ->
      let shape v =
        let sz = il (l_sizes v.lay) in
        p "sizes=%s strides=%s base=%d first=%s" (ints sz) (masked_strides sz (il (l_strides v.lay))) (i v.base)
          (String.concat "," (List.map2 (fun n f -> if n >= 1 then string_of_int f else "*") sz (il (firsts v.lay)))) in
      add (p "V %s in %s | out %s" c.id (shape vin) (shape vout));
      let evs = events c vin vout in
      List.iter (function
        | EvPlan g ->
            add (p "G %s rank=%d dims=%s hrank=%d hdims=%s in=%d out=%d sign=%d flags=%d" c.id
                   (i g.g_rank) (iodims g.g_dims) (i g.g_hrank) (iodims g.g_hdims) (i g.g_in) (i g.g_out)
                   (i g.g_sign) ((i g.g_flags) land semantic_flags))
        | _ -> ()) evs;
      add (p "X %s %s" c.id
             (join "," (function EvPlan _ -> "plan" | EvExecute (a, b) -> p "execute(%d;%d)" (i a) (i b)
                               | EvDestroy -> "destroy") evs));
      (* the model follows the code: W = the locations the plan writes (none when there is no plan: an empty
         input view returns before planning) *)
      (match c.mode with
       | Same -> add (p "W %s -" c.id)
       | _ ->
           let g = List.fold_left (fun acc e -> match e with EvPlan g -> Some g | _ -> acc) None evs in
           let n = List.fold_left ( * ) 1 (il (l_sizes vin.lay)) in
           (match g with
            | Some g when n <= w_list_max -> add (p "W %s %s" c.id (ints (List.sort_uniq compare (il (plan_out_addresses g)))))
            | Some g when n <= w_extracted_max && List.for_all (fun e -> e <= 2000) (il (l_sizes vin.lay)) ->
                add (p "W %s %s" c.id (digest_text (List.fold_left digest_add digest_empty
                                                       (List.sort_uniq compare (il (plan_out_addresses g))))))
            | Some g -> add (p "W %s %s" c.id (digest_text (native_out_digest g)))
            | None -> add (p "W %s " c.id)));
      (* the planner flags the model predicts keep the arrays intact at planning time and preserve the input *)
      let flags_ok = List.for_all (function
          | EvPlan g -> planning_preserves_arrays g.g_flags && not (planning_needs_wisdom g.g_flags)
                        && (i g.g_flags) land 16 <> 0
          | _ -> true) evs in
      add (p "M %s dft=1 input=1 frame=1 guards=1 fb=1 planflags=%d planpure=1" c.id (if flags_ok then 1 else 0));
      add (p "E %s" c.id)

(* ---- generator ---- *)
let rec upto a b = if a > b then [] else a :: upto (a + 1) b

let pick_size () = weighted [ (24, 1); (20, 2); (18, 3); (13, 4); (13, 5); (12, 6) ]

(* permutation induced by a list of dimension-permuting operations: result.(j) = index of the root
   dimension that ends up at position j (computed with the model on a probe with distinct sizes) *)
let induced_perm (d : int) (ops : op list) : int list =
  let probe = List.map (fun k -> 101 + k) (upto 0 (d - 1)) in
  match run_ops ops (root_view (List.map (fun e -> (z 0, z e)) probe)) with
  | Some v -> List.map (fun s -> i s - 101) (l_sizes v.lay)
  | None -> failwith "perm ops out of domain"

type recipe = { perm_ops : op list; m : int array; lo : int array; hi : int array; st : int array;
                rb : int array;          (* first index of every extension of the root *)
                blk : bool array }       (* sub-block taken with blocked(a, b) (extension [a, b)) instead of sliced *)

let gen_perm_ops ?(reidx = false) (d : int) : op list =
  let k = weighted [ (30, 0); (35, 1); (25, 2); (10, 3) ] in
  List.map (fun _ ->
      let cands = [ (30, ORotated); (20, OUnrotated); (15, OReversed) ] @ (if d >= 2 then [ (35, OTransposed) ] else [])
                  @ (if reidx then [ (25, OReindexed (z (rnd_range (-2) 4))) ] else []) in
      weighted cands) (upto 1 k)

let gen_base () = if chance 70 then rnd_range (-3) 5 else 0

(* based = the side uses index bases other than 0: a root over based extensions, blocked sub-blocks,
   reindexed in between *)
let gen_recipe ?(based = false) (d : int) (target : int list) (pad_pct : int) : recipe =
  let perm_ops = gen_perm_ops ~reidx:based d in
  let perm = induced_perm d (List.filter (function OReindexed _ -> false | _ -> true) perm_ops) in
  let m = Array.make d 1 in
  List.iteri (fun j pj -> m.(pj) <- List.nth target j) perm;
  let padded = chance pad_pct in
  let lo = Array.init d (fun _ -> if padded then weighted [ (50, 0); (30, 1); (20, 2) ] else 0) in
  let hi = Array.init d (fun _ -> if padded then weighted [ (50, 0); (30, 1); (20, 2) ] else 0) in
  let st = Array.init d (fun _ -> if padded && chance 20 then weighted [ (70, 2); (30, 3) ] else 1) in
  let rb = Array.init d (fun _ -> if based && chance 60 then gen_base () else 0) in
  let blk = Array.init d (fun _ -> based && chance 35) in
  { perm_ops; m; lo; hi; st; rb; blk }

let need (r : recipe) (k : int) = r.lo.(k) + r.m.(k) * r.st.(k) + r.hi.(k)

(* slice every dimension in turn (slice, optional stride, rotate: D rotations are the identity), then permute;
   slice arguments are indices of the root's extension (sliced keeps the first index, blocked(a,b) makes it a) *)
let recipe_ops ?(root : int list option) (d : int) (r : recipe) (shift : int array) : op list =
  let per_dim k =
    let a = shift.(k) + r.lo.(k) in
    let b = a + r.m.(k) * r.st.(k) in
    let extent = match root with Some e -> List.nth e k | None -> need r k in
    let trivial = a = 0 && b = extent && r.st.(k) = 1 && not r.blk.(k) in
    let a' = a + r.rb.(k) and b' = b + r.rb.(k) in
    (if trivial then [] else [ (if r.blk.(k) then OBlocked (z a', z b') else OSliced (z a', z b')) ])
    @ (if r.st.(k) > 1 then [ OStrided (z r.st.(k)) ] else []) in
  let all_trivial = List.for_all (fun k -> per_dim k = []) (upto 0 (d - 1)) in
  (if all_trivial then [] else List.concat_map (fun k -> per_dim k @ [ ORotated ]) (upto 0 (d - 1)))
  @ r.perm_ops

let side_of ?root (d : int) (r : recipe) (shift : int array) : side =
  { root = (match root with Some e -> e | None -> List.map (need r) (upto 0 (d - 1)));
    rbase = (if Array.exists (fun b -> b <> 0) r.rb then Array.to_list r.rb else []);
    ops = recipe_ops ?root d r shift }

let reindex_op (f : int list) : op = match f with [ a ] -> OReindexed (z a) | _ -> OReindexedL (zl f)
let firsts_of_side (s : side) : int list option =
  match view_of s with Some v -> Some (il (firsts v.lay)) | None -> None

(* the property is about views of equal extents: give both sides the same first indices (those of the input,
   those of the output, or fresh ones) with a final reindexed(i, j, ...) where they differ *)
let equalize (d : int) (based : bool) (inp : side) (out : side) : side * side =
  match firsts_of_side inp, firsts_of_side out with
  | Some fi, Some fo ->
      let target = if not based then fi
        else (match rnd 3 with 0 -> fi | 1 -> fo | _ -> List.map (fun _ -> gen_base ()) (upto 1 d)) in
      let fix s f = if f = target then s else { s with ops = s.ops @ [ reindex_op target ] } in
      (fix inp fi, fix out fo)
  | _ -> (inp, out)

let apis_for (mode : outmode) = match mode with
  | Same -> [ (40, "dft"); (25, "dft4"); (20, "fb"); (15, "plan") ]
  | _ -> [ (40, "dft"); (25, "fb"); (20, "plan"); (15, "fft") ]

let all_masks (d : int) : bool list list =
  List.map (fun n -> List.map (fun k -> (n lsr k) land 1 = 1) (upto 0 (d - 1))) (upto 0 ((1 lsl d) - 1))

(* one layout pair -> 2^D cases (all masks), each with a random sign and front end *)
let gen_pair (pair_id : string) (maxd : int) (bump : string -> unit) : case list =
  let d = weighted (List.filter (fun (_, d) -> d <= maxd) [ (12, 1); (30, 2); (36, 3); (22, 4) ]) in
  let rec sizes () =
    let s = List.map (fun _ -> pick_size ()) (upto 1 d) in
    if List.fold_left ( * ) 1 s > 450 then sizes () else s in
  let target = sizes () in
  let mode = weighted [ (62, Separate); (22, Same); (16, Shared) ] in
  let based = chance 50 in
  let rin = gen_recipe ~based d target 60 in
  let rout = gen_recipe ~based d target 60 in
  let rout = if mode = Shared then { rout with rb = rin.rb } else rout in     (* one root, one set of index bases *)
  let zero = Array.make d 0 in
  let inp, out =
    match mode with
    | Separate -> equalize d based (side_of d rin zero) (side_of d rout zero)
    | Same ->
        let s = side_of d rin zero in
        let s = if based && chance 40 then { s with ops = s.ops @ [ reindex_op (List.map (fun _ -> gen_base ()) (upto 1 d)) ] } else s in
        (s, s)
    | Shared ->
        let k0 = rnd d in
        let root = List.map (fun k -> if k = k0 then need rin k + need rout k else max (need rin k) (need rout k)) (upto 0 (d - 1)) in
        let shift = Array.init d (fun k -> if k = k0 then need rin k else 0) in
        equalize d based (side_of ~root d rin zero) (side_of ~root d rout shift) in
  bump (p "D%d" d);
  bump ("mode-" ^ mode_text mode);
  if List.exists (fun n -> n = 1) target then bump "has-extent-1";
  if List.exists (fun n -> n = 3 || n = 5 || n = 6) target then bump "has-non-power-of-two-extent";
  let padded r = Array.exists (fun x -> x > 0) r.lo || Array.exists (fun x -> x > 0) r.hi in
  if padded rin then bump "in-padded-subblock";
  if padded rout && mode <> Same then bump "out-padded-subblock";
  if Array.exists (fun x -> x > 1) rin.st || Array.exists (fun x -> x > 1) rout.st then bump "strided-view";
  if rin.perm_ops <> [] then bump "in-permuted";
  if rout.perm_ops <> [] && mode <> Same then bump "out-permuted";
  (match firsts_of_side inp with
   | Some f when List.exists (fun x -> x <> 0) f -> bump "pairs-with-nonzero-index-base"
   | _ -> ());
  if inp.rbase <> [] || out.rbase <> [] then bump "root-over-based-extensions";
  if List.exists (function OBlocked _ -> true | _ -> false) (inp.ops @ out.ops) then bump "blocked-subblock";
  if List.exists (function OReindexed _ | OReindexedL _ -> true | _ -> false) (inp.ops @ out.ops) then bump "reindexed-view";
  List.mapi (fun k which ->
      let sign = if chance 50 then -1 else 1 in
      let api = weighted (apis_for mode) in
      { id = p "%sm%d" pair_id k; d; inp; mode; out; which; sign; api }) (all_masks d)

(* layout pairs with one extent 0 (an empty slice of a padded root): all masks, all front ends.  fftw::dft
   returns before planning; an explicit plan object over an empty TRANSFORMED dimension is outside the
   precondition of that interface (NULL plan, asserted) and is not generated. *)
let gen_empty_pair (pair_id : string) (bump : string -> unit) : case list =
  let d = weighted [ (30, 1); (40, 2); (30, 3) ] in
  let k0 = rnd d in
  let target = List.map (fun k -> if k = k0 then 0 else weighted [ (30, 1); (40, 2); (30, 3) ]) (upto 0 (d - 1)) in
  let mk () =
    let r = gen_recipe d target 0 in
    let r = { r with lo = Array.make d 1; hi = Array.make d 1 } in
    side_of d r (Array.make d 0) in
  let inp = mk () and out = mk () in
  let mode = weighted [ (70, Separate); (30, Same) ] in
  let based = chance 40 in
  let inp, out = if mode = Same then (inp, inp) else equalize d based inp out in
  bump "empty-extent-pairs";
  List.mapi (fun k which ->
      let sign = if chance 50 then -1 else 1 in
      let api = weighted (apis_for mode) in    (* "plan" with the empty dimension transformed is rejected by in_domain *)
      { id = p "%sm%d" pair_id k; d; inp; mode; out = (if mode = Same then inp else out); which; sign; api })
    (all_masks d)

(* the lazy range form: D = 2 or 3; the output is a fresh array (row-major, the sizes of the input view);
   inputs: plain arrays, transposed/rotated arrays, padded sub-blocks, half of them with index bases *)
let gen_lazy_pair (pair_id : string) (bump : string -> unit) : case list =
  let d = weighted [ (60, 2); (40, 3) ] in
  let target = List.map (fun _ -> weighted [ (10, 1); (30, 2); (30, 3); (30, 4) ]) (upto 1 d) in
  let plain = chance 50 in
  let based = chance 50 in
  let r = gen_recipe ~based d target (if plain then 0 else 50) in
  let r = if plain then { r with perm_ops = [] } else r in
  let perm = induced_perm d (List.filter (function OReindexed _ -> false | _ -> true) r.perm_ops) in
  let m = Array.make d 1 in
  List.iteri (fun j pj -> m.(pj) <- List.nth target j) perm;
  let r = { r with m } in
  let inp = side_of d r (Array.make d 0) in
  let inp = if based && chance 50 then { inp with ops = inp.ops @ [ reindex_op (List.map (fun _ -> gen_base ()) (upto 1 d)) ] } else inp in
  let out = { root = target; rbase = []; ops = [] } in
  bump "lazy-range-pairs";
  (match firsts_of_side inp with
   | Some f when List.exists (fun x -> x <> 0) f -> bump "lazy-range-pairs-with-nonzero-index-base"
   | _ -> ());
  List.mapi (fun k which ->
      let sign = if chance 50 then -1 else 1 in
      { id = p "%sm%d" pair_id k; d; inp; mode = Separate; out; which; sign; api = "fftrange" })
    (all_masks d)

(* large transforms, so that size-dependent branches of the adaptor are reached: class "A" has more than 2^16
   elements, class "B" more than 2^20; shapes with few dimensions, contiguous or permuted roots, optional index
   bases; all masks; out of place and in place; every front end *)
let gen_large_pair (pair_id : string) (cls : string) (bump : string -> unit) : case list =
  let shape =
    if cls = "A" then
      weighted [ (25, [ 65537 + rnd 3000 ]); (25, [ 2 + rnd 3; 32769 + rnd 3000 ]); (25, [ 257 + rnd 40; 256 + rnd 40 ]);
                 (25, [ 2; 182 + rnd 20; 181 + rnd 20 ]) ]
    else
      weighted [ (25, [ 1048577 + rnd 5000 ]); (30, [ 2 + rnd 3; 524289 + rnd 1000 ]); (30, [ 1025 + rnd 8; 1024 + rnd 8 ]);
                 (15, [ 2; 2; 262145 + rnd 100 ]) ] in
  let d = List.length shape in
  let based = chance 50 in
  let mode = weighted [ (65, Separate); (35, Same) ] in
  let mk () =
    let r = gen_recipe ~based d shape 0 in
    let r = { r with blk = Array.make d false } in
    side_of d r (Array.make d 0) in
  let inp = mk () and out = mk () in
  let inp, out =
    if mode = Same then
      let s = if based then { inp with ops = inp.ops @ [ reindex_op (List.map (fun _ -> gen_base ()) (upto 1 d)) ] } else inp in (s, s)
    else equalize d based inp out in
  bump ("large-pairs-class-" ^ cls);
  List.mapi (fun k which ->
      let sign = if chance 50 then -1 else 1 in
      let api = weighted (apis_for mode) in
      { id = p "%sm%d" pair_id k; d; inp; mode; out; which; sign; api }) (all_masks d)

let exts_equal (a : view) (b : view) : bool =
  let ea = l_extensions a.lay and eb = l_extensions b.lay in
  List.length ea = List.length eb && List.for_all2 r_eq ea eb

(* a case is in the domain when both views exist, have equal extensions (equal sizes for the lazy form, whose
   output is a fresh array), and -- unless in place -- disjoint footprints *)
let in_domain (c : case) : bool =
  match views c with
  | None -> false
  | Some (vin, vout) ->
      il (l_sizes vin.lay) = il (l_sizes vout.lay)
      && (c.api = "fftrange" || exts_equal vin vout)
      && (c.api <> "plan"      (* explicit plan objects assert a non-NULL plan: FFTW's own domain is their precondition *)
          || List.for_all (function EvPlan g -> guru_kosher g | _ -> true) (events c vin vout))
      && (match c.mode with
          | Same -> true
          | Separate -> true
          | Shared ->
              let a = il (footprint_x vin) and b = il (footprint_x vout) in
              not (List.exists (fun x -> List.mem x b) a))

(* ---- reading cases back (replay, shrinking) ---- *)
let words s = List.filter (fun w -> w <> "") (String.split_on_char ' ' (String.trim s))

let parse_cases (text : string) : case list =
  let lines = String.split_on_char '\n' text in
  let cur = ref None and acc = ref [] in
  let empty id = { id; d = 0; inp = { root = []; rbase = []; ops = [] }; mode = Separate; out = { root = []; rbase = []; ops = [] };
                   which = []; sign = -1; api = "dft" } in
  List.iter (fun line ->
      match words line with
      | [] -> ()
      | w :: _ when String.length w > 0 && w.[0] = '#' -> ()
      | [ "case"; id ] -> cur := Some (empty id)
      | kw :: rest ->
          (match !cur with
           | None -> ()
           | Some c ->
               let ints () = List.map int_of_string rest in
               (match kw with
                | "dim" -> cur := Some { c with d = int_of_string (List.hd rest) }
                | "inroot" -> cur := Some { c with inp = { c.inp with root = ints () } }
                | "inbase" -> cur := Some { c with inp = { c.inp with rbase = ints () } }
                | "outbase" -> cur := Some { c with out = { c.out with rbase = ints () } }
                | "inop" -> cur := Some { c with inp = { c.inp with ops = c.inp.ops @ [ op_of_words rest ] } }
                | "out" ->
                    let m = (match rest with [ "same" ] -> Same | [ "shared" ] -> Shared | _ -> Separate) in
                    cur := Some { c with mode = m }
                | "outroot" -> cur := Some { c with out = { c.out with root = ints () } }
                | "outop" -> cur := Some { c with out = { c.out with ops = c.out.ops @ [ op_of_words rest ] } }
                | "which" -> cur := Some { c with which = List.map (fun x -> x <> "0") rest }
                | "sign" -> cur := Some { c with sign = int_of_string (List.hd rest) }
                | "api" -> cur := Some { c with api = List.hd rest }
                | "end" -> acc := c :: !acc; cur := None
                | _ -> ()))) lines;
  List.rev !acc

(* ---- thorough tier: the same cases as a Coq file, to be evaluated with vm_compute inside coqc; the expected
   values are what the EXTRACTED model computed (bounds the trust in extraction and in this driver) ---- *)
let cz n = if n < 0 then p "(%d)" n else string_of_int n
let clist f l = "[" ^ String.concat "; " (List.map f l) ^ "]"
let coq_op (o : op) : string =
  match o with
  | OSliced (a, b) -> p "OSliced %s %s" (cz (i a)) (cz (i b))
  | OStrided s -> p "OStrided %s" (cz (i s))
  | ORotated -> "ORotated" | OUnrotated -> "OUnrotated" | OTransposed -> "OTransposed" | OReversed -> "OReversed"
  | OReindexed a -> p "OReindexed %s" (cz (i a))
  | OReindexedL l -> p "OReindexedL %s" (clist cz (il l))
  | OBlocked (a, b) -> p "OBlocked %s %s" (cz (i a)) (cz (i b))
  | _ -> failwith "op"
let coq_iodim d = p "mkiodim %s %s %s" (cz (i d.io_n)) (cz (i d.io_is)) (cz (i d.io_os))
let coq_guru g =
  p "mkguru %s %s %s %s %s %s %s %s" (cz (i g.g_rank)) (clist coq_iodim g.g_dims) (cz (i g.g_hrank))
    (clist coq_iodim g.g_hdims) (cz (i g.g_in)) (cz (i g.g_out)) (cz (i g.g_sign)) (cz (i g.g_flags))

let coq_file (cases : case list) : string =
  let b = Buffer.create 65536 in
  let add s = Buffer.add_string b s; Buffer.add_char b '\n' in
  add "(* generated by driver_c15 coq: extracted-model results re-evaluated by vm_compute *)";
  add "From BM Require Import Base.Tactics Model.Layout Model.View Model.FftwPlan.";
  add "Local Open Scope Z_scope.";
  add "Definition c15_obs (inroot : list range) (inops : list op) (outroot : list range) (outops : list op) (same : bool)";
  add "  (which : list bool) (sign : Z) : option (guru_call * list Z * bool * list Z * list Z) :=";
  add "  match run_ops inops (root_view inroot) with";
  add "  | Some vin =>";
  add "      match (if same then Some vin else run_ops outops (root_view outroot)) with";
  add "      | Some vout =>";
  add "          let g := plan_ctor which (base vin) (lay vin) (base vout) (lay vout) sign in";
  add "          Some (g, plan_out_addresses g, guru_kosher g, firsts (lay vin), firsts (lay vout))";
  add "      | None => None end";
  add "  | None => None end.";
  List.iter (fun c ->
      match views c with
      | None -> ()
      | Some (vin, vout) ->
          let sign = (match c.api with "fb" | "fft" -> if c.sign < 0 then -1 else 1 | _ -> c.sign) in
          let g = plan_ctor c.which vin.base vin.lay vout.base vout.lay (z sign) in
          let outside = (match c.mode with Separate -> c.out | _ -> c.inp) in
          let cexts s = clist (fun (a, b) -> p "(%s, %s)" (cz (i a)) (cz (i b))) (root_exts s) in
          if List.fold_left ( * ) 1 (il (l_sizes vin.lay)) <= w_list_max then
          add (p "Example x_%s : c15_obs %s %s %s %s %s %s %s = Some (%s, %s, %s, %s, %s)." c.id
                 (cexts c.inp) (clist coq_op c.inp.ops) (cexts outside)
                 (clist coq_op (if c.mode = Same then [] else c.out.ops)) (if c.mode = Same then "true" else "false")
                 (clist (fun x -> if x then "true" else "false") c.which) (cz sign)
                 (coq_guru g) (clist cz (il (plan_out_addresses g))) (if guru_kosher g then "true" else "false")
                 (clist cz (il (firsts vin.lay))) (clist cz (il (firsts vout.lay))));
          if List.fold_left ( * ) 1 (il (l_sizes vin.lay)) <= w_list_max then
          add "Proof. vm_compute. reflexivity. Qed.") cases;
  Buffer.contents b

let () =
  if Array.length Sys.argv < 2 then (prerr_endline "usage: driver_c15 gen|run ..."; exit 2);
  let cmd = Sys.argv.(1) in
  let args = Array.to_list (Array.sub Sys.argv 2 (Array.length Sys.argv - 2)) in
  let rec get k d = function [] -> d | a :: b :: _ when a = k -> b | _ :: t -> get k d t in
  let geti k d = int_of_string (get k (string_of_int d) args) in
  let prog = Buffer.create 65536 and obs = Buffer.create 65536 in
  let write f b = let oc = open_out f in Buffer.output_buffer oc b; close_out oc in
  let hist : (string, int) Hashtbl.t = Hashtbl.create 32 in
  let bump k = Hashtbl.replace hist k (1 + try Hashtbl.find hist k with Not_found -> 0) in
  (match cmd with
   | "gen" ->
       seed (geti "--seed" 1);
       let pairs = geti "--pairs" 60 and maxd = geti "--maxd" 4 in
       let prefix = get "--prefix" "c" args in
       let empties = geti "--empty-pairs" 0 and lazies = geti "--lazy-pairs" 0 in
       let la = geti "--large-a" 0 and lb = geti "--large-b" 0 in
       for k = 1 to pairs + empties + lazies + la + lb do
         let cases = if k <= pairs then gen_pair (p "%s%d" prefix k) maxd bump
                     else if k <= pairs + empties then gen_empty_pair (p "%sz%d" prefix (k - pairs)) bump
                     else if k <= pairs + empties + lazies then gen_lazy_pair (p "%sl%d" prefix (k - pairs - empties)) bump
                     else if k <= pairs + empties + lazies + la then gen_large_pair (p "%sA%d" prefix (k - pairs - empties - lazies)) "A" bump
                     else gen_large_pair (p "%sB%d" prefix (k - pairs - empties - lazies - la)) "B" bump in
         List.iter (fun c ->
             if in_domain c then begin
               bump "cases";
               bump ("api-" ^ c.api);
               bump (if c.sign < 0 then "sign-forward" else "sign-backward");
               bump (p "mask-popcount-%d" (List.length (List.filter (fun x -> x) c.which)));
               (match views c with
                | Some (vin, _) ->
                    let n = List.fold_left ( * ) 1 (il (l_sizes vin.lay)) in
                    bump (if n <= 65536 then "elements<=2^16" else if n <= 1048576 then "elements-in-(2^16,2^20]" else "elements>2^20");
                    if List.exists (fun x -> x <> 0) (il (firsts vin.lay)) then bump "cases-with-nonzero-index-base"
                | None -> ());
               Buffer.add_string prog (case_text c);
               model_obs c obs
             end else bump "rejected-out-of-domain") cases
       done
   | "run" ->
       let ic = open_in (get "--prog" "prog.txt" args) in
       let n = in_channel_length ic in
       let text = really_input_string ic n in
       close_in ic;
       List.iter (fun c ->
           if in_domain c then model_obs c obs
           else Buffer.add_string obs (p "U %s not-in-domain\nE %s\n" c.id c.id)) (parse_cases text)
   | "coq" ->
       let ic = open_in (get "--prog" "prog.txt" args) in
       let n = in_channel_length ic in
       let text = really_input_string ic n in
       close_in ic;
       let oc = open_out (get "--out" "CrossCheckC15.v" args) in
       output_string oc (coq_file (parse_cases text));
       close_out oc
   | _ -> prerr_endline "usage: driver_c15 gen|run|coq ..."; exit 2);
  if cmd = "gen" then write (get "--prog" "prog.txt" args) prog;
  if cmd <> "coq" then write (get "--obs" "obs.txt" args) obs;
  let items = List.sort compare (Hashtbl.fold (fun k v acc -> (k, v) :: acc) hist []) in
  print_string "{";
  print_string (String.concat ", " (List.map (fun (k, v) -> Printf.sprintf "\"%s\": %d" k v) items));
  print_endline "}"

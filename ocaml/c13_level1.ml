(* C13 level-1 model runner: prints the BLAS call the Coq model (Modelc13.dot_n_model, axpy_call, copy_call, swap_call, scal_call, red_call: Model/BlasC13L1Ref.v) says the adaptor makes. *)
open Modelc13
open C13_zu

let show_where (addr : int) : string =
  let b = (addr + 500000) / 1000000 in
  let off = addr - b * 1000000 in
  let name = match b with 2 -> "X" | 3 -> "Y" | 4 -> "R" | 5 -> "S" | _ -> "?" in
  if b = 8 && off = 0 then "null" else if b = 9 then "?" else Printf.sprintf "%s+%d" name off

let run (obs : Buffer.t) (id : string) (routine : string) (et : string) (form : string) (al : int * int) (vecs : (char * vec) list) =
  let pr fmt = Printf.ksprintf (fun s -> Buffer.add_string obs s) fmt in
  let x = List.assoc 'X' vecs in
  let y = match List.assoc_opt 'Y' vecs with Some y -> y | None -> { vbase = z 9000000; inc = z 1; len = x.len; vconj = false } in
  let ok () = pr "O %s outcome=ok why=-\n" id in
  pr "S %s routine=%s site=0 wf=1 conform=1 crit=%d\n" id routine
    (if routine = "dot" && i x.len = 0 && not (x.vconj || y.vconj) && et <> "d" then 0 else 1);
  (match routine with
   | "dot" ->
       (match dot_n_model (match et with "s" -> ES | "d" -> ED | "c" -> EC | _ -> EZ) x y with
        | None -> pr "O %s outcome=ok why=-\n" id    (* both conjugated: the harness does not call (static_assert) *)
        | Some c ->
            (match c.d_routine with
             | DDot ->
                 pr "K %s 0 %sdot n=%d %s %d %s %d\n" id et (i c.d_n) (show_where (i c.d_p1)) (i c.d_inc1) (show_where (i c.d_p2)) (i c.d_inc2)
             | DViaGemv ->
                 let r = if form = "inplace" then "S+0" else "?" in
                 pr "K %s 0 %sgemv N 1 %d %s %d %s %d %s 1 a=1,0 b=0,0 info=%d\n" id et (i c.d_n) (show_where (i c.d_p1)) (i c.d_inc1)
                   (show_where (i c.d_p2)) (i c.d_inc2) r (if i c.d_inc1 < 1 then 6 else 0)
             | DDotc ->
                 pr "K %s 0 %sdotc n=%d %s %d %s %d\n" id et (i c.d_n) (show_where (i c.d_p1)) (i c.d_inc1) (show_where (i c.d_p2)) (i c.d_inc2));
            ok ())
   | "axpy" | "copy" | "swap" ->
       let y' = if routine = "copy" && form = "construct"
         then { vbase = z (if i x.len = 0 then 8000000 else 4000000); inc = z 1; len = x.len; vconj = false } else y in
       let c = (match routine with "axpy" -> axpy_call x y' | "copy" -> copy_call x y' | _ -> swap_call x y') in
       pr "K %s 0 %s%s n=%d %s %d %s %d%s\n" id et routine (i c.l_n) (show_where (i c.l_px)) (i c.l_incx) (show_where (i c.l_py)) (i c.l_incy)
         (if routine = "axpy" then (let (r, m) = if form = "opminus" then (- (fst al), - (snd al)) else al in Printf.sprintf " a=%d,%d" r m) else "");
       ok ()
   | "scal" ->
       let c = scal_call x in
       pr "K %s 0 %sscal n=%d %s %d a=%d,%d\n" id et (i c.l_n) (show_where (i c.l_px)) (i c.l_incx) (fst al) (snd al);
       ok ()
   | "nrm2" | "asum" ->
       let c = red_call x in
       let name = (match et with "s" -> "s" | "d" -> "d" | "c" -> "sc" | _ -> "dz") ^ routine in
       pr "K %s 0 %s n=%d %s %d\n" id name (i c.l_n) (show_where (i c.l_px)) (i c.l_incx);
       ok ()
   | "iamax" ->
       let c = red_call x in
       pr "K %s 0 i%samax n=%d %s %d\n" id et (i c.l_n) (show_where (i c.l_px)) (i c.l_incx);
       ok ()
   | _ -> pr "O %s outcome=model-error why=unsupported-%s\n" id routine)

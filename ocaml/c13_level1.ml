(* C13 level-1 model runner: prints the BLAS call the Coq model (Modelc13.dot_n_model, axpy_call, copy_call, swap_call, scal_call, red_call: Model/BlasC13L1Ref.v) says the adaptor makes. *)
open Modelc13
open C13_zu

let show_where (addr : int) : string =
  let b = (addr + 500000) / 1000000 in
  let off = addr - b * 1000000 in
  let name = match b with 2 -> "X" | 3 -> "Y" | 4 -> "R" | 5 -> "S" | _ -> "?" in
  if b = 8 && off = 0 then "null" else if b = 9 then "?" else Printf.sprintf "%s+%d" name off

(* the expression forms (harness/common/c13_level1.hpp) are compiled by the extracted Model/BlasC13Expr.v:
   aexpr / astmt_alpha / astmt_call for axpy, dexpr_call for dot, l1stmt_call for the scal / copy spellings *)
let axpy_expr (form : string) (al : C13_expr.g) (scales : C13_expr.g list) (x : vec) : (C13_expr.g aexpr * asign) option =
  let sg = if List.mem form [ "opminus"; "range_minus"; "rescaled_minus"; "plain_minus"; "binminus" ] then SgMinus else SgPlus in
  match form with
  | "opplus" | "opminus" -> Some (AxScaled (al, x), sg)
  | "range_plus" | "range_minus" -> Some (AxRange (al, x), sg)
  | "rescaled_plus" | "rescaled_minus" -> Some (List.fold_left (fun e f -> AxRescale (e, f)) (AxRange (al, x)) scales, sg)
  | "plain_plus" | "plain_minus" | "call1" | "binplus" | "binminus" -> Some (AxPlain x, sg)
  | _ -> None

let run (obs : Buffer.t) (id : string) (routine : string) (et : string) (form : string) (al : int * int) (tree : string list) (vecs : (char * vec) list) =
  let pr fmt = Printf.ksprintf (fun s -> Buffer.add_string obs s) fmt in
  let scales = C13_expr.parse_scales (C13_expr.tree_get tree "scales" "-") in
  let x = List.assoc 'X' vecs in
  let y = match List.assoc_opt 'Y' vecs with Some y -> y | None -> { vbase = z 9000000; inc = z 1; len = x.len; vconj = false } in
  let ok () = pr "O %s outcome=ok why=-\n" id in
  pr "S %s routine=%s site=0 wf=1 conform=1 crit=%d\n" id routine
    (if routine = "dot" && i x.len = 0 && not (x.vconj || y.vconj) && et <> "d" then 0 else 1);
  (match routine with
   | "dot" ->
       (* every form of dot (value, unary +, (x, y), f * dot, ==, element assignment) makes the one call of dot_ref::decay *)
       (match dexpr_call (et = "c" || et = "z") (match et with "s" -> ES | "d" -> ED | "c" -> EC | _ -> EZ)
                (DxDot ({ vo_decos = []; vo_view = x }, { vo_decos = []; vo_view = y })) with
        | None -> pr "O %s outcome=ok why=-\n" id    (* both conjugated: the harness does not call (static_assert) *)
        | Some c ->
            (match c.d_routine with
             | DDot ->
                 pr "K %s 0 %sdot n=%d %s %d %s %d\n" id et (i c.d_n) (show_where (i c.d_p1)) (i c.d_inc1) (show_where (i c.d_p2)) (i c.d_inc2)
             | DViaGemv ->
                 let r = if form = "inplace" then "S+0" else "?" in
                 pr "K %s 0 %sgemv N 1 %d %s %d %s %d %s 1 a=1,0 b=0,0 info=%d\n" id et (i c.d_n) (show_where (i c.d_p1)) (i c.d_inc1)
                   (show_where (i c.d_p2)) (i c.d_inc2) r (if i c.d_inc1 < 1 then 6 else 0)
             | DDotc ->
                 pr "K %s 0 %sdotc n=%d %s %d %s %d\n" id et (i c.d_n) (show_where (i c.d_p1)) (i c.d_inc1) (show_where (i c.d_p2)) (i c.d_inc2));
            ok ())
   | "axpy" when form <> "inplace" ->
       let fresh = { vbase = z (if i x.len = 0 then 8000000 else 4000000); inc = z 1; len = x.len; vconj = false } in
       (* x + y, x - y: a copy of x, then copy += / -= y *)
       let (src, dst) = if form = "binplus" || form = "binminus" then (y, fresh) else (x, y) in
       (match axpy_expr form (C13_expr.gz al) scales src with
        | Some (e, sg) ->
            let c = astmt_call dst e in
            let (ar, ai) = C13_expr.gi (astmt_alpha C13_expr.gone C13_expr.gmul C13_expr.gneg sg e) in
            pr "K %s 0 %saxpy n=%d %s %d %s %d a=%d,%d\n" id et (i c.l_n) (show_where (i c.l_px)) (i c.l_incx) (show_where (i c.l_py)) (i c.l_incy) ar ai;
            ok ()
        | None -> pr "O %s outcome=model-error why=unsupported-axpy-%s\n" id form)
   | "axpy" | "copy" | "swap" ->
       let y' = if routine = "copy" && form = "construct"
         then { vbase = z (if i x.len = 0 then 8000000 else 4000000); inc = z 1; len = x.len; vconj = false } else y in
       let c = (match routine with
                | "axpy" -> axpy_call x y'
                | "copy" -> (match form with "shift" -> l1stmt_call (L1CopyShift (y', x)) | "assign" -> l1stmt_call (L1CopyAssign (y', x)) | _ -> copy_call x y')
                | _ -> swap_call x y') in
       pr "K %s 0 %s%s n=%d %s %d %s %d%s\n" id et routine (i c.l_n) (show_where (i c.l_px)) (i c.l_incx) (show_where (i c.l_py)) (i c.l_incy)
         (if routine = "axpy" then Printf.sprintf " a=%d,%d" (fst al) (snd al) else "");
       ok ()
   | "scal" ->
       let c = (match form with
                | "range" -> l1stmt_call (L1ScalRange (al, x)) | "iter" -> l1stmt_call (L1ScalIt (al, x))
                | "opmul" -> l1stmt_call (L1ScalOp (x, al)) | _ -> scal_call x) in
       pr "K %s 0 %sscal n=%d %s %d a=%d,%d\n" id et (i c.l_n) (show_where (i c.l_px)) (i c.l_incx) (fst al) (snd al);
       ok ()
   | "nrm2" | "asum" ->
       let c = red_call x in
       let name = (match et with "s" -> "s" | "d" -> "d" | "c" -> "sc" | _ -> "dz") ^ routine in
       pr "K %s 0 %s n=%d %s %d\n" id name (i c.l_n) (show_where (i c.l_px)) (i c.l_incx);
       ok ()
   | "iamax" ->
       let c = red_call x in
       pr "K %s 0 i%samax n=%d %s %d\n" id et (i c.l_n) (show_where (i c.l_px)) (i c.l_incx);
       ok ()
   | _ -> pr "O %s outcome=model-error why=unsupported-%s\n" id routine)

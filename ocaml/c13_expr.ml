(* C13 expression layer, model runner: builds the Coq expression (Modelc13.gexpr / vexpr over the Gaussian integers) from
   the T / D / V lines of the harness, compiles it with the EXTRACTED gcompile / vcompile (Model/BlasC13Expr.v) and prints
   what must happen: W lines (the decorated operand views: decos_mat), the K line with the scalars of the expression layer,
   the O line.  Hand-written and trusted (DESIGN 6.5). *)
open Modelc13
open C13_zu

(* ---- the carrier of the check: the Gaussian integers of the model (Modelc13.gI_mul, gI_neg: pairs of extracted Z) ---- *)
type g = z * z
let gz ((a, b) : int * int) : g = (z a, z b)
let gi ((a, b) : g) : int * int = (i a, i b)
let gzero : g = gz (0, 0)
let gone : g = gz (1, 0)
let gmul : g -> g -> g = gI_mul
let gneg : g -> g = gI_neg

(* ---- the tree line: key=value words ---- *)
let tree_get (tree : string list) (key : string) (dflt : string) : string =
  let pfx = key ^ "=" in
  let n = String.length pfx in
  match List.find_opt (fun w -> String.length w >= n && String.sub w 0 n = pfx) tree with
  | Some w -> String.sub w n (String.length w - n)
  | None -> dflt

let parse_scales (s : string) : g list =
  if s = "" || s = "-" then []
  else List.map (fun item -> match String.split_on_char ',' item with
                             | [ a; b ] -> gz (int_of_string a, int_of_string b)
                             | _ -> gzero) (String.split_on_char ';' s)

let parse_decos (s : string) : deco list =
  if s = "-" then []
  else List.init (String.length s) (fun k -> match s.[k] with
                                            | 'N' -> DcN | 'T' | 't' -> DcT | 'J' | 'j' -> DcJ | 'H' -> DcH
                                            | _ -> DcN)

let parse_x (s : string) : int * int =
  match String.split_on_char 'x' s with [ a; b ] -> (int_of_string a, int_of_string b) | _ -> (0, 0)

let show_where (names : int -> string) (addr : int) : string =
  let b = (addr + 500000) / 1000000 in
  let off = addr - b * 1000000 in
  if b = 8 && off = 0 then "null" else if b = 9 then "?" else Printf.sprintf "%s+%d" (names b) off
let mat_names = function 1 -> "A" | 2 -> "B" | 3 -> "C" | 4 -> "R" | _ -> "?"
let vec_names = function 1 -> "M" | 2 -> "X" | 3 -> "Y" | 4 -> "R" | _ -> "?"
let trans_char = function TN -> 'N' | TT -> 'T' | TC -> 'C'

let pr_w obs id names nm (m : mat) =
  Buffer.add_string obs (Printf.sprintf "W %s %c %s %d %d %d %d %d\n" id nm (show_where names (i m.mbase)) (i m.s0) (i m.s1) (i m.rows) (i m.cols)
                           (if m.mconj then 1 else 0))

let consume_of = function "pluseq" | "arr_pluseq" -> CsPlusAssign | _ -> CsAssign
let why_of w = match i w with 1 -> "notimpl" | 2 -> "ld" | 3 -> "alias" | _ -> "ldc"

(* where a block allocated by the statement starts: R+0, or the null pointer when it has no elements *)
let fresh_base (n : int) : z = z (if n = 0 then 8000000 else 4000000)

(* ------------------------------------------------------------------------------------------ *)
let run_gemm (obs : Buffer.t) (id : string) (et : string) (debug : bool) (al : int * int) (tree : string list) (mats : (char * mat) list) =
  let pr fmt = Printf.ksprintf (fun s -> Buffer.add_string obs s) fmt in
  let al = gz al in
  let cplx = (et = "c" || et = "z") in
  let base = tree_get tree "base" "gemm" and cons = tree_get tree "consume" "assign" in
  let scales = parse_scales (tree_get tree "scales" "-") in
  let opnd key nm = { op_decos = parse_decos (tree_get tree key "-"); op_view = List.assoc nm mats } in
  match (List.assoc_opt 'A' mats, List.assoc_opt 'B' mats) with
  | Some _, Some _ ->
      let a = opnd "dA" 'A' and b = opnd "dB" 'B' in
      let e0 = if base = "star" then GxStar (a, b) else GxGemm (al, a, b) in
      (* the harness multiplies real doubles onto a * b (the scalar type of that range is double) *)
      let e = List.fold_left (fun e f -> GxScale ((if base = "star" then (fst f, z 0) else f), e)) e0 scales in
      let r = geval gone gmul cplx e in
      let m = i r.gr_a.rows and n = i r.gr_b.cols in
      let target = match cons with
        | "assign" | "assign_rv" | "pluseq" -> GtView (opnd "dC" 'C')
        | "construct" | "plus" -> GtFresh (fresh_base (m * n))
        | _ -> let (r0, c0) = parse_x (tree_get tree "arr" "0x0") in
               GtArray (z (if r0 * c0 = 0 then 8000000 else 3000000), z r0, z c0, fresh_base (m * n)) in
      let st = { gs_target = target; gs_consume = consume_of cons; gs_expr = e } in
      pr_w obs id mat_names 'A' r.gr_a; pr_w obs id mat_names 'B' r.gr_b;
      (match target with GtView c -> pr_w obs id mat_names 'C' (resolve cplx c) | _ -> ());
      let plan = gcompile gzero gone gmul cplx debug st in
      pr "C %s %s\n" id (String.concat " " (List.map (fun x -> string_of_int (i x)) (gplan_code plan)));
      (match plan with
       | GpNothing ->
           pr "S %s routine=gemm site=0 wf=1 conform=1 crit=1\n" id;
           pr "O %s outcome=ok why=-\n" id
       | GpCall (alpha, beta, a', b', c', fin) ->
           let site = (match gemm_n a' b' c' with OCall k -> i k.g_site | ONoCall -> 0 | OAssert0 -> -1 | OThrow -> -2) in
           let crit = (match gemm_n a' b' c' with
                       | OCall k -> gemm_implements_b k a' b' c'
                       | ONoCall -> true            (* no rows: nothing to compute *)
                       | _ -> false) in
           pr "S %s routine=gemm site=%d wf=%d conform=%d crit=%d\n" id site
             (if wf_matb a' && wf_matb b' && wf_matb c' then 1 else 0) (if shapes_conformb a' b' c' then 1 else 0) (if crit then 1 else 0);
           (match fin with
            | FNoCall -> pr "O %s outcome=ok why=-\n" id
            | FAbort -> pr "O %s outcome=abort why=assert\n" id
            | FThrow w -> pr "O %s outcome=throw why=%s\n" id (why_of w)
            | FBlas (_, k) ->
                pr "K %s 0 %sgemm %c %c %d %d %d %s %d %s %d %s %d a=%d,%d b=%d,%d info=%d\n" id et (trans_char k.g_ta) (trans_char k.g_tb)
                  (i k.g_m) (i k.g_n) (i k.g_k) (show_where mat_names (i k.g_pa)) (i k.g_lda) (show_where mat_names (i k.g_pb)) (i k.g_ldb)
                  (show_where mat_names (i k.g_pc)) (i k.g_ldc) (i (fst alpha)) (i (snd alpha)) (i (fst beta)) (i (snd beta)) (i (gemm_info k));
                pr "O %s outcome=ok why=-\n" id))
  | _ -> pr "O %s outcome=model-error why=missing-operand\n" id

(* ------------------------------------------------------------------------------------------ *)
let run_gemv (obs : Buffer.t) (id : string) (et : string) (debug : bool) (al : int * int) (tree : string list) (mats : (char * mat) list) (vecs : (char * vec) list) =
  let pr fmt = Printf.ksprintf (fun s -> Buffer.add_string obs s) fmt in
  let al = gz al in
  let cplx = (et = "c" || et = "z") in
  let base = tree_get tree "base" "gemv" and cons = tree_get tree "consume" "assign" in
  match (List.assoc_opt 'M' mats, List.assoc_opt 'X' vecs) with
  | Some mv, Some x ->
      let m = { op_decos = parse_decos (tree_get tree "dM" "-"); op_view = mv } in
      let e = (match base with "pct_scaled" -> VxScaledPct (al, m, x) | "pct" -> VxPct (m, x) | _ -> VxGemv (al, m, x)) in
      let r = veval gone cplx e in
      let rows = i r.vr_m.rows in
      let target = match cons with
        | "assign" | "assign_rv" | "pluseq" -> VtView (List.assoc 'Y' vecs)
        | "construct" | "plus" -> VtFresh (fresh_base rows)
        | _ -> let n0 = int_of_string (tree_get tree "arr" "0") in
               VtArray (z (if n0 = 0 then 8000000 else 3000000), z n0, fresh_base rows) in
      let st = { vs_target = target; vs_consume = consume_of cons; vs_expr = e } in
      pr_w obs id vec_names 'M' r.vr_m;
      let plan = vcompile gzero gone cplx debug st in
      pr "C %s %s\n" id (String.concat " " (List.map (fun x -> string_of_int (i x)) (vplan_code plan)));
      (match plan with
       | VpCall (alpha, beta, m', x', y', fin) ->
           let site = (match gemv_n m' x' y' with VCall k -> i k.v_site | VAssert0 -> -1 | VThrow -> -2) in
           let crit = (match gemv_n m' x' y' with VCall k -> gemv_implements_b k m' x' y' | _ -> false) in
           pr "S %s routine=gemv site=%d wf=%d conform=%d crit=%d\n" id site (if wf_matb m' then 1 else 0)
             (if i m'.cols = i x'.len && i m'.rows = i y'.len then 1 else 0) (if crit then 1 else 0);
           (match fin with
            | GNoCall -> pr "O %s outcome=ok why=-\n" id
            | GAbort -> pr "O %s outcome=abort why=assert\n" id
            | GBlas k ->
                pr "K %s 0 %sgemv %c %d %d %s %d %s %d %s %d a=%d,%d b=%d,%d info=%d\n" id et (trans_char k.v_ta) (i k.v_m) (i k.v_n)
                  (show_where vec_names (i k.v_pa)) (i k.v_lda) (show_where vec_names (i k.v_px)) (i k.v_incx) (show_where vec_names (i k.v_py)) (i k.v_incy)
                  (i (fst alpha)) (i (snd alpha)) (i (fst beta)) (i (snd beta)) (i (gemv_info k));
                pr "O %s outcome=ok why=-\n" id))
  | _ -> pr "O %s outcome=model-error why=missing-operand\n" id

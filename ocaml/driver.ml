(* Entry point: one sub-command per harness family.  Everything random derives from --seed. *)
let usage () = prerr_endline "usage: driver <views|...> --seed S --count N --prog FILE --obs FILE [opts]"; exit 2

let () =
  if Array.length Sys.argv < 2 then usage ();
  let cmd = Sys.argv.(1) in
  let args = Array.to_list (Array.sub Sys.argv 2 (Array.length Sys.argv - 2)) in
  let rec get k d = function [] -> d | a :: b :: _ when a = k -> b | _ :: t -> get k d t in
  let has k = List.mem k args in
  let geti k d = int_of_string (get k (string_of_int d) args) in
  let seed = geti "--seed" 1 and count = geti "--count" 100 in
  Zu.seed seed;
  let prog = Buffer.create 65536 and obs = Buffer.create 65536 in
  let write f b = let oc = open_out f in Buffer.output_buffer oc b; close_out oc in
  let hist : (string, int) Hashtbl.t = Hashtbl.create 32 in
  let bump k = Hashtbl.replace hist k (1 + try Hashtbl.find hist k with Not_found -> 0) in
  (match cmd with
   | "views" ->
       let c = { Views.maxrank = geti "--maxrank" 4; maxops = geti "--maxops" 6; rebased = has "--rebased"; maxd = 6 } in
       let twin = Buffer.create 65536 in
       for k = 1 to count do
         let kinds = Views.gen_case ~twin c (Printf.sprintf "%s%d" (get "--prefix" "v" args) k) prog obs in
         bump (Printf.sprintf "len%d" (List.length kinds));
         List.iter bump kinds
       done;
       (match get "--twin" "" args with "" -> () | f -> let oc = open_out f in Buffer.output_buffer oc twin; close_out oc)
   | "views-exhaustive" ->
       let n = Views.exhaustive (geti "--maxrank" 2) (geti "--maxext" 3) (geti "--maxlen" 2) prog obs in
       bump (Printf.sprintf "programs%d" n)
   | "iters" ->
       let c = { Views.maxrank = geti "--maxrank" 4; maxops = geti "--maxops" 4; rebased = has "--rebased"; maxd = 6 } in
       let maxsteps = geti "--maxsteps" 12 in
       for k = 1 to count do
         let tail id v prog obs =
           let pr b s = Buffer.add_string b s; Buffer.add_char b '\n' in
           let kinds = ref [] in
           let one kind size run =
             let steps, ks = Iters.gen_walk size (Zu.rnd_range 1 maxsteps) in
             pr prog ("it " ^ kind);
             List.iter (fun s -> pr prog (Iters.step_text s)) steps;
             run id v steps obs;
             kinds := ("walk_" ^ kind) :: ks @ !kinds in
           one "a" (Zu.i (Model.v_size v)) Iters.run_walk_a;
           (* flat iteration over a view with a non-empty leading dimension and a zero inner extent is a separate
              finding (division by zero, DESIGN 7 item 20): generated only with --zero-inner *)
           let nel = Zu.i (Model.er_size v) and lead = Zu.i (Model.v_size v) in
           if nel > 0 || lead = 0 || has "--zero-inner" then one "e" nel Iters.run_walk_e;
           !kinds in
         let kinds = Views.gen_case ~with_probes:false ~tail c (Printf.sprintf "%s%d" (get "--prefix" "i" args) k) prog obs in
         bump (Printf.sprintf "ops%d" (List.length (List.filter (fun s -> String.length s < 2 || String.sub s 0 2 <> "w_") kinds)));
         List.iter bump kinds
       done
   | "assign" ->
       let c = { Views.maxrank = geti "--maxrank" 3; maxops = geti "--maxops" 4; rebased = has "--rebased"; maxd = 4 } in
       for k = 1 to count do
         let id = Printf.sprintf "%s%d" (get "--prefix" "a" args) k in
         let rec go tries =
           let cs, kinds = Assign.gen_case c in
           let o = Buffer.create 1024 in
           if Assign.run_case id cs o || tries = 0 then begin
             Buffer.add_string prog (Assign.case_text id cs); Buffer.add_buffer obs o; Buffer.add_string obs ("E " ^ id ^ "\n");
             List.iter bump kinds end
           else go (tries - 1) in
         go 5
       done
   | "assign-run" ->
       let ic = open_in (get "--prog" "prog.txt" args) in
       let n = in_channel_length ic in
       let text = really_input_string ic n in
       close_in ic;
       List.iter (fun (id, cs) -> ignore (Assign.run_case id cs obs); Buffer.add_string obs ("E " ^ id ^ "\n")) (Assign.parse_cases text);
       Buffer.add_string prog text
   | "compare" ->
       Compare.has_ge := has "--has-ge";
       Compare.rank0 := has "--rank0";
       Compare.alias := has "--alias";
       Compare.rebased := has "--rebased";
       for k = 1 to count do
         let id = Printf.sprintf "%s%d" (get "--prefix" "c" args) k in
         let cs, kinds = Compare.gen_case () in
         let o = Buffer.create 1024 in
         if Compare.run_case id cs o then begin
           Buffer.add_string prog (Compare.case_text id cs); Buffer.add_buffer obs o; Buffer.add_string obs ("E " ^ id ^ "\n");
           List.iter bump kinds end
       done
   | "compare-run" ->
       Compare.has_ge := (Sys.getenv_opt "C07_HAS_GE" = Some "1");
       let ic = open_in (get "--prog" "prog.txt" args) in
       let n = in_channel_length ic in
       let text = really_input_string ic n in
       close_in ic;
       List.iter (fun (id, cs) -> ignore (Compare.run_case id cs obs); Buffer.add_string obs ("E " ^ id ^ "\n")) (Compare.parse_cases text);
       Buffer.add_string prog text
   | "iters-run" ->
       let ic = open_in (get "--prog" "prog.txt" args) in
       let n = in_channel_length ic in
       let text = really_input_string ic n in
       close_in ic;
       let extra id v lines obs =
         (* lines: ["it"; k] starts a walk, ["w"; ...] are its steps *)
         let flush kind steps =
           match kind with
           | Some "a" -> Iters.run_walk_a id v (List.rev steps) obs
           | Some "e" -> Iters.run_walk_e id v (List.rev steps) obs
           | _ -> () in
         let kind = ref None and steps = ref [] in
         List.iter
           (function
             | [ "it"; k ] -> flush !kind !steps; kind := Some k; steps := []
             | "w" :: toks -> steps := Iters.parse_step toks :: !steps
             | _ -> ())
           lines;
         flush !kind !steps in
       Views.run_text ~extra text obs;
       Buffer.add_string prog text
   | "views-run" ->
       let ic = open_in (get "--prog" "prog.txt" args) in
       let n = in_channel_length ic in
       let text = really_input_string ic n in
       close_in ic;
       Views.run_text text obs;
       Buffer.add_string prog text
   | _ -> usage ());
  if cmd <> "views-run" && cmd <> "iters-run" && cmd <> "assign-run" && cmd <> "compare-run" then write (get "--prog" "prog.txt" args) prog;
  write (get "--obs" "obs.txt" args) obs;
  (* distribution of what was generated, for the evidence file *)
  let items = Hashtbl.fold (fun k v acc -> (k, v) :: acc) hist [] in
  let items = List.sort compare items in
  print_string "{";
  print_string (String.concat ", " (List.map (fun (k, v) -> Printf.sprintf "\"%s\": %d" k v) items));
  print_endline "}"

(* Iterator walks (C02): generator + model runner.  A walk is appended to a view program: three
   registers, all begin(); each step modifies one register, staying inside [begin, end]. *)
open Model
open Zu

type step = { r : int; op : string; arg : int; k : int option }

let b01 b = if b then "1" else "0"

(* ---- model execution of one walk; prints the same lines as h_iters ---- *)
let run_walk_a (id : string) (v : view) (steps : step list) (obs : Buffer.t) : unit =
  let pr s = Buffer.add_string obs s; Buffer.add_char obs '\n' in
  let size = i (v_size v) in
  let b = it_begin v and e = it_end v in
  pr (Printf.sprintf "F %s k=a size=%d dist=%d" id size (i (it_diff e b)));
  let regs = [| b; b; b |] in
  (try List.iteri
    (fun n s ->
      let it = regs.(s.r) in
      let it' =
        match s.op with
        | "inc" | "pinc" -> it_inc it | "dec" | "pdec" -> it_dec it
        | "add" | "plus" -> it_add it (z s.arg) | "sub" | "minus" -> it_sub it (z s.arg)
        | "set" | "cpy" | "fset" -> regs.(s.arg)
        | "end" -> e | "begin" -> b
        | _ -> failwith "bad walk op" in
      regs.(s.r) <- it';
      let pos = i (it_diff it' b) in
      if pos < 0 || pos > size || (match s.k with Some k -> pos + k < 0 || pos + k >= size | None -> false) then begin
        pr (Printf.sprintf "X %s %d walk leaves [begin,end]" id (n + 1)); raise Exit end;
      let cmp =
        String.concat ","
          (List.map
             (fun o ->
               Printf.sprintf "%s%s%s%s%s%s:%d" (b01 (it_eq it' o)) (b01 (it_lt it' o)) (b01 (it_le it' o)) (b01 (it_gt it' o))
                 (b01 (it_ge it' o)) (b01 (it_ne it' o)) (i (it_diff it' o)))
             (Array.to_list regs)) in
      let d = if pos >= 0 && pos < size then string_of_int (i (it_deref it').base) else "-" in
      let x = match s.k with Some k -> string_of_int (i (it_index it' (z k)).base) | None -> "-" in
      pr (Printf.sprintf "I %s %d k=a r=%d pos=%d cmp=%s ce=1 d=%s x=%s" id (n + 1) s.r pos cmp d x))
    steps with Exit -> ());
  let (f, _) = v_extension v in
  pr (Printf.sprintf "M %s k=a%s" id
        (String.concat "" (List.init size (fun p -> Printf.sprintf " %d" (i (v_index (z (i f + p)) v).base)))))

let run_walk_e (id : string) (v : view) (steps : step list) (obs : Buffer.t) : unit =
  let pr s = Buffer.add_string obs s; Buffer.add_char obs '\n' in
  let size = i (er_size v) in
  let b = er_begin v and e = er_end v in
  pr (Printf.sprintf "F %s k=e size=%d dist=%d%s" id size (i (e_diff e b))
        (if size > 0 then Printf.sprintf " front=%d back=%d" (i (er_front v)) (i (er_back v)) else ""));
  let regs = [| b; b; b |] in
  (try List.iteri
    (fun n s ->
      let it = regs.(s.r) in
      let it' =
        match s.op with
        | "inc" | "pinc" -> e_inc it | "dec" | "pdec" -> e_dec it
        | "add" | "plus" -> e_add it (z s.arg) | "sub" | "minus" -> e_sub it (z s.arg)
        | "set" | "fset" -> e_assign it regs.(s.arg) | "cpy" -> regs.(s.arg)
        | "end" -> e_assign it e | "begin" -> e_assign it b
        | _ -> failwith "bad walk op" in
      regs.(s.r) <- it';
      let pos = i (e_diff it' b) in
      if pos < 0 || pos > size || (match s.k with Some k -> pos + k < 0 || pos + k >= size | None -> false) then begin
        pr (Printf.sprintf "X %s %d walk leaves [begin,end]" id (n + 1)); raise Exit end;
      let cmp =
        String.concat ","
          (List.map
             (fun o ->
               let eq = e_eq it' o and lt = e_lt it' o and gt = e_lt o it' in
               Printf.sprintf "%s%s%s%s%s%s:%d" (b01 eq) (b01 lt) (b01 (lt || eq)) (b01 gt) (b01 (gt || eq)) (b01 (not eq)) (i (e_diff it' o)))
             (Array.to_list regs)) in
      let d = if pos >= 0 && pos < size then string_of_int (i (e_deref it')) else "-" in
      let x = match s.k with Some k -> string_of_int (i (e_index it' (z k))) | None -> "-" in
      pr (Printf.sprintf "I %s %d k=e r=%d pos=%d cmp=%s ce=1 d=%s x=%s" id (n + 1) s.r pos cmp d x))
    steps with Exit -> ());
  pr (Printf.sprintf "M %s k=e%s" id
        (String.concat "" (List.init (min size 64) (fun p -> Printf.sprintf " %d" (i (er_at v (z p)))))))

let step_text (s : step) : string =
  let a = match s.op with "add" | "sub" | "set" | "fset" | "cpy" | "plus" | "minus" -> Printf.sprintf " %d" s.arg | _ -> "" in
  Printf.sprintf "w %d %s%s %s" s.r s.op a (match s.k with Some k -> string_of_int k | None -> "-")

(* ---- generator: positions are tracked here; every move stays inside [0, size] ---- *)
let gen_walk (size : int) (nsteps : int) : step list * string list =
  let pos = [| 0; 0; 0 |] in
  let kinds = ref [] in
  let steps =
    List.init nsteps (fun _ ->
        let r = rnd 3 in
        let p = pos.(r) in
        let rec choose tries =
          let op =
            weighted [ (4, "inc"); (3, "dec"); (2, "pinc"); (2, "pdec"); (5, "add"); (5, "sub"); (2, "plus"); (2, "minus"); (3, "set"); (2, "fset"); (1, "cpy"); (2, "end"); (1, "begin") ] in
          let ok, arg, p' =
            match op with
            | "inc" | "pinc" -> (p + 1 <= size, 0, p + 1)
            | "dec" | "pdec" -> (p - 1 >= 0, 0, p - 1)
            | "add" | "plus" -> let t = rnd_range 0 size in (true, t - p, t)       (* may be negative or zero *)
            | "sub" | "minus" -> let t = rnd_range 0 size in (true, p - t, t)
            | "set" | "cpy" | "fset" -> let s = rnd 3 in (true, s, pos.(s))
            | "end" -> (true, 0, size)
            | _ -> (true, 0, 0) in
          if ok || tries = 0 then (if ok then (op, arg, p') else ("begin", 0, 0)) else choose (tries - 1) in
        let op, arg, p' = choose 10 in
        pos.(r) <- p';
        kinds := ("w_" ^ op) :: !kinds;
        let k = if size > 0 && chance 60 then Some (rnd_range 0 (size - 1) - p') else None in
        { r; op; arg; k }) in
  (steps, List.rev !kinds)

let parse_step (toks : string list) : step =
  match toks with
  | r :: op :: rest ->
      let has_arg = List.mem op [ "add"; "sub"; "set"; "fset"; "cpy"; "plus"; "minus" ] in
      let arg, rest = if has_arg then (int_of_string (List.hd rest), List.tl rest) else (0, rest) in
      let k = match rest with [ "-" ] | [] -> None | x :: _ -> Some (int_of_string x) in
      { r = int_of_string r; op; arg; k }
  | _ -> failwith "bad w line"

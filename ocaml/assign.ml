(* C05: generator + model runner for assignment through views. *)
open Model
open Zu

let guard = 6

type case = {
  dexts : (int * int) list; dops : op list;
  sexts : (int * int) list; sops : op list;
  what : string; args : int list;
}

(* further overloads, all of them element-wise copies: view = rvalue view, and the array_ref overloads
   (same type & / &&, converting from a pointer-to-const reference & / &&, from an rvalue reference, from an owning array) *)
let aref_kinds = [ "aref_lv"; "aref_rv"; "aref_conv_lv"; "aref_conv_rv"; "aref_from_rv"; "aref_from_array" ]
let copy_kinds2 = [ "assign_from_rv"; "assign_rv_rv" ] @ aref_kinds
(* moved sub-views of an rvalue OWNING array (array.hpp:210-216): std::move(S)(), std::move(S).taked(n), std::move(S).dropped(n)
   are element_moved views; assigning from them moves exactly the designated elements *)
let marr_kinds = [ "marr_call"; "marr_taked"; "marr_dropped" ]
let marr_source (what : string) (args : int list) (s : view) : view option =
  match what, args with
  | "marr_call", _ -> Some s
  | "marr_taked", [ n ] -> run_ops [ OTaked (z n) ] s
  | "marr_dropped", [ n ] -> run_ops [ ODropped (z n) ] s
  | _ -> None

let run_ops_exn (ops : op list) (v : view) : view option = run_ops ops v

let shift_base (v : view) (g : int) : view = { lay = v.lay; base = z (i v.base + g) }

let nel_of exts = List.fold_left (fun s (f, l) -> s * max (l - f) 0) 1 exts
(* the constructed array collapses when an inner extent is 0; allocate by the plain product *)

let cell_text (c : cell) = Printf.sprintf "%d%s" (i c.c_val) (if c.c_moved then "!" else "")

(* model execution; returns None when the case leaves the documented domain *)
let run_case (id : string) (c : case) (obs : Buffer.t) : bool =
  let pr s = Buffer.add_string obs s; Buffer.add_char obs '\n' in
  let na = nel_of c.dexts and nb = nel_of c.sexts in
  let zr l = List.map (fun (f, l) -> (z f, z l)) l in
  match run_ops c.dops (root_view (zr c.dexts)), (if c.sexts = [] then Some (root_view []) else run_ops c.sops (root_view (zr c.sexts))) with
  | Some d0, Some s0 ->
      let d = shift_base d0 guard and s = shift_base s0 (2 * guard + na) in
      let need_src = List.mem c.what ([ "assign"; "assign_const"; "assign_elems"; "assign_rv"; "assign_elems_named"; "swap"; "move" ] @ copy_kinds2) in
      let dn = i (er_size d) in
      let is_marr = List.mem c.what marr_kinds in
      let s_moved = if is_marr then marr_source c.what c.args s else Some s in
      let ok =
        if is_marr then (match s_moved with Some s' -> x_sizes_eq d s' && List.length d.lay = List.length s'.lay && List.length d.lay >= 1 | None -> false)
        else if need_src then x_sizes_eq d s && List.length d.lay = List.length s.lay
        else if c.what = "vals" then List.length c.args = dn && List.length d.lay <= 2
                                     && List.for_all (fun f -> i f = 0) (firsts_of d)   (* rows of values are zero-based *)
        else true in
      if not ok then (pr (Printf.sprintf "X %s 0 extents differ" id); false)
      else begin
        pr (Printf.sprintf "V %s dsizes=%s dnel=%d%s" id (ints (il (l_sizes d.lay))) (i (l_num_elements d.lay))
              (if c.sexts = [] then "" else " ssizes=" ^ ints (il (l_sizes s.lay))));
        let m0 : mem = fun p -> { c_val = z (1000 + i p); c_moved = false } in
        let m' =
          match c.what with
          | "assign" | "assign_const" | "assign_elems" | "assign_rv" | "assign_elems_named" -> assign_view (fun x -> x) d s m0
          | w when List.mem w copy_kinds2 -> assign_view (fun x -> x) d s m0
          | "move" -> move_view d s m0
          | w when List.mem w marr_kinds -> (match s_moved with Some s' -> move_view d s' m0 | None -> m0)
          | "swap" -> swap_views d s m0
          | "fill" -> fill_view (z (List.hd c.args)) d m0
          | "vals" -> assign_vals (zl c.args) d m0
          | _ -> failwith "bad do" in
        let total = 3 * guard + na + nb in
        pr (Printf.sprintf "B %s %s" id (String.concat " " (List.init total (fun p -> cell_text (m' (z p))))));
        true
      end
  | _ -> pr (Printf.sprintf "X %s 0 view op out of domain" id); false

let case_text (id : string) (c : case) : string =
  let b = Buffer.create 256 in
  let pr s = Buffer.add_string b s; Buffer.add_char b '\n' in
  let ex l = join " " (fun (f, l) -> Printf.sprintf "%d %d" f l) l in
  pr ("case " ^ id);
  pr (Printf.sprintf "buf %d %d %d" guard (nel_of c.dexts) (nel_of c.sexts));
  pr (Printf.sprintf "droot %d %s" (List.length c.dexts) (ex c.dexts));
  List.iter (fun o -> pr ("dop " ^ Views.op_text o)) c.dops;
  if c.sexts <> [] then begin
    pr (Printf.sprintf "sroot %d %s" (List.length c.sexts) (ex c.sexts));
    List.iter (fun o -> pr ("sop " ^ Views.op_text o)) c.sops
  end;
  pr (Printf.sprintf "do %s%s" c.what (String.concat "" (List.map (fun a -> " " ^ string_of_int a) c.args)));
  pr "end";
  Buffer.contents b

(* a view program reaching sizes `want` from a padded / rotated / strided root: the source side *)
let gen_src ?(firsts = []) ?(force_compact = false) (want : int list) : (int * int) list * op list =
  let d = List.length want in
  (* compact: the root is exactly the (rotated) logical array -- gap-free storage in a permuted order, the case a
     "contiguous block" fast path must not mistake for canonical order *)
  let compact = force_compact || chance 15 in
  let per = List.map (fun n ->
      let stride = if n > 0 && not compact && chance 30 then 2 else 1 in
      let pad_lo = if compact then 0 else rnd_range 0 2 and pad_hi = if compact then 0 else rnd_range 0 2 in
      (n, stride, pad_lo, n * stride + pad_lo + pad_hi)) want in
  let r = if d > 1 then rnd d else 0 in
  let padded = List.map (fun (_, _, _, p) -> (0, p)) per in
  let rec rot k l = if k = 0 then l else match l with [] -> [] | a :: t -> rot (k - 1) (t @ [ a ]) in
  let root = rot r padded in
  let undo = List.init r (fun _ -> OUnrotated) in
  let cyc = List.concat_map (fun (n, stride, lo, _) ->
      (if stride = 1 then [ OSliced (z lo, z (lo + n)) ] else [ OSlicedS (z lo, z (lo + n * stride), z stride) ]) @ [ ORotated ]) per in
  (* give the source the destination's index bases (assignment asserts equal extensions) *)
  let reidx = if List.for_all (fun f -> f = 0) firsts then [] else List.concat_map (fun f -> [ OReindexed (z f); ORotated ]) firsts in
  (root, undo @ cyc @ reidx)

(* both operands gap-free, each stored in its own rotation of the logical order (section 9, seed C05-s10: a "both compact"
   shortcut must not copy the block flat) *)
let gen_compact_pair () : case * string list =
  let d = pick [ 2; 2; 3 ] in
  let want = List.init d (fun _ -> rnd_range 1 4) in
  let dexts, dops = gen_src ~force_compact:true want in
  let sexts, sops = gen_src ~force_compact:true want in
  let what = pick [ "assign"; "assign"; "assign_const"; "assign_rv"; "assign_from_rv"; "assign_rv_rv"; "assign_elems"; "move"; "swap" ] in
  ({ dexts; dops; sexts; sops; what; args = [] }, [ "do_" ^ what; "compact_pair"; Printf.sprintf "rank%d" d ])

let rec gen_case (vc : Views.cfg) : case * string list =
  if chance 6 then gen_compact_pair () else gen_case_general vc
and gen_case_general (vc : Views.cfg) : case * string list =
  (* destination: any view program; regenerate until the view is small enough to dump *)
  let rec dst tries =
    let prog = Buffer.create 256 and obs = Buffer.create 256 in
    let fin = ref (root_view []) in
    let kinds = Views.gen_case ~with_probes:false ~tail:(fun _ v _ _ -> fin := v; []) vc "tmp" prog obs in
    let lines = String.split_on_char '\n' (Buffer.contents prog) in
    let root = List.find (fun l -> String.length l > 5 && String.sub l 0 5 = "root ") lines in
    let exts = match Views.words root with _ :: _ :: rest ->
        let rec pairs = function a :: b :: t -> (int_of_string a, int_of_string b) :: pairs t | _ -> [] in pairs rest | _ -> [] in
    let ops = List.filter_map (fun l -> match Views.words l with "op" :: toks -> Some (Views.parse_op toks) | _ -> None) lines in
    if (nel_of exts <= 400 && List.length !fin.lay <= 4) || tries = 0 then (exts, ops, !fin, kinds) else dst (tries - 1) in
  let dexts, dops, dv, kinds = dst 20 in
  let want = il (l_sizes dv.lay) in
  let dn = i (er_size dv) in
  let what = weighted [ (4, "assign"); (2, "assign_const"); (2, "assign_rv"); (2, "assign_from_rv"); (1, "assign_rv_rv"); (3, "aref"); (3, "assign_elems"); (2, "assign_elems_named"); (3, "swap"); (3, "move"); (2, "marr"); (3, "fill"); (3, "vals") ] in
  let what = if what = "vals" && (List.length want > 2 || dn > 60) then "assign" else what in
  let what = if what = "aref" then (if nel_of dexts > 0 then pick aref_kinds else "assign") else what in
  let what = if what = "marr" then (if List.length want >= 1 && List.length want <= 4 && List.for_all (fun n -> n > 0) want then pick marr_kinds else "move")   (* an owning copy of an empty view collapses its extents *) else what in
  let c =
    match what with
    | w when List.mem w aref_kinds -> { dexts; dops = []; sexts = dexts; sops = []; what; args = [] }
    | "marr_call" -> let sexts, sops = gen_src ~firsts:(il (firsts_of dv)) want in { dexts; dops; sexts; sops; what; args = [] }
    | "marr_taked" ->
        (* source longer by k in the leading dimension; taked(w0) keeps the leading w0 items and the index base *)
        let w0 = List.hd want and k = rnd_range 0 2 in
        let sexts, sops = gen_src ~firsts:(il (firsts_of dv)) ((w0 + k) :: List.tl want) in
        { dexts; dops; sexts; sops; what; args = [ w0 ] }
    | "marr_dropped" ->
        (* dropped(n) keeps the index range [first + n, last): the source is re-indexed so that it lands on the destination's *)
        let w0 = List.hd want and n = rnd_range 0 2 in
        let f = il (firsts_of dv) in
        let sexts, sops = gen_src ~firsts:((List.hd f - n) :: List.tl f) ((w0 + n) :: List.tl want) in
        { dexts; dops; sexts; sops; what; args = [ n ] }
    | "fill" -> { dexts; dops; sexts = []; sops = []; what; args = [ rnd_range (-9) 9 ] }
    | "vals" -> { dexts; dops; sexts = []; sops = []; what; args = List.init dn (fun k -> 5000 + k * 7 mod 101) }
    | _ -> let sexts, sops = gen_src ~firsts:(il (firsts_of dv)) want in { dexts; dops; sexts; sops; what; args = [] } in
  (c, ("do_" ^ what) :: kinds)

(* ---- parsing a program text back (replay, shrinking, corpus) ---- *)
let parse_cases (text : string) : (string * case) list =
  let cases = ref [] and cur = ref None and id = ref "" in
  let empty = { dexts = []; dops = []; sexts = []; sops = []; what = ""; args = [] } in
  let rec pairs = function a :: b :: t -> (int_of_string a, int_of_string b) :: pairs t | _ -> [] in
  List.iter
    (fun line ->
      match Views.words line, !cur with
      | [ "case"; c ], _ -> id := c; cur := Some empty
      | "droot" :: _ :: rest, Some c -> cur := Some { c with dexts = pairs rest }
      | "sroot" :: _ :: rest, Some c -> cur := Some { c with sexts = pairs rest }
      | "dop" :: toks, Some c -> cur := Some { c with dops = c.dops @ [ Views.parse_op toks ] }
      | "sop" :: toks, Some c -> cur := Some { c with sops = c.sops @ [ Views.parse_op toks ] }
      | "do" :: w :: rest, Some c -> cur := Some { c with what = w; args = List.map int_of_string rest }
      | [ "end" ], Some c -> cases := (!id, c) :: !cases; cur := None
      | _ -> ())
    (String.split_on_char '\n' text);
  List.rev !cases

(* C12: generator + model runner for projection programs (harness/h_project.cpp reads the same text).
   The program text is interpreted line by line by `step`, which drives the extracted model
   (Modelc12: p_exec_proj / p_exec_op / p_addr_brackets / convert_construct ...) and prints the
   observations in the harness's format; the generator builds a program by asking the model which
   operations are in their documented domain and feeds every line it emits to the same `step`.
   Hand-written and trusted: text <-> Z, the fill pattern of the root storage (word function), PRNG.
   View-operation vocabulary and candidate selection are copied from ocaml/views.ml. *)
open Modelc12
open C12_zu

let maxd = 5   (* C12_MAXD of the harness *)

(* ---------- view operations: text ---------- *)
let op_text (o : op) : string =
  let p = Printf.sprintf in
  match o with
  | OIndex a -> p "index %d" (i a)
  | OSliced (a, b) -> p "sliced %d %d" (i a) (i b)
  | OSlicedS (a, b, s) -> p "sliceds %d %d %d" (i a) (i b) (i s)
  | OStrided s -> p "strided %d" (i s)
  | ODropped n -> p "dropped %d" (i n)
  | OTaked n -> p "taked %d" (i n)
  | ORotated -> "rotated"
  | OUnrotated -> "unrotated"
  | OTransposed -> "transposed"
  | OReversed -> "reversed"
  | ODiagonal -> "diagonal"
  | OPartitioned n -> p "partitioned %d" (i n)
  | OChunked c -> p "chunked %d" (i c)
  | OHalved -> "halved"
  | OFlatted -> "flatted"
  | OParen args ->
      p "paren %d %s" (List.length args)
        (join " " (function PIdx a -> p "i %d" (i a) | PRange (a, b) -> p "r %d %d" (i a) (i b) | PAll -> "a") args)
  | OReindexed a -> p "reindexed %d" (i a)
  | OBlocked (a, b) -> p "blocked %d %d" (i a) (i b)
  | OReindexedL l -> p "reindexedl %s" (join " " (fun x -> string_of_int (i x)) l)

let op_kind (o : op) : string =
  match o with
  | OIndex _ -> "index" | OSliced _ -> "sliced" | OSlicedS _ -> "sliceds" | OStrided _ -> "strided"
  | ODropped _ -> "dropped" | OTaked _ -> "taked" | ORotated -> "rotated" | OUnrotated -> "unrotated"
  | OTransposed -> "transposed" | OReversed -> "reversed" | ODiagonal -> "diagonal"
  | OPartitioned _ -> "partitioned" | OChunked _ -> "chunked" | OHalved -> "halved" | OFlatted -> "flatted"
  | OParen _ -> "paren" | OReindexed _ -> "reindexed" | OBlocked _ -> "blocked" | OReindexedL _ -> "reindexedl"

let parse_op (toks : string list) : op =
  let n s = z (int_of_string s) in
  match toks with
  | [ "index"; a ] -> OIndex (n a)
  | [ "sliced"; a; b ] -> OSliced (n a, n b)
  | [ "sliceds"; a; b; s ] -> OSlicedS (n a, n b, n s)
  | [ "strided"; s ] -> OStrided (n s)
  | [ "dropped"; a ] -> ODropped (n a)
  | [ "taked"; a ] -> OTaked (n a)
  | [ "rotated" ] -> ORotated
  | [ "unrotated" ] -> OUnrotated
  | [ "transposed" ] -> OTransposed
  | [ "reversed" ] -> OReversed
  | [ "diagonal" ] -> ODiagonal
  | [ "partitioned"; a ] -> OPartitioned (n a)
  | [ "chunked"; a ] -> OChunked (n a)
  | [ "halved" ] -> OHalved
  | [ "flatted" ] -> OFlatted
  | "paren" :: _k :: rest ->
      let rec go = function
        | [] -> []
        | "i" :: a :: t -> PIdx (n a) :: go t
        | "r" :: a :: b :: t -> PRange (n a, n b) :: go t
        | "a" :: t -> PAll :: go t
        | _ -> failwith "bad paren" in
      OParen (go rest)
  | [ "reindexed"; a ] -> OReindexed (n a)
  | [ "blocked"; a; b ] -> OBlocked (n a, n b)
  | "reindexedl" :: rest -> OReindexedL (List.map n rest)
  | _ -> failwith ("bad op: " ^ String.concat " " toks)

let words s = List.filter (fun w -> w <> "") (String.split_on_char ' ' (String.trim s))
let divisors n = List.filter (fun d -> n mod d = 0) (List.init (max n 1) (fun k -> k + 1))
let rank (v : view) = int_of_nat (v_rank v)

(* ---------- the root storage: every 32-bit word is a function of (element, epoch) ---------- *)
type mem = { mutable relem : char; mutable nel : int; mutable epoch : int; over : (int, int32) Hashtbl.t }

let lo f = Int64.to_int32 (Int64.bits_of_float f)
let hi f = Int64.to_int32 (Int64.shift_right_logical (Int64.bits_of_float f) 32)

let pristine (m : mem) (kw : int) : int32 =
  let k = kw / 4 and j = kw mod 4 in
  if m.relem = 'S' then
    match j with
    | 0 -> Int32.of_int (k + (1000000 * m.epoch))
    | 1 -> Int32.of_int (100000 + k)
    | 2 -> lo (float_of_int (200000 + k))
    | _ -> hi (float_of_int (200000 + k))
  else
    let re = float_of_int (k + (1000000 * m.epoch)) and im = float_of_int (300000 + k) in
    match j with 0 -> lo re | 1 -> hi re | 2 -> lo im | _ -> hi im

let word (m : mem) (kw : int) : int32 = match Hashtbl.find_opt m.over kw with Some v -> v | None -> pristine m kw

(* ---------- state of a case ---------- *)
type tk = TNone | TVal | TMem | TRef

type st = {
  mutable id : string;
  mutable stp : int;
  mutable dead : bool;
  mutable x : pview;
  mutable elem : char;      (* element type of the harness holder: S Z C R Q I D L *)
  mutable tk : tk;          (* element_transformed kind, if any *)
  mutable full : bool;      (* the harness holder offers the full operation set *)
  mutable probes : int list list;   (* probes since the last op/proj, oldest first *)
  mem : mem;
  mutable tptr_sliced : bool;  (* sliced()/diagonal() of D>1 transform_ptr views compile in the harness *)
  mutable tptr_citer : bool;   (* begin()/end() of a const rank-1 transform_ptr view compile *)
  mutable expl_view : bool;    (* array<explicit-only T2>(view) compiles *)
  mutable nwalk : int;
}

let esz_of = function 'S' | 'Z' | 'C' | 'R' -> 16 | 'Q' | 'D' | 'L' -> 8 | 'I' -> 4 | _ -> 0
let obs_off s = match s.tk with TMem -> 4 | TRef -> 8 | _ -> 0
let rawptr s = s.tk = TNone

(* value text of the element of type `code` whose first byte is at offset off *)
let value_text (s : st) (code : char) (off : int) : string =
  let nbytes = 16 * s.mem.nel in
  if code = 'L' then begin
    (* tval: f(S) = a*3 + b of the source element, which starts at off *)
    if off < 0 || off + 16 > nbytes then "oob"
    else
      let a = Int32.to_int (word s.mem (off / 4)) and b = Int32.to_int (word s.mem ((off / 4) + 1)) in
      "L" ^ string_of_int ((a * 3) + b)
  end
  else begin
    let sz = esz_of code in
    if off < 0 || off + sz > nbytes || off mod 4 <> 0 then "oob"
    else String.concat "." (List.init (sz / 4) (fun t -> Int32.to_string (word s.mem ((off / 4) + t))))
  end

let shape_line (s : st) : string =
  let v = s.x.p_view in
  let sz = il (l_sizes v.lay) and stv = il (l_strides v.lay) in
  let ex = List.map (fun (a, b) -> Printf.sprintf "%d:%d" (i a) (i b)) (l_extensions v.lay) in
  let strides = List.map2 (fun s n -> if n >= 2 then string_of_int s else "*") stv sz in
  Printf.sprintf "S %s %d elem=%c esz=%d rank=%d sizes=%s ext=%s strides=%s nel=%d size=%d empty=%d" s.id s.stp s.elem
    (esz_of s.elem) (rank v) (ints sz) (String.concat "," ex) (String.concat "," strides)
    (i (l_num_elements v.lay)) (i (v_size v)) (if l_is_empty v.lay then 1 else 0)

let valid_probe (s : st) (idx : int list) : bool =
  let exts = List.map (fun (a, b) -> (i a, i b)) (l_extensions s.x.p_view.lay) in
  List.length idx = List.length exts && List.for_all2 (fun k (f, l) -> f <= k && k < l) idx exts

let probe_line (tag : string) (s : st) (idx : int list) : string =
  if not (valid_probe s idx) then Printf.sprintf "%s %s %d idx=%s invalid" tag s.id s.stp (ints idx)
  else begin
    let base_off = i (p_addr_brackets s.x (zl idx)) in
    match s.tk with
    | TVal -> Printf.sprintf "%s %s %d idx=%s O=- V=%s" tag s.id s.stp (ints idx) (value_text s 'L' base_off)
    | _ ->
        let off = base_off + obs_off s in
        Printf.sprintf "%s %s %d idx=%s O=%d V=%s" tag s.id s.stp (ints idx) off (value_text s s.elem off)
  end

(* ---------- projections ---------- *)
(* kind -> (model projections and view operations, new element code, transformed kind, full op set) *)
type pstep = Pj of proj | Po of op

let proj_table (s : st) (kind : string) (args : int list) : (pstep list * char * tk * bool) option =
  let r = rank s.x.p_view in
  let arg0 () = match args with a :: _ -> a | [] -> 0 in
  (* value category of the source view: "<kind>" named view (& overloads), "c_<kind>" const reference (const&),
     "r_<kind>" std::move(view) and "t_<kind>" view() (xvalue / prvalue temporary: the && overloads).  The library
     has separate overloads, and for rank 1 partly separate code, for them; the model is the same. *)
  let has_prefix = String.length kind > 2 && kind.[1] = '_' && List.mem kind.[0] [ 'c'; 'r'; 't' ] in
  let is_c = has_prefix && kind.[0] = 'c' in
  let kind = if has_prefix then String.sub kind 2 (String.length kind - 2) else kind in
  let const_ok = List.mem kind [ "member_a"; "member_b"; "member_c"; "reint_R"; "reint_Q"; "reint_I"; "reintn_I"; "reintn_D";
                                 "reintn_R"; "tval"; "reint_C"; "reint_D"; "member_re"; "member_im"; "up_Q";
                                 "static"; "asconst"; "constcast" ] in
  if s.tk <> TNone || (is_c && not const_ok) then None
  else
    match (s.elem, kind) with
    | 'S', "member_a" -> Some ([ Pj (PMember (z 4, z 0)) ], 'I', TNone, true)
    | 'S', "member_b" -> Some ([ Pj (PMember (z 4, z 4)) ], 'I', TNone, true)
    | 'S', "member_c" -> Some ([ Pj (PMember (z 8, z 8)) ], 'D', TNone, true)
    | 'S', "reint_R" -> Some ([ Pj (PReinterpret (z 16)) ], 'R', TNone, false)
    | 'S', "reint_Q" -> Some ([ Pj (PReinterpret (z 8)) ], 'Q', TNone, false)
    | 'S', "reint_I" -> Some ([ Pj (PReinterpret (z 4)) ], 'I', TNone, true)
    | 'S', "reintn_I" when r + 1 <= maxd -> Some ([ Pj (PReinterpretN (z 4, z (arg0 ()))) ], 'I', TNone, true)
    | 'S', "reintn_D" when r + 1 <= maxd -> Some ([ Pj (PReinterpretN (z 8, z (arg0 ()))) ], 'D', TNone, true)
    | 'S', "reintn_R" when r + 1 <= maxd -> Some ([ Pj (PReinterpretN (z 16, z (arg0 ()))) ], 'R', TNone, false)
    | 'S', "static" -> Some ([ Pj PIdentity ], 'S', TNone, true)
    | 'S', ("asconst" | "constcast") when r >= 2 -> Some ([ Pj PIdentity ], 'S', TNone, true)
    | 'S', "tval" -> Some ([ Pj PIdentity ], 'L', TVal, false)
    | 'S', "tmem" -> Some ([ Pj PIdentity ], 'I', TMem, false)
    | 'S', "tref" -> Some ([ Pj PIdentity ], 'D', TRef, false)
    (* blas/numeric.hpp: real/imag = reinterpret_array_cast<complex_dummy>().member_cast(&complex_dummy::real/imag);
       real_doubled = reinterpret_array_cast<double>(2).rotated().flatted().unrotated() *)
    | 'Z', "zreal" -> Some ([ Pj (PReinterpret (z 16)); Pj (PMember (z 8, z 0)) ], 'D', TNone, true)
    | 'Z', "zimag" -> Some ([ Pj (PReinterpret (z 16)); Pj (PMember (z 8, z 8)) ], 'D', TNone, true)
    | 'Z', "zdoubled" when r + 1 <= maxd ->
        Some ([ Pj (PReinterpretN (z 8, z 2)); Po ORotated; Po OFlatted; Po OUnrotated ], 'D', TNone, true)
    | 'Z', "reint_C" -> Some ([ Pj (PReinterpret (z 16)) ], 'C', TNone, false)
    | 'Z', "reint_D" -> Some ([ Pj (PReinterpret (z 8)) ], 'D', TNone, true)
    | 'Z', "reintn_D" when r + 1 <= maxd -> Some ([ Pj (PReinterpretN (z 8, z (arg0 ()))) ], 'D', TNone, true)
    | 'Z', "asconst" when r >= 2 -> Some ([ Pj PIdentity ], 'Z', TNone, true)
    | 'I', "up_Q" when i (p_ptr s.x) mod 8 = 0 -> Some ([ Pj (PReinterpret (z 8)) ], 'Q', TNone, false)
    | 'C', "member_re" -> Some ([ Pj (PMember (z 8, z 0)) ], 'D', TNone, true)
    | 'C', "member_im" -> Some ([ Pj (PMember (z 8, z 8)) ], 'D', TNone, true)
    | _ -> None

(* runs the model steps of a projection; None when some step is outside its domain *)
let kind_is_c (kind : string) : bool = String.length kind > 2 && kind.[0] = 'c' && kind.[1] = '_'
let run_psteps ?(constref = false) (x : pview) (steps : pstep list) : pview option =
  List.fold_left
    (fun acc stp ->
      match acc with
      | None -> None
      | Some x -> (
          match stp with
          | Pj p -> if p_dom_proj constref p x then Some (p_exec_proj p x) else None
          | Po o -> if p_dom_op o x then Some (p_exec_op o x) else None))
    (Some x) steps

(* which view operations the harness holder of the current state offers *)
let op_supported (s : st) (o : op) : bool =
  let r = rank s.x.p_view in
  let can_slice = rawptr s || r = 1 || s.tptr_sliced in
  match o with
  | OIndex _ -> r >= 2
  | OStrided _ | ORotated | OUnrotated | ODropped _ | OReversed -> true
  | OTransposed -> r >= 2
  | OSliced _ -> can_slice
  | ODiagonal -> r >= 2 && can_slice && diag_ok s.x.p_view
  | OTaked _ -> s.full && r = 1
  | OSlicedS _ | OPartitioned _ | OChunked _ | OHalved -> s.full
  | OFlatted -> s.full && r >= 2
  | OParen args -> s.full && List.length args <= 3
  | OReindexed _ -> true
  | OBlocked _ -> can_slice
  | OReindexedL l -> List.length l >= 2 && List.length l <= min r 4
  (* diagonal() takes its block from index 0 (known finding KF-C19-diagonal-rebased): only with zero bases *)

let pr (b : Buffer.t) (str : string) = Buffer.add_string b str; Buffer.add_char b '\n'

(* ---------- what an expression designates, as the harness prints it (c12_projview.hpp: elem_text / view_text) ---------- *)
(* element whose source element starts at byte base_off (the address of the element itself for raw pointers) *)
let elem_text (s : st) (base_off : int) : string =
  match s.tk with
  | TVal -> "-/" ^ value_text s 'L' base_off
  | _ -> let off = base_off + obs_off s in Printf.sprintf "%d/%s" off (value_text s s.elem off)

(* a projected view y of rank r (r = 0: an element): extensions and both corner elements *)
let thing_text (s : st) (y : pview) : string =
  let exts = List.map (fun (a, b) -> (i a, i b)) (l_extensions y.p_view.lay) in
  if exts = [] then elem_text s (i (p_ptr y))
  else begin
    let xs = "x=" ^ String.concat "," (List.map (fun (a, b) -> Printf.sprintf "%d:%d" a b) exts) in
    if List.exists (fun (a, b) -> a >= b) exts then xs ^ ";empty"
    else
      let lo = List.map fst exts and hi = List.map (fun (_, b) -> b - 1) exts in
      Printf.sprintf "%s;%s;%s" xs (elem_text s (i (p_addr_brackets y (zl lo)))) (elem_text s (i (p_addr_brackets y (zl hi))))
  end

(* the q-th index tuple in canonical order (last index fastest), computed here (not by the model's from_linear) *)
let canonical (exts : (int * int) list) (q : int) : int list =
  let rec go l q = match l with
    | [] -> ([], q)
    | (f, l') :: rest -> let (t, q) = go rest q in let sz = l' - f in ((f + (q mod sz)) :: t, q / sz) in
  fst (go exts q)

(* ---------- iterator walks ---------- *)
exception Walk_out of string

(* generic interpreter of the walk tokens over an iterator type *)
let run_walk_tokens (s : st) (obs : Buffer.t) (wn : int) (toks : string list) (from_end : bool) (n : int)
    ~(b : 'it) ~(e : 'it) ~(inc : 'it -> 'it) ~(dec : 'it -> 'it) ~(add : 'it -> int -> 'it) ~(sub : 'it -> int -> 'it)
    ~(diff : 'it -> 'it -> int) ~(deref : 'it -> string) ~(index : 'it -> int -> string)
    ~(at : int -> string) : unit =
  let it = ref (if from_end then e else b) and p = ref (if from_end then n else 0) and j = ref 0 in
  let head tok = Printf.sprintf "I %s %d %d.%d %s" s.id s.stp wn !j tok in
  let moved tok =
    if !p < 0 || !p > n then raise (Walk_out "walk leaves [begin, end]");
    let l = Printf.sprintf "%s pos=%d end=%d p=%d" (head tok) (diff !it b) (diff e !it) !p in
    pr obs (if !p < n then Printf.sprintf "%s d=%s m=%s" l (deref !it) (at !p) else l) in
  let inside q = if q < 0 || q >= n then raise (Walk_out "walk observes outside [begin, end)") in
  moved (if from_end then "e" else "b");
  let rec go = function
    | [] -> ()
    | "++" :: t -> incr j; it := inc !it; incr p; moved "++"; go t
    | "--" :: t -> incr j; it := dec !it; decr p; moved "--"; go t
    | "p++" :: t -> incr j; it := inc !it; incr p; moved "p++"; go t
    | "p--" :: t -> incr j; it := dec !it; decr p; moved "p--"; go t
    | ("+=" | "+" as tok) :: a :: t -> incr j; let a = int_of_string a in it := add !it a; p := !p + a; moved (tok ^ string_of_int a); go t
    | ("-=" | "-" as tok) :: a :: t -> incr j; let a = int_of_string a in it := sub !it a; p := !p - a; moved (tok ^ string_of_int a); go t
    | "[]" :: a :: t ->
        incr j; let a = int_of_string a in inside (!p + a);
        pr obs (Printf.sprintf "%s at=%d d=%s m=%s" (head ("[]" ^ string_of_int a)) (!p + a) (index !it a) (at (!p + a))); go t
    | "r" :: t ->
        incr j; inside (!p - 1);
        pr obs (Printf.sprintf "%s at=%d d=%s m=%s" (head "r") (!p - 1) (deref (dec !it)) (at (!p - 1))); go t
    | ("r+" | "r[]" as tok) :: a :: t ->
        incr j; let a = int_of_string a in inside (!p - 1 - a);
        pr obs (Printf.sprintf "%s at=%d d=%s m=%s" (head (tok ^ string_of_int a)) (!p - 1 - a) (deref (dec (sub !it a))) (at (!p - 1 - a))); go t
    | tok :: _ -> raise (Walk_out ("walk token " ^ tok)) in
  go toks

let walk_lead (s : st) (obs : Buffer.t) (wn : int) (x : pview) (toks : string list) : unit =
  match toks with
  | [] -> raise (Walk_out "walk start")
  | start :: rest ->
      let r = rank x.p_view in
      let cst = (start = "cb" || start = "ce") in
      if not (List.mem start [ "b"; "e"; "cb"; "ce" ]) then raise (Walk_out ("walk start " ^ start));
      if cst && s.tk <> TNone && r = 1 && not s.tptr_citer then raise (Walk_out "const iterators of a rank-1 transform_ptr view");
      let n = i (v_size x.p_view) and f = i (fst (v_extension x.p_view)) in
      run_walk_tokens s obs wn rest (start = "e" || start = "ce") n
        ~b:(p_it_begin x) ~e:(p_it_end x) ~inc:it_inc ~dec:it_dec
        ~add:(fun a k -> it_add a (z k)) ~sub:(fun a k -> it_sub a (z k))
        ~diff:(fun a c -> i (it_diff a c))
        ~deref:(fun a -> thing_text s (p_it_deref x a))
        ~index:(fun a k -> thing_text s (p_it_index x a (z k)))
        ~at:(fun q -> thing_text s (p_index (z (f + q)) x))

let walk_flat (s : st) (obs : Buffer.t) (wn : int) (x : pview) (toks : string list) : unit =
  match toks with
  | [] -> raise (Walk_out "walk start")
  | start :: rest ->
      if not (List.mem start [ "b"; "e"; "cb"; "ce" ]) then raise (Walk_out ("walk start " ^ start));
      let n = i (l_num_elements x.p_view.lay) in
      let exts = List.map (fun (a, b) -> (i a, i b)) (l_extensions x.p_view.lay) in
      run_walk_tokens s obs wn rest (start = "e" || start = "ce") n
        ~b:(p_e_begin x) ~e:(p_e_end x) ~inc:e_inc ~dec:e_dec
        ~add:(fun a k -> e_add a (z k)) ~sub:(fun a k -> e_sub a (z k))
        ~diff:(fun a c -> i (e_diff a c))
        ~deref:(fun a -> elem_text s (i (p_e_deref x a)))
        ~index:(fun a k -> elem_text s (i (p_e_index x a (z k))))
        ~at:(fun q -> elem_text s (i (p_addr_brackets x (zl (canonical exts q)))))

(* the element pointer base() as a cursor over the source elements that follow it in the root array *)
let ptr_unit (s : st) : int = if s.tk <> TNone then 16 else esz_of s.elem
let ptr_room (s : st) (x : pview) : int =
  let ptr = i (p_ptr x) and u = ptr_unit s in
  if ptr < 0 || ptr mod 4 <> 0 then 0 else max 0 (((16 * s.mem.nel) - ptr) / u)
let walk_ptr (s : st) (obs : Buffer.t) (wn : int) (x : pview) (toks : string list) : unit =
  match toks with
  | n :: start :: rest ->
      let n = int_of_string n in
      if n < 0 || n > ptr_room s x || not (List.mem start [ "b"; "e" ]) then raise (Walk_out "pointer walk leaves the root array");
      List.iter (fun t -> if List.mem t [ "++"; "--"; "p++"; "p--"; "r"; "r+"; "r[]" ] then raise (Walk_out "pointer walk token")) rest;
      let ptr = i (p_ptr x) and u = ptr_unit s in
      let txt q = elem_text s (ptr + (u * q)) in
      run_walk_tokens s obs wn rest (start = "e") n
        ~b:0 ~e:n ~inc:(fun a -> a + 1) ~dec:(fun a -> a - 1) ~add:(fun a k -> a + k) ~sub:(fun a k -> a - k)
        ~diff:(fun a c -> a - c) ~deref:txt ~index:(fun a k -> txt (a + k)) ~at:txt
  | _ -> raise (Walk_out "pointer walk")

let run_walk (s : st) (obs : Buffer.t) (toks : string list) : unit =
  s.nwalk <- s.nwalk + 1;
  let wn = s.nwalk in
  let buf = Buffer.create 256 in
  (try
     (match toks with
      | "lead" :: rest -> walk_lead s buf wn s.x rest
      | "flat" :: rest -> walk_flat s buf wn s.x rest
      | "ptr" :: rest -> walk_ptr s buf wn s.x rest
      | "row" :: k :: rest ->
          let k = int_of_string k in
          if rank s.x.p_view < 2 || not (p_dom_op (OIndex (z k)) s.x) then raise (Walk_out "row walk");
          walk_lead s buf wn (p_index (z k) s.x) rest
      | _ -> raise (Walk_out "walk where"));
     Buffer.add_buffer obs buf
   with Walk_out why | Failure why ->
     pr obs (Printf.sprintf "X %s %d out-of-domain walk: %s" s.id s.stp why);
     s.dead <- true)

(* ---------- conversions (array.hpp) ---------- *)
let split_kind (kind : string) : (char * char * string * string) option =
  match String.split_on_char '.' kind with
  | [ sc; how; tgt ] when String.length sc = 2 -> Some (sc.[0], sc.[1], how, tgt)
  | _ -> None

let conv_maxd = 3   (* C12_CONV_MAXD of the harness *)

(* (implicitly convertible, assignable, same type) of the target for a source element code *)
let target_props (src : char) (tgt : string) : (bool * bool * bool) option =
  match tgt with
  | "same" -> Some (true, true, true)
  | "nat" -> (match src with 'I' | 'L' | 'D' -> Some (true, true, false) | 'Z' -> Some (false, true, false) | _ -> Some (true, true, true))
  | "wi" -> Some (true, true, false)
  | "we" -> Some (false, false, false)
  | "wa" -> Some (false, true, false)
  | _ -> None

(* which conversion kinds the harness can express for the current view (mirrors PH::convert / convert_to) *)
let conv_ok (s : st) (kind : string) : bool =
  match split_kind kind with
  | None -> false
  | Some (src, cat, how, tgt) -> (
      let r = rank s.x.p_view in
      let code = if s.tk = TVal then 'L' else s.elem in
      let nel = i (l_num_elements s.x.p_view.lay) and size = i (v_size s.x.p_view) in
      match target_props code tgt with
      | None -> false
      | Some (impl, asg, same) ->
          (List.mem tgt [ "same"; "nat" ] || r <= conv_maxd)
          && (List.mem cat [ 'l'; 'c'; 'r'; 't' ] || (cat = 'k' && (src = 'v' || src = 'q')))
          && (match src with
              | 'v' | 'q' ->
                  let expl_view = s.expl_view && r >= 2 in
                  (impl || asg || expl_view)
                  && (match how with
                      | "ctor" -> true
                      | "alloc" -> asg || expl_view
                      | "asame" | "aresh" | "adiff" | "from" -> asg
                      | "asrg" -> asg && nel > 0 && size > 0 && (src = 'q' || s.tk = TNone || s.tptr_citer)
                      | "ssame" -> asg && nel > 0
                      | _ -> false)
              | 'a' | 'r' ->
                  (not same)
                  && (match how with
                      | "ctor" -> true
                      | "alloc" -> cat = 'c'
                      | "asame" | "aresh" | "adiff" | "from" -> asg
                      | "ssame" -> asg && nel > 0
                      | _ -> false)
              | 's' -> (not same) && asg && how = "ssame" && cat <> 't' && nel > 0
              | 'i' ->
                  nel > 0 && size > 0 && cat = 'l'
                  && (match how with "ctor" | "alloc" -> true | "asit" | "adiff" -> asg | _ -> false)
              | 'e' -> nel > 0 && how = "ctor" && cat = 'l'
              | 'x' ->
                  r = 1 && size >= 3
                  && (match how with
                      | "carr" -> cat = 'l'
                      | "ilist" -> cat = 'l' && impl
                      | "zctor" -> (not same) && (cat = 'l' || cat = 'c')
                      | "zalloc" -> (not same) && cat = 'c'
                      | "zasg" | "zelem" -> (not same) && asg && cat = 'l'
                      | _ -> false)
              | _ -> false))

let all_conv_kinds : string list =
  List.concat_map (fun src ->
      List.concat_map (fun cat ->
          List.concat_map (fun how ->
              List.map (fun tgt -> Printf.sprintf "%c%c.%s.%s" src cat how tgt) [ "same"; "nat"; "wi"; "we"; "wa" ])
            [ "ctor"; "alloc"; "asame"; "aresh"; "adiff"; "from"; "ssame"; "asit"; "asrg"; "carr"; "ilist"; "zctor"; "zalloc"; "zasg"; "zelem" ])
        [ 'l'; 'c'; 'r'; 't'; 'k' ])
    [ 'v'; 'q'; 'a'; 'r'; 's'; 'i'; 'e'; 'x' ]

let int64_of_words lo hi = Int64.logor (Int64.shift_left (Int64.of_int32 hi) 32) (Int64.logand (Int64.of_int32 lo) 0xFFFFFFFFL)
let f32 (f : float) : string = Int32.to_string (Int32.bits_of_float f)

(* text of the converted element whose source element starts at byte base_off *)
let conv_text (s : st) (tgt : string) (base_off : int) : string =
  let code = if s.tk = TVal then 'L' else s.elem in
  let off = base_off + obs_off s in
  let words c o = value_text s c o in
  if code = 'L' then begin
    match words 'L' base_off with
    | "oob" -> "oob"
    | w ->
        let n = int_of_string (String.sub w 1 (String.length w - 1)) in
        (match tgt with
         | "same" -> w
         | "nat" -> let f = float_of_int n in Int32.to_string (lo f) ^ "." ^ Int32.to_string (hi f)
         | _ -> let n64 = Int64.of_int n in
                Int32.to_string (Int64.to_int32 n64) ^ "." ^ Int32.to_string (Int64.to_int32 (Int64.shift_right n64 32)))
  end else begin
    match words code off with
    | "oob" -> "oob"
    | w ->
        if tgt <> "nat" then w
        else
          let ws = List.map Int32.of_string (String.split_on_char '.' w) in
          (match code, ws with
           | 'I', [ a ] -> "L" ^ Int32.to_string a
           | 'D', [ l; h ] -> f32 (Int64.float_of_bits (int64_of_words l h))
           | 'Z', [ l0; h0; l1; h1 ] -> f32 (Int64.float_of_bits (int64_of_words l0 h0)) ^ "." ^ f32 (Int64.float_of_bits (int64_of_words l1 h1))
           | _ -> w)
  end

let run_convert (s : st) (obs : Buffer.t) (kind0 : string) : unit =
  let kind = if kind0 = "" then "vl.ctor.nat" else kind0 in
  if not (conv_ok s kind) then begin
    pr obs (Printf.sprintf "X %s %d out-of-domain convert %s" s.id s.stp kind);
    s.dead <- true
  end else begin
    let (src, _cat, how, tgt) = match split_kind kind with Some q -> q | None -> assert false in
    let v = s.x.p_view in
    (* conv = identity on byte offsets; rd k = byte offset of the object at (base pointer + k) *)
    let esz = i s.x.p_esz and ptr = i (p_ptr s.x) in
    let rd (k : z) : z = z (ptr + (esz * i k)) in
    if src = 'x' then begin
      (* not views: a C array / initializer_list of the first three elements (extension [0,3)), or a rank-0 array of
         the first element; the expectation is computed here from the model's addresses of those elements *)
      let f = i (fst (v_extension v)) in
      let off k = i (p_addr_brackets s.x [ z (f + k) ]) in
      if how = "carr" || how = "ilist" then begin
        pr obs (Printf.sprintf "C %s %d kind=%s ext=0:3 sizes=3 nel=3" s.id s.stp kind);
        List.iter (fun k -> pr obs (Printf.sprintf "c %s %d %d V=%s" s.id s.stp k (conv_text s tgt (off k)))) [ 0; 1; 2 ]
      end else begin
        pr obs (Printf.sprintf "C %s %d kind=%s ext= sizes= nel=1" s.id s.stp kind);
        pr obs (Printf.sprintf "c %s %d 0 V=%s" s.id s.stp (conv_text s tgt (off 0)))
      end
    end else
    let res =
      match src, how with
      | 'i', ("ctor" | "alloc" | "adiff") -> convert_iter_pair (fun b -> b) rd v.lay
      | 'e', _ -> convert_flat (fun b -> b) rd v.lay
      | _, ("asame" | "aresh" | "adiff" | "from" | "ssame" | "asit" | "asrg") -> convert_assign (fun b -> b) rd v.lay
      | _ -> convert_construct (fun b -> b) rd v.lay in
    match res with
    | None -> pr obs (Printf.sprintf "C %s %d model-undefined(division-by-zero-in-from_linear)" s.id s.stp)
    | Some c ->
        let csz = il (l_sizes c.c_lay) in
        let cex = List.map (fun (a, b) -> Printf.sprintf "%d:%d" (i a) (i b)) (l_extensions c.c_lay) in
        let data = il c.c_data in
        pr obs (Printf.sprintf "C %s %d kind=%s ext=%s sizes=%s nel=%d" s.id s.stp kind (String.concat "," cex) (ints csz) (List.length data));
        List.iteri (fun k off -> if k < 64 then pr obs (Printf.sprintf "c %s %d %d V=%s" s.id s.stp k (conv_text s tgt off))) data
  end

(* ---------- interpreting one program line ---------- *)

let new_state () = {
  id = ""; stp = 0; dead = false; x = p_embed (z 16) (root_view []); elem = 'S'; tk = TNone; full = true; probes = [];
  mem = { relem = 'S'; nel = 0; epoch = 0; over = Hashtbl.create 16 }; tptr_sliced = false; tptr_citer = false;
  expl_view = false; nwalk = 0 }

let step (s : st) (obs : Buffer.t) (line : string) : unit =
  match words line with
  | [ "case"; c ] ->
      s.id <- c; s.stp <- 0; s.dead <- false; s.probes <- []; s.tk <- TNone; s.full <- true; s.nwalk <- 0;
      s.mem.epoch <- 0; Hashtbl.reset s.mem.over
  | "root" :: el :: _d :: rest ->
      let rec pairs = function a :: b :: t -> (z (int_of_string a), z (int_of_string b)) :: pairs t | _ -> [] in
      let v = root_view (pairs rest) in
      s.x <- p_embed (z 16) v;
      s.elem <- el.[0];
      s.mem.relem <- el.[0];
      s.mem.nel <- i (l_num_elements v.lay);
      pr obs (shape_line s)
  | "op" :: toks when not s.dead ->
      let o = parse_op toks in
      s.stp <- s.stp + 1;
      s.probes <- [];
      if p_dom_op o s.x && op_supported s o then begin
        s.x <- p_exec_op o s.x;
        pr obs (shape_line s)
      end else begin
        pr obs (Printf.sprintf "X %s %d out-of-domain %s" s.id s.stp (String.concat " " toks));
        s.dead <- true
      end
  | "proj" :: kind :: args when not s.dead ->
      s.stp <- s.stp + 1;
      s.probes <- [];
      let args = List.map int_of_string args in
      (match proj_table s kind args with
       | None ->
           pr obs (Printf.sprintf "X %s %d out-of-domain proj %s" s.id s.stp kind);
           s.dead <- true
       | Some (steps, code, tk, full) -> (
           match run_psteps ~constref:(kind_is_c kind) s.x steps with
           | None ->
               pr obs (Printf.sprintf "X %s %d out-of-domain proj %s" s.id s.stp kind);
               s.dead <- true
           | Some x' ->
               s.x <- x'; s.elem <- code; s.tk <- tk; s.full <- full;
               pr obs (shape_line s)))
  | [ "mutate" ] when not s.dead ->
      s.mem.epoch <- 1;
      Hashtbl.reset s.mem.over
  | "probe" :: toks when not s.dead ->
      let idx = List.map int_of_string toks in
      pr obs (probe_line "P" s idx);
      s.probes <- s.probes @ [ idx ]
  | [ "write" ] when not s.dead ->
      let writable = (s.elem = 'I' || s.elem = 'D') && s.tk <> TVal in
      let any = ref false in
      List.iteri
        (fun n idx ->
          if writable && valid_probe s idx then begin
            any := true;
            let off = i (p_addr_brackets s.x (zl idx)) + obs_off s in
            let kw = off / 4 in
            if s.elem = 'I' then Hashtbl.replace s.mem.over kw (Int32.of_int (7000000 + n))
            else begin
              let f = float_of_int (7000000 + n) in
              Hashtbl.replace s.mem.over kw (lo f);
              Hashtbl.replace s.mem.over (kw + 1) (hi f)
            end
          end)
        s.probes;
      pr obs (Printf.sprintf "Wr %s %d writable=%d" s.id s.stp (if !any then 1 else 0));
      let keys = List.sort compare (Hashtbl.fold (fun k _ acc -> k :: acc) s.mem.over []) in
      List.iter
        (fun kw ->
          let v = word s.mem kw in
          if v <> pristine s.mem kw then pr obs (Printf.sprintf "M %s %d %d %s" s.id s.stp kw (Int32.to_string v)))
        keys;
      List.iter (fun idx -> pr obs (probe_line "W" s idx)) s.probes
  | "convert" :: rest when not s.dead -> run_convert s obs (match rest with k :: _ -> k | [] -> "")
  | "walk" :: toks when not s.dead -> run_walk s obs toks
  | [ "end" ] -> pr obs ("E " ^ s.id)
  | _ -> ()

(* what the harness could be built with (compile probes of vlib/c12.py) *)
let flag_tptr_sliced = ref false and flag_tptr_citer = ref false and flag_expl_view = ref false
let fresh_state () =
  let s = new_state () in
  s.tptr_sliced <- !flag_tptr_sliced; s.tptr_citer <- !flag_tptr_citer; s.expl_view <- !flag_expl_view;
  s

let run_text (text : string) (obs : Buffer.t) : unit =
  let s = fresh_state () in
  List.iter (step s obs) (String.split_on_char '\n' text)

(* ---------- generator ---------- *)
(* one candidate operation for the current (model) view; may be out of domain -- caller checks *)
let candidate ?(rebased = false) (v : view) : op option =
  let r = rank v in
  let f, l = let a, b = v_extension v in (i a, i b) in
  let n = i (v_size v) in
  let slice () = let a = rnd_range f l in let b = rnd_range a l in (a, b) in
  let kinds =
    [ (10, `Index); (12, `Sliced); (4, `SlicedS); (7, `Strided); (6, `Dropped); (4, `Taked);
      (12, `Rotated); (6, `Unrotated); (10, `Transposed); (5, `Reversed); (5, `Diagonal);
      (6, `Partitioned); (4, `Chunked); (3, `Halved); (6, `Flatted); (10, `Paren) ]
    @ (if rebased then [ (10, `Reindexed); (6, `Blocked); (5, `ReindexedL) ] else []) in
  match weighted kinds with
  | `Reindexed -> Some (OReindexed (z (if chance 25 then 0 else rnd_range (-3) 3)))
  | `Blocked -> let a, b = slice () in Some (OBlocked (z a, z b))
  | `ReindexedL -> if r >= 2 then Some (OReindexedL (List.init (rnd_range 2 (min r 4)) (fun _ -> z (rnd_range (-3) 3)))) else None
  | `Index -> if r >= 2 && n > 0 then Some (OIndex (z (rnd_range f (l - 1)))) else None
  | `Sliced -> let a, b = slice () in Some (OSliced (z a, z b))
  | `SlicedS ->
      let a, b = slice () in
      if b - a > 0 then Some (OSlicedS (z a, z b, z (pick (divisors (b - a))))) else None
  | `Strided -> if n > 0 then Some (OStrided (z (pick (divisors n)))) else Some (OStrided (z (rnd_range 1 3)))
  | `Dropped -> Some (ODropped (z (rnd_range 0 n)))
  | `Taked -> if r = 1 then Some (OTaked (z (rnd_range 0 n))) else None
  | `Rotated -> Some ORotated
  | `Unrotated -> Some OUnrotated
  | `Transposed -> if r >= 2 then Some OTransposed else None
  | `Reversed -> Some OReversed
  | `Diagonal -> if r >= 2 then Some ODiagonal else None
  | `Partitioned -> if n > 0 && r < maxd then Some (OPartitioned (z (pick (divisors n)))) else None
  | `Chunked -> if n > 0 && r < maxd then Some (OChunked (z (pick (divisors n)))) else None
  | `Halved -> if n > 0 && n mod 2 = 0 && r < maxd then Some OHalved else None
  | `Flatted -> if r >= 2 then Some OFlatted else None
  | `Paren ->
      let k = rnd_range 0 (min 3 r) in
      let exts = List.map (fun (a, b) -> (i a, i b)) (l_extensions v.lay) in
      let rec take k l = if k = 0 then [] else match l with [] -> [] | x :: t -> x :: take (k - 1) t in
      let args =
        List.map
          (fun (f, l) ->
            match weighted [ (4, `I); (4, `R); (2, `A) ] with
            | `I -> if l > f then PIdx (z (rnd_range f (l - 1))) else PAll
            | `R -> let a = rnd_range f l in let b = rnd_range a l in PRange (z a, z b)
            | `A -> PAll)
          (take k exts) in
      let nidx = List.length (List.filter (function PIdx _ -> true | _ -> false) args) in
      if nidx = r then None else Some (OParen args)

let all_idx (exts : (int * int) list) : int list list =
  List.fold_right
    (fun (f, l) acc -> List.concat_map (fun k -> List.map (fun t -> (f + k) :: t) acc) (List.init (max (l - f) 0) (fun k -> k)))
    exts [ [] ]

let gen_probes (v : view) : int list list =
  let exts = List.map (fun (a, b) -> (i a, i b)) (l_extensions v.lay) in
  let total = List.fold_left (fun s (f, l) -> s * max (l - f) 0) 1 exts in
  if total = 0 then []
  else if total <= 12 then all_idx exts
  else
    let corner0 = List.map fst exts and corner1 = List.map (fun (_, l) -> l - 1) exts in
    let rnd_idx () = List.map (fun (f, l) -> rnd_range f (l - 1)) exts in
    corner0 :: corner1 :: List.init 6 (fun _ -> rnd_idx ())

let root_sizes (maxrank : int) (rebased : bool) : (int * int) list =
  let d = min maxrank (weighted [ (3, 1); (5, 2); (4, 3); (1, 4) ]) in
  let special = chance 18 in
  List.init d (fun _ ->
      let n =
        if special && chance 45 then pick [ 0; 1 ]
        else weighted [ (2, 1); (4, 2); (5, 3); (4, 4); (2, 5); (1, 6) ] in
      let f = if rebased && chance 70 then pick [ -3; -2; -1; 1; 2; 3 ] else 0 in
      (f, f + n))

let s_kinds = [ (8, "member_a"); (9, "member_b"); (9, "member_c"); (6, "reint_R"); (5, "reint_Q"); (5, "reint_I");
                (9, "reintn_I 4"); (8, "reintn_D 2"); (4, "reintn_R 1"); (5, "static"); (4, "asconst"); (4, "constcast");
                (7, "tval"); (7, "tmem"); (7, "tref") ]
let z_kinds = [ (8, "zreal"); (8, "zimag"); (7, "zdoubled"); (6, "reint_C"); (6, "reint_D"); (9, "reintn_D 2"); (3, "asconst") ]
let i_kinds = [ (1, "up_Q") ]
let c_kinds = [ (1, "member_re"); (1, "member_im") ]
(* value category through which the projection is called: named view, const&, std::move(view), view() *)
let categories = [ (35, ""); (20, "c_"); (25, "r_"); (20, "t_") ]


(* ---------- generator: iterator walks and conversions on the current view ---------- *)
let gen_walk (s : st) : (string * string list) option =
  let x = s.x in
  let r = rank x.p_view in
  let size = i (v_size x.p_view) in
  let f = i (fst (v_extension x.p_view)) in
  let where = weighted ([ (5, `Lead); (3, `Row); (4, `Flat) ] @ (if s.tk <> TNone then [ (3, `Ptr) ] else [ (1, `Ptr) ])) in
  let target =
    match where with
    | `Lead -> Some ("lead", [ "lead" ], i (v_size x.p_view), r, false)
    | `Row ->
        if r >= 2 && size > 0 then begin
          let k = rnd_range f (f + size - 1) in
          if p_dom_op (OIndex (z k)) x then
            let y = p_index (z k) x in
            Some ("row", [ "row"; string_of_int k ], i (v_size y.p_view), r - 1, false)
          else None
        end else None
    | `Flat -> Some ("flat", [ "flat" ], i (l_num_elements x.p_view.lay), r, true)
    | `Ptr -> let n = min 12 (ptr_room s x) in if n >= 1 then Some ("ptr", [ "ptr"; string_of_int n ], n, r, true) else None in
  match target with
  | None -> None
  | Some (name, head, n, wr, flat) ->
      let is_ptr = (name = "ptr") in
      let const_ok = (not is_ptr) && (flat || s.tk = TNone || wr >= 2 || s.tptr_citer) in
      let start = weighted ([ (3, "b"); (4, "e") ] @ (if const_ok then [ (1, "cb"); (2, "ce") ] else [])) in
      let p = ref (if start = "e" || start = "ce" then n else 0) in
      let toks = ref [] in
      let push l = toks := List.rev_append l !toks in
      let nsteps = if n = 0 then rnd_range 0 1 else rnd_range 3 8 in
      for _ = 1 to nsteps do
        let cands =
          (if !p < n && not is_ptr then [ (3, `Inc); (1, `PInc) ] else [])
          @ (if !p > 0 && not is_ptr then [ (4, `Dec); (2, `PDec) ] else [])
          @ [ (3, `AddEq); (4, `SubEq); (3, `Plus); (4, `Minus) ]
          @ (if n > 0 then [ (3, `Idx) ] else [])
          @ (if !p >= 1 && n > 0 && not is_ptr then [ (3, `R); (2, `RPlus); (2, `RIdx) ] else []) in
        match weighted cands with
        | `Inc -> push [ "++" ]; incr p
        | `PInc -> push [ "p++" ]; incr p
        | `Dec -> push [ "--" ]; decr p
        | `PDec -> push [ "p--" ]; decr p
        | `AddEq -> let k = rnd_range (- !p) (n - !p) in push [ "+="; string_of_int k ]; p := !p + k
        | `Plus -> let k = rnd_range (- !p) (n - !p) in push [ "+"; string_of_int k ]; p := !p + k
        | `SubEq -> let k = rnd_range (!p - n) !p in push [ "-="; string_of_int k ]; p := !p - k
        | `Minus -> let k = rnd_range (!p - n) !p in push [ "-"; string_of_int k ]; p := !p - k
        | `Idx -> let k = rnd_range (- !p) (n - 1 - !p) in push [ "[]"; string_of_int k ]
        | `R -> if !p <= n then push [ "r" ]
        | `RPlus -> let k = rnd_range (!p - n) (!p - 1) in push [ "r+"; string_of_int k ]
        | `RIdx -> let k = rnd_range (!p - n) (!p - 1) in push [ "r[]"; string_of_int k ]
      done;
      Some (name, head @ (start :: List.rev !toks))

let gen_convert (s : st) : string option =
  match List.filter (conv_ok s) all_conv_kinds with
  | [] -> None
  | l ->
      (* favour the explicit-only targets and the array / array_ref sources, which have the most overloads *)
      let weight k = match split_kind k with
        | Some (src, _, _, tgt) -> (if tgt = "we" || tgt = "wa" then 3 else if tgt = "same" then 1 else 2) * (if src = 'a' || src = 'r' then 2 else if src = 'x' then 4 else 1)
        | None -> 1 in
      Some (weighted (List.map (fun k -> (weight k, k)) l))

(* emits one case; returns the list of tags for the distribution printed in the evidence *)
let gen_case (id : string) (maxrank : int) (maxpre : int) (maxpost : int)
    (prog : Buffer.t) (obs : Buffer.t) : string list =
  let s = fresh_state () in
  let tags = ref [] in
  let tag t = tags := t :: !tags in
  let emit line = pr prog line; step s obs line in
  emit ("case " ^ id);
  let rebased = chance 55 in
  let exts = root_sizes maxrank rebased in
  let rebased = List.exists (fun (f, _) -> f <> 0) exts in
  (* reindexed / blocked / reindexed(i,j,..) are in the operation alphabet of every case with a re-based root and of
     a third of the others *)
  let reb_ops = rebased || chance 33 in
  let el = if chance 27 then "Z" else "S" in
  emit (Printf.sprintf "root %s %d %s" el (List.length exts) (join " " (fun (f, l) -> Printf.sprintf "%d %d" f l) exts));
  tag ("root" ^ el);
  tag (if rebased then "root-based" else "root-zero-based");
  let emit_walks (k : int) =
    for _ = 1 to k do
      match gen_walk s with
      | Some (name, toks) ->
          emit ("walk " ^ String.concat " " toks);
          tag ("walk:" ^ name);
          tag (Printf.sprintf "walk:%s:%s" name (match s.tk with TNone -> "raw" | TVal -> "tptr-value" | TMem -> "tptr-member" | TRef -> "tptr-ref"));
          if List.mem "--" toks || List.mem "p--" toks || List.mem "-=" toks || List.mem "-" toks || List.exists (fun t -> String.length t > 0 && t.[0] = 'r') (List.tl toks)
          then tag "walk-backwards"
      | None -> ()
    done in
  let try_ops (n : int) (pre : bool) (limit_rank : int) =
    for _ = 1 to n do
      let rec try_op k =
        if k = 0 then None
        else
          match candidate ~rebased:reb_ops s.x.p_view with
          | Some o
            when p_dom_op o s.x && op_supported s o
                 && (let r' = rank (p_exec_op o s.x).p_view in r' >= 1 && r' <= limit_rank) -> Some o
          | _ -> try_op (k - 1) in
      match try_op 30 with
      | None -> ()
      | Some o ->
          emit ("op " ^ op_text o);
          tag ((if pre then "pre:" else "post:") ^ op_kind o);
          if not pre then begin
            List.iter (fun idx -> emit ("probe " ^ join " " string_of_int idx)) (gen_probes s.x.p_view);
            if chance 35 then emit_walks 1
          end
    done in
  (* source view: a C01-style program (padded sub-blocks, non-unit strides, sizes 0 and 1) *)
  let npre = rnd_range 0 maxpre in
  try_ops npre true maxd;
  tag (Printf.sprintf "npre%d" npre);
  let nproj = if chance 30 then 2 else 1 in
  let did = ref 0 in
  for _ = 1 to nproj do
    let table = match s.elem with 'S' -> s_kinds | 'Z' -> z_kinds | 'C' -> c_kinds | 'I' -> i_kinds | _ -> [] in
    if table <> [] && s.tk = TNone then begin
      let rec try_kind k =
        if k = 0 then None
        else
          let kind = weighted categories ^ weighted table in
          match words kind with
          | name :: args -> (
              match proj_table s name (List.map int_of_string args) with
              | Some (steps, _, _, _) when run_psteps ~constref:(kind_is_c name) s.x steps <> None -> Some kind
              | _ -> try_kind (k - 1))
          | [] -> None in
      match try_kind 40 with
      | None -> ()
      | Some kind ->
          let src_rank = rank s.x.p_view in
          (* index bases of the SOURCE view (dimensions with at least one index): any negative / only positive / all zero,
             and whether the leading one is non-zero *)
          let src_firsts = List.filter_map (fun (f, l) -> if i l > i f then Some (i f) else None) (l_extensions s.x.p_view.lay) in
          let src_base = if List.exists (fun f -> f < 0) src_firsts then "neg" else if List.exists (fun f -> f > 0) src_firsts then "pos" else "zero" in
          let src_lead = match l_extensions s.x.p_view.lay with (f, l) :: _ when i l > i f && i f <> 0 -> "leadnz" | _ -> "lead0" in
          emit ("proj " ^ kind);
          incr did;
          let name = List.hd (words kind) in
          let cat, bare =
            if String.length name > 2 && name.[1] = '_' && List.mem name.[0] [ 'c'; 'r'; 't' ]
            then (String.make 1 name.[0], String.sub name 2 (String.length name - 2)) else ("l", name) in
          tag ("proj:" ^ bare);
          (* (projection kind x value category x rank class of the SOURCE view) table of the evidence *)
          tag (Printf.sprintf "vc:%s:%s:%s" bare cat (if src_rank = 1 then "D1" else "Dn"));
          tag (Printf.sprintf "srcbase:%s:%s:%s:%s:%s" bare cat (if src_rank = 1 then "D1" else "Dn") src_base src_lead);
          List.iter (fun idx -> emit ("probe " ^ join " " string_of_int idx)) (gen_probes s.x.p_view);
          if rebased then tag ("proj-on-based:" ^ bare);
          if List.exists (fun (f, _) -> i f <> 0) (l_extensions s.x.p_view.lay) then tag ("proj-view-has-nonzero-base:" ^ bare);
          emit_walks (if chance 60 then 1 else 0);
          let npost = rnd_range 0 maxpost in
          tag (Printf.sprintf "npost%d" npost);
          try_ops npost false maxd
    end
  done;
  if !did > 0 then begin
    let sizes = il (l_sizes s.x.p_view.lay) in
    List.iter (fun n -> if n = 0 then tag "size0" else if n = 1 then tag "size1") sizes;
    let stv = il (l_strides s.x.p_view.lay) in
    if List.exists2 (fun st n -> n >= 2 && st = 1) stv sizes then tag "unit-stride-dim";
    (* laziness: the storage changes after the views were formed, then everything is read again *)
    if chance 35 then begin
      emit "mutate";
      tag "mutate";
      emit "op rotated";   (* a step boundary, so that the probes after the mutation form their own group *)
      tag "post:rotated";
      List.iter (fun idx -> emit ("probe " ^ join " " string_of_int idx)) (gen_probes s.x.p_view)
    end;
    if (s.elem = 'I' || s.elem = 'D') && s.tk <> TVal && chance 40 then begin emit "write"; tag "write" end;
    emit_walks (weighted [ (25, 0); (45, 1); (30, 2) ]);
    if chance 55 then begin
      for _ = 1 to rnd_range 1 3 do
        match gen_convert s with
        | None -> ()
        | Some kind ->
            emit ("convert " ^ kind);
            (* outer size <> 0 with a zero inner extent: the branch of the flat iterator's constructor that used to divide by 0 *)
            let inner0 = match sizes with n :: rest -> n <> 0 && List.exists (fun m -> m = 0) rest | [] -> false in
            tag (if inner0 then "convert-outer-nonzero-inner-zero" else "convert");
            (match split_kind kind with
             | Some (src, cat, how, tgt) ->
                 tag (Printf.sprintf "conv-src:%c%c" src cat); tag ("conv-how:" ^ how); tag ("conv-tgt:" ^ tgt);
                 let nzb = List.exists (fun (f, _) -> i f <> 0) (l_extensions s.x.p_view.lay) in
                 tag (Printf.sprintf "conv:%s:%c:%s" kind (if s.tk = TVal then 'L' else s.elem) (if nzb then "b" else "z"));
                 if nzb then tag ("conv-nonzero-base-tgt:" ^ tgt)
             | None -> ())
      done
    end
  end;
  emit "end";
  List.rev !tags

(* ---------- entry point ---------- *)
let usage () =
  prerr_endline "usage: driver_c12 <gen|run> --seed S --count N --prog FILE --obs FILE [--maxrank R] [--maxpre N] [--maxpost N] [--tptr-sliced 0|1] [--tptr-citer 0|1] [--expl-view 0|1] [--prefix p]";
  exit 2

let () =
  if Array.length Sys.argv < 2 then usage ();
  let cmd = Sys.argv.(1) in
  let args = Array.to_list (Array.sub Sys.argv 2 (Array.length Sys.argv - 2)) in
  let rec get k d = function [] -> d | a :: b :: _ when a = k -> b | _ :: t -> get k d t in
  let geti k d = int_of_string (get k (string_of_int d) args) in
  let sd = geti "--seed" 1 and count = geti "--count" 100 in
  C12_zu.seed sd;
  flag_tptr_sliced := (geti "--tptr-sliced" 0 = 1);
  flag_tptr_citer := (geti "--tptr-citer" 0 = 1);
  flag_expl_view := (geti "--expl-view" 0 = 1);
  let prog = Buffer.create 65536 and obs = Buffer.create 65536 in
  let write f b = let oc = open_out f in Buffer.output_buffer oc b; close_out oc in
  let hist : (string, int) Hashtbl.t = Hashtbl.create 64 in
  let bump k = Hashtbl.replace hist k (1 + try Hashtbl.find hist k with Not_found -> 0) in
  (match cmd with
   | "gen" ->
       let prefix = get "--prefix" "p" args in
       for k = 1 to count do
         let tags =
           gen_case (Printf.sprintf "%s%d" prefix k) (geti "--maxrank" 4) (geti "--maxpre" 4) (geti "--maxpost" 3) prog obs in
         List.iter bump tags
       done;
       write (get "--prog" "prog.txt" args) prog
   | "run" ->
       let ic = open_in (get "--prog" "prog.txt" args) in
       let n = in_channel_length ic in
       let text = really_input_string ic n in
       close_in ic;
       run_text text obs
   | _ -> usage ());
  write (get "--obs" "obs.txt" args) obs;
  let items = List.sort compare (Hashtbl.fold (fun k v acc -> (k, v) :: acc) hist []) in
  print_string "{";
  print_string (String.concat ", " (List.map (fun (k, v) -> Printf.sprintf "\"%s\": %d" k v) items));
  print_endline "}"

(* C14 driver: generator of LAPACK-adaptor cases + runner of the extracted marshalling model
   (coq/Model/Lapack.v, extracted by coq/Extract/ExtractC14.v as Modelc14).
   Hand-written and trusted (DESIGN.md section 6.5).  All randomness derives from --seed.

   usage: driver_c14 gen --seed S --count N --prog FILE --obs FILE [--maxn K] [--prefix P] [--syev 0|1]
          driver_c14 run --prog FILE --obs FILE
   A case is a block of text:
     case <id> / routine potrf|geqrf|gesvd|syev / form K / mat NAME R C r0 c0 nr nc t /
     vec NAME len off n / uplo U|L / kind spd | minor K | rand | sym / vseed S / end
   The observation lines (second token = case id) are what harness/h_lapack.cpp prints too. *)
open Modelc14

(* ---- conversions between OCaml int and the extracted Z ---- *)
let rec pos_of_int (n : int) : positive =
  if n <= 1 then XH else if n land 1 = 0 then XO (pos_of_int (n lsr 1)) else XI (pos_of_int (n lsr 1))
let rec int_of_pos (p : positive) : int =
  match p with XH -> 1 | XO q -> 2 * int_of_pos q | XI q -> 2 * int_of_pos q + 1
let z (n : int) : z = if n = 0 then Z0 else if n > 0 then Zpos (pos_of_int n) else Zneg (pos_of_int (-n))
let i (x : z) : int = match x with Z0 -> 0 | Zpos p -> int_of_pos p | Zneg p -> - (int_of_pos p)

(* ---- PRNG ---- *)
let rng = ref (Random.State.make [| 0 |])
let seed s = rng := Random.State.make [| s; 0xc14 |]
let rnd n = if n <= 0 then 0 else Random.State.int !rng n
let rnd_range a b = a + rnd (b - a + 1)
let chance pct = rnd 100 < pct
let weighted (l : (int * 'a) list) : 'a =
  let tot = List.fold_left (fun s (w, _) -> s + w) 0 l in
  let r = ref (rnd tot) in
  let res = ref (snd (List.hd l)) in
  (try List.iter (fun (w, x) -> if !r < w then (res := x; raise Exit) else r := !r - w) l with Exit -> ());
  !res

(* ---- cases ---- *)
type opnd2 = { name : string; rr : int; cc : int; r0 : int; c0 : int; nr : int; nc : int; t : bool; is : int }
(* is: inner-stride multiplier; is <> 1 describes a view OUTSIDE the documented domain (a probe) *)
type opnd1 = { vname : string; len : int; off : int; n : int }
type kind = Spd | Minor of int | Rand | Sym
type case = { id : string; routine : string; form : int; mats : opnd2 list; vecs : opnd1 list;
              uplo : filling; kind : kind; vseed : int }

let mat_of (o : opnd2) : mat = mk_operand (z o.cc) (z o.r0) (z o.c0) (z o.nr) (z o.nc) o.t
let vec_of (o : opnd1) : vec = { vc_base = z o.off; vc_s = z 1; vc_n = z o.n }
let find_mat c nm = List.find (fun o -> o.name = nm) c.mats
let find_vec c nm = List.find (fun o -> o.vname = nm) c.vecs

let case_text (c : case) : string =
  let b = Buffer.create 256 in
  Printf.bprintf b "case %s\nroutine %s\nform %d\n" c.id c.routine c.form;
  List.iter (fun o -> Printf.bprintf b "mat %s %d %d %d %d %d %d %d%s\n" o.name o.rr o.cc o.r0 o.c0 o.nr o.nc
                        (if o.t then 1 else 0) (if o.is = 1 then "" else Printf.sprintf " %d" o.is)) c.mats;
  List.iter (fun o -> Printf.bprintf b "vec %s %d %d %d\n" o.vname o.len o.off o.n) c.vecs;
  Printf.bprintf b "uplo %s\n" (match c.uplo with Upper -> "U" | Lower -> "L");
  (match c.kind with
   | Spd -> Buffer.add_string b "kind spd\n" | Minor k -> Printf.bprintf b "kind minor %d\n" k
   | Rand -> Buffer.add_string b "kind rand\n" | Sym -> Buffer.add_string b "kind sym\n");
  Printf.bprintf b "vseed %d\nend\n" c.vseed;
  Buffer.contents b

let parse_cases (text : string) : case list =
  let lines = String.split_on_char '\n' text in
  let cur = ref None and out = ref [] in
  let empty id = { id; routine = ""; form = 0; mats = []; vecs = []; uplo = Upper; kind = Rand; vseed = 0 } in
  List.iter (fun line ->
      let ws = List.filter (fun s -> s <> "") (String.split_on_char ' ' (String.trim line)) in
      match ws, !cur with
      | ("case" :: id :: _), _ -> cur := Some (empty id)
      | ["end"], Some c -> out := { c with mats = List.rev c.mats; vecs = List.rev c.vecs } :: !out; cur := None
      | ["routine"; r], Some c -> cur := Some { c with routine = r }
      | ["form"; f], Some c -> cur := Some { c with form = int_of_string f }
      | ("mat" :: nm :: rr :: cc :: r0 :: c0 :: nr :: nc :: t :: rest), Some c ->
          let o = { name = nm; rr = int_of_string rr; cc = int_of_string cc; r0 = int_of_string r0;
                    c0 = int_of_string c0; nr = int_of_string nr; nc = int_of_string nc; t = (t = "1");
                    is = (match rest with [ k ] -> int_of_string k | _ -> 1) } in
          cur := Some { c with mats = o :: c.mats }
      | ["vec"; nm; len; off; n], Some c ->
          let o = { vname = nm; len = int_of_string len; off = int_of_string off; n = int_of_string n } in
          cur := Some { c with vecs = o :: c.vecs }
      | ["uplo"; u], Some c -> cur := Some { c with uplo = (if u = "U" then Upper else Lower) }
      | ["kind"; "spd"], Some c -> cur := Some { c with kind = Spd }
      | ["kind"; "minor"; k], Some c -> cur := Some { c with kind = Minor (int_of_string k) }
      | ["kind"; "rand"], Some c -> cur := Some { c with kind = Rand }
      | ["kind"; "sym"], Some c -> cur := Some { c with kind = Sym }
      | ["vseed"; s], Some c -> cur := Some { c with vseed = int_of_string s }
      | _ -> ()) lines;
  List.rev !out

(* ---- the model's observations ---- *)
let qsent = 1000003                       (* stands for "the lwork the query answered" *)
let lw n = if n = qsent then "Q" else string_of_int n
let fch = function FU -> 'U' | FL -> 'L'
let b01 b = if b then 1 else 0
let workp_s = function WLocal -> "local" | WAlloc -> "alloc"
let view_line b id nm (v : mat) =
  Printf.bprintf b "V %s base=%s+%d strides=%d,%d sizes=%d,%d\n" id nm (i v.m_base) (i v.m_s0) (i v.m_s1) (i v.m_n0) (i v.m_n1)

let run_case (b : Buffer.t) (c : case) : unit =
  let id = c.id in
  if List.exists (fun o -> o.is <> 1) c.mats then Printf.bprintf b "D %s out-of-domain probe\n" id else
  (match c.routine with
   | "potrf" ->
       let v = mat_of (find_mat c "A") in
       if c.form >= 100 then begin
         (* iterator-level potrf(uplo, first, last) on the leading sub-range [begin, begin + k) of a row-major view
            (potrf.hpp:21-35): LAPACK's order is the LENGTH OF THE RANGE, the matrix starts at first.base() with lda = stride(first) *)
         let k = c.form - 100 in
         let first = m_begin v in
         let last = it_plus first (z k) in
         if not (potrf_it_asrt first last) || k < 0 || k > i v.m_n0 || i v.m_n0 <> i v.m_n1 then Printf.bprintf b "D %s out-of-domain\n" id
         else begin
           let pc = potrf_it_call c.uplo first last in
           Printf.bprintf b "L %s dpotrf uplo=%c n=%d a=A+%d lda=%d legal=%d\n" id (fch pc.pc_uplo) (i pc.pc_n)
             (i pc.pc_a) (i pc.pc_lda) (b01 (potrf_legal pc));
           let info = match c.kind with Minor m when m <= k -> m | _ -> 0 in
           Printf.bprintf b "I %s info=%d\n" id info;
           Printf.bprintf b "R %s ret=%d\n" id (i (it_distance first (potrf_it_ret first last (z info))))
         end end else
       if not (potrf_dom v) then Printf.bprintf b "D %s out-of-domain\n" id
       else begin
         let pc = potrf_call_of c.uplo v in
         Printf.bprintf b "L %s dpotrf uplo=%c n=%d a=A+%d lda=%d legal=%d\n" id (fch pc.pc_uplo) (i pc.pc_n)
           (i pc.pc_a) (i pc.pc_lda) (b01 (potrf_legal pc));
         let info = match c.kind with Minor k -> k | _ -> 0 in
         Printf.bprintf b "I %s info=%d\n" id info;
         view_line b id "A" (potrf_ret v (z info))
       end
   | "geqrf" ->
       let aa = mat_of (find_mat c "A") and tau = vec_of (find_vec c "T") in
       if not (geqrf_dom aa tau) then Printf.bprintf b "D %s out-of-domain\n" id
       else begin
         List.iter (function
             | EvCall (g : geqrf_call) ->
                 let w = if c.form = 2 && g.gq_work = WAlloc then "other" else workp_s g.gq_work in
                 Printf.bprintf b "L %s dgeqrf m=%d n=%d a=A+%d lda=%d tau=T+%d work=%s lwork=%s legal=%d\n" id
                   (i g.gq_m) (i g.gq_n) (i g.gq_a) (i g.gq_lda) (i g.gq_tau) w (lw (i g.gq_lwork)) (b01 (geqrf_legal g))
             | EvAlloc n -> if c.form = 3 then Printf.bprintf b "W %s alloc %s\n" id (lw (i n))
             | EvDealloc n -> if c.form = 3 then Printf.bprintf b "W %s dealloc %s\n" id (lw (i n))
             | EvThrow -> Printf.bprintf b "X %s throw\n" id)
           (geqrf_trace aa tau (z 0) (z qsent) (z 0));
         view_line b id "A" (geqrf_ret aa)
       end
   | "gesvd" ->
       let (aa, uu, ss, vv), an =
         if c.form = 1 then
           (let o = find_mat c "A" in
            let (((a, u), s), v) = gesvd_value_operands (z o.nr) (z o.nc) in ((a, u, s, v), "tmp"))
         else ((mat_of (find_mat c "A"), mat_of (find_mat c "U"), vec_of (find_vec c "S"), mat_of (find_mat c "V")), "A") in
       if not (gesvd_dom aa uu ss vv) then Printf.bprintf b "D %s out-of-domain\n" id
       else
         List.iter (function
             | EvCall (g : gesvd_call) ->
                 let w = if c.form <> 5 && g.gs_work = WAlloc then "other" else workp_s g.gs_work in
                 let a_s = if an = "tmp" then "tmp" else Printf.sprintf "A+%d" (i g.gs_a) in
                 Printf.bprintf b "L %s dgesvd jobu=%c jobvt=%c m=%d n=%d a=%s lda=%d s=S+%d u=V+%d ldu=%d vt=U+%d ldvt=%d work=%s lwork=%s legal=%d\n"
                   id (if g.gs_jobu_all then 'A' else '?') (if g.gs_jobvt_all then 'A' else '?') (i g.gs_m) (i g.gs_n)
                   a_s (i g.gs_lda) (i g.gs_s) (i g.gs_u) (i g.gs_ldu) (i g.gs_vt) (i g.gs_ldvt) w
                   (lw (i g.gs_lwork)) (b01 (gesvd_legal g))
             | EvAlloc n -> if c.form = 5 then Printf.bprintf b "W %s alloc %s\n" id (lw (i n))
             | EvDealloc n -> if c.form = 5 then Printf.bprintf b "W %s dealloc %s\n" id (lw (i n))
             | EvThrow -> Printf.bprintf b "X %s throw\n" id)
           (gesvd_trace aa uu ss vv (z 0) (z qsent) (z 0))
   | "syev" ->
       let a = mat_of (find_mat c "A") and w = vec_of (find_vec c "W") in
       let work, wn =
         if c.form = 3 then ({ vc_base = z 0; vc_s = z 1; vc_n = syev_work_size a.m_n0 }, "tmp")
         else (vec_of (find_vec c "K"), "K") in
       if not (syev_dom a w work) then Printf.bprintf b "D %s out-of-domain\n" id
       else begin
         (match syev_step_of c.uplo a w work with
          | SyNoCall -> ()
          | SyAssertFails -> Printf.bprintf b "X %s assert\n" id
          | SyCall s ->
              let ws = if wn = "tmp" then "tmp" else Printf.sprintf "K+%d" (i s.sy_work) in
              Printf.bprintf b "L %s dsyev jobz=%c uplo=%c n=%d a=A+%d lda=%d w=W+%d work=%s lwork=%d legal=%d\n" id
                (if s.sy_jobz_v then 'V' else '?') (fch s.sy_uplo) (i s.sy_n) (i s.sy_a) (i s.sy_lda) (i s.sy_w) ws
                (i s.sy_lwork) (b01 (syev_legal s));
              Printf.bprintf b "I %s info=0\n" id);
         view_line b id "A" (syev_ret a (z 0))
       end
   | r -> Printf.bprintf b "D %s unknown-routine %s\n" id r);
  Printf.bprintf b "E %s\n" id

(* ---- generator ---- *)
let gen_size maxn =
  let n = weighted [ (14, 1); (14, 2); (14, 3); (14, 4); (11, 5); (11, 6); (8, 7); (7, 8); (7, 9) ] in
  if n = 9 then rnd_range 9 (max 9 maxn) else min n maxn

(* an nr x nc block inside a root; returns the operand and a tag for the distribution *)
let gen_block name nr nc allow_t =
  let contiguous = chance 35 in
  let r0, c0, er, ec =
    if contiguous then (0, 0, 0, 0)
    else
      let r0 = rnd 3 and c0 = rnd 4 and er = rnd 3 and ec = rnd 4 in
      if r0 + c0 + er + ec = 0 then (0, 1, 0, 1) else (r0, c0, er, ec) in
  let t = allow_t && chance 50 in
  ({ name; rr = max (r0 + nr + er) (r0 + 1); cc = max 1 (c0 + nc + ec); r0; c0; nr; nc; t; is = 1 },
   (if contiguous then "contig" else "padded") ^ (if t then "-colmajor" else "-rowmajor"))

let gen_vec vname n =
  if chance 40 then { vname; len = max 1 n; off = 0; n } else let off = rnd 3 in { vname; len = off + n + rnd 3 + 1; off; n }

let gen_case (maxn : int) (with_syev : bool) (id : string) : case * string list =
  let routine = weighted ([ (40, "potrf"); (20, "geqrf"); (25, "gesvd") ] @ (if with_syev then [ (20, "syev") ] else [])) in
  let uplo = if chance 50 then Upper else Lower in
  let vseed = rnd 1000000 in
  match routine with
  | "potrf" ->
      let n = if chance 4 then 0 else gen_size maxn in
      let a, tag = gen_block "A" n n true in
      let kind = if n > 0 && chance 40 then Minor (rnd_range 1 n) else Spd in
      let form = if n > 0 && not a.t && a.is = 1 && chance 25 then 100 + rnd_range 0 n else 2 in
      ({ id; routine; form; mats = [ a ]; vecs = []; uplo; kind; vseed },
       (if form >= 100 then [ "potrf-iterator-range"; (if form - 100 < n then "potrf-proper-subrange" else "potrf-whole-range") ] else []) @
       [ "potrf"; "potrf-" ^ tag; "potrf-" ^ (match uplo with Upper -> "upper" | Lower -> "lower");
         (match kind with Minor _ -> "potrf-minor" | _ -> "potrf-spd"); Printf.sprintf "n=%d" n ])
  | "geqrf" when chance 2 ->
      (* probe outside the documented domain: every other column of a block (inner stride 2) *)
      let r = rnd_range 2 4 and c = rnd_range 2 4 in
      let a = { name = "A"; rr = r + 1; cc = 2 * c + 1; r0 = 0; c0 = 0; nr = r; nc = c; t = false; is = 2 } in
      ({ id; routine; form = 3; mats = [ a ]; vecs = [ { vname = "T"; len = min r c; off = 0; n = min r c } ]; uplo; kind = Rand; vseed },
       [ "probe-geqrf-inner-stride-2" ])
  | "geqrf" ->
      let r = gen_size maxn and c = gen_size maxn in
      let a, tag = gen_block "A" r c false in
      let form = if chance 70 then 3 else 2 in
      ({ id; routine; form; mats = [ a ]; vecs = [ gen_vec "T" (min r c) ]; uplo; kind = Rand; vseed },
       [ "geqrf"; "geqrf-" ^ tag; Printf.sprintf "geqrf-form%d" form;
         (if r = c then "geqrf-square" else if r < c then "geqrf-wide" else "geqrf-tall"); Printf.sprintf "n=%d" (max r c) ])
  | "gesvd" ->
      let r = gen_size maxn and c = gen_size maxn in
      let form = weighted [ (55, 5); (25, 4); (20, 1) ] in
      if form = 1 then
        ({ id; routine; form; mats = [ { name = "A"; rr = r; cc = c; r0 = 0; c0 = 0; nr = r; nc = c; t = false; is = 1 } ];
           vecs = []; uplo; kind = Rand; vseed },
         [ "gesvd"; "gesvd-form1-byvalue"; (if r = c then "gesvd-square" else if r < c then "gesvd-wide" else "gesvd-tall");
           Printf.sprintf "n=%d" (max r c) ])
      else
        let a, tag = gen_block "A" r c false in
        let u, _ = gen_block "U" r r false in
        let v, _ = gen_block "V" c c false in
        ({ id; routine; form; mats = [ a; u; v ]; vecs = [ gen_vec "S" (min r c) ]; uplo; kind = Rand; vseed },
         [ "gesvd"; "gesvd-" ^ tag; Printf.sprintf "gesvd-form%d" form;
           (if r = c then "gesvd-square" else if r < c then "gesvd-wide" else "gesvd-tall"); Printf.sprintf "n=%d" (max r c) ])
  | _ ->
      let n = gen_size maxn in
      let a, tag = gen_block "A" n n true in
      let form = if chance 60 then 4 else 3 in
      let k = let need = max 1 (3 * n - 1) in let off = rnd 3 in
        { vname = "K"; len = off + need + rnd 4 + 1; off; n = need + (if chance 50 then 0 else rnd 4) } in
      let k = { k with len = max k.len (k.off + k.n) } in
      ({ id; routine = "syev"; form; mats = [ a ]; vecs = [ gen_vec "W" n ] @ (if form = 4 then [ k ] else []);
         uplo; kind = Sym; vseed },
       [ "syev"; "syev-" ^ tag; Printf.sprintf "syev-form%d" form;
         "syev-" ^ (match uplo with Upper -> "upper" | Lower -> "lower"); Printf.sprintf "n=%d" n ])

(* ---- entry point ---- *)
let () =
  let usage () = prerr_endline "usage: driver_c14 <gen|run> --seed S --count N --prog FILE --obs FILE"; exit 2 in
  if Array.length Sys.argv < 2 then usage ();
  let cmd = Sys.argv.(1) in
  let args = Array.to_list (Array.sub Sys.argv 2 (Array.length Sys.argv - 2)) in
  let rec get k d = function [] -> d | a :: b :: _ when a = k -> b | _ :: t -> get k d t in
  let geti k d = int_of_string (get k (string_of_int d) args) in
  let write f b = let oc = open_out f in Buffer.output_buffer oc b; close_out oc in
  let prog = Buffer.create 65536 and obs = Buffer.create 65536 in
  let hist : (string, int) Hashtbl.t = Hashtbl.create 64 in
  let bump k = Hashtbl.replace hist k (1 + try Hashtbl.find hist k with Not_found -> 0) in
  (match cmd with
   | "gen" ->
       seed (geti "--seed" 1);
       let maxn = geti "--maxn" 9 and with_syev = geti "--syev" 1 = 1 in
       let prefix = get "--prefix" "c" args in
       for k = 1 to geti "--count" 100 do
         let c, tags = gen_case maxn with_syev (Printf.sprintf "%s%d" prefix k) in
         Buffer.add_string prog (case_text c);
         run_case obs c;
         List.iter bump tags
       done;
       write (get "--prog" "prog.txt" args) prog
   | "run" ->
       let ic = open_in (get "--prog" "prog.txt" args) in
       let text = really_input_string ic (in_channel_length ic) in
       close_in ic;
       List.iter (fun c -> run_case obs c; bump c.routine) (parse_cases text)
   | _ -> usage ());
  write (get "--obs" "obs.txt" args) obs;
  let items = List.sort compare (Hashtbl.fold (fun k v acc -> (k, v) :: acc) hist []) in
  print_string "{";
  print_string (String.concat ", " (List.map (fun (k, v) -> Printf.sprintf "\"%s\": %d" k v) items));
  print_endline "}"

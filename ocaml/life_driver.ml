(* Driver of the lifecycle machine (C04, C06, C08, C09, C10): history generator + model runner.
   Hand-written and trusted (DESIGN.md section 6.5).  The history text is the interface shared with
   harness/h_life.cpp; observation lines have the same format on both sides.
     driver_life gen --seed S --count N --kind c04|c06|c08|c09|c10 --cfg "d=2 t=1 ..." --maxops M --prefix P [--faults F]
     driver_life run            (history text on stdin, observations on stdout)
   All randomness derives from --seed. *)
open Modellife

(* ---------- conversions between OCaml int and the extracted Z / positive / nat ---------- *)
let rec pos_of_int (n : int) : positive =
  if n <= 1 then XH else if n land 1 = 0 then XO (pos_of_int (n lsr 1)) else XI (pos_of_int (n lsr 1))
let rec int_of_pos (p : positive) : int =
  match p with XH -> 1 | XO q -> 2 * int_of_pos q | XI q -> 2 * int_of_pos q + 1
let z (n : int) : z = if n = 0 then Z0 else if n > 0 then Zpos (pos_of_int n) else Zneg (pos_of_int (-n))
let i (x : z) : int = match x with Z0 -> 0 | Zpos p -> int_of_pos p | Zneg p -> - (int_of_pos p)
let rec int_of_nat (n : nat) : int = match n with O -> 0 | S m -> 1 + int_of_nat m
let rec nat_of_int (n : int) : nat = if n <= 0 then O else S (nat_of_int (n - 1))
let zl l = List.map z l
let il l = List.map i l
let ints l = String.concat "," (List.map string_of_int l)

let rng = ref (Random.State.make [| 0 |])
let seed s = rng := Random.State.make [| s; 0x11fe |]
let rnd n = if n <= 0 then 0 else Random.State.int !rng n
let rnd_range a b = a + rnd (b - a + 1)
let pick l = List.nth l (rnd (List.length l))
let weighted (l : (int * 'a) list) : 'a =
  let l = List.filter (fun (w, _) -> w > 0) l in
  let tot = List.fold_left (fun s (w, _) -> s + w) 0 l in
  let r = ref (rnd tot) in
  let res = ref (snd (List.hd l)) in
  (try List.iter (fun (w, x) -> if !r < w then (res := x; raise Exit) else r := !r - w) l with Exit -> ());
  !res
let chance pct = rnd 100 < pct

(* ---------- configuration ---------- *)
type hcfg = { d : int; t : int; pocca : bool; pocma : bool; pocs : bool; ae : bool; pmr : bool; soccm : int }

let parse_cfg (s : string) : hcfg =
  let c = ref { d = 2; t = 1; pocca = false; pocma = false; pocs = false; ae = false; pmr = false; soccm = 0 } in
  List.iter (fun tok ->
    match String.split_on_char '=' tok with
    | [k; v] ->
      let n = int_of_string v in
      (match k with
       | "d" -> c := { !c with d = n } | "t" -> c := { !c with t = n }
       | "pocca" -> c := { !c with pocca = n <> 0 } | "pocma" -> c := { !c with pocma = n <> 0 }
       | "pocs" -> c := { !c with pocs = n <> 0 } | "ae" -> c := { !c with ae = n <> 0 }
       | "pmr" -> c := { !c with pmr = n <> 0 } | "socc" -> c := { !c with soccm = n }
       | _ -> ())
    | _ -> ()) (String.split_on_char ' ' s);
  !c
let cfg_text (c : hcfg) =
  let b x = if x then 1 else 0 in
  Printf.sprintf "d=%d t=%d pocca=%d pocma=%d pocs=%d ae=%d pmr=%d socc=%d" c.d c.t (b c.pocca) (b c.pocma) (b c.pocs) (b c.ae) (b c.pmr) c.soccm
(* element kinds: 0 int, 1 tracked class, 2 struct{int v = 0;} (not trivially default constructible, trivially destructible
   and copyable), 3 trivial default constructor with user-provided copy operations, 4 tracked class with a noexcept move
   assignment (same model as 1) *)
let tracked (c : hcfg) = (c.t = 1 || c.t = 4)
let mcfg (c : hcfg) : config =
  { c_rank = nat_of_int c.d;
    c_tdc = (c.t = 0 || c.t = 3); c_tdx = not (tracked c); c_quiet = not (tracked c);
    c_pocca = c.pocca; c_pocma = c.pocma; c_pocs = c.pocs; c_ae = c.ae;
    c_socc = (match c.soccm with 1 -> SoccChild | 2 -> SoccDefault | _ -> SoccSame) }

(* ---------- history text -> model operations ---------- *)
exception Skip of string      (* the operation is not applicable in the current state: both sides skip it *)

let slot_of (s : string) : int = int_of_string (String.sub s 1 (String.length s - 1))
let get_arr_opt (st : state) (r : int) : arr option =
  match List.nth_opt st.s_arrs r with Some (Some a) -> Some a | _ -> None
let need_live st r = match get_arr_opt st r with Some a -> a | None -> raise (Skip "slot-not-live")
let need_free st r = match get_arr_opt st r with None -> () | Some _ -> raise (Skip "slot-live")

let rec split_bar (l : string list) : string list * string list =
  match l with
  | [] -> ([], [])
  | "|" :: rest -> ([], rest)
  | x :: rest -> let (a, b) = split_bar rest in (x :: a, b)

let rec parse_viewops (l : string list) : op list =
  match l with
  | [] -> []
  | "|" :: r -> parse_viewops r
  | "rot" :: r -> ORotated :: parse_viewops r
  | "unrot" :: r -> OUnrotated :: parse_viewops r
  | "rev" :: r -> OReversed :: parse_viewops r
  | "tr" :: r -> OTransposed :: parse_viewops r
  | "sl" :: a :: b :: r -> OSliced (z (int_of_string a), z (int_of_string b)) :: parse_viewops r
  | "ss" :: a :: b :: s :: r -> OSlicedS (z (int_of_string a), z (int_of_string b), z (int_of_string s)) :: parse_viewops r
  | "st" :: s :: r -> OStrided (z (int_of_string s)) :: parse_viewops r
  | x :: _ -> failwith ("view op " ^ x)

(* extensions of an array as (first, size) pairs *)
let arr_bx_l (a : arr) : (int * int) list = List.map2 (fun f n -> (i f, i n)) a.a_first a.a_exts

(* the view of a live array: extensions of the view and offsets of its elements in canonical order *)
let view_src (a : arr) (ops : op list) : vsrc =
  let ops = if i (nel a) = 0 then [] else ops in      (* views of an empty array are not sliced (null base) *)
  match run_ops ops (root_view (List.map (fun (f, n) -> (z f, z (f + n))) (arr_bx_l a))) with
  | None -> raise (Skip "view-out-of-domain")
  | Some v -> view_vsrc v      (* Model/LifeView.v, extracted: the function C04_view_sources_compose is about *)

let take_n n l = List.filteri (fun k _ -> k < n) l
let drop_n n l = List.filteri (fun k _ -> k >= n) l

let parse_rows (d : int) (l : string list) : rows =
  let nums = List.map int_of_string l in
  let k = List.hd nums in
  let ie = take_n (d - 1) (List.tl nums) in
  let vals = drop_n (d - 1) (List.tl nums) in
  { rw_k = z k; rw_ie = zl ie; rw_vals = zl vals }

let parse_op (c : hcfg) (st : state) (toks : string list) : lop =
  let d = c.d in
  let n s = nat_of_int (slot_of s) in
  let zi s = z (int_of_string s) in
  (* an extent token is "n" for [0,n) or "f:l" for [f,l) *)
  let ext_tok t = match String.split_on_char ':' t with
    | [f; l] -> (z (int_of_string f), z (int_of_string l - int_of_string f))
    | _ -> (Z0, z (int_of_string t)) in
  let exts_and_rest l = (List.map ext_tok (take_n d l), drop_n d l) in
  match toks with
  | "ctor_default" :: r :: a :: _ -> need_free st (slot_of r); OCtorDefault (n r, zi a)
  | "ctor_sized" :: r :: a :: rest -> need_free st (slot_of r); let (x, _) = exts_and_rest rest in OCtorSized (n r, zi a, x)
  | "ctor_fill" :: r :: a :: rest -> need_free st (slot_of r); let (x, rr) = exts_and_rest rest in OCtorFill (n r, zi a, x, zi (List.hd rr))
  | ("ctor_copy" | "uplus") :: r :: s :: _ -> need_free st (slot_of r); ignore (need_live st (slot_of s)); OCtorCopy (n r, n s)
  | "ctor_copy_alloc" :: r :: s :: a :: _ -> need_free st (slot_of r); ignore (need_live st (slot_of s)); OCtorCopyAlloc (n r, n s, zi a)
  | "ctor_move" :: r :: s :: _ -> need_free st (slot_of r); ignore (need_live st (slot_of s)); OCtorMove (n r, n s)
  | "ctor_move_alloc" :: r :: s :: a :: _ -> need_free st (slot_of r); ignore (need_live st (slot_of s)); OCtorMoveAlloc (n r, n s, zi a)
  | "ctor_view" :: r :: a :: s :: rest ->
    need_free st (slot_of r);
    let src = need_live st (slot_of s) in
    OCtorView (n r, zi a, n s, view_src src (parse_viewops rest))
  | "ctor_range" :: r :: a :: rest -> need_free st (slot_of r); OCtorRange (n r, zi a, parse_rows d rest)
  | "ctor_il" :: r :: rest -> need_free st (slot_of r); OCtorIl (n r, parse_rows d rest)
  | "ctor_conv" :: r :: rest -> need_free st (slot_of r); let (x, vals) = exts_and_rest rest in OCtorConv (n r, x, zl (List.map int_of_string vals))
  | "assign_copy" :: r :: s :: _ -> ignore (need_live st (slot_of r)); ignore (need_live st (slot_of s)); OAssignCopy (n r, n s)
  | "assign_move" :: r :: s :: _ -> ignore (need_live st (slot_of r)); ignore (need_live st (slot_of s)); OAssignMove (n r, n s)
  | ("assign_view" | "assign_cview") :: r :: s :: rest ->
    ignore (need_live st (slot_of r));
    let src = need_live st (slot_of s) in
    if slot_of r = slot_of s then raise (Skip "self-view");
    OAssignView (n r, n s, view_src src (parse_viewops rest), List.hd toks = "assign_view")
  | ("assign_range" | "assign_il") :: r :: rest ->
    ignore (need_live st (slot_of r));
    let w = parse_rows d rest in
    if i w.rw_k = 0 then (if List.hd toks = "assign_il" then OAssignIlEmpty (n r) else raise (Skip "empty-range")) else OAssignRange (n r, w)
  | "assign_fill" :: r :: rest -> ignore (need_live st (slot_of r)); let (x, rr) = exts_and_rest rest in OAssignFill (n r, x, zi (List.hd rr))
  | "assign_conv" :: r :: rest -> ignore (need_live st (slot_of r)); let (x, vals) = exts_and_rest rest in OAssignConv (n r, x, zl (List.map int_of_string vals))
  | "swap" :: r :: s :: _ ->
    let a = need_live st (slot_of r) in
    let b = need_live st (slot_of s) in
    (* the standard's container rule: swapping with non-propagating allocators needs equal allocators *)
    if not (c.pocs || alloc_eq (mcfg c) a.a_alloc b.a_alloc) then raise (Skip "swap-precondition");
    OSwap (n r, n s)
  | "clear" :: r :: _ -> ignore (need_live st (slot_of r)); OClear (n r)
  | "reextent" :: r :: rest -> ignore (need_live st (slot_of r)); let (x, _) = exts_and_rest rest in OReextent (n r, x, None)
  | "reextent_fill" :: r :: rest -> ignore (need_live st (slot_of r)); let (x, rr) = exts_and_rest rest in OReextent (n r, x, Some (zi (List.hd rr)))
  | "reextent_move" :: r :: rest -> ignore (need_live st (slot_of r)); let (x, _) = exts_and_rest rest in OReextentMove (n r, x)
  | "reshape" :: r :: rest ->
    let a = need_live st (slot_of r) in
    let (x, _) = exts_and_rest rest in
    if i (bnumel x) <> i (nel a) then raise (Skip "reshape-count");
    OReshape (n r, x)
  | "write" :: r :: k :: v :: _ ->
    let a = need_live st (slot_of r) in
    if int_of_string k >= i (nel a) then raise (Skip "write-index");
    OWrite (n r, nat_of_int (int_of_string k), zi v)
  | "destroy" :: r :: _ -> ignore (need_live st (slot_of r)); ODestroy (n r)
  | "vassign" :: _form :: r :: s :: rest ->
    (* view of r = view of s (two view programs separated by "/"): same extensions required *)
    let ar = need_live st (slot_of r) in
    let as_ = need_live st (slot_of s) in
    if slot_of r = slot_of s then raise (Skip "self-view");
    let rec split_slash l = match l with
      | [] -> ([], []) | "/" :: rest -> ([], rest) | x :: rest -> let (a, b) = split_slash rest in (x :: a, b) in
    let (pr, ps) = split_slash rest in
    let vr = view_src ar (parse_viewops pr) in
    let vs = view_src as_ (parse_viewops ps) in
    if List.map (fun (f, n) -> (i f, i n)) vr.vs_exts <> List.map (fun (f, n) -> (i f, i n)) vs.vs_exts then raise (Skip "vassign-extents");
    OViewAssign (n r, n s, vr, vs)
  | "vassign_row" :: _form :: r :: ri :: s :: sj :: _ ->
    (* row ri of r = row sj of s (D >= 2): the row's elements are those of sliced(i, i+1), its extensions the inner ones *)
    let ar = need_live st (slot_of r) in
    let as_ = need_live st (slot_of s) in
    if d < 2 || slot_of r = slot_of s then raise (Skip "row-form");
    if i (nel ar) = 0 || i (nel as_) = 0 then raise (Skip "row-of-empty");
    let row (a : arr) (k : int) : vsrc =
      let (f0, n0) = List.hd (arr_bx_l a) in
      if not (f0 <= k && k < f0 + n0) then raise (Skip "row-index");
      let v = view_src a [OSliced (z k, z (k + 1))] in
      { vs_exts = List.tl (List.map (fun (f, n) -> (z f, z n)) (arr_bx_l a)); vs_offs = v.vs_offs } in
    let vr = row ar (int_of_string ri) and vs = row as_ (int_of_string sj) in
    if List.map (fun (f, n) -> (i f, i n)) vr.vs_exts <> List.map (fun (f, n) -> (i f, i n)) vs.vs_exts then raise (Skip "vassign-extents");
    OViewAssign (n r, n s, vr, vs)
  | "eq" :: r :: s :: _ -> ignore (need_live st (slot_of r)); ignore (need_live st (slot_of s)); raise (Skip "eq")
  | x :: _ -> failwith ("unknown op " ^ x)
  | [] -> failwith "empty op"

(* ---------- observations ---------- *)
let err_name (e : err) = match e with
  | EConstructOverAlive -> "construct-over-alive" | EDestroyRaw -> "destroy-raw" | EReadRaw -> "read-raw"
  | EAssignRaw -> "assign-raw" | EDangling -> "dangling" | EOutOfBlock -> "out-of-block"
  | EUnknownBlock -> "dealloc-unknown-block" | EDoubleFree -> "double-free" | EWrongSize -> "dealloc-wrong-size"
  | EWrongAlloc -> "dealloc-wrong-allocator" | ELiveCells -> "dealloc-with-live-elements"
  | EBadSlot -> "bad-slot" | EDomain -> "domain"

type pctx = { classes : (int, int) Hashtbl.t; mutable nclass : int }

let np = int_of_nat nP

let exts_text (a : arr) =
  if a.a_exts = [] then "-"
  else String.concat "," (List.map2 (fun f n -> Printf.sprintf "%d:%d" (i f) (i f + i n)) a.a_first a.a_exts)

let print_state (buf : Buffer.t) (c : hcfg) (cid : string) (step : int) (px : pctx) (st : state) (show_copies : bool) (show_allocs : bool) : bool =
  let m = mcfg c in
  let all_valid = ref true in
  List.iteri (fun r slot ->
    if r < np then
      match slot with
      | None -> ()
      | Some a ->
        Buffer.add_string buf (Printf.sprintf "A %s %d r%d ext=%s" cid step r (exts_text a));
        if not (arr_valid m st a) then begin
          all_valid := false;
          Buffer.add_string buf (Printf.sprintf " INVALID al=%d\n" (i a.a_alloc))
        end
        else begin
          let n = i (nel a) in
          let els =
            if n <= 0 then "-"
            else match arr_block st a with
              | Some blk -> String.concat "," (List.map (fun cl -> match cl with
                  | Raw -> string_of_int (i pat) | Alive v -> string_of_int (i v)
                  | Moved v -> string_of_int (i v) ^ (if tracked c then "!" else "")) blk.b_cells)
              | None -> "?" in
          let blk =
            if n <= 0 then "-"
            else match a.a_base with
              | PBlk b ->
                let b = int_of_nat b in
                (match Hashtbl.find_opt px.classes b with
                 | Some k -> string_of_int k
                 | None -> let k = px.nclass in Hashtbl.add px.classes b k; px.nclass <- k + 1; string_of_int k)
              | PNull -> "?" in
          Buffer.add_string buf (Printf.sprintf " el=%s blk=%s al=%d\n" els blk (i a.a_alloc))
        end) st.s_arrs;
  let out = List.filter_map (fun (b : block) ->
      if b.b_live && i b.b_owner <> i std_alloc then Some (i b.b_owner, i b.b_size) else None) st.s_blocks in
  let out = List.sort compare out in
  let out_s = if out = [] then "-" else String.concat "," (List.map (fun (a, n) -> Printf.sprintf "%d:%d" a n) out) in
  Buffer.add_string buf (Printf.sprintf "G %s %d alive=%d out=%s copies=%s allocs=%s\n" cid step
    (if tracked c then i (alive_cells st) else 0) out_s
    (if show_copies && tracked c then string_of_int (i st.s_copies) else "-")
    (if show_allocs then string_of_int (i st.s_allocs) else "-"));
  !all_valid

(* which counters the properties state for this operation (same rule as the harness) *)
let shows (c : hcfg) (st : state) (toks : string list) (o : lop) : bool * bool =
  let m = mcfg c in
  let arr r = match get_arr_opt st (int_of_nat r) with Some a -> a | None -> { a_alloc = Z0; a_base = PNull; a_exts = []; a_first = [] } in
  let bxa r = arr_bx (arr r) in
  match o with
  | OCtorMove _ -> (true, true)
  | OCtorMoveAlloc _ -> (true, false)
  | OAssignCopy (r, s) ->
    (false, bx_eq (bxa r) (bxa s) && ((not c.pocca) || alloc_eq m (arr r).a_alloc (arr s).a_alloc))
  | OAssignMove (r, s) -> (true, c.pocma || c.ae || i (arr r).a_alloc = i (arr s).a_alloc)
  | OAssignView (r, _, v, _) -> (false, bx_eq (bxa r) v.vs_exts)
  | OAssignFill (r, x, _) -> (false, bx_eq (bxa r) x)
  | OAssignConv (r, x, _) -> (false, bx_eq (bxa r) (norm_bx x))
  | OSwap _ -> (true, true)
  | OClear _ | OAssignIlEmpty _ -> (false, List.hd toks = "clear")
  | OReextent (r, x, _) | OReextentMove (r, x) -> (false, bx_eq x (bxa r))
  | OReshape _ | OWrite _ | OViewAssign _ -> (false, true)
  | _ -> (false, false)

let run_case (buf : Buffer.t) (cid : string) (c : hcfg) (fault : int) (ops : string list list) : int =
  let m = mcfg c in
  let st = ref (st0 (if fault > 0 then Some (nat_of_int fault) else None)) in
  let px = { classes = Hashtbl.create 16; nclass = 0 } in
  (* the reference interpreter over values (run_values of the model), evaluated side by side in fault-free runs *)
  let refp = ref (List.map (fun _ -> None) !st.s_arrs) in
  let dead = ref false in
  let step = ref 0 in
  List.iter (fun toks ->
    if not !dead then begin
      incr step;
      let name = List.hd toks in
      if name = "eq" then begin
        (* operator== of two live arrays: an observation, not a transition *)
        match toks with
        | _ :: r :: s :: _ ->
          (match get_arr_opt !st (slot_of r), get_arr_opt !st (slot_of s) with
           | Some a, Some b -> Buffer.add_string buf (Printf.sprintf "Q %s %d eq=%d\n" cid !step (if arr_eqb !st a b then 1 else 0))
           | _ -> Buffer.add_string buf (Printf.sprintf "O %s %d eq skipped\n" cid !step))
        | _ -> ()
      end else
      match (try Some (parse_op c !st toks) with Skip _ -> None) with
      | None -> Buffer.add_string buf (Printf.sprintf "O %s %d %s skipped\n" cid !step name)
      | Some o ->
        let pre = !st in
        let (out, st') = run_op m o pre in
        (match out with
         | OutErr (EBadSlot | EDomain) ->
           Buffer.add_string buf (Printf.sprintf "O %s %d %s skipped\n" cid !step name)
         | OutErr e ->
           Buffer.add_string buf (Printf.sprintf "X %s %d error %s\n" cid !step (err_name e));
           dead := true
         | OutOk | OutThrew ->
           st := st';
           let threw = (out = OutThrew) in
           if fault = 0 && not threw then begin
             refp := vstep m o !refp;
             if abs_state st' <> !refp then
               Buffer.add_string buf (Printf.sprintf "V %s %d reference-interpreter-mismatch %s\n" cid !step name)
           end;
           let n_new = List.length st'.s_ledger - List.length pre.s_ledger in
           let fresh = take_n n_new st'.s_ledger in
           let at_alloc = List.exists (fun e -> match e with EvThrow SAlloc -> true | _ -> false) fresh in
           (* model-only line: the site of the fault (what the exclusion predicate of C09 is stated on) *)
           List.iter (fun e -> match e with
               | EvThrow w ->
                 Buffer.add_string buf (Printf.sprintf "T %s %d site=%s\n" cid !step
                   (match w with SAlloc -> "alloc" | SCtorElem -> "ctor-elem" | SAssignElem -> "assign-elem"
                               | SReextElem -> "reextent-elem" | SReextMove -> "reextent-move"))
               | _ -> ()) (List.rev fresh);
           Buffer.add_string buf (Printf.sprintf "O %s %d %s %s%s\n" cid !step name (if threw then "threw" else "ok")
             (if threw then (if at_alloc then " at=a" else " at=e") else ""));
           let (sc, sa) = shows c pre toks o in
           (* an array whose extents are not backed by live elements cannot be used any further: the case stops *)
           if not (print_state buf c cid !step px st' (sc && not threw) (sa && not threw)) then dead := true)
    end) ops;
  if not !dead then begin
    (* end of the case: destroy what is left; the ledger and the registry must be balanced *)
    let err = ref None in
    for r = 0 to np - 1 do
      if !err = None then
        match get_arr_opt !st r with
        | Some _ ->
          let (out, st') = run_op m (ODestroy (nat_of_int r)) !st in
          (match out with OutErr e -> err := Some e | _ -> st := st')
        | None -> ()
    done;
    (match !err with
     | Some e -> Buffer.add_string buf (Printf.sprintf "X %s end error %s\n" cid (err_name e))
     | None ->
       let outstanding = List.length (List.filter (fun (b : block) -> b.b_live && i b.b_owner <> i std_alloc) !st.s_blocks) in
       Buffer.add_string buf (Printf.sprintf "Z %s alive=%d outstanding=%d fallible=%d\n" cid
         (if tracked c then i (alive_cells !st) else 0) outstanding (i !st.s_fallible)))
  end;
  Buffer.add_string buf (Printf.sprintf "E %s\n" cid);
  i !st.s_fallible

(* ---------- reading history text ---------- *)
let words (s : string) = List.filter (fun w -> w <> "") (String.split_on_char ' ' (String.trim s))

let run_stdin () =
  let buf = Buffer.create 65536 in
  let cid = ref "" and cfg = ref (parse_cfg "") and fault = ref 0 and ops = ref [] in
  (try
     while true do
       let line = input_line stdin in
       match words line with
       | "case" :: id :: _ -> cid := id; fault := 0; ops := []; cfg := parse_cfg ""
       | "cfg" :: _ -> cfg := parse_cfg line
       | "fault" :: k :: _ -> fault := int_of_string k
       | "op" :: toks -> ops := toks :: !ops
       | "end" :: _ ->
         ignore (run_case buf !cid !cfg !fault (List.rev !ops));
         print_string (Buffer.contents buf); Buffer.clear buf
       | _ -> ()
     done
   with End_of_file -> ());
  print_string (Buffer.contents buf)

(* ---------- generator ---------- *)
let next_val = ref 10
let fresh_val () = incr next_val; if !next_val > 6000 then next_val := 10; !next_val
let fresh_vals n = List.init n (fun _ -> fresh_val ())

let prod l = List.fold_left ( * ) 1 l

let gen_exts (d : int) : int list =
  let dim () = weighted [ (2, 0); (3, 1); (5, 2); (5, 3); (3, 4); (1, 5) ] in
  let rec go tries =
    let e = List.init d (fun _ -> dim ()) in
    let e = if chance 12 then List.mapi (fun k x -> if k = rnd d then pick [0; 1] else x) e else e in
    if prod e <= 40 || tries = 0 then e else go (tries - 1) in
  let e = go 20 in
  if prod e > 40 then List.map (fun _ -> 2) e else e

(* whether the current case draws index bases other than 0 *)
let rebased = ref false
let gen_first () = if !rebased && chance 60 then rnd_range (-3) 3 else 0
let gen_bx (d : int) : (int * int) list = List.map (fun n -> (gen_first (), n)) (gen_exts d)
let ext_tok (f, n) = if f = 0 then string_of_int n else Printf.sprintf "%d:%d" f (f + n)
let str_bx e = List.map ext_tok e
let sizes_of e = List.map snd e

(* a view program over an array of extensions e, as text; built against the model so that every step is in domain *)
let gen_viewops (d : int) (e : (int * int) list) : string list =
  if prod (sizes_of e) = 0 then (if chance 50 && d >= 2 then ["|"; "rot"] else [])
  else begin
    let v = ref (root_view (List.map (fun (f, n) -> (z f, z (f + n))) e)) in
    let out = ref [] in
    let nops = weighted [ (2, 0); (4, 1); (4, 2); (2, 3) ] in
    for _ = 1 to nops do
      let (xf, xl) = v_extension !v in
      let f = i xf and l = i xl in
      let size = l - f in
      let cands = List.concat [
          [ ("rot", ORotated); ("unrot", OUnrotated); ("rev", OReversed) ];
          (if d >= 2 then [ ("tr", OTransposed); ("tr", OTransposed) ] else []);
          (let a = f + rnd (size + 1) in let b = rnd_range a l in
           [ (Printf.sprintf "sl %d %d" a b, OSliced (z a, z b)); (Printf.sprintf "sl %d %d" a b, OSliced (z a, z b)) ]);
          (let s = pick [1; 2; 2; 3] in
           if size > 0 && size mod s = 0 then [ (Printf.sprintf "st %d" s, OStrided (z s)) ] else []);
          (let s = pick [2; 2; 3] in
           let a = f + rnd (size + 1) in
           let len = (l - a) / s * s in
           if len > 0 then [ (Printf.sprintf "ss %d %d %d" a (a + len) s, OSlicedS (z a, z (a + len), z s)) ] else []) ] in
      let (txt, o) = pick cands in
      match apply_op o !v with
      | Some v' -> v := v'; out := !out @ ("|" :: words txt)
      | None -> ()
    done;
    !out
  end

let rows_text (d : int) (k : int) (ie : int list) : string list =
  let n = k * prod ie in
  List.map string_of_int ((k :: ie) @ fresh_vals n)

type profile = { kind : string; multi_alloc : bool }

let gen_history (c : hcfg) (p : profile) (maxops : int) : string list list =
  let m = mcfg c in
  let d = c.d in
  let st = ref (st0 None) in
  let hist = ref [] in
  let nops = rnd_range (min 4 maxops) maxops in
  let alloc_id () =
    if p.multi_alloc then (if c.pmr then weighted [ (4, 1); (3, 2); (1, 0); (1, 3) ] else weighted [ (4, 1); (3, 2); (1, 3); (1, 0) ])
    else 1 in
  let live () = List.filter (fun r -> get_arr_opt !st r <> None) (List.init np (fun r -> r)) in
  let free () = List.filter (fun r -> get_arr_opt !st r = None) (List.init np (fun r -> r)) in
  let exts_of r = match get_arr_opt !st r with Some a -> arr_bx_l a | None -> [] in
  let sl r = "r" ^ string_of_int r in
  let str_exts e = List.map string_of_int e in
  let near_exts e =       (* extensions related to e: same, grown, shrunk, shifted, mixed *)
    match weighted [ (2, 0); (5, 1); (3, 2) ] with
    | 0 -> e
    | 1 ->
      let e' = List.map (fun (f, n) ->
          let n' = max 0 (n + pick [-2; -1; -1; 0; 0; 1; 1; 2]) in
          let f' = if !rebased then f + pick [-1; 0; 0; 0; 1] else f in
          ((if n' = 0 then 0 else f'), n')) e in
      if prod (sizes_of e') <= 40 then e' else e
    | _ -> gen_bx d in
  let w_vassign = match p.kind with "c09v" -> 300 | "c09" -> 30 | "c04" -> 8 | _ -> 4 in
  let w_ctor, w_copy, w_move, w_assign, w_rext, w_misc, w_destroy =
    match p.kind with
    | "c04" -> (6, 8, 6, 10, 2, 6, 2)
    | "c06" -> (5, 2, 1, 8, 14, 6, 1)
    | "c10" -> (5, 8, 9, 8, 4, 5, 2)
    | "c09v" -> (8, 3, 1, 24, 1, 2, 1)       (* assignment through views under fault injection *)
    | _ -> (6, 6, 5, 8, 7, 5, 2) in
  let attempt () : string list option =
    let lv = live () and fr = free () in
    let has_l = lv <> [] and has_f = fr <> [] in
    let two = List.length lv >= 2 in
    let cat = weighted [
        ((if has_f then (if lv = [] then 50 else w_ctor) else 0), `Ctor);
        ((if has_f && has_l then w_copy else 0), `CopyCtor);
        ((if has_f && has_l then w_move else 0), `MoveCtor);
        ((if has_l then w_assign else 0), `Assign);
        ((if has_l then w_rext else 0), `Reextent);
        ((if has_l then w_misc else 0), `Misc);
        ((if List.length lv >= 3 || (has_l && not has_f) then w_destroy + 2 else if has_l then w_destroy else 0), `Destroy) ] in
    match cat with
    | `Ctor ->
      let r = pick fr in
      (match weighted [ (2, `Def); (4, `Sized); (6, `Fill); (4, `Range); (3, `Il); (2, `Conv);
                        ((if has_l then (if p.kind = "c09v" then 30 else if p.kind = "c09" then 7 else 2) else 0), `Twin) ] with
       | `Twin ->     (* same extensions as a live array: assignments through views need equal extensions *)
         let s = pick lv in
         Some ([ "ctor_fill"; sl r; string_of_int (alloc_id ()) ] @ str_bx (exts_of s) @ [ string_of_int (fresh_val ()) ])
       | `Def -> Some [ "ctor_default"; sl r; string_of_int (alloc_id ()) ]
       | `Sized -> Some ([ "ctor_sized"; sl r; string_of_int (alloc_id ()) ] @ str_bx (gen_bx d))
       | `Fill -> Some ([ "ctor_fill"; sl r; string_of_int (alloc_id ()) ] @ str_bx (gen_bx d) @ [ string_of_int (fresh_val ()) ])
       | `Range ->
         let e = gen_exts d in
         let k = max 1 (List.hd e) in
         Some ([ "ctor_range"; sl r; string_of_int (alloc_id ()) ] @ rows_text d k (List.tl e))
       | `Il ->
         let e = gen_exts d in
         let k = min 4 (List.hd e) in
         Some ([ "ctor_il"; sl r ] @ rows_text d k (List.tl e))
       | `Conv -> let e = gen_exts d in Some ([ "ctor_conv"; sl r ] @ str_exts e @ List.map string_of_int (fresh_vals (prod e))))
    | `CopyCtor ->
      let r = pick fr and s = pick lv in
      (match weighted [ (5, `Copy); (2, `Plus); (3, `CopyAlloc); (6, `View) ] with
       | `Copy -> Some [ "ctor_copy"; sl r; sl s ]
       | `Plus -> Some [ "uplus"; sl r; sl s ]
       | `CopyAlloc -> Some [ "ctor_copy_alloc"; sl r; sl s; string_of_int (alloc_id ()) ]
       | `View -> Some ([ "ctor_view"; sl r; string_of_int (alloc_id ()); sl s ] @ gen_viewops d (exts_of s)))
    | `MoveCtor ->
      let r = pick fr and s = pick lv in
      if chance 55 then Some [ "ctor_move"; sl r; sl s ]
      else Some [ "ctor_move_alloc"; sl r; sl s; string_of_int (alloc_id ()) ]
    | `Assign ->
      let r = pick lv in
      let twins = List.filter (fun x -> x <> r && exts_of x = exts_of r) lv in
      let rowtwins = List.filter (fun x -> x <> r && d >= 2 && prod (sizes_of (exts_of x)) > 0 && prod (sizes_of (exts_of r)) > 0
                                            && List.tl (exts_of x) = List.tl (exts_of r)) lv in
      (match weighted [ ((if two then 6 else 1), `Copy); ((if two then 6 else 1), `Move); ((if two then 6 else 0), `View);
                        (4, `Range); (4, `Il); (1, `IlEmpty); (4, `Fill); (3, `Conv);
                        ((if twins <> [] then w_vassign else 0), `VAssign); ((if rowtwins <> [] then w_vassign else 0), `VRow) ] with
       | `VAssign ->
         let s = pick twins in
         let prog = if chance 20 then [] else gen_viewops d (exts_of r) in
         Some ([ "vassign"; string_of_int (rnd 4); sl r; sl s ] @ prog @ [ "/" ] @ prog)
       | `VRow ->
         let s = pick rowtwins in
         let (fr, nr) = List.hd (exts_of r) and (fs, ns) = List.hd (exts_of s) in
         Some [ "vassign_row"; string_of_int (rnd 3); sl r; string_of_int (fr + rnd nr); sl s; string_of_int (fs + rnd ns) ]
       | `Copy -> let s = if chance 8 then r else pick lv in Some [ "assign_copy"; sl r; sl s ]
       | `Move -> let s = if chance 6 then r else pick lv in Some [ "assign_move"; sl r; sl s ]
       | `View ->
         let s = pick (List.filter (fun x -> x <> r) lv) in
         (* half of the time aim at the same-extents path: a permutation-only view of an array with r's extents is rare,
            so also try the identity view *)
         Some ([ (if chance 50 then "assign_view" else "assign_cview"); sl r; sl s ] @ (if chance 25 then [] else gen_viewops d (exts_of s)))
       | `Range | `Il as w ->
         let e0 = sizes_of (exts_of r) in
         let e = if chance 45 && prod e0 > 0 then e0
           else if chance 30 && prod e0 > 0 && d >= 2 then (List.hd e0 :: List.tl (gen_exts d))   (* same outer size, other inner extents *)
           else gen_exts d in
         let k = max 1 (List.hd e) in
         let k = if w = `Il then min 4 k else k in
         Some ([ (if w = `Il then "assign_il" else "assign_range"); sl r ] @ rows_text d k (List.tl e))
       | `IlEmpty -> Some ([ "assign_il"; sl r; "0" ] @ str_exts (List.tl (gen_exts d)))
       | `Fill -> Some ([ "assign_fill"; sl r ] @ str_bx (near_exts (exts_of r)) @ [ string_of_int (fresh_val ()) ])
       | `Conv ->
         let e0 = sizes_of (exts_of r) in
         let e = if chance 35 then e0 else if chance 35 && d >= 2 then List.rev e0 else gen_exts d in
         Some ([ "assign_conv"; sl r ] @ str_exts e @ List.map string_of_int (fresh_vals (prod e))))
    | `Reextent ->
      let r = pick lv in
      let e = near_exts (exts_of r) in
      (match weighted [ (5, `Plain); (6, `Fill); (2, `Move) ] with
       | `Plain -> Some ([ "reextent"; sl r ] @ str_bx e)
       | `Fill -> Some ([ "reextent_fill"; sl r ] @ str_bx e @ [ string_of_int (fresh_val ()) ])
       | `Move -> Some ([ "reextent_move"; sl r ] @ str_bx e))
    | `Misc ->
      let r = pick lv in
      (match weighted [ ((if two then 5 else 0), `Swap); (2, `Clear); (3, `Reshape); (6, `Write); ((if two then 3 else 0), `Eq) ] with
       | `Swap -> let s = pick lv in Some [ "swap"; sl r; sl s ]
       | `Eq -> let s = pick lv in Some [ "eq"; sl r; sl s ]
       | `Clear -> Some [ "clear"; sl r ]
       | `Reshape ->
         let e = sizes_of (exts_of r) in
         let n = prod e in
         let e' = match rnd 3 with
           | 0 -> List.rev e
           | 1 -> n :: List.init (d - 1) (fun _ -> 1)
           | _ -> List.init (d - 1) (fun _ -> 1) @ [ n ] in
         if prod e' = n then Some ([ "reshape"; sl r ] @ str_bx (List.map (fun k -> (gen_first (), k)) e')) else None
       | `Write ->
         let n = prod (sizes_of (exts_of r)) in
         if n = 0 then None else Some [ "write"; sl r; string_of_int (rnd n); string_of_int (fresh_val ()) ])
    | `Destroy -> let r = pick lv in Some [ "destroy"; sl r ] in
  let tries = ref 0 in
  while List.length !hist < nops && !tries < 10 * nops do
    incr tries;
    match attempt () with
    | None -> ()
    | Some toks when List.hd toks = "eq" -> hist := toks :: !hist
    | Some toks ->
      (match (try Some (parse_op c !st toks) with Skip _ -> None) with
       | None -> ()
       | Some o ->
         let (out, st') = run_op m o !st in
         (match out with
          | OutOk -> st := st'; hist := toks :: !hist
          | _ -> ()))          (* a model error on a generated op: leave it out (reported by the check if it persists) *)
  done;
  List.rev !hist

let emit_case (cid : string) (c : hcfg) (fault : int) (h : string list list) =
  Printf.printf "case %s\ncfg %s\n" cid (cfg_text c);
  if fault > 0 then Printf.printf "fault %d\n" fault;
  List.iter (fun toks -> Printf.printf "op %s\n" (String.concat " " toks)) h;
  print_string "end\n"

let gen (sd : int) (count : int) (kind : string) (cfgs : string) (maxops : int) (prefix : string) (faults : int) =
  seed sd;
  let c = parse_cfg cfgs in
  let p = { kind; multi_alloc = (kind = "c10" || kind = "c09" || kind = "c09v" || kind = "c08") } in
  let scratch = Buffer.create 4096 in
  for k = 1 to count do
    let p = if kind = "c04" || kind = "c06" then { p with multi_alloc = chance 30 } else p in
    rebased := chance 30;
    let h = gen_history c p maxops in
    let cid = Printf.sprintf "%s%d" prefix k in
    if faults = 0 then emit_case cid c 0 h
    else begin
      (* one run per injection point: count the fallible events of the fault-free run first *)
      Buffer.clear scratch;
      let total = run_case scratch cid c 0 h in
      emit_case (cid ^ ".f0") c 0 h;
      let points =
        if total <= faults then List.init total (fun j -> j + 1)
        else List.sort_uniq compare (1 :: total :: List.init (faults - 2) (fun _ -> rnd_range 1 total)) in
      List.iter (fun j -> emit_case (Printf.sprintf "%s.f%d" cid j) c j h) points
    end
  done

let () =
  let args = Array.to_list Sys.argv in
  let rec opt name dflt = function
    | a :: v :: _ when a = name -> v
    | _ :: r -> opt name dflt r
    | [] -> dflt in
  match args with
  | _ :: "run" :: _ -> run_stdin ()
  | _ :: "gen" :: rest ->
    gen (int_of_string (opt "--seed" "1" rest)) (int_of_string (opt "--count" "10" rest)) (opt "--kind" "c08" rest)
      (opt "--cfg" "d=2 t=1" rest) (int_of_string (opt "--maxops" "12" rest)) (opt "--prefix" "g" rest)
      (int_of_string (opt "--faults" "0" rest))
  | _ -> prerr_endline "usage: driver_life gen|run ..."; exit 2

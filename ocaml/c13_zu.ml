(* C13: conversions between OCaml int and the extracted Z / positive, and the PRNG (seeded from --seed). Trusted. *)
open Modelc13

(* ---- extracted Z <-> int ---- *)
let rec pos_of_int (n : int) : positive =
  if n <= 1 then XH else if n land 1 = 0 then XO (pos_of_int (n lsr 1)) else XI (pos_of_int (n lsr 1))
let rec int_of_pos (p : positive) : int = match p with XH -> 1 | XO q -> 2 * int_of_pos q | XI q -> 2 * int_of_pos q + 1
let z (n : int) : z = if n = 0 then Z0 else if n > 0 then Zpos (pos_of_int n) else Zneg (pos_of_int (-n))
let i (x : z) : int = match x with Z0 -> 0 | Zpos p -> int_of_pos p | Zneg p -> - (int_of_pos p)

(* ---- PRNG ---- *)
let rng = ref (Random.State.make [| 0 |])
let rnd n = if n <= 0 then 0 else Random.State.int !rng n
let pick l = List.nth l (rnd (List.length l))
let weighted (l : (int * 'a) list) : 'a =
  let tot = List.fold_left (fun s (w, _) -> s + w) 0 l in
  let r = ref (rnd tot) in
  let res = ref (snd (List.hd l)) in
  (try List.iter (fun (w, x) -> if !r < w then (res := x; raise Exit) else r := !r - w) l with Exit -> ());
  !res
let chance pct = rnd 100 < pct


(* C11: generator aimed at the case splits of the C11 proofs (Proofs/PtrAlgebraProofs.v, PtrBoundsProofs.v):
   - sizes 0 and 1 in any dimension (begin = end; element count 0; stride of a one-element dimension irrelevant);
   - operations that MOVE the base pointer (index, sliced D=1 / D>1 forms, strided slices, dropped, call syntax with
     ranges, diagonal) interleaved with the permutations, so that padd is exercised with positive, zero and -- through
     reversed/unrotated after rotated -- composite displacements;
   - unit strides on both axes (transposed contiguous blocks), padded sub-blocks (sliced in two dimensions);
   - walks that go to end() and come back (end iterators of strided columns hold addresses outside the root and must
     never be dereferenced), it[k] at the last valid position, full sweeps begin -> end -> begin.
   Two program kinds in the formats of the view and iterator harnesses.  All randomness from Zu.rng (--seed). *)
open Model
open Zu

let rank v = int_of_nat (v_rank v)

let small_ext () = weighted [ (1, 0); (3, 1); (5, 2); (5, 3); (4, 4); (2, 5) ]

let candidate (v : view) : op option =
  let r = rank v in
  let (f, l) = let (a, b) = v_extension v in (i a, i b) in
  let n = i (v_size v) in
  let slice () = if l > f && chance 88 then (let a = rnd_range f (l - 1) in (a, rnd_range (a + 1) l)) else (let a = rnd_range f l in (a, rnd_range a l)) in
  let divisors n = List.filter (fun d -> n mod d = 0) (List.init (max n 1) (fun k -> k + 1)) in
  match weighted [ (10, `Index); (14, `Sliced); (8, `SlicedS); (6, `Strided); (10, `Dropped); (4, `Taked); (10, `Rotated);
                   (6, `Unrotated); (8, `Transposed); (6, `Reversed); (8, `Diagonal); (4, `Partitioned); (2, `Halved);
                   (3, `Flatted); (14, `Paren) ] with
  | `Index -> if r >= 2 && n > 0 then Some (OIndex (z (pick [ f; l - 1; rnd_range f (l - 1) ]))) else None
  | `Sliced -> let (a, b) = if chance 25 then (f, l) else if chance 8 then (let a = rnd_range f l in (a, a)) else slice () in Some (OSliced (z a, z b))
  | `SlicedS -> let (a, b) = slice () in if b - a > 0 then Some (OSlicedS (z a, z b, z (pick (divisors (b - a))))) else None
  | `Strided -> if n > 0 then Some (OStrided (z (pick (divisors n)))) else Some (OStrided (z 1))
  | `Dropped -> Some (ODropped (z (weighted [ (1, 0); (1, n); (8, rnd_range 0 (max 0 (n - 1))) ])))
  | `Taked -> Some (OTaked (z (weighted [ (1, 0); (1, n); (8, rnd_range (min 1 n) n) ])))
  | `Rotated -> Some ORotated
  | `Unrotated -> Some OUnrotated
  | `Transposed -> if r >= 2 then Some OTransposed else None
  | `Reversed -> Some OReversed
  | `Diagonal -> if r >= 2 then Some ODiagonal else None
  | `Partitioned -> if n > 0 && r < 5 then Some (OPartitioned (z (pick (divisors n)))) else None
  | `Halved -> if n > 0 && n mod 2 = 0 && r < 5 then Some OHalved else None
  | `Flatted -> if r >= 2 then Some OFlatted else None
  | `Paren ->
      let k = rnd_range 1 (min 3 r) in
      let exts = List.map (fun (a, b) -> (i a, i b)) (l_extensions v.lay) in
      let rec take k l = if k = 0 then [] else match l with [] -> [] | x :: t -> x :: take (k - 1) t in
      let args =
        List.map
          (fun (f, l) ->
            match weighted [ (3, `I); (5, `R); (2, `A) ] with
            | `I -> if l > f then PIdx (z (rnd_range f (l - 1))) else PAll
            | `R -> if l > f && chance 88 then (let a = rnd_range f (l - 1) in PRange (z a, z (rnd_range (a + 1) l))) else (let a = rnd_range f l in PRange (z a, z (rnd_range a l)))
            | `A -> PAll)
          (take k exts) in
      let nidx = List.length (List.filter (function PIdx _ -> true | _ -> false) args) in
      if nidx = r then None else Some (OParen args)

let all_idx (exts : (int * int) list) : int list list =
  List.fold_right
    (fun (f, l) acc -> List.concat_map (fun k -> List.map (fun t -> (f + k) :: t) acc) (List.init (max (l - f) 0) (fun k -> k)))
    exts [ [] ]

(* a walk that sweeps to both ends; positions tracked here so that every move stays inside [0, size] *)
let edge_walk (size : int) : string list * string list =
  let lines = ref [] and kinds = ref [] in
  let pos = [| 0; 0; 0 |] in
  let emit r op arg p' =
    pos.(r) <- p';
    kinds := ("w_" ^ op) :: !kinds;
    let k = if size > 0 then (match rnd 3 with 0 -> Some (size - 1 - p') | 1 -> Some (0 - p') | _ -> None) else None in
    let a = match arg with Some a -> Printf.sprintf " %d" a | None -> "" in
    lines := Printf.sprintf "w %d %s%s %s" r op a (match k with Some k -> string_of_int k | None -> "-") :: !lines in
  emit 0 "end" None size;
  if size > 0 then emit 0 "dec" None (size - 1);
  emit 1 "add" (Some size) size;
  emit 1 "sub" (Some size) 0;
  if size > 0 then (emit 2 "inc" None 1; emit 2 "minus" (Some 1) 0);
  emit 2 "set" (Some 0) pos.(0);
  for _ = 1 to rnd_range 0 6 do
    let r = rnd 3 in
    let t = rnd_range 0 size in
    (match rnd 4 with
     | 0 -> emit r "add" (Some (t - pos.(r))) t
     | 1 -> emit r "sub" (Some (pos.(r) - t)) t
     | 2 -> emit r "plus" (Some (t - pos.(r))) t
     | _ -> if pos.(r) < size then emit r "inc" None (pos.(r) + 1) else emit r "begin" None 0)
  done;
  (List.rev !lines, List.rev !kinds)

(* one case; kind = "views" (probes after every operation) or "iters" (walks at the end) *)
let gen_case (kind : string) (id : string) (prog : Buffer.t) : string list =
  let pr s = Buffer.add_string prog s; Buffer.add_char prog '\n' in
  let d = weighted [ (3, 1); (5, 2); (4, 3); (2, 4) ] in
  let exts = List.init d (fun _ -> (0, small_ext ())) in
  pr ("case " ^ id);
  pr (Printf.sprintf "root %d %s" d (join " " (fun (f, l) -> Printf.sprintf "%d %d" f l) exts));
  let v = ref (root_view (List.map (fun (f, l) -> (z f, z l)) exts)) in
  let kinds = ref [] in
  let emit_probes () =
    if kind = "views" then begin
      let ex = List.map (fun (a, b) -> (i a, i b)) (l_extensions !v.lay) in
      let total = List.fold_left (fun s (f, l) -> s * max (l - f) 0) 1 ex in
      if total > 0 && total <= 36 then List.iter (fun idx -> pr ("probe " ^ join " " string_of_int idx)) (all_idx ex)
      else if total > 0 then begin
        pr ("probe " ^ join " " string_of_int (List.map fst ex));
        pr ("probe " ^ join " " string_of_int (List.map (fun (_, l) -> l - 1) ex))
      end
    end in
  emit_probes ();
  for _ = 1 to rnd_range 1 6 do
    let rec try_op k =
      if k = 0 then None
      else match candidate !v with
        | Some o when dom_op o !v && (let r' = rank (exec_op o !v) in r' >= 1 && r' <= 6) -> Some o
        | _ -> try_op (k - 1) in
    match try_op 30 with
    | None -> ()
    | Some o ->
        v := exec_op o !v;
        kinds := ("e_" ^ Views.op_kind o) :: !kinds;
        pr ("op " ^ Views.op_text o);
        emit_probes ()
  done;
  if kind = "iters" then begin
    let one k size =
      let lines, ks = edge_walk size in
      pr ("it " ^ k);
      List.iter pr lines;
      kinds := ks @ !kinds in
    one "a" (i (v_size !v));
    let nel = i (er_size !v) and lead = i (v_size !v) in
    if nel > 0 || lead = 0 then one "e" nel
  end;
  let szs = il (l_sizes !v.lay) in
  if List.mem 0 szs then kinds := "final_has_size0" :: !kinds;
  if List.mem 1 szs then kinds := "final_has_size1" :: !kinds;
  (match il (l_strides !v.lay) with a :: b :: _ when a = 1 || b = 1 -> kinds := "unit_stride_axis" :: !kinds | _ -> ());
  if i !v.base <> 0 then kinds := "base_moved" :: !kinds;
  (match !v.lay with
   | d0 :: _ -> let e = i !v.base + i d0.d_nelems and n = i (l_num_elements (mk_layout (List.map (fun (f, l) -> (z f, z l)) exts))) in
       if e > n || e < 0 then kinds := "end_address_outside_root" :: !kinds
   | [] -> ());
  pr "end";
  List.rev !kinds

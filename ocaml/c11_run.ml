(* C11: the POINTER-typed model (coq/Model/PtrAlgebra.v, extracted) run on the program texts of the four harness
   families, over the (segment, offset) pointer seg_ptr: every address it prints is obtained with the pointer type's
   own difference (seg_diff p root), exactly as the C++ harnesses h11_*.cpp do with the library's pointers.  The
   lines have the format of ocaml/{views,iters,assign,compare}.ml (whose parsers are reused), so the output must be
   identical to the integer model's observation file and to the three harness outputs. *)
open Model
open Zu

type sp = seg_ptr
let padd : sp -> z -> sp = seg_add
let pdiff : sp -> sp -> z = seg_diff
let peq : sp -> sp -> bool = seg_eq
let rec nat_of_int n = if n <= 0 then O else S (nat_of_int (n - 1))
let seg (s : int) (off : int) : sp = (nat_of_int s, z off)

let as_view (pv : sp pview) : view = { lay = pv.play; base = Z0 }     (* integer data of a pointer-typed view *)
let rel (root : sp) (p : sp) : int = i (pdiff p root)
let b01 b = if b then "1" else "0"

(* ---------------- views ---------------- *)
let probe_line id step (pv : sp pview) (root : sp) (nroot : int) (idx : int list) : string =
  let zi = zl idx in
  let b = rel root (p_addr_brackets padd pv zi) and c = rel root (p_addr_paren padd pv zi)
  and h = rel root (p_addr_cursor padd pv zi) in
  Printf.sprintf "P %s %d idx=%s B=%d C=%d T=%d H=%d V=%s" id step (ints idx) b c c h
    (if b >= 0 && b < nroot then string_of_int b else "oob")

(* ---------------- iterator walks ---------------- *)
let run_walk_a (id : string) (root : sp) (pv : sp pview) (steps : Iters.step list) (obs : Buffer.t) : unit =
  let pr s = Buffer.add_string obs s; Buffer.add_char obs '\n' in
  let size = i (p_size pv) in
  let b = p_it_begin pv and e = p_it_end padd pv in
  let diff x y = p_it_diff pdiff x y and eq x y = p_it_eq peq x y and lt x y = p_it_lt pdiff x y in
  pr (Printf.sprintf "F %s k=a size=%d dist=%d" id size (i (diff e b)));
  let regs = [| b; b; b |] in
  (try List.iteri
    (fun n (s : Iters.step) ->
      let it = regs.(s.r) in
      let it' =
        match s.op with
        | "inc" | "pinc" -> p_it_inc padd it | "dec" | "pdec" -> p_it_dec padd it
        | "add" | "plus" -> p_it_add padd it (z s.arg) | "sub" | "minus" -> p_it_sub padd it (z s.arg)
        | "set" | "cpy" | "fset" -> regs.(s.arg)
        | "end" -> e | "begin" -> b
        | _ -> failwith "bad walk op" in
      regs.(s.r) <- it';
      let pos = i (diff it' b) in
      if pos < 0 || pos > size || (match s.k with Some k -> pos + k < 0 || pos + k >= size | None -> false) then begin
        pr (Printf.sprintf "X %s %d walk leaves [begin,end]" id (n + 1)); raise Exit end;
      let cmp =
        String.concat ","
          (List.map
             (fun o ->
               let e_ = eq it' o and l_ = lt it' o and g_ = lt o it' in
               Printf.sprintf "%s%s%s%s%s%s:%d" (b01 e_) (b01 l_) (b01 (l_ || e_)) (b01 g_) (b01 (g_ || e_)) (b01 (not e_)) (i (diff it' o)))
             (Array.to_list regs)) in
      let d = if pos >= 0 && pos < size then string_of_int (rel root (p_it_deref it').pbase) else "-" in
      let x = match s.k with Some k -> string_of_int (rel root (p_it_index padd it' (z k)).pbase) | None -> "-" in
      pr (Printf.sprintf "I %s %d k=a r=%d pos=%d cmp=%s ce=1 d=%s x=%s" id (n + 1) s.r pos cmp d x))
    steps with Exit -> ());
  let (f, _) = p_extension pv in
  pr (Printf.sprintf "M %s k=a%s" id
        (String.concat "" (List.init size (fun p -> Printf.sprintf " %d" (rel root (p_index padd (z (i f + p)) pv).pbase)))))

let run_walk_e (id : string) (root : sp) (pv : sp pview) (steps : Iters.step list) (obs : Buffer.t) : unit =
  let pr s = Buffer.add_string obs s; Buffer.add_char obs '\n' in
  let size = i (p_er_size pv) in
  let b = p_er_begin pv and e = p_er_end pv in
  pr (Printf.sprintf "F %s k=e size=%d dist=%d%s" id size (i (p_e_diff e b))
        (if size > 0 then Printf.sprintf " front=%d back=%d" (rel root (p_e_deref padd b))
             (rel root (p_e_deref padd (p_e_add e (z (-1))))) else ""));
  let regs = [| b; b; b |] in
  (try List.iteri
    (fun n (s : Iters.step) ->
      let it = regs.(s.r) in
      let it' =
        match s.op with
        | "inc" | "pinc" -> p_e_inc it | "dec" | "pdec" -> p_e_dec it
        | "add" | "plus" -> p_e_add it (z s.arg) | "sub" | "minus" -> p_e_sub it (z s.arg)
        | "set" | "cpy" | "fset" -> regs.(s.arg)
        | "end" -> e | "begin" -> b
        | _ -> failwith "bad walk op" in
      regs.(s.r) <- it';
      let pos = i (p_e_diff it' b) in
      if pos < 0 || pos > size || (match s.k with Some k -> pos + k < 0 || pos + k >= size | None -> false) then begin
        pr (Printf.sprintf "X %s %d walk leaves [begin,end]" id (n + 1)); raise Exit end;
      let cmp =
        String.concat ","
          (List.map
             (fun o ->
               let eq = p_e_eq it' o and lt = p_e_lt it' o and gt = p_e_lt o it' in
               Printf.sprintf "%s%s%s%s%s%s:%d" (b01 eq) (b01 lt) (b01 (lt || eq)) (b01 gt) (b01 (gt || eq)) (b01 (not eq)) (i (p_e_diff it' o)))
             (Array.to_list regs)) in
      let d = if pos >= 0 && pos < size then string_of_int (rel root (p_e_deref padd it')) else "-" in
      let x = match s.k with Some k -> string_of_int (rel root (p_e_index padd it' (z k))) | None -> "-" in
      pr (Printf.sprintf "I %s %d k=e r=%d pos=%d cmp=%s ce=1 d=%s x=%s" id (n + 1) s.r pos cmp d x))
    steps with Exit -> ());
  pr (Printf.sprintf "M %s k=e%s" id
        (String.concat "" (List.init (min size 64) (fun p -> Printf.sprintf " %d" (rel root (p_er_at padd pv (z p)))))))

(* views and iterator programs: case / root / op / probe / it / w / end *)
let run_view_text (text : string) (obs : Buffer.t) : unit =
  let pr s = Buffer.add_string obs s; Buffer.add_char obs '\n' in
  let root = seg 3 1000 in
  let id = ref "" and pv = ref { play = []; pbase = root } and nroot = ref 0 and step = ref 0 and dead = ref false in
  let kind = ref None and steps = ref [] in
  let flush () =
    (match !kind with
     | Some "a" when not !dead -> run_walk_a !id root !pv (List.rev !steps) obs
     | Some "e" when not !dead -> run_walk_e !id root !pv (List.rev !steps) obs
     | _ -> ());
    kind := None; steps := [] in
  List.iter
    (fun line ->
      match Views.words line with
      | [ "case"; c ] -> id := c; step := 0; dead := false; kind := None; steps := []
      | "root" :: _d :: rest ->
          let rec pairs = function a :: b :: t -> (z (int_of_string a), z (int_of_string b)) :: pairs t | _ -> [] in
          pv := { play = mk_layout (pairs rest); pbase = root };
          nroot := i (l_num_elements !pv.play);
          pr (Views.shape_line !id 0 (as_view !pv))
      | [ "op"; "nop" ] when not !dead -> incr step; pr (Views.shape_line !id !step (as_view !pv))
      | "op" :: toks when not !dead ->
          let o = Views.parse_op toks in
          incr step;
          (match p_apply_op padd o !pv with
           | Some v' -> pv := v'; pr (Views.shape_line !id !step (as_view !pv))
           | None -> pr (Printf.sprintf "X %s %d out-of-domain %s" !id !step (String.concat " " toks)); dead := true)
      | "probe" :: toks when not !dead ->
          let idx = List.map int_of_string toks in
          let exts = List.map (fun (a, b) -> (i a, i b)) (l_extensions !pv.play) in
          if List.length idx = List.length exts && List.for_all2 (fun k (f, l) -> f <= k && k < l) idx exts
          then pr (probe_line !id !step !pv root !nroot idx)
          else pr (Printf.sprintf "P %s %d idx=%s invalid" !id !step (ints idx))
      | [ "it"; k ] -> flush (); kind := Some k
      | "w" :: toks -> steps := Iters.parse_step toks :: !steps
      | [ "end" ] -> flush (); pr ("E " ^ !id)
      | _ -> ())
    (String.split_on_char '\n' text)

(* ---------------- assignment ---------------- *)
let rec p_run_ops (ops : op list) (pv : sp pview) : sp pview option =
  match ops with
  | [] -> Some pv
  | o :: rest -> (match p_apply_op padd o pv with Some v' -> p_run_ops rest v' | None -> None)

let run_assign_case (id : string) (c : Assign.case) (obs : Buffer.t) : bool =
  let pr s = Buffer.add_string obs s; Buffer.add_char obs '\n' in
  let guard = Assign.guard in
  let na = Assign.nel_of c.dexts and nb = Assign.nel_of c.sexts in
  let zr l = List.map (fun (f, l) -> (z f, z l)) l in
  let buf = seg 5 500 in                                   (* the harness buffer: [guard | A | guard | B | guard] *)
  let droot = padd buf (z guard) and sroot = padd buf (z (2 * guard + na)) in
  match p_run_ops c.dops { play = mk_layout (zr c.dexts); pbase = droot },
        (if c.sexts = [] then Some { play = []; pbase = sroot } else p_run_ops c.sops { play = mk_layout (zr c.sexts); pbase = sroot }) with
  | Some d, Some s ->
      let need_src = List.mem c.what ([ "assign"; "assign_const"; "assign_elems"; "assign_rv"; "assign_elems_named"; "swap"; "move" ] @ Assign.copy_kinds2) in
      let dn = i (p_er_size d) in
      let is_marr = List.mem c.what Assign.marr_kinds in
      let s_moved =
        if not is_marr then Some s else
        match c.what, c.args with
        | "marr_call", _ -> Some s
        | "marr_taked", [ n ] -> p_run_ops [ OTaked (z n) ] s
        | "marr_dropped", [ n ] -> p_run_ops [ ODropped (z n) ] s
        | _ -> None in
      let ok =
        if is_marr then (match s_moved with Some s' -> x_sizes_eq (as_view d) (as_view s') && List.length d.play = List.length s'.play && List.length d.play >= 1 | None -> false)
        else if need_src then x_sizes_eq (as_view d) (as_view s) && List.length d.play = List.length s.play
        else if c.what = "vals" then List.length c.args = dn && List.length d.play <= 2
        else true in
      if not ok then (pr (Printf.sprintf "X %s 0 extents differ" id); false)
      else begin
        pr (Printf.sprintf "V %s dsizes=%s dnel=%d%s" id (ints (il (l_sizes d.play))) (i (l_num_elements d.play))
              (if c.sexts = [] then "" else " ssizes=" ^ ints (il (l_sizes s.play))));
        let m0 : sp pmem = fun p -> { c_val = z (1000 + i (pdiff p buf)); c_moved = false } in
        let m' =
          match c.what with
          | "assign" | "assign_const" | "assign_elems" | "assign_rv" | "assign_elems_named" -> p_assign_view padd peq (fun x -> x) d s m0
          | w when List.mem w Assign.copy_kinds2 -> p_assign_view padd peq (fun x -> x) d s m0
          | "move" -> p_move_view padd peq d s m0
          | w when List.mem w Assign.marr_kinds -> (match s_moved with Some s' -> p_move_view padd peq d s' m0 | None -> m0)
          | "swap" -> p_swap_views padd peq d s m0
          | "fill" -> p_fill_view padd peq (z (List.hd c.args)) d m0
          | "vals" -> p_assign_vals padd peq (zl c.args) d m0
          | _ -> failwith "bad do" in
        let total = 3 * guard + na + nb in
        pr (Printf.sprintf "B %s %s" id (String.concat " " (List.init total (fun p -> Assign.cell_text (m' (padd buf (z p)))))));
        true
      end
  | _ -> pr (Printf.sprintf "X %s 0 view op out of domain" id); false

(* ---------------- comparison: each operand lives in its own segment ---------------- *)
let run_compare_case (id : string) (c : Compare.case) (obs : Buffer.t) : bool =
  let pr s = Buffer.add_string obs s; Buffer.add_char obs '\n' in
  let root k = seg (k + 1) (77 * (k + 1)) in
  let vs = Array.mapi (fun k (w : Compare.vw) ->
      p_run_ops w.ops { play = mk_layout (List.map (fun (f, l) -> (z f, z l)) w.exts); pbase = root k }) c in
  if Array.exists (fun v -> v = None) vs then (pr (Printf.sprintf "X %s 0 view op out of domain" id); false)
  else begin
    let vs = Array.map (function Some v -> v | None -> assert false) vs in
    let datas = Array.map (fun (w : Compare.vw) -> Array.of_list w.data) c in
    let m (p : sp) : z =
      let k = int_of_nat (fst p) - 1 in
      if k >= 0 && k < 3 then
        let o = i (pdiff p (root k)) in
        if o >= 0 && o < Array.length datas.(k) then z datas.(k).(o) else z (-1)
      else z (-1) in
    let rank = List.length vs.(0).play in
    Array.iteri (fun k (v : sp pview) -> pr (Printf.sprintf "V %s %s sizes=%s" id Compare.names.(k) (ints (il (l_sizes v.play))))) vs;
    let pairs = [ (0, 1); (1, 0); (0, 2); (2, 0); (1, 2); (2, 1); (0, 0) ] in
    List.iter
      (fun (p, q) ->
        let a = vs.(p) and b = vs.(q) in
        let bits = b01 (p_v_eq padd a b m) ^ b01 (p_v_ne padd a b m) ^ b01 (p_v_lt padd a b m) ^ b01 (p_v_le padd a b m)
                   ^ b01 (p_v_gt padd a b m) ^ (if rank = 1 || !Compare.has_ge then b01 (p_v_ge padd a b m) else "-") in
        pr (Printf.sprintf "C %s %s%s view=%s array=%s mixed=%s%s" id Compare.names.(p) Compare.names.(q) bits (String.sub bits 0 5)
              (b01 (p_v_eq padd a b m)) (b01 (p_v_ne padd a b m))))
      pairs;
    true
  end

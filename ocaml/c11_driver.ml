(* C11 driver.  Sub-commands:
     run --family views|iters|assign|compare --prog FILE --obs FILE      pointer-typed model on a program text
     gen --family views|iters --seed S --count N --prefix P --prog FILE --obs FILE
                                                                        edge-case generator + pointer-typed model
   The last line on stdout is a JSON object with the distribution of what was generated. *)
let usage () = prerr_endline "usage: driver_c11 run|gen --family F --prog FILE --obs FILE [--seed S --count N --prefix P]"; exit 2

let read_file f = let ic = open_in f in let n = in_channel_length ic in let s = really_input_string ic n in close_in ic; s
let write f b = let oc = open_out f in Buffer.output_buffer oc b; close_out oc

let run_family (family : string) (text : string) (obs : Buffer.t) : unit =
  match family with
  | "views" | "iters" -> C11_run.run_view_text text obs
  | "assign" ->
      List.iter (fun (id, cs) -> ignore (C11_run.run_assign_case id cs obs); Buffer.add_string obs ("E " ^ id ^ "\n")) (Assign.parse_cases text)
  | "compare" ->
      Compare.has_ge := (Sys.getenv_opt "C07_HAS_GE" = Some "1");
      List.iter (fun (id, cs) -> ignore (C11_run.run_compare_case id cs obs); Buffer.add_string obs ("E " ^ id ^ "\n")) (Compare.parse_cases text)
  | _ -> usage ()

let () =
  if Array.length Sys.argv < 2 then usage ();
  let cmd = Sys.argv.(1) in
  let args = Array.to_list (Array.sub Sys.argv 2 (Array.length Sys.argv - 2)) in
  let rec get k d = function [] -> d | a :: b :: _ when a = k -> b | _ :: t -> get k d t in
  let geti k d = int_of_string (get k (string_of_int d) args) in
  let family = get "--family" "views" args in
  let obs = Buffer.create 65536 in
  let hist : (string, int) Hashtbl.t = Hashtbl.create 32 in
  let bump k = Hashtbl.replace hist k (1 + try Hashtbl.find hist k with Not_found -> 0) in
  (match cmd with
   | "run" -> run_family family (read_file (get "--prog" "prog.txt" args)) obs
   | "gen" ->
       Zu.seed (geti "--seed" 1);
       let prog = Buffer.create 65536 in
       for k = 1 to geti "--count" 100 do
         List.iter bump (C11_gen.gen_case family (Printf.sprintf "%s%d" (get "--prefix" "e" args) k) prog)
       done;
       write (get "--prog" "prog.txt" args) prog;
       run_family family (Buffer.contents prog) obs
   | _ -> usage ());
  write (get "--obs" "obs.txt" args) obs;
  let items = List.sort compare (Hashtbl.fold (fun k v acc -> (k, v) :: acc) hist []) in
  print_string "{";
  print_string (String.concat ", " (List.map (fun (k, v) -> Printf.sprintf "\"%s\": %d" k v) items));
  print_endline "}"

(* Generator + model runner for view programs (C01, C19; reused by C02/C05/C07/C20 for making views).
   The generator asks the extracted model for the current extents, so arguments are in-domain per the
   specification (dom_op); the program text goes to the harness, the model's observations to the diff. *)
open Model
open Zu

type cfg = {
  maxrank : int;       (* rank of roots *)
  maxops : int;
  rebased : bool;      (* C19: roots with non-zero index bases, reindexed/blocked in the alphabet *)
  maxd : int;          (* harness BM_MAXD *)
}

let op_text (o : op) : string =
  let p = Printf.sprintf in
  match o with
  | OIndex a -> p "index %d" (i a)
  | OSliced (a, b) -> p "sliced %d %d" (i a) (i b)
  | OSlicedS (a, b, s) -> p "sliceds %d %d %d" (i a) (i b) (i s)
  | OStrided s -> p "strided %d" (i s)
  | ODropped n -> p "dropped %d" (i n)
  | OTaked n -> p "taked %d" (i n)
  | ORotated -> "rotated"
  | OUnrotated -> "unrotated"
  | OTransposed -> "transposed"
  | OReversed -> "reversed"
  | ODiagonal -> "diagonal"
  | OPartitioned n -> p "partitioned %d" (i n)
  | OChunked c -> p "chunked %d" (i c)
  | OHalved -> "halved"
  | OFlatted -> "flatted"
  | OParen args ->
      p "paren %d %s" (List.length args)
        (join " " (function PIdx a -> p "i %d" (i a) | PRange (a, b) -> p "r %d %d" (i a) (i b) | PAll -> "a") args)
  | OReindexed a -> p "reindexed %d" (i a)
  | OBlocked (a, b) -> p "blocked %d %d" (i a) (i b)
  | OReindexedL l -> p "reindexedl %s" (join " " (fun x -> string_of_int (i x)) l)

let op_kind (o : op) : string =
  match o with
  | OIndex _ -> "index" | OSliced _ -> "sliced" | OSlicedS _ -> "sliceds" | OStrided _ -> "strided"
  | ODropped _ -> "dropped" | OTaked _ -> "taked" | ORotated -> "rotated" | OUnrotated -> "unrotated"
  | OTransposed -> "transposed" | OReversed -> "reversed" | ODiagonal -> "diagonal"
  | OPartitioned _ -> "partitioned" | OChunked _ -> "chunked" | OHalved -> "halved" | OFlatted -> "flatted"
  | OParen _ -> "paren" | OReindexed _ -> "reindexed" | OBlocked _ -> "blocked" | OReindexedL _ -> "reindexedl"

let divisors n = List.filter (fun d -> n mod d = 0) (List.init (max n 1) (fun k -> k + 1))

let rank v = int_of_nat (v_rank v)

(* one candidate operation for the current (model) view; may be out of domain -- caller checks dom_op *)
let candidate (c : cfg) (v : view) : op option =
  let r = rank v in
  let (f, l) = let (a, b) = v_extension v in (i a, i b) in
  let n = i (v_size v) in
  let slice () = let a = rnd_range f l in let b = rnd_range a l in (a, b) in
  let kinds =
    [ (10, `Index); (12, `Sliced); (4, `SlicedS); (6, `Strided); (6, `Dropped); (4, `Taked);
      (12, `Rotated); (6, `Unrotated); (10, `Transposed); (5, `Reversed); (5, `Diagonal);
      (6, `Partitioned); (4, `Chunked); (3, `Halved); (6, `Flatted); (12, `Paren) ]
    @ (if c.rebased then [ (12, `Reindexed); (8, `Blocked); (6, `ReindexedL) ] else []) in
  match weighted kinds with
  | `Index -> if r >= 2 && n > 0 then Some (OIndex (z (rnd_range f (l - 1)))) else None
  | `Sliced -> let (a, b) = slice () in Some (OSliced (z a, z b))
  | `SlicedS ->
      let (a, b) = slice () in
      if b - a > 0 then Some (OSlicedS (z a, z b, z (pick (divisors (b - a))))) else None
  | `Strided -> if n > 0 then Some (OStrided (z (pick (divisors n)))) else Some (OStrided (z (rnd_range 1 3)))
  | `Dropped -> Some (ODropped (z (rnd_range 0 n)))
  | `Taked -> Some (OTaked (z (rnd_range 0 n)))
  | `Rotated -> Some ORotated
  | `Unrotated -> Some OUnrotated
  | `Transposed -> if r >= 2 then Some OTransposed else None
  | `Reversed -> Some OReversed
  | `Diagonal -> if r >= 2 && (not c.rebased || diag_ok v) then Some ODiagonal else None
  | `Partitioned -> if n > 0 && r < c.maxd then Some (OPartitioned (z (pick (divisors n)))) else None
  | `Chunked -> if n > 0 && r < c.maxd then Some (OChunked (z (pick (divisors n)))) else None
  | `Halved -> if n > 0 && n mod 2 = 0 && r < c.maxd then Some OHalved else None
  | `Flatted -> if r >= 2 then Some OFlatted else None
  | `Paren ->
      let k = rnd_range 0 (min 3 r) in
      (* arguments are chosen against the extents of successive dimensions *)
      let exts = List.map (fun (a, b) -> (i a, i b)) (l_extensions v.lay) in
      let rec take k l = if k = 0 then [] else match l with [] -> [] | x :: t -> x :: take (k - 1) t in
      let args =
        List.map
          (fun (f, l) ->
            match weighted [ (4, `I); (4, `R); (2, `A) ] with
            | `I -> if l > f then PIdx (z (rnd_range f (l - 1))) else PAll
            | `R -> let a = rnd_range f l in let b = rnd_range a l in PRange (z a, z b)
            | `A -> PAll)
          (take k exts) in
      let nidx = List.length (List.filter (function PIdx _ -> true | _ -> false) args) in
      if nidx = r then None else Some (OParen args)
  | `Reindexed -> Some (OReindexed (z (rnd_range (-3) 3)))
  | `Blocked -> let (a, b) = slice () in Some (OBlocked (z a, z b))
  | `ReindexedL -> if r >= 2 then Some (OReindexedL (List.init (rnd_range 2 (min r 4)) (fun _ -> z (rnd_range (-3) 3)))) else None

let all_idx (exts : (int * int) list) : int list list =
  List.fold_right
    (fun (f, l) acc -> List.concat_map (fun k -> List.map (fun t -> (f + k) :: t) acc) (List.init (max (l - f) 0) (fun k -> k)))
    exts [ [] ]

let probes (v : view) : int list list =
  let exts = List.map (fun (a, b) -> (i a, i b)) (l_extensions v.lay) in
  let total = List.fold_left (fun s (f, l) -> s * max (l - f) 0) 1 exts in
  if total = 0 then []
  else if total <= 12 then all_idx exts
  else
    let corner0 = List.map fst exts and corner1 = List.map (fun (_, l) -> l - 1) exts in
    let rnd_idx () = List.map (fun (f, l) -> rnd_range f (l - 1)) exts in
    corner0 :: corner1 :: List.init 6 (fun _ -> rnd_idx ())

let shape_line id step (v : view) : string =
  let sz = il (l_sizes v.lay) and st = il (l_strides v.lay) in
  let ex = List.map (fun (a, b) -> Printf.sprintf "%d:%d" (i a) (i b)) (l_extensions v.lay) in
  let strides = List.map2 (fun s n -> if n >= 2 then string_of_int s else "*") st sz in
  Printf.sprintf "S %s %d rank=%d sizes=%s ext=%s strides=%s nel=%d size=%d empty=%d" id step (rank v) (ints sz)
    (String.concat "," ex) (String.concat "," strides)
    (i (l_num_elements v.lay)) (i (v_size v)) (if l_is_empty v.lay then 1 else 0)

let probe_line id step (v : view) (nroot : int) (idx : int list) : string =
  let zi = zl idx in
  let b = i (addr_brackets v zi) and c = i (addr_paren v zi) and h = i (addr_cursor v zi) in
  Printf.sprintf "P %s %d idx=%s B=%d C=%d T=%d H=%d V=%s" id step (ints idx) b c c h
    (if b >= 0 && b < nroot then string_of_int b else "oob")

let root_sizes () (c : cfg) : (int * int) list =
  let d = weighted [ (2, 1); (4, 2); (4, 3); (2, 4); (1, 5) ] in
  let d = min d c.maxrank in
  let special = chance 15 in
  List.init d (fun _ ->
      let n =
        if special && chance 40 then pick [ 0; 1 ]
        else weighted [ (1, 1); (4, 2); (5, 3); (4, 4); (2, 5); (2, 6); (1, 7) ] in
      let f = if c.rebased then (if chance 25 then 0 else pick [ -3; -2; -1; 1; 2; 3 ]) else 0 in
      (f, f + n))

(* emits one case; returns (number of ops applied, op kinds) *)
let gen_case ?(with_probes = true) ?twin ?(tail = fun (_ : string) (_ : view) (_ : Buffer.t) (_ : Buffer.t) -> ([] : string list))
    (c : cfg) (id : string) (prog : Buffer.t) (obs : Buffer.t) : string list =
  let exts = root_sizes () c in
  let pr b s = Buffer.add_string b s; Buffer.add_char b '\n' in
  pr prog ("case " ^ id);
  pr prog (Printf.sprintf "root %d %s" (List.length exts) (join " " (fun (f, l) -> Printf.sprintf "%d %d" f l) exts));
  let tw s = match twin with Some b -> pr b s | None -> () in
  tw ("case " ^ id);
  tw (Printf.sprintf "root %d %s" (List.length exts) (join " " (fun (f, l) -> Printf.sprintf "0 %d" (l - f)) exts));
  let v0 = root_view (List.map (fun (f, l) -> (z f, z l)) exts) in
  let nroot = i (l_num_elements v0.lay) in
  let emit_probes step v =
    if with_probes then
      List.iter
        (fun idx ->
          pr prog ("probe " ^ join " " string_of_int idx);
          tw ("probe " ^ join " " string_of_int (List.map2 (fun k f -> k - i f) idx (firsts_of v)));
          pr obs (probe_line id step v nroot idx))
        (probes v) in
  pr obs (shape_line id 0 v0);
  emit_probes 0 v0;
  (* C01_broadcast: v.broadcasted()[i] is v for any i (the added dimension has stride 0 and no size) *)
  let emit_bprobe step v =
    if with_probes && rank v < c.maxd && i (l_num_elements v.lay) > 0 && chance 25 then begin
      let k = rnd_range (-5) 9 in
      pr prog (Printf.sprintf "bprobe %d" k);
      tw (Printf.sprintf "bprobe %d" k);
      let same = v_index (z k) (v_broadcasted (z 0) v) = v in
      pr obs (Printf.sprintf "Q %s %d broadcasted i=%d same=%d" id step k (if same then 1 else 0))
    end in
  emit_bprobe 0 v0;
  let nops = rnd_range 0 c.maxops in
  let v = ref v0 and kinds = ref [] and step = ref 0 in
  for _ = 1 to nops do
    let rec try_op k =
      if k = 0 then None
      else match candidate c !v with
        | Some o when dom_op o !v && (let r' = rank (exec_op o !v) in r' >= 1 && r' <= c.maxd) -> Some o
        | _ -> try_op (k - 1) in
    match try_op 30 with
    | None -> ()
    | Some o ->
        incr step;
        (match twin_op !v o with [] -> tw "op nop" | l -> List.iter (fun o' -> tw ("op " ^ op_text o')) l);
        v := exec_op o !v;
        kinds := op_kind o :: !kinds;
        pr prog ("op " ^ op_text o);
        pr obs (shape_line id !step !v);
        emit_probes !step !v;
        emit_bprobe !step !v
  done;
  let extra_kinds = tail id !v prog obs in
  pr prog "end";
  tw "end";
  pr obs ("E " ^ id);
  List.rev !kinds @ extra_kinds

(* ---- exhaustive enumeration (thorough tier of C01): every root shape with rank <= maxrank and extents 0..maxext,
   every operation sequence of length <= maxlen whose arguments range over their whole in-domain set ---- *)
let all_ops (v : view) : op list =
  let r = rank v in
  let (f, l) = let (a, b) = v_extension v in (i a, i b) in
  let n = i (v_size v) in
  let rng a b = if b < a then [] else List.init (b - a + 1) (fun k -> a + k) in
  let slices = List.concat_map (fun a -> List.map (fun b -> (a, b)) (rng a l)) (rng f l) in
  let cands =
    (if r >= 2 then List.map (fun k -> OIndex (z k)) (rng f (l - 1)) else [])
    @ List.map (fun (a, b) -> OSliced (z a, z b)) slices
    @ List.concat_map (fun (a, b) -> if b > a then List.map (fun s -> OSlicedS (z a, z b, z s)) (divisors (b - a)) else []) slices
    @ (if n > 0 then List.map (fun s -> OStrided (z s)) (divisors n) else [])
    @ List.map (fun k -> ODropped (z k)) (rng 0 n)
    @ List.map (fun k -> OTaked (z k)) (rng 0 n)
    @ [ ORotated; OUnrotated; OReversed ]
    @ (if r >= 2 then [ OTransposed; ODiagonal; OFlatted ] else [])
    @ (if n > 0 then List.map (fun k -> OPartitioned (z k)) (divisors n) @ List.map (fun k -> OChunked (z k)) (divisors n) @ [ OHalved ] else [])
    @ (let parg_choices (f, l) = (List.map (fun k -> PIdx (z k)) (rng f (l - 1))) @ [ PAll ] @ (if l - f >= 2 then [ PRange (z f, z (l - 1)); PRange (z (f + 1), z l) ] else []) in
       let exts = List.map (fun (a, b) -> (i a, i b)) (l_extensions v.lay) in
       match exts with
       | e0 :: e1 :: _ when r >= 2 ->
           List.concat_map (fun a0 -> List.map (fun a1 -> OParen [ a0; a1 ]) (parg_choices e1)) (parg_choices e0)
       | e0 :: _ -> List.map (fun a0 -> OParen [ a0 ]) (parg_choices e0)
       | [] -> []) in
  List.filter (fun o -> dom_op o v && (let r' = rank (exec_op o v) in r' >= 1 && r' <= 5)
                        && (match o with OParen args -> List.length (List.filter (function PIdx _ -> true | _ -> false) args) < r | _ -> true)) cands

let exhaustive (maxrank : int) (maxext : int) (maxlen : int) (prog : Buffer.t) (obs : Buffer.t) : int =
  let count = ref 0 in
  let pr b s = Buffer.add_string b s; Buffer.add_char b '\n' in
  let rec shapes r = if r = 0 then [ [] ] else List.concat_map (fun t -> List.init (maxext + 1) (fun n -> n :: t)) (shapes (r - 1)) in
  let emit exts ops =
    incr count;
    let id = Printf.sprintf "x%d" !count in
    pr prog ("case " ^ id);
    pr prog (Printf.sprintf "root %d %s" (List.length exts) (join " " (fun n -> Printf.sprintf "0 %d" n) exts));
    let v0 = root_view (List.map (fun n -> (z 0, z n)) exts) in
    let nroot = i (l_num_elements v0.lay) in
    pr obs (shape_line id 0 v0);
    let v = ref v0 and step = ref 0 in
    List.iter (fun o -> incr step; v := exec_op o !v; pr prog ("op " ^ op_text o); pr obs (shape_line id !step !v)) ops;
    List.iter (fun idx -> pr prog ("probe " ^ join " " string_of_int idx); pr obs (probe_line id !step !v nroot idx)) (probes !v);
    pr prog "end";
    pr obs ("E " ^ id) in
  let rec go exts v ops len =
    emit exts (List.rev ops);
    if len < maxlen then List.iter (fun o -> go exts (exec_op o v) (o :: ops) (len + 1)) (all_ops v) in
  for r = 1 to maxrank do
    List.iter (fun exts -> go exts (root_view (List.map (fun n -> (z 0, z n)) exts)) [] 0) (shapes r)
  done;
  !count

(* ---- running a given program text (replay, shrinking, corpus) ---- *)
let parse_op (toks : string list) : op =
  let n s = z (int_of_string s) in
  match toks with
  | [ "index"; a ] -> OIndex (n a)
  | [ "sliced"; a; b ] | [ "range"; a; b ] -> OSliced (n a, n b)
  | [ "sliceds"; a; b; s ] -> OSlicedS (n a, n b, n s)
  | [ "strided"; s ] -> OStrided (n s)
  | [ "dropped"; a ] -> ODropped (n a)
  | [ "taked"; a ] -> OTaked (n a)
  | [ "rotated" ] -> ORotated
  | [ "unrotated" ] -> OUnrotated
  | [ "transposed" ] | [ "tilde" ] -> OTransposed
  | [ "reversed" ] -> OReversed
  | [ "diagonal" ] -> ODiagonal
  | [ "partitioned"; a ] -> OPartitioned (n a)
  | [ "chunked"; a ] -> OChunked (n a)
  | [ "halved" ] -> OHalved
  | [ "flatted" ] -> OFlatted
  | [ "reindexed"; a ] -> OReindexed (n a)
  | [ "blocked"; a; b ] -> OBlocked (n a, n b)
  | "reindexedl" :: rest -> OReindexedL (List.map n rest)
  | "paren" :: _k :: rest ->
      let rec go = function
        | [] -> []
        | "i" :: a :: t -> PIdx (n a) :: go t
        | "r" :: a :: b :: t -> PRange (n a, n b) :: go t
        | "a" :: t -> PAll :: go t
        | _ -> failwith "bad paren" in
      OParen (go rest)
  | _ -> failwith ("bad op: " ^ String.concat " " toks)

let words s = List.filter (fun w -> w <> "") (String.split_on_char ' ' (String.trim s))

(* runs every case of a program text through the model; an out-of-domain op prints an X line and
   ends the case (the harness is not expected to agree on it) *)
let run_text ?(extra = fun (_ : string) (_ : view) (_ : string list list) (_ : Buffer.t) -> ()) (text : string) (obs : Buffer.t) : unit =
  let pr s = Buffer.add_string obs s; Buffer.add_char obs '\n' in
  let id = ref "" and v = ref (root_view []) and nroot = ref 0 and step = ref 0 and dead = ref false in
  let pending = ref [] in
  List.iter
    (fun line ->
      match words line with
      | [ "case"; c ] -> id := c; step := 0; dead := false; pending := []
      | "root" :: _d :: rest ->
          let rec pairs = function a :: b :: t -> (z (int_of_string a), z (int_of_string b)) :: pairs t | _ -> [] in
          v := root_view (pairs rest);
          nroot := i (l_num_elements !v.lay);
          pr (shape_line !id 0 !v)
      | [ "op"; "nop" ] when not !dead -> incr step; pr (shape_line !id !step !v)
      | "op" :: toks when not !dead ->
          let o = parse_op toks in
          incr step;
          if dom_op o !v then (v := exec_op o !v; pr (shape_line !id !step !v))
          else (pr (Printf.sprintf "X %s %d out-of-domain %s" !id !step (String.concat " " toks)); dead := true)
      | [ "bprobe"; k ] when not !dead ->
          let same = v_index (z (int_of_string k)) (v_broadcasted (z 0) !v) = !v in
          pr (Printf.sprintf "Q %s %d broadcasted i=%s same=%d" !id !step k (if same then 1 else 0))
      | "probe" :: toks when not !dead ->
          let idx = List.map int_of_string toks in
          let exts = List.map (fun (a, b) -> (i a, i b)) (l_extensions !v.lay) in
          if List.length idx = List.length exts && List.for_all2 (fun k (f, l) -> f <= k && k < l) idx exts
          then pr (probe_line !id !step !v !nroot idx)
          else pr (Printf.sprintf "P %s %d idx=%s invalid" !id !step (ints idx))
      | [ "end" ] -> if not !dead then extra !id !v (List.rev !pending) obs; pr ("E " ^ !id)
      | [] -> ()
      | toks -> if not !dead then pending := toks :: !pending)
    (String.split_on_char '\n' text)

(* Driver of the rank-0 lifecycle machine (C04, C05, C07, C10 at dimensionality 0): history generator + model runner.
   Hand-written and trusted (DESIGN.md section 6.5).  The history text is the interface shared with harness/h_rank0.cpp;
   observation lines have the same format on both sides.
     driver_rank0 gen --seed S --count N --t <0|1|2|3|4> --maxops M --prefix P [--disable op,op,...] [--profile c04|c05|c07|c10|mix]
                      [--alloc "pocca=1 pocma=0 pocs=1 ae=0 pmr=0 socc=1"]
     driver_rank0 run            (history text on stdin, observations on stdout)
   All randomness derives from --seed.

   History text:   case <id> / cfg t=<kind> [pocca=<0|1> pocma=<0|1> pocs=<0|1> ae=<0|1> pmr=<0|1> socc=<0|1>] / op <name> <args> ... / end
   (the allocator configuration: the three propagate_on_container traits and is_always_equal of the harness allocator, or
   std::pmr::polymorphic_allocator; socc=1: select_on_container_copy_construction returns the instance id + 1000)
   A slot is rN (N < 6); a reference is sN.K (element K of the object in slot N: K = 0 for a rank-0 array, any index of a buffer);
   an operand of a comparison is a reference or vN (the element value N).  The trailing integer of most operations ("form")
   selects the C++ spelling in the harness (which constructor / which kind of reference object); the model does not read it. *)
open Modelrank0

let rec pos_of_int (n : int) : positive =
  if n <= 1 then XH else if n land 1 = 0 then XO (pos_of_int (n lsr 1)) else XI (pos_of_int (n lsr 1))
let rec int_of_pos (p : positive) : int =
  match p with XH -> 1 | XO q -> 2 * int_of_pos q | XI q -> 2 * int_of_pos q + 1
let z (n : int) : z = if n = 0 then Z0 else if n > 0 then Zpos (pos_of_int n) else Zneg (pos_of_int (-n))
let i (x : z) : int = match x with Z0 -> 0 | Zpos p -> int_of_pos p | Zneg p -> - (int_of_pos p)
let rec int_of_nat (n : nat) : int = match n with O -> 0 | S m -> 1 + int_of_nat m
let rec nat_of_int (n : int) : nat = if n <= 0 then O else S (nat_of_int (n - 1))

let rng = ref (Random.State.make [| 0 |])
let seed s = rng := Random.State.make [| s; 0x5a0 |]
let rnd n = if n <= 0 then 0 else Random.State.int !rng n
let pick l = List.nth l (rnd (List.length l))
let weighted (l : (int * 'a) list) : 'a =
  let l = List.filter (fun (w, _) -> w > 0) l in
  let tot = List.fold_left (fun s (w, _) -> s + w) 0 l in
  let r = ref (rnd tot) in
  let res = ref (snd (List.hd l)) in
  (try List.iter (fun (w, x) -> if !r < w then (res := x; raise Exit) else r := !r - w) l with Exit -> ());
  !res
let chance pct = rnd 100 < pct

(* element kinds: 0 int, 1 tracked class, 2 struct{int v = 0;}, 3 trivial default constructor with user-provided copy,
   4 like 2 with a move assignment that loses the value when an object is moved onto itself (std::vector-like) *)
type hcfg = { t : int; pocca : bool; pocma : bool; pocs : bool; ae : bool; pmr : bool; soccm : int }
let tracked c = c.t = 1
let mcfg (c : hcfg) : config =
  { c_rank = O; c_tdc = (c.t = 0 || c.t = 3); c_tdx = not (tracked c); c_quiet = not (tracked c);
    c_pocca = c.pocca && not c.pmr; c_pocma = c.pocma && not c.pmr; c_pocs = c.pocs && not c.pmr; c_ae = c.ae && not c.pmr;
    c_socc = (if c.pmr then SoccDefault else if c.soccm = 1 then SoccChild else SoccSame) }
let parse_cfg (line : string) : hcfg =
  let t = ref 1 and pocca = ref false and pocma = ref false and pocs = ref false and ae = ref false and pmr = ref false
  and soccm = ref 0 in
  let b v = int_of_string v <> 0 in
  List.iter (fun tok -> match String.split_on_char '=' tok with
      | ["t"; v] -> t := int_of_string v
      | ["pocca"; v] -> pocca := b v | ["pocma"; v] -> pocma := b v | ["pocs"; v] -> pocs := b v | ["ae"; v] -> ae := b v
      | ["pmr"; v] -> pmr := b v | ["socc"; v] -> soccm := int_of_string v
      | _ -> ()) (String.split_on_char ' ' line);
  { t = !t; pocca = !pocca; pocma = !pocma; pocs = !pocs; ae = !ae; pmr = !pmr; soccm = !soccm }
let default_alloc_cfg (c : hcfg) = not (c.pocca || c.pocma || c.pocs || c.ae || c.pmr || c.soccm <> 0)
let cfg_line (c : hcfg) : string =
  if default_alloc_cfg c then Printf.sprintf "cfg t=%d" c.t
  else Printf.sprintf "cfg t=%d pocca=%d pocma=%d pocs=%d ae=%d pmr=%d socc=%d" c.t (Bool.to_int c.pocca) (Bool.to_int c.pocma)
      (Bool.to_int c.pocs) (Bool.to_int c.ae) (Bool.to_int c.pmr) c.soccm

exception Skip of string
let np = int_of_nat nP

let slot_of (s : string) : int = int_of_string (String.sub s 1 (String.length s - 1))
let ref_of (s : string) : ref0 =
  match String.split_on_char '.' (String.sub s 1 (String.length s - 1)) with
  | [a; b] -> { rf_slot = nat_of_int (int_of_string a); rf_idx = nat_of_int (int_of_string b) }
  | _ -> failwith ("reference " ^ s)
let get_arr_opt (st : state) (r : int) : arr option =
  match List.nth_opt st.s_arrs r with Some (Some a) -> Some a | _ -> None
let is_arr0 (a : arr) = a.a_exts = []
let need_arr0 st r = match get_arr_opt st r with Some a when r < np && is_arr0 a -> () | _ -> raise (Skip "not-a-rank0-array")
let need_free st r = match get_arr_opt st r with None when r < np -> () | _ -> raise (Skip "slot-live")
let need_live st r = match get_arr_opt st r with Some _ when r < np -> () | _ -> raise (Skip "slot-not-live")
let need_ref st (q : ref0) =
  let r = int_of_nat q.rf_slot in
  match get_arr_opt st r with
  | Some a when r < np && int_of_nat q.rf_idx < i (nel a) -> ()
  | _ -> raise (Skip "reference-out-of-domain")
let same_cell (q : ref0) (p : ref0) = int_of_nat q.rf_slot = int_of_nat p.rf_slot && int_of_nat q.rf_idx = int_of_nat p.rf_idx

type action =
  | Step of lop0
  | Cmp of cmpop * operand * operand
  | Read of ref0                (* conversion to the element, all value categories: the value *)
  | Query of int                (* num_elements, is_empty, ... of the object in a slot *)

let cmp_of = function
  | "eq" -> CEq | "ne" -> CNe | "lt" -> CLt | "le" -> CLe | "gt" -> CGt | "ge" -> CGe | s -> failwith ("cmp " ^ s)
let operand_of st (s : string) : operand =
  if s.[0] = 'v' then OpVal (z (int_of_string (String.sub s 1 (String.length s - 1))))
  else (let q = ref_of s in need_ref st q; OpRef q)

let parse_op (st : state) (toks : string list) : action =
  let n s = nat_of_int (slot_of s) in
  let zi s = z (int_of_string s) in
  let fr s = need_free st (slot_of s); n s in
  let a0 s = need_arr0 st (slot_of s); n s in
  let rf s = let q = ref_of s in need_ref st q; q in
  match toks with
  | "buf" :: r :: a :: vals -> Step (ZBuf (fr r, zi a, List.map zi vals))
  | ("ctor_default" | "ctor_exts") :: r :: _ -> Step (ZCtorValue (fr r, default_alloc))
  | ("ctor_alloc" | "ctor_exts_alloc") :: r :: a :: _ -> Step (ZCtorValue (fr r, zi a))
  | ("ctor_elem" | "ctor_exts_elem") :: r :: v :: _ -> Step (ZCtorElem (fr r, default_alloc, zi v))
  | ("ctor_elem_alloc" | "ctor_exts_elem_alloc") :: r :: a :: v :: _ -> Step (ZCtorElem (fr r, zi a, zi v))
  | "ctor_conv" :: r :: v :: _ -> Step (ZCtorSingleton (fr r, zi v))
  | "ctor_conv_alloc" :: r :: a :: v :: _ -> Step (ZCtorConv (fr r, zi a, zi v))
  | ("ctor_copy" | "ctor_copy_nc" | "uplus") :: r :: s :: _ -> let r = fr r in Step (ZCtorCopy (r, a0 s))
  | "ctor_copy_alloc" :: r :: s :: a :: _ -> let r = fr r in Step (ZCtorCopyAlloc (r, a0 s, zi a))
  | "ctor_move" :: r :: s :: _ -> let r = fr r in Step (ZCtorMove (r, a0 s))
  | "ctor_move_alloc" :: r :: s :: a :: _ -> let r = fr r in Step (ZCtorMoveAlloc (r, a0 s, zi a))
  | "ctor_ref" :: r :: q :: _ -> let r = fr r in Step (ZCtorRef (r, default_alloc, rf q))
  | "ctor_ref_alloc" :: r :: a :: q :: _ -> let r = fr r in Step (ZCtorRef (r, zi a, rf q))
  | "ctor_moved_ref" :: r :: q :: _ -> let r = fr r in Step (ZCtorMovedRef (r, default_alloc, rf q))
  | ("assign_copy" | "assign_copy_nc") :: r :: s :: _ -> let r = a0 r in Step (ZAssignCopy (r, a0 s))
  | "assign_move" :: r :: s :: _ -> let r = a0 r in Step (ZAssignMove (r, a0 s))
  | ("assign_elem" | "assign_elem_conv") :: r :: v :: _ -> Step (ZAssignElem (a0 r, zi v))
  | "assign_conv" :: r :: v :: _ -> Step (ZAssignConv (a0 r, zi v))
  | "assign_ref" :: r :: q :: _ -> let r = a0 r in Step (ZAssignRef (r, rf q))
  | "assign_moved_ref" :: r :: q :: _ -> let r = a0 r in Step (ZAssignMovedRef (r, rf q))
  | "swap" :: r :: s :: form ->
    (* form 1: std::swap(a, b), the generic algorithm; form 0: using std::swap; swap(a, b), which finds the friend = a.swap(b) *)
    if slot_of r = slot_of s then raise (Skip "self-swap");
    let r = a0 r in
    if form = ["1"] then Step (ZSwap (r, a0 s)) else Step (ZSwapMember (r, a0 s))
  | "swap_member" :: r :: s :: _ -> if slot_of r = slot_of s then raise (Skip "self-swap"); let r = a0 r in Step (ZSwapMember (r, a0 s))
  | "write" :: r :: v :: _ -> Step (ZWrite (a0 r, zi v))
  | "move_out" :: r :: _ -> Step (ZMoveOut (a0 r))
  | "destroy" :: r :: _ -> need_live st (slot_of r); Step (ZDestroy (n r))
  | "ref_assign_ref" :: q :: p :: _ -> let q = rf q in Step (ZRefAssignRef (q, rf p))
  | "ref_assign_elem" :: q :: v :: _ -> Step (ZRefAssignElem (rf q, zi v))
  | "ref_assign_moved" :: q :: p :: _ -> let q = rf q in Step (ZRefAssignMoved (q, rf p))
  | "ref_swap" :: q :: p :: _ ->
    let q = rf q in let p = rf p in
    if same_cell q p then raise (Skip "swap-of-one-cell");
    Step (ZRefSwap (q, p))
  | "ref_write" :: q :: v :: _ -> Step (ZRefWrite (rf q, zi v))
  | "cmp" :: o :: l :: r :: _ -> let l = operand_of st l in Cmp (cmp_of o, l, operand_of st r)
  | "read" :: q :: _ -> Read (rf q)
  | "query" :: r :: _ -> need_live st (slot_of r); Query (slot_of r)
  | x :: _ -> failwith ("unknown op " ^ x)
  | [] -> failwith "empty op"

let err_name (e : err) = match e with
  | EConstructOverAlive -> "construct-over-alive" | EDestroyRaw -> "destroy-raw" | EReadRaw -> "read-raw"
  | EAssignRaw -> "assign-raw" | EDangling -> "dangling" | EOutOfBlock -> "out-of-block"
  | EUnknownBlock -> "dealloc-unknown-block" | EDoubleFree -> "double-free" | EWrongSize -> "dealloc-wrong-size"
  | EWrongAlloc -> "dealloc-wrong-allocator" | ELiveCells -> "dealloc-with-live-elements"
  | EBadSlot -> "bad-slot" | EDomain -> "domain"

type pctx = { classes : (int, int) Hashtbl.t; mutable nclass : int }

let print_state (buf : Buffer.t) (c : hcfg) (cid : string) (step : int) (px : pctx) (st : state) (show_copies : bool)
    (show_allocs : bool) : bool =
  let m = mcfg c in
  let all_valid = ref true in
  List.iteri (fun r slot ->
    if r < np then
      match slot with
      | None -> ()
      | Some a ->
        Buffer.add_string buf (Printf.sprintf "A %s %d r%d %s" cid step r (if is_arr0 a then "arr" else "buf"));
        if not (arr_valid m st a) then begin
          all_valid := false;
          Buffer.add_string buf (Printf.sprintf " INVALID al=%d\n" (i a.a_alloc))
        end
        else begin
          let n = i (nel a) in
          let els =
            if n <= 0 then "-"
            else match arr_block st a with
              | Some blk -> String.concat "," (List.map (fun cl -> match cl with
                  | Raw -> string_of_int (i pat) | Alive v -> string_of_int (i v)
                  | Moved v -> string_of_int (i v) ^ (if tracked c then "!" else "")) blk.b_cells)
              | None -> "?" in
          let blk =
            if n <= 0 then "-"
            else match a.a_base with
              | PBlk b ->
                let b = int_of_nat b in
                (match Hashtbl.find_opt px.classes b with
                 | Some k -> string_of_int k
                 | None -> let k = px.nclass in Hashtbl.add px.classes b k; px.nclass <- k + 1; string_of_int k)
              | PNull -> "?" in
          Buffer.add_string buf (Printf.sprintf " n=%d el=%s blk=%s al=%d\n" n els blk (i a.a_alloc))
        end) st.s_arrs;
  let out = List.filter_map (fun (b : block) ->
      if b.b_live && i b.b_owner <> i std_alloc then Some (i b.b_owner, i b.b_size) else None) st.s_blocks in
  let out = List.sort compare out in
  let out_s = if out = [] then "-" else String.concat "," (List.map (fun (a, n) -> Printf.sprintf "%d:%d" a n) out) in
  Buffer.add_string buf (Printf.sprintf "G %s %d alive=%d out=%s copies=%s allocs=%s\n" cid step
    (if tracked c then i (alive_cells st) else 0) out_s
    (if show_copies && tracked c then string_of_int (i st.s_copies) else "-")
    (if show_allocs then string_of_int (i st.s_allocs) else "-"));
  !all_valid

(* the operations for which the properties state "no element is copied" *)
let is_moving (o : lop0) = match o with
  | ZCtorMove _ | ZCtorMoveAlloc _ | ZAssignMove _ | ZSwap _ | ZSwapMember _ | ZMoveOut _ | ZRefSwap _ -> true
  | _ -> false

let cmp_name = function CEq -> "eq" | CNe -> "ne" | CLt -> "lt" | CLe -> "le" | CGt -> "gt" | CGe -> "ge"

let rec take_n n l = if n <= 0 then [] else match l with [] -> [] | x :: r -> x :: take_n (n - 1) r

(* fault > 0: the fault-th fallible event of the case throws (C09).  The buffers are the harness's own storage: building one is
   not a fallible event on either side.  Returns the number of fallible events of the case. *)
let run_case (buf : Buffer.t) (cid : string) (c : hcfg) (fault : int) (ops : string list list) : int =
  let m = mcfg c in
  let st = ref (st0 (if fault > 0 then Some (nat_of_int fault) else None)) in
  let px = { classes = Hashtbl.create 16; nclass = 0 } in
  let refp = ref (List.map (fun _ -> None) !st.s_arrs) in
  let dead = ref false in
  let step = ref 0 in
  List.iter (fun toks ->
    if not !dead then begin
      incr step;
      let name = List.hd toks in
      match (try Some (parse_op !st toks) with Skip _ -> None) with
      | None -> Buffer.add_string buf (Printf.sprintf "O %s %d %s skipped\n" cid !step name)
      | Some (Cmp (o, l, r)) ->
        (match cmp0 m o l r !st with
         | Ok (b, _) -> Buffer.add_string buf (Printf.sprintf "Q %s %d cmp %s=%d\n" cid !step (cmp_name o) (if b then 1 else 0))
         | _ -> Buffer.add_string buf (Printf.sprintf "O %s %d %s skipped\n" cid !step name))
      | Some (Read q) ->
        (match read_operand m (OpRef q) !st with
         | Ok (v, _) -> Buffer.add_string buf (Printf.sprintf "Q %s %d read v=%d\n" cid !step (i v))
         | _ -> Buffer.add_string buf (Printf.sprintf "O %s %d %s skipped\n" cid !step name))
      | Some (Query r) ->
        (match get_arr_opt !st r with
         | Some a -> Buffer.add_string buf (Printf.sprintf "Q %s %d query n=%d empty=%d\n" cid !step (i (nel a)) (if i (nel a) = 0 then 1 else 0))
         | None -> ())
      | Some (Step o) ->
        let pre = !st in
        let moved_out = (match o with ZMoveOut r -> (match read_operand m (OpRef { rf_slot = r; rf_idx = O }) pre with Ok (v, _) -> Some (i v) | _ -> None) | _ -> None) in
        let (out, st') =
          (match o with
           | ZBuf _ ->
             let (out, st') = run_op0 m o { pre with s_fault = None } in
             (out, { st' with s_fault = pre.s_fault; s_fallible = pre.s_fallible })
           | _ -> run_op0 m o pre) in
        (match out with
         | OutErr (EBadSlot | EDomain) -> Buffer.add_string buf (Printf.sprintf "O %s %d %s skipped\n" cid !step name)
         | OutErr e -> Buffer.add_string buf (Printf.sprintf "X %s %d error %s\n" cid !step (err_name e)); dead := true
         | OutThrew when fault = 0 -> Buffer.add_string buf (Printf.sprintf "X %s %d error model-threw-without-a-fault\n" cid !step); dead := true
         | OutThrew ->
           st := st';
           let n_new = List.length st'.s_ledger - List.length pre.s_ledger in
           let fresh = take_n n_new st'.s_ledger in
           let at_alloc = List.exists (fun e -> match e with EvThrow SAlloc -> true | _ -> false) fresh in
           (* model-only line: the site of the fault (what the exclusion of C09_rank0_fault_safety is stated on) *)
           List.iter (fun e -> match e with
               | EvThrow w ->
                 Buffer.add_string buf (Printf.sprintf "T %s %d site=%s\n" cid !step
                   (match w with SAlloc -> "alloc" | SCtorElem -> "ctor-elem" | SAssignElem -> "assign-elem"
                               | SReextElem -> "reextent-elem" | SReextMove -> "reextent-move"))
               | _ -> ()) (List.rev fresh);
           Buffer.add_string buf (Printf.sprintf "O %s %d %s threw at=%s\n" cid !step name (if at_alloc then "a" else "e"));
           let show_allocs = not (name = "swap" && (match List.rev toks with "1" :: _ when List.length toks = 4 -> false | _ -> true)) in
           if not (print_state buf c cid !step px st' false show_allocs) then dead := true
         | OutOk ->
           st := st';
           if fault = 0 then begin
             refp := vstep0 m o !refp;
             if abs_state st' <> !refp then
               Buffer.add_string buf (Printf.sprintf "V %s %d reference-interpreter-mismatch %s\n" cid !step name)
           end;
           Buffer.add_string buf (Printf.sprintf "O %s %d %s ok\n" cid !step name);
           (match moved_out with Some v -> Buffer.add_string buf (Printf.sprintf "Q %s %d moved_out v=%d\n" cid !step v) | None -> ());
           let show_allocs = not (name = "swap" && (match List.rev toks with "1" :: _ when List.length toks = 4 -> false | _ -> true)) in
           if not (print_state buf c cid !step px st' (is_moving o) show_allocs) then dead := true)
    end) ops;
  if not !dead then begin
    let err = ref None in
    for r = 0 to np - 1 do
      if !err = None then
        match get_arr_opt !st r with
        | Some _ ->
          let (out, st') = run_op0 m (ZDestroy (nat_of_int r)) !st in
          (match out with OutErr e -> err := Some e | _ -> st := st')
        | None -> ()
    done;
    (match !err with
     | Some e -> Buffer.add_string buf (Printf.sprintf "X %s end error %s\n" cid (err_name e))
     | None ->
       let outstanding = List.length (List.filter (fun (b : block) -> b.b_live && i b.b_owner <> i std_alloc) !st.s_blocks) in
       Buffer.add_string buf (Printf.sprintf "Z %s alive=%d outstanding=%d fallible=%d\n" cid
         (if tracked c then i (alive_cells !st) else 0) outstanding (i !st.s_fallible)))
  end;
  Buffer.add_string buf (Printf.sprintf "E %s\n" cid);
  i !st.s_fallible

let words (s : string) = List.filter (fun w -> w <> "") (String.split_on_char ' ' (String.trim s))

let run_stdin () =
  let buf = Buffer.create 65536 in
  let cid = ref "" and cfg = ref (parse_cfg "") and ops = ref [] and fault = ref 0 in
  (try
     while true do
       let line = input_line stdin in
       match words line with
       | "case" :: id :: _ -> cid := id; ops := []; cfg := parse_cfg ""; fault := 0
       | "fault" :: k :: _ -> fault := int_of_string k
       | "cfg" :: _ -> cfg := parse_cfg line
       | "op" :: toks -> ops := toks :: !ops
       | "end" :: _ ->
         ignore (run_case buf !cid !cfg !fault (List.rev !ops));
         print_string (Buffer.contents buf); Buffer.clear buf
       | _ -> ()
     done
   with End_of_file -> ());
  print_string (Buffer.contents buf)

(* ---------- generator ---------- *)
(* values from a small alphabet so that equal elements are common (C07), with occasional fresh ones *)
let next_val = ref 100
let gen_val () = if chance 70 then pick [1; 2; 3; 3; 4; 5] else (incr next_val; if !next_val > 900 then next_val := 100; !next_val)

let gen_history (c : hcfg) (profile : string) (maxops : int) (disabled : string list) : string list list =
  let m = mcfg c in
  let st = ref (st0 None) in
  let hist = ref [] in
  let nops = 4 + rnd (max 1 (maxops - 3)) in
  let ok name = not (List.mem name disabled) in
  let slots = List.init np (fun r -> r) in
  let arrs () = List.filter (fun r -> match get_arr_opt !st r with Some a -> is_arr0 a | None -> false) slots in
  let bufs () = List.filter (fun r -> match get_arr_opt !st r with Some a -> not (is_arr0 a) | None -> false) slots in
  let free () = List.filter (fun r -> get_arr_opt !st r = None) slots in
  let sl r = "r" ^ string_of_int r in
  let all_refs () =
    List.concat_map (fun r -> match get_arr_opt !st r with
        | Some a -> List.init (i (nel a)) (fun k -> Printf.sprintf "s%d.%d" r k)
        | None -> []) slots in
  let alloc_id () = if profile = "c10" then weighted [ (3, 0); (4, 1); (4, 2); (2, 3) ] else weighted [ (5, 0); (3, 1); (2, 2) ] in
  let form n = string_of_int (rnd n) in
  let w_ctor, w_copy, w_assign, w_ref, w_cmp, w_misc =
    match profile with
    | "c04" -> (8, 10, 12, 4, 3, 6)
    | "c05" -> (5, 3, 4, 20, 3, 4)
    | "c07" -> (6, 3, 4, 4, 24, 3)
    | "c10" -> (9, 12, 14, 2, 1, 9)
    | "c09" -> (8, 9, 12, 7, 0, 12)
    | _ -> (7, 7, 9, 10, 8, 5) in
  let choose (l : (int * string * (unit -> string list)) list) : string list option =
    let l = List.filter (fun (w, name, _) -> w > 0 && ok name) l in
    if l = [] then None else (let (_, _, f) = weighted (List.map (fun ((w, _, _) as x) -> (w, x)) l) in Some (f ())) in
  let attempt () : string list option =
    let av = arrs () and bv = bufs () and fr = free () and rf = all_refs () in
    let has_a = av <> [] and has_f = fr <> [] and has_r = rf <> [] in
    let two = List.length av >= 2 in
    let cat = weighted [
        ((if has_f then (if av = [] then 40 else w_ctor) else 0), `Ctor);
        ((if has_f && List.length bv < 2 then (if bv = [] then 6 else 1) else 0), `Buf);
        ((if has_f && has_a then w_copy else 0), `CopyCtor);
        ((if has_a then w_assign else 0), `Assign);
        ((if has_r then w_ref else 0), `Ref);
        ((if has_r then w_cmp else 0), `Cmp);
        ((if has_a then w_misc else 0), `Misc);
        ((if List.length av >= 4 || (not has_f) then 4 else if has_a then 1 else 0), `Destroy) ] in
    match cat with
    | `Buf -> let r = pick fr in
      let n = 1 + rnd 4 in
      choose [ (1, "buf", fun () -> [ "buf"; sl r; string_of_int (alloc_id ()) ] @ List.init n (fun _ -> string_of_int (gen_val ()))) ]
    | `Ctor -> let r = pick fr in
      choose [
        (2, "ctor_default", (fun () -> [ "ctor_default"; sl r ]));
        (2, "ctor_alloc", (fun () -> [ "ctor_alloc"; sl r; string_of_int (alloc_id ()) ]));
        (1, "ctor_exts", (fun () -> [ "ctor_exts"; sl r ]));
        (1, "ctor_exts_alloc", (fun () -> [ "ctor_exts_alloc"; sl r; string_of_int (alloc_id ()) ]));
        (5, "ctor_elem", (fun () -> [ "ctor_elem"; sl r; string_of_int (gen_val ()) ]));
        (3, "ctor_elem_alloc", (fun () -> [ "ctor_elem_alloc"; sl r; string_of_int (alloc_id ()); string_of_int (gen_val ()) ]));
        (2, "ctor_exts_elem", (fun () -> [ "ctor_exts_elem"; sl r; string_of_int (gen_val ()) ]));
        (2, "ctor_exts_elem_alloc", (fun () -> [ "ctor_exts_elem_alloc"; sl r; string_of_int (alloc_id ()); string_of_int (gen_val ()) ]));
        (2, "ctor_conv", (fun () -> [ "ctor_conv"; sl r; string_of_int (gen_val ()) ]));
        (2, "ctor_conv_alloc", (fun () -> [ "ctor_conv_alloc"; sl r; string_of_int (alloc_id ()); string_of_int (gen_val ()) ]));
        ((if has_r then 4 else 0), "ctor_ref", (fun () -> [ "ctor_ref"; sl r; pick rf; form 4 ]));
        ((if has_r then 2 else 0), "ctor_ref_alloc", (fun () -> [ "ctor_ref_alloc"; sl r; string_of_int (alloc_id ()); pick rf; form 4 ]));
        ((if has_r then 2 else 0), "ctor_moved_ref", (fun () -> [ "ctor_moved_ref"; sl r; pick rf; form 2 ])) ]
    | `CopyCtor -> let r = pick fr and s = pick av in
      choose [
        (5, "ctor_copy", (fun () -> [ "ctor_copy"; sl r; sl s ]));
        (2, "ctor_copy_nc", (fun () -> [ "ctor_copy_nc"; sl r; sl s ]));
        (2, "uplus", (fun () -> [ "uplus"; sl r; sl s ]));
        (3, "ctor_copy_alloc", (fun () -> [ "ctor_copy_alloc"; sl r; sl s; string_of_int (alloc_id ()) ]));
        (5, "ctor_move", (fun () -> [ "ctor_move"; sl r; sl s ]));
        (2, "ctor_move_alloc", (fun () -> [ "ctor_move_alloc"; sl r; sl s; string_of_int (alloc_id ()) ])) ]
    | `Assign -> let r = pick av in
      let other () = if two && not (chance 8) then pick (List.filter (fun x -> x <> r) av) else r in
      choose [
        ((if two then 6 else 1), "assign_copy", (fun () -> [ "assign_copy"; sl r; sl (other ()) ]));
        ((if two then 2 else 0), "assign_copy_nc", (fun () -> [ "assign_copy_nc"; sl r; sl (other ()) ]));
        ((if two then 6 else 1), "assign_move", (fun () -> [ "assign_move"; sl r; sl (other ()) ]));
        (5, "assign_elem", (fun () -> [ "assign_elem"; sl r; string_of_int (gen_val ()); form 2 ]));
        (2, "assign_elem_conv", (fun () -> [ "assign_elem_conv"; sl r; string_of_int (gen_val ()) ]));
        (3, "assign_conv", (fun () -> [ "assign_conv"; sl r; string_of_int (gen_val ()) ]));
        ((if has_r then 6 else 0), "assign_ref", (fun () -> [ "assign_ref"; sl r; pick rf; form 4 ]));
        ((if has_r then 2 else 0), "assign_moved_ref", (fun () -> [ "assign_moved_ref"; sl r; pick rf; form 2 ])) ]
    | `Ref -> let q = pick rf in
      choose [
        (8, "ref_assign_ref", (fun () -> [ "ref_assign_ref"; q; pick rf; form 8 ]));
        (6, "ref_assign_elem", (fun () -> [ "ref_assign_elem"; q; string_of_int (gen_val ());
                                            (if profile = "c09" then pick [ "0"; "1"; "2"; "4" ] else form 5) ]));   (* form 3 builds a temporary element inside the call: one more fallible event than the operation has *)
        (2, "ref_fill", (fun () -> [ "ref_assign_elem"; q; string_of_int (gen_val ()); "5" ]));
        (3, "ref_assign_moved", (fun () -> [ "ref_assign_moved"; q; pick rf; form 3 ]));
        (4, "ref_swap", (fun () -> [ "ref_swap"; q; pick rf; form 2 ]));
        (3, "ref_write", (fun () -> [ "ref_write"; q; string_of_int (gen_val ()); form 2 ]));
        (3, "read", (fun () -> [ "read"; q; form 6 ])) ]
    | `Cmp ->
      let operand () = if chance 75 then pick rf else "v" ^ string_of_int (gen_val ()) in
      let l = operand () in
      let r = if l.[0] = 'v' then pick rf else operand () in
      let o = pick [ "eq"; "ne"; "lt"; "le"; "gt"; "ge" ] in
      choose [ (1, "cmp_" ^ o, (fun () -> [ "cmp"; o; l; r; form 6 ])) ]
    | `Misc -> let r = pick av in
      choose [
        ((if two then 5 else 0), "swap", (fun () -> [ "swap"; sl r; sl (pick (List.filter (fun x -> x <> r) av)); form 2 ]));
        ((if two then 4 else 0), "swap_member", (fun () -> [ "swap_member"; sl r; sl (pick (List.filter (fun x -> x <> r) av)) ]));
        (5, "write", (fun () -> [ "write"; sl r; string_of_int (gen_val ()); form 3 ]));
        (2, "move_out", (fun () -> [ "move_out"; sl r; form 2 ]));
        (2, "query", (fun () -> [ "query"; sl (pick (av @ bv)) ])) ]
    | `Destroy ->
      let cands = av @ (if chance 15 then bv else []) in
      if cands = [] then None else choose [ (1, "destroy", (fun () -> [ "destroy"; sl (pick cands) ])) ] in
  let tries = ref 0 in
  while List.length !hist < nops && !tries < 12 * nops do
    incr tries;
    match attempt () with
    | None -> ()
    | Some toks ->
      (match (try Some (parse_op !st toks) with Skip _ -> None) with
       | None -> ()
       | Some (Step o) ->
         let (out, st') = run_op0 m o !st in
         (match out with OutOk -> st := st'; hist := toks :: !hist | _ -> ())
       | Some _ -> hist := toks :: !hist)
  done;
  List.rev !hist

let emit_case (cid : string) (c : hcfg) (fault : int) (h : string list list) =
  Printf.printf "case %s\n%s\n" cid (cfg_line c);
  if fault > 0 then Printf.printf "fault %d\n" fault;
  List.iter (fun toks -> Printf.printf "op %s\n" (String.concat " " toks)) h;
  print_string "end\n"

let gen (sd : int) (count : int) (t : int) (maxops : int) (prefix : string) (profile : string) (disabled : string list)
    (alloc : string) (faults : int) =
  seed sd;
  let c = { (parse_cfg alloc) with t } in
  let scratch = Buffer.create 4096 in
  for k = 1 to count do
    let h = gen_history c profile maxops disabled in
    let cid = Printf.sprintf "%s%d" prefix k in
    if faults = 0 then emit_case cid c 0 h
    else begin
      (* one run per injection point: the fallible events of the fault-free run are counted first *)
      Buffer.clear scratch;
      let total = run_case scratch cid c 0 h in
      emit_case (cid ^ ".f0") c 0 h;
      let points =
        if total <= faults then List.init total (fun j -> j + 1)
        else List.sort_uniq compare (1 :: total :: List.init (faults - 2) (fun _ -> 1 + rnd total)) in
      List.iter (fun j -> emit_case (Printf.sprintf "%s.f%d" cid j) c j h) points
    end
  done

let () =
  let args = Array.to_list Sys.argv in
  let rec opt name dflt = function
    | a :: v :: _ when a = name -> v
    | _ :: r -> opt name dflt r
    | [] -> dflt in
  match args with
  | _ :: "run" :: _ -> run_stdin ()
  | _ :: "gen" :: rest ->
    gen (int_of_string (opt "--seed" "1" rest)) (int_of_string (opt "--count" "10" rest)) (int_of_string (opt "--t" "1" rest))
      (int_of_string (opt "--maxops" "14" rest)) (opt "--prefix" "g" rest) (opt "--profile" "mix" rest)
      (List.filter (fun s -> s <> "") (String.split_on_char ',' (opt "--disable" "" rest)))
      (opt "--alloc" "" rest) (int_of_string (opt "--faults" "0" rest))
  | _ -> prerr_endline "usage: driver_rank0 gen|run ..."; exit 2

(* C16 driver: prints the model's table rows and evaluates / generates access paths on the extracted model.
   Text vocabulary shared with gen/const_probes.py. *)
open Modelc16

let rec int_of_nat = function O -> 0 | S n -> 1 + int_of_nat n
let rec nat_of_int n = if n <= 0 then O else S (nat_of_int (n - 1))
let b01 b = if b then "1" else "0"

let tk_name = function TmR -> "TmR" | TmC -> "TmC" | TcC -> "TcC" | TmV -> "TmV" | TcV -> "TcV"
let pf_name = function PI pc -> b01 pc | PT t -> tk_name t | PM -> "M"
let apf_name = function A0 -> "0" | A1 -> "1" | AM -> "M"

let kind_name = function
  | KArr -> "Arr" | KSArr -> "SArr"
  | KARef a -> "ARef" ^ apf_name a | KSub pf -> "Sub" ^ pf_name pf | KCSub pf -> "CSub" ^ pf_name pf
  | KIt (c, pf) -> "It" ^ b01 c ^ pf_name pf
  | KER pf -> "ER" ^ pf_name pf | KEI pf -> "EI" ^ pf_name pf | KCu pf -> "Cu" ^ pf_name pf | KPt pf -> "Pt" ^ pf_name pf
  | KSP (c, pf) -> "SP" ^ b01 c ^ pf_name pf
  | KElem -> "Elem"
  | KArrS -> "ArrS" | KSubS pc -> "SubS" ^ b01 pc | KCSubS pc -> "CSubS" ^ b01 pc | KPtS pc -> "PtS" ^ b01 pc

let kind_of_name s =
  try List.find (fun k -> kind_name k = s) all_kinds with Not_found -> failwith ("kind " ^ s)

let state_name s =
  Printf.sprintf "%s.%d.%s.%s" (kind_name s.sk) (int_of_nat s.sd) (if s.sc then "c" else "m")
    (match s.scat with Lv -> "L" | Rv -> "R")

let state_of_name t =
  match String.split_on_char '.' t with
  | [k; d; c; ct] -> { sk = kind_of_name k; sd = nat_of_int (int_of_string d); sc = (c = "c"); scat = (if ct = "L" then Lv else Rv) }
  | _ -> failwith ("state " ^ t)

let op_name = function
  | AIndex -> "Index" | ACall0 -> "Call0" | ACall1 -> "Call1" | ACallAll -> "CallAll" | ACallRng -> "CallRng"
  | ACallRngIdx -> "CallRngIdx" | ACallIdxRng -> "CallIdxRng" | ABegin -> "Begin" | AEnd -> "End" | ACBegin -> "CBegin"
  | ACEnd -> "CEnd" | ADeref -> "Deref" | APlus1 -> "Plus1" | AElements -> "Elements" | ACElements -> "CElements"
  | AConstElements -> "ConstElements" | AHome -> "Home" | AFront -> "Front" | ABack -> "Back" | ASliced -> "Sliced"
  | ASlicedS -> "SlicedS" | AStrided -> "Strided" | ATaked -> "Taked" | ADropped -> "Dropped" | ARotated -> "Rotated"
  | AUnrotated -> "Unrotated" | ATransposed -> "Transposed" | ATilde -> "Tilde" | AReversed -> "Reversed"
  | ADiagonal -> "Diagonal" | APartitioned -> "Partitioned" | AChunked -> "Chunked" | AHalved -> "Halved"
  | AFlatted -> "Flatted" | AReindexed -> "Reindexed" | ABlocked -> "Blocked" | ARange -> "Range" | AStenciled -> "Stenciled"
  | ABroadcasted -> "Broadcasted" | AAsConst -> "AsConst" | ABase -> "Base" | ADataElements -> "DataElements"
  | AOrigin -> "Origin" | AAddrOf -> "AddrOf" | AAddressOf -> "AddressOf" | AArrow -> "Arrow" | AMove -> "Move" | ABindRef -> "BindRef" | ABindCRef -> "BindCRef"
  | AETransMP -> "ETransMP" | AETransLR -> "ETransLR" | AETransLC -> "ETransLC" | AETransLV -> "ETransLV" | AMemberCast -> "MemberCast"
  | AReinterpretN -> "ReinterpretN" | AReinterpret -> "Reinterpret" | AStaticCast -> "StaticCast" | AStaticCastC -> "StaticCastC"
  | AConstCast -> "ConstCast" | AElementMoved -> "ElementMoved" | AMoved -> "Moved"
  | AMutableBase -> "MutableBase" | ACBase -> "CBase" | AElementsAt -> "ElementsAt" | AApply -> "Apply" | AData -> "Data"
  | AConv (f, c, p) -> "Cv" ^ (match f with FI -> "I" | FE -> "E" | FA -> "A") ^ b01 c ^ (if p then "c" else "m")
  | AEqM -> "EqM" | AEqC -> "EqC"
  | AToView (t, e, p) -> "To" ^ (match t with VSub -> "Sub" | VCSub -> "CSub" | VARef -> "ARef") ^ (if e then "E" else "I") ^ (if p then "c" else "m")
  | AUPlus -> "UPlus" | ADecay -> "Decay" | AToArr -> "ToArr"
  | AAssign -> "Assign" | AFill -> "Fill" | ASwap -> "Swap" | AMSwap -> "MSwap"

let op_of_name n =
  try List.find (fun o -> op_name o = n) all_ops with Not_found -> failwith ("op " ^ n)

let outcome_name = function
  | To s -> "To:" ^ state_name s | ToVal -> "To:Val" | ToCopy s -> "To:Copy:" ^ state_name s | ToOther -> "To:Other" | Mut -> "Mut" | NoDef -> "NoDef"
  | No -> "No" | Hard -> "Hard" | NA -> "NA"

let is_mutator o = List.mem o mutators

(* evaluate a path: returns (number of steps taken, last state, outcome of the first non-To step or None) *)
let rec eval s ops k =
  match ops with
  | [] -> (k, s, None)
  | o :: tl -> (match astep s o with To s' -> eval s' tl (k + 1) | out -> (k, s, Some out))

let print_path oc id s ops =
  let (k, last, stop) = eval s ops 0 in
  let final = match stop with None -> "To:" ^ state_name last | Some o -> outcome_name o in
  Printf.fprintf oc "Q %s %s %s steps=%d final=%s ro0=%s clean=%s mutpath=%s ro=%s writable=%s assignable=%s\n" id (state_name s)
    (String.concat "," (List.map op_name ops)) k final (b01 (ro s)) (b01 (clean_path ops s)) (b01 (mut_path ops s))
    (b01 (ro last)) (b01 (writable last)) (b01 (assignable_thing last))

let () =
  let args = Array.to_list Sys.argv in
  let rec get k = function a :: v :: _ when a = k -> Some v | _ :: tl -> get k tl | [] -> None in
  let geti k d = match get k args with Some v -> int_of_string v | None -> d in
  match args with
  | _ :: "rows" :: _ ->
      let maxd = geti "--maxd" 3 in
      let maxdnew = geti "--maxdnew" maxd in
      List.iter (fun ((s, o), out) -> Printf.printf "R %s %s %s\n" (state_name s) (op_name o) (outcome_name out))
        (rows_of (states_upto (nat_of_int maxd) (nat_of_int maxdnew)))
  | _ :: "states" :: _ ->
      List.iter (fun s -> Printf.printf "S %s ro=%s writable=%s root=%s\n" (state_name s) (b01 (ro s)) (b01 (writable s)) (b01 (is_root s))) table_states
  | _ :: "kinds" :: _ ->
      List.iter (fun k -> Printf.printf "K %s copy=%s rebind=%s resize=%s\n" (kind_name k) (b01 (copy_constructible k)) (b01 (rebindable k)) (b01 (resizable k))) all_kinds
  | _ :: "run" :: _ ->
      (* stdin lines: <id> <state> <op,op,...> *)
      (try while true do
         let line = input_line stdin in
         match String.split_on_char ' ' (String.trim line) with
         | [id; st; ops] ->
             let ops = if ops = "-" then [] else List.map op_of_name (String.split_on_char ',' ops) in
             print_path stdout id (state_of_name st) ops
         | _ -> ()
       done with End_of_file -> ())
  | _ :: "paths" :: _ ->
      (* random well-formed paths from the six kinds of root; every choice from --seed *)
      let seed = geti "--seed" 1 and count = geti "--count" 100 and minlen = geti "--minlen" 3 and maxlen = geti "--maxlen" 6 in
      Random.init seed;
      let roots = List.filter is_root table_states in
      let nroots = List.length roots in
      let access = List.filter (fun o -> not (is_mutator o)) all_ops in
      let dist = Hashtbl.create 64 in
      let bump k = Hashtbl.replace dist k (1 + (try Hashtbl.find dist k with Not_found -> 0)) in
      for i = 0 to count - 1 do
        let r = List.nth roots (Random.int nroots) in
        let len = minlen + Random.int (maxlen - minlen + 1) in
        let rec grow s acc n =
          if n = 0 then List.rev acc
          else
            let noncanon = List.exists (fun o -> o = AETransLR || o = AETransLC) acc in
            let is_conv o = (match o with AConv (_, _, _) | AEqM | AEqC -> true | _ -> false) in
            let is_vconv o = (match o with AToView (_, _, _) -> true | _ -> false) in
            (* view construction only as the single step on a root (prvalue / xvalue); no conversion after a non-canonical functor *)
            let ok = List.filter (fun o -> (match astep s o with To _ -> true | _ -> false)
                                           && not (is_vconv o) && not (noncanon && is_conv o)) access in
            (* bias away from the language-level steps so that library steps dominate *)
            let ok' = List.filter (fun o -> not (List.mem o [AMove; ABindRef; ABindCRef]) || Random.int 4 = 0) ok in
            let ok = if ok' = [] then ok else ok' in
            if ok = [] then List.rev acc
            else
              let o = List.nth ok (Random.int (List.length ok)) in
              (match astep s o with To s' -> grow s' (o :: acc) (n - 1) | _ -> List.rev acc)
        in
        let ops = grow r [] len in
        bump ("root:" ^ kind_name r.sk ^ (if r.sc then ".c" else ".m"));
        bump ("len:" ^ string_of_int (List.length ops));
        List.iter (fun o -> bump ("op:" ^ op_name o)) ops;
        print_path stdout (Printf.sprintf "q%d" i) r ops
      done;
      let items = Hashtbl.fold (fun k v acc -> Printf.sprintf "\"%s\": %d" k v :: acc) dist [] in
      Printf.printf "DIST {%s}\n" (String.concat ", " (List.sort compare items))
  | _ -> prerr_endline "usage: driver_c16 rows [--maxd D]|states|kinds|run|paths --seed S --count N --minlen A --maxlen B"; exit 2

(* C16 driver: prints the model's table rows and evaluates / generates access paths on the extracted model.
   Text vocabulary shared with gen/const_probes.py. *)
open Modelc16

let rec int_of_nat = function O -> 0 | S n -> 1 + int_of_nat n
let rec nat_of_int n = if n <= 0 then O else S (nat_of_int (n - 1))
let b01 b = if b then "1" else "0"

let kind_name = function
  | KArr -> "Arr" | KSArr -> "SArr"
  | KARef pc -> "ARef" ^ b01 pc | KSub pc -> "Sub" ^ b01 pc | KCSub pc -> "CSub" ^ b01 pc
  | KIt (c, pc) -> "It" ^ b01 c ^ b01 pc
  | KER pc -> "ER" ^ b01 pc | KEI pc -> "EI" ^ b01 pc | KCu pc -> "Cu" ^ b01 pc | KPt pc -> "Pt" ^ b01 pc
  | KSP (c, pc) -> "SP" ^ b01 c ^ b01 pc
  | KElem -> "Elem"

let kind_of_name s =
  let pc c = (c = '1') in
  let n = String.length s in
  match s with
  | "Arr" -> KArr | "SArr" -> KSArr | "Elem" -> KElem
  | _ when n = 5 && String.sub s 0 4 = "ARef" -> KARef (pc s.[4])
  | _ when n = 5 && String.sub s 0 4 = "CSub" -> KCSub (pc s.[4])
  | _ when n = 4 && String.sub s 0 3 = "Sub" -> KSub (pc s.[3])
  | _ when n = 4 && String.sub s 0 2 = "It" -> KIt (pc s.[2], pc s.[3])
  | _ when n = 4 && String.sub s 0 2 = "SP" -> KSP (pc s.[2], pc s.[3])
  | _ when n = 3 && String.sub s 0 2 = "ER" -> KER (pc s.[2])
  | _ when n = 3 && String.sub s 0 2 = "EI" -> KEI (pc s.[2])
  | _ when n = 3 && String.sub s 0 2 = "Cu" -> KCu (pc s.[2])
  | _ when n = 3 && String.sub s 0 2 = "Pt" -> KPt (pc s.[2])
  | _ -> failwith ("kind " ^ s)

let state_name s =
  Printf.sprintf "%s.%d.%s.%s" (kind_name s.sk) (int_of_nat s.sd) (if s.sc then "c" else "m")
    (match s.scat with Lv -> "L" | Rv -> "R")

let state_of_name t =
  match String.split_on_char '.' t with
  | [k; d; c; ct] -> { sk = kind_of_name k; sd = nat_of_int (int_of_string d); sc = (c = "c"); scat = (if ct = "L" then Lv else Rv) }
  | _ -> failwith ("state " ^ t)

let op_name = function
  | AIndex -> "Index" | ACall0 -> "Call0" | ACall1 -> "Call1" | ACallAll -> "CallAll" | ACallRng -> "CallRng"
  | ACallRngIdx -> "CallRngIdx" | ACallIdxRng -> "CallIdxRng" | ABegin -> "Begin" | AEnd -> "End" | ACBegin -> "CBegin"
  | ACEnd -> "CEnd" | ADeref -> "Deref" | APlus1 -> "Plus1" | AElements -> "Elements" | ACElements -> "CElements"
  | AConstElements -> "ConstElements" | AHome -> "Home" | AFront -> "Front" | ABack -> "Back" | ASliced -> "Sliced"
  | ASlicedS -> "SlicedS" | AStrided -> "Strided" | ATaked -> "Taked" | ADropped -> "Dropped" | ARotated -> "Rotated"
  | AUnrotated -> "Unrotated" | ATransposed -> "Transposed" | ATilde -> "Tilde" | AReversed -> "Reversed"
  | ADiagonal -> "Diagonal" | APartitioned -> "Partitioned" | AChunked -> "Chunked" | AHalved -> "Halved"
  | AFlatted -> "Flatted" | AReindexed -> "Reindexed" | ABlocked -> "Blocked" | ARange -> "Range" | AStenciled -> "Stenciled"
  | ABroadcasted -> "Broadcasted" | AAsConst -> "AsConst" | ABase -> "Base" | ADataElements -> "DataElements"
  | AOrigin -> "Origin" | AAddrOf -> "AddrOf" | AAddressOf -> "AddressOf" | AArrow -> "Arrow" | AMove -> "Move" | ABindRef -> "BindRef" | ABindCRef -> "BindCRef"
  | AAssign -> "Assign" | AFill -> "Fill" | ASwap -> "Swap" | AMSwap -> "MSwap"

let op_of_name n =
  try List.find (fun o -> op_name o = n) all_ops with Not_found -> failwith ("op " ^ n)

let outcome_name = function
  | To s -> "To:" ^ state_name s | ToVal -> "To:Val" | ToOther -> "To:Other" | Mut -> "Mut" | NoDef -> "NoDef"
  | No -> "No" | Hard -> "Hard" | NA -> "NA"

let is_mutator o = List.mem o mutators

(* evaluate a path: returns (number of steps taken, last state, outcome of the first non-To step or None) *)
let rec eval s ops k =
  match ops with
  | [] -> (k, s, None)
  | o :: tl -> (match astep s o with To s' -> eval s' tl (k + 1) | out -> (k, s, Some out))

let print_path oc id s ops =
  let (k, last, stop) = eval s ops 0 in
  let final = match stop with None -> "To:" ^ state_name last | Some o -> outcome_name o in
  Printf.fprintf oc "Q %s %s %s steps=%d final=%s ro0=%s clean=%s mutpath=%s ro=%s writable=%s assignable=%s\n" id (state_name s)
    (String.concat "," (List.map op_name ops)) k final (b01 (ro s)) (b01 (clean_path ops s)) (b01 (mut_path ops s))
    (b01 (ro last)) (b01 (writable last)) (b01 (assignable_thing last))

let () =
  let args = Array.to_list Sys.argv in
  let rec get k = function a :: v :: _ when a = k -> Some v | _ :: tl -> get k tl | [] -> None in
  let geti k d = match get k args with Some v -> int_of_string v | None -> d in
  match args with
  | _ :: "rows" :: _ ->
      let maxd = geti "--maxd" 3 in
      List.iter (fun ((s, o), out) -> Printf.printf "R %s %s %s\n" (state_name s) (op_name o) (outcome_name out))
        (rows_of (states_upto (nat_of_int maxd)))
  | _ :: "states" :: _ ->
      List.iter (fun s -> Printf.printf "S %s ro=%s writable=%s root=%s\n" (state_name s) (b01 (ro s)) (b01 (writable s)) (b01 (is_root s))) table_states
  | _ :: "kinds" :: _ ->
      List.iter (fun k -> Printf.printf "K %s copy=%s rebind=%s resize=%s\n" (kind_name k) (b01 (copy_constructible k)) (b01 (rebindable k)) (b01 (resizable k))) all_kinds
  | _ :: "run" :: _ ->
      (* stdin lines: <id> <state> <op,op,...> *)
      (try while true do
         let line = input_line stdin in
         match String.split_on_char ' ' (String.trim line) with
         | [id; st; ops] ->
             let ops = if ops = "-" then [] else List.map op_of_name (String.split_on_char ',' ops) in
             print_path stdout id (state_of_name st) ops
         | _ -> ()
       done with End_of_file -> ())
  | _ :: "paths" :: _ ->
      (* random well-formed paths from the six kinds of root; every choice from --seed *)
      let seed = geti "--seed" 1 and count = geti "--count" 100 and minlen = geti "--minlen" 3 and maxlen = geti "--maxlen" 6 in
      Random.init seed;
      let roots = List.filter is_root table_states in
      let nroots = List.length roots in
      let access = List.filter (fun o -> not (is_mutator o)) all_ops in
      let dist = Hashtbl.create 64 in
      let bump k = Hashtbl.replace dist k (1 + (try Hashtbl.find dist k with Not_found -> 0)) in
      for i = 0 to count - 1 do
        let r = List.nth roots (Random.int nroots) in
        let len = minlen + Random.int (maxlen - minlen + 1) in
        let rec grow s acc n =
          if n = 0 then List.rev acc
          else
            let ok = List.filter (fun o -> match astep s o with To _ -> true | _ -> false) access in
            (* bias away from the language-level steps so that library steps dominate *)
            let ok' = List.filter (fun o -> not (List.mem o [AMove; ABindRef; ABindCRef]) || Random.int 4 = 0) ok in
            let ok = if ok' = [] then ok else ok' in
            if ok = [] then List.rev acc
            else
              let o = List.nth ok (Random.int (List.length ok)) in
              (match astep s o with To s' -> grow s' (o :: acc) (n - 1) | _ -> List.rev acc)
        in
        let ops = grow r [] len in
        bump ("root:" ^ kind_name r.sk ^ (if r.sc then ".c" else ".m"));
        bump ("len:" ^ string_of_int (List.length ops));
        List.iter (fun o -> bump ("op:" ^ op_name o)) ops;
        print_path stdout (Printf.sprintf "q%d" i) r ops
      done;
      let items = Hashtbl.fold (fun k v acc -> Printf.sprintf "\"%s\": %d" k v :: acc) dist [] in
      Printf.printf "DIST {%s}\n" (String.concat ", " (List.sort compare items))
  | _ -> prerr_endline "usage: driver_c16 rows [--maxd D]|states|kinds|run|paths --seed S --count N --minlen A --maxlen B"; exit 2

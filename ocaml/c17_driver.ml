(* C17 driver: generator of serialization cases + runner of the extracted model (Modelc17).
   sub-commands:  gen --seed S --count N --prog FILE --obs FILE [--prefix p]
                  run --prog FILE --obs FILE
   The generator writes case text; the model observations are always produced by parsing that text
   again (the replay path and the generation path are the same).  All randomness from --seed.
   Hand-written and trusted (DESIGN.md section 6.5). *)
open Modelc17
open C17_zu

(* ------------------------------------------------------------------------------------------ *)
(* case text                                                                                    *)
(* ------------------------------------------------------------------------------------------ *)
let const1d = ref false   (* --const1d: read-only 1-D views can be saved on this tree (compile probe), generate them *)

type elemv = K of int | Nst of int * int * int list          (* nested: requested lo hi, values *)

type dimop = OpI of int | OpR of int * int * int
type vspec = { nbuf : int; vals : elemv list; vbase : int; sizes : int list; ops : dimop list; rots : int; transp : bool }
type case = {
  id : string; kind : string; arch : string; elem : string;
  rank : int; src : (int * int) list; sv : elemv list; pmode : string; prior : (int * int) list; pv : elemv list;
  s : vspec; d : vspec; sconst : bool }

let empty_v = { nbuf = 0; vals = []; vbase = 0; sizes = []; ops = []; rots = 0; transp = false }
let empty_case = { id = ""; kind = "array"; arch = "xml"; elem = "int"; rank = 0; src = []; sv = []; pmode = "ctor";
                   prior = []; pv = []; s = empty_v; d = empty_v; sconst = false }

let elem_text = function
  | K k -> string_of_int k
  | Nst (lo, hi, vs) -> Printf.sprintf "{ %d %d%s }" lo hi (String.concat "" (List.map (fun v -> " " ^ string_of_int v) vs))
let elems_text l = String.concat " " (List.map elem_text l)
let pairs_text l = String.concat " " (List.map (fun (a, b) -> Printf.sprintf "%d %d" a b) l)
let ops_text l = String.concat " " (List.map (function OpI k -> Printf.sprintf "i %d" k | OpR (a, b, s) -> Printf.sprintf "r %d %d %d" a b s) l)

let case_text (c : case) : string =
  let b = Buffer.create 512 in
  let p fmt = Printf.bprintf b fmt in
  p "case %s\nkind %s\narch %s\nelem %s\n" c.id c.kind c.arch c.elem;
  if c.kind = "array" then begin
    p "rank %d\nsrc %s\nsv %s\npmode %s\nprior %s\npv %s\n" c.rank (pairs_text c.src) (elems_text c.sv) c.pmode
      (pairs_text c.prior) (elems_text c.pv)
  end else begin
    let v tag (x : vspec) =
      p "%sbuf %d\n%sv %s\n%sroot %d %d %s\n%sops %s\n%sperm %d %d\n" tag x.nbuf tag (elems_text x.vals) tag x.vbase
        (List.length x.sizes) (String.concat " " (List.map string_of_int x.sizes)) tag (ops_text x.ops) tag x.rots
        (if x.transp then 1 else 0) in
    v "s" c.s;
    p "sconst %d\n" (if c.sconst then 1 else 0);
    v "d" c.d
  end;
  p "end\n";
  Buffer.contents b

let words s = List.filter (fun w -> w <> "") (String.split_on_char ' ' (String.trim s))
let rec parse_elems (w : string list) : elemv list =
  match w with
  | [] -> []
  | "{" :: lo :: hi :: rest ->
      let rec take acc = function
        | "}" :: r -> (List.rev acc, r)
        | x :: r -> take (int_of_string x :: acc) r
        | [] -> failwith "unterminated nested element" in
      let (vs, r) = take [] rest in
      Nst (int_of_string lo, int_of_string hi, vs) :: parse_elems r
  | x :: r -> K (int_of_string x) :: parse_elems r
let rec parse_pairs = function a :: b :: r -> (int_of_string a, int_of_string b) :: parse_pairs r | _ -> []
let rec parse_ops = function
  | "i" :: k :: r -> OpI (int_of_string k) :: parse_ops r
  | "r" :: a :: b :: s :: r -> OpR (int_of_string a, int_of_string b, int_of_string s) :: parse_ops r
  | [] -> []
  | x :: _ -> failwith ("bad dim op " ^ x)

let parse_cases (text : string) : case list =
  let cur = ref empty_case and out = ref [] in
  List.iter (fun line ->
    match words line with
    | [] -> ()
    | kw :: w when String.length kw > 0 && kw.[0] <> '#' ->
        let c = !cur in
        (match kw with
         | "case" -> cur := { empty_case with id = List.hd w }
         | "kind" -> cur := { c with kind = List.hd w }
         | "arch" -> cur := { c with arch = List.hd w }
         | "elem" -> cur := { c with elem = List.hd w }
         | "rank" -> cur := { c with rank = int_of_string (List.hd w) }
         | "src" -> cur := { c with src = parse_pairs w }
         | "prior" -> cur := { c with prior = parse_pairs w }
         | "pmode" -> cur := { c with pmode = List.hd w }
         | "sv" -> if c.kind = "view" then cur := { c with s = { c.s with vals = parse_elems w } } else cur := { c with sv = parse_elems w }
         | "pv" -> cur := { c with pv = parse_elems w }
         | "dv" -> cur := { c with d = { c.d with vals = parse_elems w } }
         | "sbuf" -> cur := { c with s = { c.s with nbuf = int_of_string (List.hd w) } }
         | "dbuf" -> cur := { c with d = { c.d with nbuf = int_of_string (List.hd w) } }
         | "sroot" | "droot" ->
             let base = int_of_string (List.nth w 0) in
             let sizes = List.map int_of_string (List.tl (List.tl w)) in
             if kw = "sroot" then cur := { c with s = { c.s with vbase = base; sizes } } else cur := { c with d = { c.d with vbase = base; sizes } }
         | "sops" -> cur := { c with s = { c.s with ops = parse_ops w } }
         | "dops" -> cur := { c with d = { c.d with ops = parse_ops w } }
         | "sperm" -> cur := { c with s = { c.s with rots = int_of_string (List.nth w 0); transp = List.nth w 1 = "1" } }
         | "dperm" -> cur := { c with d = { c.d with rots = int_of_string (List.nth w 0); transp = List.nth w 1 = "1" } }
         | "sconst" -> cur := { c with sconst = List.hd w = "1" }
         | "end" -> out := c :: !out
         | _ -> ())
    | _ -> ()) (String.split_on_char '\n' text);
  List.rev !out

(* ------------------------------------------------------------------------------------------ *)
(* running the model                                                                            *)
(* ------------------------------------------------------------------------------------------ *)
let zr (a, b) = (z a, z b)
let ir (a, b) = (i a, i b)
let rec nat_of_int n = if n <= 0 then O else S (nat_of_int (n - 1))

let exts_text (x : crange list) = String.concat "" (List.map (fun r -> let (a, b) = ir r in Printf.sprintf " %d %d" a b) x)
let toks_text (t : z list) = String.concat "" (List.map (fun k -> " " ^ string_of_int (i k)) t)

(* the inner array<int,1> of a nested element *)
let inner_of = function
  | Nst (lo, hi, vs) -> { ca_exts = cx_collapse [zr (lo, hi)]; ca_elems = zl vs }
  | K _ -> failwith "nested element expected"
let inner_text (a : z carr) =
  match a.ca_exts with
  | [r] -> let (lo, hi) = ir r in Printf.sprintf "{ %d %d%s }" lo hi (toks_text a.ca_elems)
  | _ -> "{?}"
let key_of = function K k -> z k | Nst _ -> failwith "integer key expected"

let hist : (string, int) Hashtbl.t = Hashtbl.create 64
let bump k = Hashtbl.replace hist k (1 + try Hashtbl.find hist k with Not_found -> 0)

let count_ok ext vals = i (cx_num (List.map zr ext)) = List.length vals

let run_array (c : case) (o : Buffer.t) =
  let p fmt = Printf.bprintf o fmt in
  let nested = c.elem = "nested" in
  let sx = cx_collapse (List.map zr c.src) in
  let px_req = List.map zr c.prior in
  if not (count_ok c.src c.sv) then p "ERR %s source element count\n" c.id
  else if c.pmode <> "default" && not (count_ok c.prior c.pv) then p "ERR %s prior element count\n" c.id
  else begin
    p "S %s%s\n" c.id (exts_text sx);
    let zero_exts = repeat (Z0, Z0) (nat_of_int c.rank) in
    let pnull = (c.pmode = "default") || (c.rank > 0 && i (cx_num px_req) = 0) in
    let pexts = match c.pmode with "default" | "cleared" -> zero_exts | _ -> cx_collapse px_req in
    (* which path of array::serialize / reextent the case takes (the case split of the proof) *)
    if c.rank = 0 then bump "path_rank0_no_extents"
    else if cx_eq pexts sx then bump "path_equal_extents_no_resize"
    else if i (cx_num sx) = 0 then bump "path_rvalue_reextent_to_zero_cells"
    else bump "path_rvalue_reextent_allocates";
    if pnull then bump "receiving_base_null";
    let finish_lines exts_loaded n vtext q =
      p "X %s%s\n" c.id (exts_text exts_loaded);
      p "N %s %d\n" c.id n;
      p "V %s%s\n" c.id vtext;
      p "Q %s %d\n" c.id (if q then 1 else 0) in
    if nested then begin
      let src = { ca_exts = sx; ca_elems = List.map inner_of c.sv } in
      let prior = match c.pmode with
        | "default" | "cleared" -> { ca_exts = zero_exts; ca_elems = [] }
        | _ -> { ca_exts = pexts; ca_elems = List.map inner_of c.pv } in
      let toks = save_nested src in
      if c.arch = "xml" then p "T %s%s\n" c.id (toks_text toks);
      (match load_nested prior toks with
       | Some (a, rest) ->
           finish_lines a.ca_exts (i (cx_num a.ca_exts)) (String.concat "" (List.map (fun e -> " " ^ inner_text e) a.ca_elems))
             (a = src && rest = [])
       | None -> p "X %s NONE\n" c.id)
    end else begin
      let src = { ca_exts = sx; ca_elems = List.map key_of c.sv } in
      let prior = match c.pmode with
        | "default" | "cleared" -> { ca_exts = zero_exts; ca_elems = [] }
        | _ -> { ca_exts = pexts; ca_elems = List.map key_of c.pv } in
      let toks = save_flat src in
      if c.arch = "xml" then p "T %s%s\n" c.id (toks_text toks);
      (match load_flat prior toks with
       | Some (a, rest) -> finish_lines a.ca_exts (i (cx_num a.ca_exts)) (toks_text a.ca_elems) (a = src && rest = [])
       | None -> p "X %s NONE\n" c.id)
    end
  end

let view_of (x : vspec) : cview =
  cv_recipe (z x.vbase) (zl x.sizes)
    (List.map (function OpI k -> CIndex (z k) | OpR (a, b, s) -> CRange (z a, z b, z s)) x.ops)
    (nat_of_int x.rots) x.transp

let layout_text (v : cview) =
  let n = List.length (cv_addrs v) in
  if n = 0 then " empty"
  else Printf.sprintf " %d%s" (i v.cv_base)
      (String.concat "" (List.map (fun (sz, st) -> let sz = i sz in
                                    Printf.sprintf " %d %s" sz (if sz >= 2 then string_of_int (i st) else "*")) v.cv_dims))

(* in-domain check of a recipe (documented domains of [], sliced, strided; root inside the buffer) *)
let recipe_ok (x : vspec) =
  let n = List.fold_left ( * ) 1 x.sizes in
  List.length x.ops = List.length x.sizes && x.vbase >= 0 && x.vbase + n <= x.nbuf
  && List.length x.vals = x.nbuf
  && List.for_all (fun s -> s >= 0) x.sizes
  && List.for_all2 (fun sz op -> match op with
         | OpI k -> 0 <= k && k < sz
         | OpR (a, b, s) -> 0 <= a && a <= b && b <= sz && s >= 1 && (b - a) mod s = 0) x.sizes x.ops
  && List.exists (function OpR _ -> true | OpI _ -> false) x.ops

let run_view (c : case) (o : Buffer.t) =
  let p fmt = Printf.bprintf o fmt in
  if not (recipe_ok c.s && recipe_ok c.d) then p "ERR %s view recipe out of domain\n" c.id
  else begin
    let v = view_of c.s and w = view_of c.d in
    let nested = c.elem = "nested" in
    p "L %s s%s\n" c.id (layout_text v);
    let toks = if nested then save_view_nested v (List.map inner_of c.s.vals) else save_view_flat v (List.map key_of c.s.vals) in
    if c.arch = "xml" then p "T %s%s\n" c.id (toks_text toks);
    p "L %s d%s\n" c.id (layout_text w);
    if List.length (cv_addrs v) <> List.length (cv_addrs w) then p "W %s premise: element counts differ\n" c.id;
    if not (z_nodupb (cv_addrs w)) then p "W %s premise: receiving view overlaps itself\n" c.id;
    if nested then
      (match load_view_nested w toks (List.map inner_of c.d.vals) with
       | Some (buf, rest) -> p "B %s%s\n" c.id (String.concat "" (List.map (fun e -> " " ^ inner_text e) buf));
           if rest <> [] then p "W %s tokens left\n" c.id
       | None -> p "B %s NONE\n" c.id)
    else
      (match load_view_flat w toks (List.map key_of c.d.vals) with
       | Some (buf, rest) -> p "B %s%s\n" c.id (toks_text buf);
           if rest <> [] then p "W %s tokens left\n" c.id
       | None -> p "B %s NONE\n" c.id)
  end

let run_case (c : case) (o : Buffer.t) =
  (try if c.kind = "view" then run_view c o else run_array c o
   with Failure m -> Printf.bprintf o "ERR %s %s\n" c.id m);
  Printf.bprintf o "E %s\n" c.id

(* ------------------------------------------------------------------------------------------ *)
(* generator                                                                                    *)
(* ------------------------------------------------------------------------------------------ *)

let gen_elem elem : elemv =
  match elem with
  | "int" -> if chance 5 then K (pick [2147483647; -2147483647 - 1; 0]) else K (rnd_range (-60) 60)
  | "double" -> K (rnd_range (-1000) 1000)
  | "string" -> if chance 20 then K 0 else K (rnd_range 1 60)
  | _ ->
      let len = weighted [ (25, 0); (25, 1); (25, 2); (25, 3) ] in
      let lo = weighted [ (70, 0); (10, 2); (10, -1); (10, -4) ] in
      Nst (lo, lo + len, List.init len (fun _ -> rnd_range (-9) 99))
let gen_elems elem n = List.init n (fun _ -> gen_elem elem)

let gen_size () = weighted [ (15, 0); (20, 1); (25, 2); (25, 3); (15, 4) ]
let num sizes = List.fold_left ( * ) 1 sizes
let rec cap_sizes sizes = if num sizes <= 48 then sizes else cap_sizes (List.map (fun s -> if s > 2 then s - 1 else s) sizes)
let gen_sizes d = cap_sizes (List.init d (fun _ -> gen_size ()))
let with_bases ?(force = false) ?(who = "prior") sizes =
  if sizes <> [] && (force || chance 15) then (bump (who ^ "_extents_rebased"); List.map (fun s -> let f = rnd_range (-4) 3 in (f, f + s)) sizes)
  else List.map (fun s -> (0, s)) sizes
let rotate_list = function [] -> [] | a :: r -> r @ [ a ]

let gen_array id : case =
  let arch = pick [ "xml"; "text"; "binary" ] in
  let elem = weighted [ (35, "int"); (20, "double"); (20, "string"); (25, "nested") ] in
  let d = weighted [ (8, 0); (25, 1); (30, 2); (22, 3); (15, 4) ] in
  bump ("array_rank" ^ string_of_int d); bump ("arch_" ^ arch); bump ("elem_" ^ elem);
  let ssizes = gen_sizes d in
  let src = with_bases ~who:"src" ssizes in
  let n = num ssizes in
  if n = 0 then bump "src_empty";
  if List.exists (fun s -> s = 0) ssizes && d >= 2 then bump "src_zero_extent_rank>=2";
  if List.exists (fun s -> s = 1) ssizes then bump "src_unit_extent";
  let mode =
    if d = 0 then "same"
    else weighted [ (15, "default"); (20, "same"); (25, "diffext"); (15, "samecount"); (10, "emptyshape"); (10, "cleared"); (5, "rebased") ] in
  bump ("prior_" ^ mode);
  let (pmode, prior) =
    match mode with
    | "default" -> ("default", [])
    | "same" -> ("ctor", src)
    | "diffext" -> ("ctor", with_bases (gen_sizes d))
    | "samecount" ->
        let alt = if chance 50 then rotate_list ssizes else (n :: List.init (d - 1) (fun _ -> 1)) in
        ("ctor", with_bases (if num alt = n then alt else ssizes))
    | "emptyshape" ->
        let k = rnd d in
        ("ctor", with_bases (List.mapi (fun j s -> if j = k then 0 else max s 1) (gen_sizes d)))
    | "cleared" -> ("cleared", with_bases (gen_sizes d))
    | _ -> ("ctor", with_bases ~force:true ssizes) in
  let pn = num (List.map (fun (a, b) -> b - a) prior) in
  { empty_case with id; kind = "array"; arch; elem; rank = d; src; sv = gen_elems elem n; pmode; prior;
    pv = (if pmode = "default" then [] else gen_elems elem pn) }

(* a root + recipe whose view has the given sizes (before the final permutation is undone) *)
let perm_positions d rots transp =
  (* final position j holds pre-permutation dimension p.(j) *)
  let l = ref (List.init d (fun k -> k)) in
  for _ = 1 to rots do l := rotate_list !l done;
  (match !l with a :: b :: r when transp -> l := b :: a :: r | _ -> ());
  Array.of_list !l

let gen_vspec elem (target : int list) : vspec =
  let d = List.length target in
  let rots = if d >= 2 then rnd d else 0 in
  let transp = d >= 2 && chance 40 in
  let p = perm_positions d rots transp in
  let pre = Array.make d 0 in
  List.iteri (fun j t -> pre.(p.(j)) <- t) target;
  (* one root dimension per view dimension, plus up to (3 - d) indexed dimensions *)
  let range_dim m =
    let s = weighted [ (60, 1); (30, 2); (10, 3) ] in
    let a = rnd 3 in
    let tail = rnd 2 in
    let sz = a + m * s + tail in
    (max sz 1, OpR (a, a + m * s, s)) in
  let idx_dim () = let sz = rnd_range 1 3 in (sz, OpI (rnd sz)) in
  let dims = ref (List.map range_dim (Array.to_list pre)) in
  let extra = if d < 3 then rnd (3 - d + 1) else 0 in
  for _ = 1 to extra do
    let k = rnd (List.length !dims + 1) in
    let x = idx_dim () in
    dims := List.filteri (fun j _ -> j < k) !dims @ [ x ] @ List.filteri (fun j _ -> j >= k) !dims
  done;
  let sizes = List.map fst !dims and ops = List.map snd !dims in
  let vbase = rnd 3 in
  let nbuf = vbase + num sizes + rnd 3 in
  { nbuf; vals = gen_elems elem nbuf; vbase; sizes; ops; rots; transp }

let gen_view id : case =
  let arch = pick [ "xml"; "text"; "binary" ] in
  let elem = weighted [ (40, "int"); (15, "double"); (20, "string"); (25, "nested") ] in
  let d = weighted [ (30, 1); (40, 2); (30, 3) ] in
  bump ("view_rank" ^ string_of_int d); bump ("arch_" ^ arch); bump ("elem_" ^ elem);
  let vsize () = weighted [ (8, 0); (22, 1); (35, 2); (25, 3); (10, 4) ] in
  let target = List.init d (fun _ -> vsize ()) in
  if num target = 0 then bump "view_empty";
  if List.exists (fun s -> s = 1) target then bump "view_unit_extent";
  let s = gen_vspec elem target in
  let dtarget =
    if chance 15 then begin
      bump "view_load_other_shape_same_count";
      let n = num target in
      if n = 0 then target else pick [ [ n ]; rotate_list target; (if d >= 2 then [ n; 1 ] else [ n ]) ]
    end else target in
  let dspec = gen_vspec elem dtarget in
  if s.transp || s.rots > 0 then bump "view_src_permuted";
  if dspec.transp || dspec.rots > 0 then bump "view_dst_permuted";
  if List.exists (function OpR (_, _, st) -> st > 1 | _ -> false) dspec.ops then bump "view_dst_strided";
  if List.exists (function OpI _ -> true | _ -> false) dspec.ops then bump "view_dst_indexed";
  let sconst = (d >= 2 || !const1d) && chance 30 in
  if sconst then bump "view_saved_through_const_subarray";
  { empty_case with id; kind = "view"; arch; elem; s; d = dspec; sconst }

let gen_case id = if chance 68 then gen_array id else gen_view id

(* ------------------------------------------------------------------------------------------ *)
let usage () = prerr_endline "usage: driver_c17 <gen|run> --seed S --count N --prog FILE --obs FILE [--prefix p]"; exit 2

let () =
  if Array.length Sys.argv < 2 then usage ();
  let cmd = Sys.argv.(1) in
  let args = Array.to_list (Array.sub Sys.argv 2 (Array.length Sys.argv - 2)) in
  let rec get k d = function [] -> d | a :: b :: _ when a = k -> b | _ :: t -> get k d t in
  let geti k d = int_of_string (get k (string_of_int d) args) in
  let seed_v = geti "--seed" 1 and count = geti "--count" 100 in
  seed seed_v;
  let prog = Buffer.create 65536 and obs = Buffer.create 65536 in
  let write f b = let oc = open_out f in Buffer.output_buffer oc b; close_out oc in
  (match cmd with
   | "gen" ->
       let prefix = get "--prefix" "c" args in
       const1d := List.mem "--const1d" args;
       for k = 1 to count do
         let c = gen_case (Printf.sprintf "%s%d" prefix k) in
         Buffer.add_string prog (case_text c)
       done;
       List.iter (fun c -> run_case c obs) (parse_cases (Buffer.contents prog));
       write (get "--prog" "prog.txt" args) prog
   | "run" ->
       let ic = open_in (get "--prog" "prog.txt" args) in
       let n = in_channel_length ic in
       let text = really_input_string ic n in
       close_in ic;
       List.iter (fun c -> run_case c obs) (parse_cases text)
   | _ -> usage ());
  write (get "--obs" "obs.txt" args) obs;
  let items = List.sort compare (Hashtbl.fold (fun k v acc -> (k, v) :: acc) hist []) in
  print_string "{";
  print_string (String.concat ", " (List.map (fun (k, v) -> Printf.sprintf "\"%s\": %d" k v) items));
  print_endline "}"

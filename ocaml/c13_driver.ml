(* C13 driver: case generator and model runner for the BLAS-adaptor correspondence check.
     c13_driver gen --seed S --tier quick|thorough --prog FILE      writes the cases, prints the distribution (JSON)
     c13_driver run --impl FILE --obs FILE                           reads the harness output (Q/D/V lines = what the
                                                                     library's dispatch saw) and writes what the Coq model
                                                                     (extracted: Modelc13) says must happen (K/O/S lines)
   Hand-written and trusted (DESIGN 6.5).  All randomness derives from --seed. *)
open Modelc13

open C13_zu

let hist : (string, int) Hashtbl.t = Hashtbl.create 64
let bump k = Hashtbl.replace hist k (1 + try Hashtbl.find hist k with Not_found -> 0)
let tuples : (string, unit) Hashtbl.t = Hashtbl.create 512

(* ------------------------------------------------------------------------------------------ *)
(* generator                                                                                   *)
(* ------------------------------------------------------------------------------------------ *)
(* a matrix operand of logical shape p x q with decoration deco, layout kind:
     tight  : the root is exactly the block
     padded : the block sits inside a larger root (row stride > row length)
     rstr   : every second row of a padded root
     cstr   : every second column (both strides non-unit: must be rejected)                    *)
type mspec = { rR : int; rC : int; r0 : int; nr : int; rs : int; c0 : int; nc : int; cs : int; deco : char }

let mat_spec (p : int) (q : int) (deco : char) (kind : string) : mspec =
  (* block shape before the decoration *)
  let (nr, nc) = if deco = 'T' || deco = 'H' then (q, p) else (p, q) in
  match kind with
  | "tight" -> { rR = max 1 nr; rC = max 1 nc; r0 = 0; nr; rs = 1; c0 = 0; nc; cs = 1; deco }
  | "padded" ->
      let r0 = 1 + rnd 2 and c0 = 1 + rnd 2 in
      { rR = r0 + nr + 1 + rnd 2; rC = c0 + nc + 1 + rnd 3; r0; nr; rs = 1; c0; nc; cs = 1; deco }
  | "rstr" ->
      let r0 = rnd 2 and c0 = rnd 2 in
      { rR = r0 + 2 * nr + 1; rC = max 1 (c0 + nc + rnd 2); r0; nr; rs = 2; c0; nc; cs = 1; deco }
  | _ (* cstr *) ->
      let r0 = rnd 2 and c0 = rnd 2 in
      { rR = r0 + nr + 1; rC = c0 + 2 * nc + 1; r0; nr; rs = 1; c0; nc; cs = 2; deco }

let seedctr = ref 0
let emit_mat buf name (m : mspec) =
  incr seedctr;
  Buffer.add_string buf (Printf.sprintf "%s %d %d %d %d %d %d %d %d %c %d\n" name m.rR m.rC m.r0 m.nr m.rs m.c0 m.nc m.cs m.deco (1000 + !seedctr))

let emit_vec buf name (n0, i0, len, step, deco) =
  incr seedctr;
  Buffer.add_string buf (Printf.sprintf "%s %d %d %d %d %c %d\n" name n0 i0 len step deco (1000 + !seedctr))

let vec_spec (len : int) (kind : string) =
  match kind with
  | "tight" -> (max 1 len, 0, len, 1, 'N')
  | "offset" -> let i0 = 1 + rnd 2 in (i0 + len + 1, i0, len, 1, 'N')
  | _ (* strided *) -> let i0 = rnd 2 and st = 2 + rnd 2 in (i0 + st * len + 1, i0, len, st, 'N')

let scalars = [ (0, 0); (1, 0); (2, 0); (-1, 0) ]
let cscalars = [ (0, 0); (1, 0); (2, 0); (-1, 1); (0, 1) ]
let is_complex et = (et = "c" || et = "z")

let emit_gemm buf id et form (m, n, k) (ka, da) (kb, db) (kc, dc) (al, be) =
  Buffer.add_string buf (Printf.sprintf "case %s\nop gemm %s %s\nalpha %d %d\nbeta %d %d\n" id et form (fst al) (snd al) (fst be) (snd be));
  emit_mat buf "A" (mat_spec m k da ka);
  emit_mat buf "B" (mat_spec k n db kb);
  emit_mat buf "C" (mat_spec m n dc kc);
  Buffer.add_string buf "end\n";
  bump ("gemm/" ^ form); bump ("gemm/et=" ^ et);
  Hashtbl.replace tuples (Printf.sprintf "%s%c,%s%c,%s%c" ka da kb db kc dc) ();
  bump (Printf.sprintf "gemm/decoA=%c" da); bump (Printf.sprintf "gemm/decoB=%c" db); bump (Printf.sprintf "gemm/decoC=%c" dc);
  bump ("gemm/kindA=" ^ ka); bump ("gemm/kindB=" ^ kb); bump ("gemm/kindC=" ^ kc);
  List.iter (fun (nm, v) -> if v <= 1 then bump (Printf.sprintf "gemm/%s=%d" nm v)) [ ("m", m); ("n", n); ("k", k) ]

let emit_gemv buf id et form (m, n) (km, dm) kx ky (al, be) =
  Buffer.add_string buf (Printf.sprintf "case %s\nop gemv %s %s\nalpha %d %d\nbeta %d %d\n" id et form (fst al) (snd al) (fst be) (snd be));
  emit_mat buf "M" (mat_spec m n dm km);
  emit_vec buf "X" (vec_spec n kx);
  emit_vec buf "Y" (vec_spec m ky);
  Buffer.add_string buf "end\n";
  bump ("gemv/" ^ form); bump ("gemv/et=" ^ et); bump (Printf.sprintf "gemv/decoM=%c" dm); bump ("gemv/kindM=" ^ km);
  bump ("gemv/kindX=" ^ kx); bump ("gemv/kindY=" ^ ky);
  List.iter (fun (nm, v) -> if v <= 1 then bump (Printf.sprintf "gemv/%s=%d" nm v)) [ ("m", m); ("n", n) ]

let emit_rk buf id routine et form upper (n, k) (ka, da) (kc, dc) (al, be) =
  Buffer.add_string buf (Printf.sprintf "case %s\nop %s %s %s\nflags %s - -\nalpha %d %d\nbeta %d %d\n" id routine et form
                           (if upper then "upper" else "lower") (fst al) (snd al) (fst be) (snd be));
  emit_mat buf "A" (mat_spec n k da ka);
  emit_mat buf "C" (mat_spec n n dc kc);
  Buffer.add_string buf "end\n";
  bump (routine ^ "/" ^ form); bump (routine ^ "/et=" ^ et); bump (Printf.sprintf "%s/decoA=%c" routine da); bump (Printf.sprintf "%s/decoC=%c" routine dc);
  bump (routine ^ "/kindA=" ^ ka); bump (routine ^ "/kindC=" ^ kc); bump (routine ^ (if upper then "/upper" else "/lower"));
  List.iter (fun (nm, v) -> if v <= 1 then bump (Printf.sprintf "%s/%s=%d" routine nm v)) [ ("n", n); ("k", k) ]

let emit_trsm ?(form = "inplace") buf id et (left, lower, unit) (p, q) (ka, da) (kb, db) al =
  (* the operator spellings fix the side themselves: b /= T is the right side, b |= T the left one *)
  let left = (match form with "opdiv" -> false | "opor" -> true | _ -> left) in
  let unit = if form = "inplace" then unit else false in
  Buffer.add_string buf (Printf.sprintf "case %s\nop trsm %s %s\nflags %s %s %s\nalpha %d %d\nbeta 0 0\n" id et form
                           (if left then "left" else "right") (if lower then "lower" else "upper") (if unit then "unit" else "nonunit") (fst al) (snd al));
  let m = if left then p else q in
  emit_mat buf "A" (mat_spec m m da ka);
  emit_mat buf "B" (mat_spec p q db kb);
  Buffer.add_string buf "end\n";
  bump ("trsm/" ^ form); bump ("trsm/et=" ^ et); bump (Printf.sprintf "trsm/decoA=%c" da); bump (Printf.sprintf "trsm/decoB=%c" db);
  bump ("trsm/kindA=" ^ ka); bump ("trsm/kindB=" ^ kb);
  bump (if left then "trsm/left" else "trsm/right"); bump (if lower then "trsm/lower" else "trsm/upper"); bump (if unit then "trsm/unit" else "trsm/nonunit");
  List.iter (fun (nm, v) -> if v <= 1 then bump (Printf.sprintf "trsm/%s=%d" nm v)) [ ("p", p); ("q", q) ]

(* ---- expression cases (harness/common/c13_expr.hpp) ---- *)
let show_scales (l : (int * int) list) = if l = [] then "-" else String.concat ";" (List.map (fun (a, b) -> Printf.sprintf "%d,%d" a b) l)
(* the decorated shape: a decoration string transposes when it has an odd number of T / H / t *)
let decos_transposes (ds : string) = (List.length (List.filter (fun c -> c = 'T' || c = 'H' || c = 't') (List.init (String.length ds) (String.get ds)))) mod 2 = 1
(* base view of logical (decorated) shape p x q *)
let mat_spec_decos p q ds kind = if decos_transposes ds then mat_spec q p 'N' kind else mat_spec p q 'N' kind

let emit_gemm_expr buf id et base cons (m, n, k) (ka, da) (kb, db) (kc, dc) al scales (ibs : (int * int) * (int * int) * (int * int)) (arr : int * int) =
  let ((a0, a1), (b0, b1), (c0, c1)) = ibs in
  Buffer.add_string buf (Printf.sprintf "case %s\nop gemm %s expr\nalpha %d %d\nbeta 0 0\n" id et (fst al) (snd al));
  Buffer.add_string buf (Printf.sprintf "tree base=%s scales=%s consume=%s dA=%s dB=%s dC=%s ibA=%d,%d ibB=%d,%d ibC=%d,%d arr=%dx%d\n" base (show_scales scales) cons
                           da db dc a0 a1 b0 b1 c0 c1 (fst arr) (snd arr));
  emit_mat buf "A" (mat_spec_decos m k da ka);
  emit_mat buf "B" (mat_spec_decos k n db kb);
  emit_mat buf "C" (mat_spec_decos m n dc kc);
  Buffer.add_string buf "end\n";
  bump ("gemm/expr"); bump ("gemm/expr/base=" ^ base); bump ("gemm/expr/consume=" ^ cons); bump (Printf.sprintf "gemm/expr/depth=%d" (List.length scales));
  bump ("gemm/expr/et=" ^ et); bump (Printf.sprintf "gemm/expr/decos=%d,%d" (String.length da) (String.length db));
  if a0 + a1 + b0 + b1 + c0 + c1 > 0 then bump "gemm/expr/index-bases";
  List.iter (fun (nm, v) -> if v <= 1 then bump (Printf.sprintf "gemm/expr/%s=%d" nm v)) [ ("m", m); ("n", n); ("k", k) ]

let emit_gemv_expr buf id et base cons (m, n) (km, dm) kx ky al (ib : int * int) arr =
  Buffer.add_string buf (Printf.sprintf "case %s\nop gemv %s expr\nalpha %d %d\nbeta 0 0\n" id et (fst al) (snd al));
  Buffer.add_string buf (Printf.sprintf "tree base=%s consume=%s dM=%s ibM=%d,%d arr=%d\n" base cons dm (fst ib) (snd ib) arr);
  emit_mat buf "M" (mat_spec_decos m n dm km);
  emit_vec buf "X" (vec_spec n kx);
  emit_vec buf "Y" (vec_spec m ky);
  Buffer.add_string buf "end\n";
  bump ("gemv/expr"); bump ("gemv/expr/base=" ^ base); bump ("gemv/expr/consume=" ^ cons); bump ("gemv/expr/et=" ^ et);
  List.iter (fun (nm, v) -> if v <= 1 then bump (Printf.sprintf "gemv/expr/%s=%d" nm v)) [ ("m", m); ("n", n) ]

let level1_ops = [ "dot"; "axpy"; "scal"; "copy"; "swap"; "nrm2"; "asum"; "iamax" ]

let emit_l1 ?(scales = []) buf id op et form len kx ky (dx, dy) al =
  Buffer.add_string buf (Printf.sprintf "case %s\nop %s %s %s\nalpha %d %d\nbeta 0 0\n" id op et form (fst al) (snd al));
  if scales <> [] then Buffer.add_string buf (Printf.sprintf "tree scales=%s\n" (show_scales scales));
  let (a, b, c, d, _) = vec_spec len kx in
  emit_vec buf "X" (a, b, c, d, dx);
  let (a, b, c, d, _) = vec_spec len ky in
  emit_vec buf "Y" (a, b, c, d, dy);
  Buffer.add_string buf "end\n";
  bump (op ^ "/" ^ form); bump (op ^ "/et=" ^ et); bump (op ^ "/kindX=" ^ kx); bump (op ^ "/kindY=" ^ ky);
  if len <= 1 then bump (Printf.sprintf "%s/len=%d" op len);
  if dx = 'C' then bump (op ^ "/conjX"); if dy = 'C' then bump (op ^ "/conjY")

let gen (tier : string) (prog : Buffer.t) =
  let quick = tier = "quick" in
  let ctr = ref 0 in
  let id pfx = incr ctr; Printf.sprintf "%s%d" pfx !ctr in
  let kinds4 = [ ("tight", 'N'); ("tight", 'T'); ("padded", 'N'); ("padded", 'T') ] in
  let conj_of d = if d = 'N' then 'J' else 'H' in
  (* (1) systematic sweep, in place: every tuple of {tight, padded} x {N, T} per operand, sizes 1..3 (the 1728 of DESIGN 5/C13),
         real double; complex double with every (conj A, conj B) pattern on a sub-sample of sizes *)
  let sizes_sys = if quick then [ 1; 2; 3 ] else [ 1; 2; 3; 4 ] in
  List.iter (fun (ka, da) -> List.iter (fun (kb, db) -> List.iter (fun (kc, dc) ->
    List.iter (fun m -> List.iter (fun n -> List.iter (fun k ->
      let sc = (pick [ (1, 0); (2, 0) ], pick [ (0, 0); (1, 0); (3, 0) ]) in
      emit_gemm prog (id "gs") "d" "inplace" (m, n, k) (ka, da) (kb, db) (kc, dc) sc;
      (* complex: conj patterns; all four for a third of the size triples in the quick tier *)
      if (not quick) || (m + 2 * n + 3 * k) mod 3 = 0 then
        List.iter (fun (ca, cb) ->
          let da' = if ca then conj_of da else da and db' = if cb then conj_of db else db in
          let sc = (pick cscalars, pick cscalars) in
          emit_gemm prog (id "gz") "z" "inplace" (m, n, k) (ka, da') (kb, db') (kc, dc) sc)
          [ (false, false); (true, false); (false, true); (true, true) ]
      ) sizes_sys) sizes_sys) sizes_sys) kinds4) kinds4) kinds4;
  (* (2) random: all element types, all forms, sizes 0.., strided rows, rejected column strides, conjugated outputs *)
  let nrand = if quick then 6000 else 120000 in
  let maxsz = if quick then 3 else 5 in
  let size () = weighted [ (2, 0); (3, 1); (3, 2); (2, 3); ((if maxsz > 3 then 2 else 0), 4); ((if maxsz > 3 then 1 else 0), 5) ] in
  let kind () = weighted [ (4, "tight"); (4, "padded"); (2, "rstr"); (1, "cstr") ] in
  for _ = 1 to nrand do
    let et = weighted [ (2, "s"); (4, "d"); (5, "z") ] in
    let cplx = is_complex et in
    let form = weighted [ (10, "inplace"); (3, "assign"); (3, "pluseq"); (2, "construct"); (1, "plus"); (1, "star") ] in
    let deco () = if cplx then weighted [ (4, 'N'); (4, 'T'); (2, 'J'); (4, 'H') ] else weighted [ (5, 'N'); (5, 'T'); (1, 'J'); (1, 'H') ] in
    let dc = if form = "inplace" then (if cplx then weighted [ (6, 'N'); (6, 'T'); (1, 'J'); (1, 'H') ] else weighted [ (1, 'N'); (1, 'T') ])
             else weighted [ (1, 'N'); (1, 'T') ] in
    let sc = if cplx then (pick cscalars, pick cscalars) else (pick scalars, pick scalars) in
    emit_gemm prog (id "gr") et form (size (), size (), size ()) (kind (), deco ()) (kind (), deco ()) (kind (), dc) sc
  done;
  (* (3) gemv: systematic over layouts and sizes 0..3, then random *)
  let vk = [ "tight"; "offset"; "strided" ] in
  List.iter (fun et -> List.iter (fun (km, dm) -> List.iter (fun kx -> List.iter (fun ky ->
    List.iter (fun m -> List.iter (fun n ->
      let cplx = is_complex et in
      let sc = if cplx then (pick cscalars, pick cscalars) else (pick scalars, pick scalars) in
      let dms = if cplx then [ dm; conj_of dm ] else [ dm ] in
      List.iter (fun d -> emit_gemv prog (id "vs") et "inplace" (m, n) (km, d) kx ky sc) dms
      ) [ 0; 1; 2; 3 ]) [ 0; 1; 2; 3 ]) vk) vk) kinds4) [ "d"; "z" ];
  let nrandv = if quick then 2500 else 40000 in
  for _ = 1 to nrandv do
    let et = weighted [ (2, "s"); (3, "d"); (2, "c"); (4, "z") ] in
    let cplx = is_complex et in
    let form = weighted [ (8, "inplace"); (2, "assign"); (2, "pluseq"); (2, "construct"); (1, "percent") ] in
    let deco = if cplx then weighted [ (4, 'N'); (4, 'T'); (2, 'J'); (4, 'H') ] else weighted [ (5, 'N'); (5, 'T'); (1, 'H') ] in
    let sc = if cplx then (pick cscalars, pick cscalars) else (pick scalars, pick scalars) in
    emit_gemv prog (id "vr") et form (size (), size ()) (kind (), deco) (pick vk) (pick vk) sc
  done;
  (* (3b) syrk / herk / trsm: every layout tuple x fill x sizes 0..3, then random with padded / strided operands *)
  let bools = [ true; false ] in
  List.iter (fun (ka, da) -> List.iter (fun (kc, dc) -> List.iter (fun upper -> List.iter (fun n -> List.iter (fun k ->
    emit_rk prog (id "ys") "syrk" (pick [ "s"; "d"; "z" ]) "inplace" upper (n, k) (ka, da) (kc, dc) (pick [ (1, 0); (2, 0) ], pick [ (0, 0); (1, 0); (3, 0) ]);
    List.iter (fun (ca, cc) ->
      let da' = if ca then conj_of da else da and dc' = if cc then conj_of dc else dc in
      emit_rk prog (id "hs") "herk" "z" (if (n + k) mod 5 = 0 then "both" else "inplace") upper (n, k) (ka, da') (kc, dc') (pick [ (1, 0); (2, 0) ], pick [ (0, 0); (1, 0); (3, 0) ]))
      [ (false, false); (true, false); (false, true); (true, true) ]
    ) [ 0; 1; 2; 3 ]) [ 0; 1; 2; 3 ]) bools) kinds4) kinds4;
  List.iter (fun (ka, da) -> List.iter (fun (kb, db) -> List.iter (fun left -> List.iter (fun lower -> List.iter (fun unit ->
    List.iter (fun p -> List.iter (fun q ->
      emit_trsm prog (id "ts") (pick [ "s"; "d"; "z" ]) (left, lower, unit) (p, q) (ka, da) (kb, db) (pick [ (1, 0); (2, 0); (-1, 0) ]);
      if (p + 2 * q) mod 3 = 0 then begin
        emit_trsm prog (id "tz") "z" (left, lower, unit) (p, q) (ka, conj_of da) (kb, db) (pick cscalars);
        emit_trsm prog (id "tz") "z" (left, lower, unit) (p, q) (ka, da) (kb, conj_of db) (pick cscalars)
      end
      ) [ 0; 1; 2; 3 ]) [ 0; 1; 2; 3 ]) bools) bools) bools) kinds4) kinds4;
  let nrand3 = if quick then 1500 else 30000 in
  for _ = 1 to nrand3 do
    let r = rnd 3 in
    if r = 0 then
      emit_rk prog (id "yr") "syrk" (pick [ "s"; "d"; "c"; "z" ]) "inplace" (chance 50) (size (), size ()) (kind (), pick [ 'N'; 'T' ]) (kind (), pick [ 'N'; 'T' ])
        (pick scalars, pick scalars)
    else if r = 1 then
      let et = pick [ "c"; "z"; "z"; "d" ] in
      let cx = is_complex et in
      emit_rk prog (id "hr") "herk" et (if cx && chance 15 then "both" else "inplace") (chance 50) (size (), size ())
        (kind (), (if cx then pick [ 'N'; 'T'; 'J'; 'H' ] else pick [ 'N'; 'T' ])) (kind (), (if cx then pick [ 'N'; 'T'; 'N'; 'T'; 'J'; 'H' ] else pick [ 'N'; 'T' ]))
        (pick scalars, pick scalars)
    else begin
      let et = pick [ "s"; "d"; "c"; "z" ] in
      let cx = is_complex et in
      let da = if cx then pick [ 'N'; 'T'; 'J'; 'H' ] else pick [ 'N'; 'T' ] in
      let db = if cx && (da = 'N' || da = 'T') then pick [ 'N'; 'T'; 'N'; 'T'; 'J'; 'H' ] else pick [ 'N'; 'T' ] in
      emit_trsm prog (id "tr") et (chance 50, chance 50, chance 40) (size (), size ()) (kind (), da) (kind (), db) (if cx then pick cscalars else pick scalars)
    end
  done;
  (* (4) level 1 *)
  let nl1 = if quick then 3000 else 40000 in
  for _ = 1 to nl1 do
    let op = pick level1_ops in
    let et = pick [ "s"; "d"; "c"; "z" ] in
    let cplx = is_complex et in
    let len = weighted [ (2, 0); (3, 1); (3, 2); (3, 3); (2, 5) ] in
    let dx = if cplx && op = "dot" && chance 40 then 'C' else 'N' in
    let dy = if cplx && op = "dot" && dx = 'N' && chance 40 then 'C' else 'N' in
    let form = match op with
      | "dot" -> pick [ "inplace"; "value" ]
      | "axpy" -> pick [ "inplace"; "inplace"; "opplus"; "opminus" ]
      | "scal" -> pick [ "inplace"; "opmul" ]
      | "copy" -> pick [ "inplace"; "assign"; "construct" ]
      | "nrm2" | "asum" | "iamax" -> "value"
      | _ -> "inplace" in
    let sc = if cplx then pick cscalars else pick scalars in
    emit_l1 prog (id "l") op et form len (pick vk) (pick vk) (dx, dy) sc
  done;
  (* (5) the expression layer: lazy ranges, operators on them, decorated operands, consuming statements *)
  let rscal () = weighted [ (3, (2, 0)); (2, (-1, 0)); (2, (3, 0)); (2, (1, 0)); (1, (0, 0)) ] in
  let cscal () = weighted [ (3, (2, 0)); (3, (-1, 1)); (2, (0, 1)); (2, (1, -1)); (1, (1, 0)); (1, (0, 0)) ] in
  let scal cplx = if cplx then cscal () else rscal () in
  let letter cplx = if cplx then weighted [ (3, 'N'); (4, 'T'); (2, 'J'); (4, 'H'); (1, 't'); (1, 'j') ]
                    else weighted [ (4, 'N'); (5, 'T'); (1, 'J'); (1, 'H'); (1, 't'); (1, 'j') ] in
  let decos cplx =
    let n = weighted [ (3, 0); (10, 1); (4, 2); (2, 3) ] in
    String.init n (fun _ -> letter cplx) in
  let out_decos () = let n = weighted [ (6, 0); (5, 1); (2, 2) ] in String.init n (fun _ -> pick [ 'N'; 'T'; 't' ]) in
  let ibase () = if chance 30 then (rnd 4, rnd 4) else (0, 0) in
  let nxg = if quick then 3200 else 45000 in
  for _ = 1 to nxg do
    let et = weighted [ (2, "s"); (4, "d"); (5, "z") ] in
    let cplx = is_complex et in
    let base = weighted [ (3, "gemm"); (1, "star") ] in
    let cons = weighted [ (4, "assign"); (1, "assign_rv"); (4, "pluseq"); (2, "construct"); (1, "plus"); (3, "arr_assign"); (2, "arr_pluseq") ] in
    let (m, n, k) = (size (), size (), size ()) in
    let depth = weighted [ (3, 0); (5, 1); (3, 2); (1, 3) ] in
    let scales = List.init depth (fun _ -> scal cplx) in
    let arr = (match cons with
               | "arr_pluseq" -> (m, n)
               | "arr_assign" -> weighted [ (4, (m, n)); (2, (if m <> n then (n, m) else (1, m * n))); (1, (m + 1, n)); (1, (0, 0)) ]
               | _ -> (0, 0)) in
    (* an index base on the columns of b would become the index base of the range and change the branch of array::operator= *)
    let ibs = (ibase (), (if cons = "arr_assign" then (0, 0) else ibase ()), ibase ()) in
    emit_gemm_expr prog (id "xg") et base cons (m, n, k) (kind (), decos cplx) (kind (), decos cplx) (kind (), out_decos ()) (scal cplx) scales ibs arr
  done;
  let nxv = if quick then 1500 else 20000 in
  for _ = 1 to nxv do
    let et = weighted [ (2, "s"); (3, "d"); (2, "c"); (4, "z") ] in
    let cplx = is_complex et in
    let base = weighted [ (5, "gemv"); (3, "pct_scaled"); (2, "pct") ] in
    let cons = if base = "pct" then pick [ "construct"; "plus" ]
               else weighted [ (4, "assign"); (1, "assign_rv"); (4, "pluseq"); (2, "construct"); (1, "plus"); (3, "arr_assign"); (2, "arr_pluseq") ] in
    let (m, n) = (size (), size ()) in
    let arr = (match cons with "arr_pluseq" -> m | "arr_assign" -> weighted [ (4, m); (1, m + 1); (1, 0) ] | _ -> 0) in
    emit_gemv_expr prog (id "xv") et base cons (m, n) (kind (), decos cplx) (pick vk) (pick vk) (scal cplx) (ibase ()) arr
  done;
  let nxl = if quick then 1500 else 20000 in
  for _ = 1 to nxl do
    let op = weighted [ (5, "axpy"); (3, "dot"); (1, "scal"); (1, "copy"); (1, "nrm2") ] in
    let et = pick [ "s"; "d"; "c"; "z" ] in
    let cplx = is_complex et in
    let len = weighted [ (2, 0); (3, 1); (3, 2); (3, 3); (2, 5) ] in
    let dx = if cplx && op = "dot" && chance 40 then 'C' else 'N' in
    let dy = if cplx && op = "dot" && dx = 'N' && chance 40 then 'C' else 'N' in
    let form = match op with
      | "axpy" -> pick [ "range_plus"; "range_minus"; "rescaled_plus"; "rescaled_minus"; "plain_plus"; "plain_minus"; "call1"; "binplus"; "binminus" ]
      | "dot" -> pick [ "plus"; "comma"; "times"; "times"; "eq"; "elem" ]
      | "scal" -> pick [ "range"; "iter" ]
      | "nrm2" -> pick [ "plus"; "opabs"; "opnorm" ]
      | _ -> "shift" in
    let scales = if form = "rescaled_plus" || form = "rescaled_minus" || form = "times" then List.init (1 + rnd 3) (fun _ -> scal cplx) else [] in
    emit_l1 ~scales prog (id "xl") op et form len (pick vk) (pick vk) (dx, dy) (scal cplx)
  done;
  let nx3 = if quick then 1200 else 16000 in
  for _ = 1 to nx3 do
    if chance 55 then begin
      let et = pick [ "s"; "d"; "c"; "z" ] in
      let cx = is_complex et in
      let da = if cx then pick [ 'N'; 'T'; 'J'; 'H' ] else pick [ 'N'; 'T' ] in
      let db = if cx && (da = 'N' || da = 'T') then pick [ 'N'; 'T'; 'N'; 'T'; 'J'; 'H' ] else pick [ 'N'; 'T' ] in
      let form = pick [ "nonunit5"; "tri"; "opdiv"; "opor" ] in
      emit_trsm ~form prog (id "xt") et (chance 50, chance 50, false) (size (), size ()) (kind (), da) (kind (), db)
        (if form = "opdiv" || form = "opor" then (1, 0) else scal cx)
    end else if chance 30 then
      emit_rk prog (id "xy") "syrk" (pick [ "s"; "d"; "c"; "z" ]) "nobeta" (chance 50) (size (), size ()) (kind (), pick [ 'N'; 'T' ]) (kind (), pick [ 'N'; 'T' ])
        (rscal (), (0, 0))
    else begin
      let et = pick [ "c"; "z"; "z"; "d" ] in
      let cx = is_complex et in
      let form = if not cx then "nobeta" else if et = "c" then pick [ "nobeta"; "value" ] else pick [ "nobeta"; "both1"; "value"; "value1" ] in
      emit_rk prog (id "xh") "herk" et form (chance 50) (size (), size ())
        (kind (), (if cx then pick [ 'N'; 'T'; 'J'; 'H' ] else pick [ 'N'; 'T' ])) (kind (), (if cx then pick [ 'N'; 'T'; 'N'; 'T'; 'J'; 'H' ] else pick [ 'N'; 'T' ]))
        (rscal (), (0, 0))
    end
  done

(* ------------------------------------------------------------------------------------------ *)
(* model runner                                                                                *)
(* ------------------------------------------------------------------------------------------ *)
let split s = List.filter (fun t -> t <> "") (String.split_on_char ' ' s)
let bufbase = function 'A' | 'M' -> 1000000 | 'B' | 'X' -> 2000000 | 'C' | 'Y' -> 3000000 | 'R' -> 4000000 | 'S' | 'Q' -> 5000000 | _ -> 9000000
let parse_where (w : string) : int =
  (* "A+12" -> address *)
  match String.index_opt w '+' with
  | Some k when k = 1 -> bufbase w.[0] + int_of_string (String.sub w 2 (String.length w - 2))
  | _ -> if w = "null" then 8000000 else 9000000
let show_where (addr : int) : string =
  let b = (addr + 500000) / 1000000 in
  let off = addr - b * 1000000 in
  let name = match b with 1 -> "A" | 2 -> "B" | 3 -> "C" | 4 -> "R" | _ -> "?" in
  if b = 8 && off = 0 then "null" else Printf.sprintf "%s+%d" name off
let trans_char = function TN -> 'N' | TT -> 'T' | TC -> 'C'

type qinfo = { routine : string; et : string; form : string; debug : bool; al : int * int; be : int * int; flags : string list }

let parse_pair s = match String.split_on_char ',' s with [ a; b ] -> (int_of_string a, int_of_string b) | _ -> (0, 0)
let after_eq s = match String.index_opt s '=' with Some k -> String.sub s (k + 1) (String.length s - k - 1) | None -> s

let run_case (obs : Buffer.t) (id : string) (q : qinfo) (tree : string list) (mats : (char * mat) list) (vecs : (char * vec) list) =
  let pr fmt = Printf.ksprintf (fun s -> Buffer.add_string obs s) fmt in
  let mat_name = function 1 -> 'A' | 2 -> 'B' | _ -> 'C' in
  ignore mat_name;
  let outcome_line s = pr "O %s %s\n" id s in
  match q.routine with
  | "gemm" when q.form = "expr" -> C13_expr.run_gemm obs id q.et q.debug q.al tree mats
  | "gemv" when q.form = "expr" -> C13_expr.run_gemv obs id q.et q.debug q.al tree mats vecs
  | "gemm" ->
      (match (List.assoc_opt 'A' mats, List.assoc_opt 'B' mats) with
       | Some a, Some b ->
           let in_c = List.mem q.form [ "inplace"; "assign"; "pluseq" ] in
           ignore in_c;
           let c = match List.assoc_opt 'C' mats with
             | Some c -> c
             | _ -> fresh_mat (z (bufbase 'R')) a.rows b.cols in
           let fin = if q.form = "inplace" then gemm_inplace q.debug a b c else gemm_lazy q.debug a b c in
           let al = if q.form = "star" then (1, 0) else q.al in
           let be = match q.form with "inplace" -> q.be | "pluseq" -> (1, 0) | _ -> (0, 0) in
           let site = (match gemm_n (if c.mconj then conj_mat a else a) (if c.mconj then conj_mat b else b) (if c.mconj then conj_mat c else c) with
                       | OCall k -> i k.g_site | ONoCall -> 0 | OAssert0 -> -1 | OThrow -> -2) in
           let (a', b', c') = if c.mconj then (conj_mat a, conj_mat b, conj_mat c) else (a, b, c) in
           let crit = (match gemm_n a' b' c' with OCall k -> gemm_implements_b k a' b' c' | _ -> false) in
           pr "S %s routine=gemm site=%d wf=%d conform=%d crit=%d\n" id site
             (if wf_matb a && wf_matb b && wf_matb c then 1 else 0) (if shapes_conformb a b c then 1 else 0) (if crit then 1 else 0);
           pr "C %s %s\n" id (String.concat " " (List.map (fun x -> string_of_int (i x)) (final_code fin)));
           (match fin with
            | FNoCall -> outcome_line "outcome=ok why=-"
            | FAbort -> outcome_line "outcome=abort why=assert"
            | FThrow w -> outcome_line (Printf.sprintf "outcome=throw why=%s" (match i w with 1 -> "notimpl" | 2 -> "ld" | 3 -> "alias" | _ -> "ldc"))
            | FBlas (cj, k) ->
                let cjs (re, im) = if cj then (re, -im) else (re, im) in
                let (ar, ai) = cjs al and (br, bi) = cjs be in
                pr "K %s 0 %sgemm %c %c %d %d %d %s %d %s %d %s %d a=%d,%d b=%d,%d info=%d\n" id q.et (trans_char k.g_ta) (trans_char k.g_tb)
                  (i k.g_m) (i k.g_n) (i k.g_k) (show_where (i k.g_pa)) (i k.g_lda) (show_where (i k.g_pb)) (i k.g_ldb)
                  (show_where (i k.g_pc)) (i k.g_ldc) ar ai br bi (i (gemm_info k));
                outcome_line "outcome=ok why=-")
       | _ -> outcome_line "outcome=model-error why=missing-operand")
  | "gemv" ->
      (match (List.assoc_opt 'M' mats, List.assoc_opt 'X' vecs) with
       | Some m, Some x ->
           let in_y = List.mem q.form [ "inplace"; "assign"; "pluseq" ] in
           ignore in_y;
           let y = match List.assoc_opt 'Y' vecs with
             | Some y -> y
             | _ -> { vbase = z (bufbase 'R'); inc = z 1; len = m.rows; vconj = false } in
           let fin = if q.form = "inplace" then gemv_inplace q.debug m x y else gemv_lazy q.debug m x y in
           let al = if q.form = "percent" then (1, 0) else q.al in
           let be = match q.form with "inplace" -> q.be | "pluseq" -> (1, 0) | _ -> (0, 0) in
           let site = (match gemv_n m x y with VCall k -> i k.v_site | VAssert0 -> -1 | VThrow -> -2) in
           let crit = (match gemv_n m x y with VCall k -> gemv_implements_b k m x y | _ -> false) in
           pr "S %s routine=gemv site=%d wf=%d conform=%d crit=%d\n" id site (if wf_matb m then 1 else 0)
             (if i m.cols = i x.len && i m.rows = i y.len then 1 else 0) (if crit then 1 else 0);
           pr "C %s %s\n" id (String.concat " " (List.map (fun x -> string_of_int (i x)) (vfinal_code fin)));
           (match fin with
            | GNoCall -> outcome_line "outcome=ok why=-"
            | GAbort -> outcome_line "outcome=abort why=assert"
            | GBlas k ->
                let vw addr = let s = show_where addr in
                  (* vector buffers are named X / Y / R on the harness side *)
                  match s.[0] with 'A' -> "M" ^ String.sub s 1 (String.length s - 1) | 'B' -> "X" ^ String.sub s 1 (String.length s - 1)
                                 | 'C' -> "Y" ^ String.sub s 1 (String.length s - 1) | _ -> s in
                pr "K %s 0 %sgemv %c %d %d %s %d %s %d %s %d a=%d,%d b=%d,%d info=%d\n" id q.et (trans_char k.v_ta) (i k.v_m) (i k.v_n)
                  (vw (i k.v_pa)) (i k.v_lda) (vw (i k.v_px)) (i k.v_incx) (vw (i k.v_py)) (i k.v_incy) (fst al) (snd al) (fst be) (snd be)
                  (i (gemv_info k));
                outcome_line "outcome=ok why=-")
       | _ -> outcome_line "outcome=model-error why=missing-operand")
  | "syrk" | "herk" | "trsm" -> C13_level3.run obs id q.routine q.et q.debug q.form q.flags q.al q.be mats
  | _ -> C13_level1.run obs id q.routine q.et q.form q.al tree vecs

let run_text (text : string) (obs : Buffer.t) =
  let cur_id = ref "" and q = ref None and mats = ref [] and vecs = ref [] and tree = ref [] in
  List.iter (fun line ->
    match split line with
    | "Q" :: id :: routine :: et :: form :: dbg :: a :: b :: rest ->
        cur_id := id; mats := []; vecs := []; tree := [];
        let flags = match rest with f :: _ -> String.split_on_char ',' (after_eq f) | [] -> [] in
        q := Some { routine; et; form; debug = (after_eq dbg = "1"); al = parse_pair (after_eq a); be = parse_pair (after_eq b); flags }
    | [ "D"; id; nm; w; s0; s1; rows; cols; cj ] when id = !cur_id ->
        mats := (nm.[0], { mbase = z (parse_where w); s0 = z (int_of_string s0); s1 = z (int_of_string s1); rows = z (int_of_string rows);
                           cols = z (int_of_string cols); mconj = (cj = "1") }) :: !mats
    | [ "V"; id; nm; w; inc; len; cj ] when id = !cur_id ->
        vecs := (nm.[0], { vbase = z (parse_where w); inc = z (int_of_string inc); len = z (int_of_string len); vconj = (cj = "1") }) :: !vecs
    | "T" :: id :: rest when id = !cur_id -> tree := rest
    | "E" :: id :: _ when id = !cur_id ->
        (match !q with Some qi -> run_case obs id qi !tree !mats !vecs | None -> ());
        q := None
    | _ -> ()) (String.split_on_char '\n' text)

let () =
  let args = Array.to_list (Array.sub Sys.argv 1 (Array.length Sys.argv - 1)) in
  let rec get k d = function [] -> d | a :: b :: _ when a = k -> b | _ :: t -> get k d t in
  let write f b = let oc = open_out f in Buffer.output_buffer oc b; close_out oc in
  match args with
  | "gen" :: rest ->
      let seed = int_of_string (get "--seed" "1" rest) in
      C13_zu.rng := Random.State.make [| seed; 0xc13 |];
      let prog = Buffer.create (1 lsl 20) in
      gen (get "--tier" "quick" rest) prog;
      write (get "--prog" "prog.txt" rest) prog;
      Hashtbl.replace hist "gemm/distinct-layout-tuples" (Hashtbl.length tuples);
      let items = List.sort compare (Hashtbl.fold (fun k v acc -> (k, v) :: acc) hist []) in
      print_string "{";
      print_string (String.concat ", " (List.map (fun (k, v) -> Printf.sprintf "\"%s\": %d" k v) items));
      print_endline "}"
  | "run" :: rest ->
      let ic = open_in (get "--impl" "impl.txt" rest) in
      let n = in_channel_length ic in
      let text = really_input_string ic n in
      close_in ic;
      let obs = Buffer.create (1 lsl 20) in
      run_text text obs;
      write (get "--obs" "obs.txt" rest) obs
  | _ -> prerr_endline "usage: c13_driver gen|run ..."; exit 2

(* C03: generator + model runner for algorithms on begin()/end() and elements() ranges.
   Self-contained driver (the extracted module is Modelc03, so the number conversions, the view-program text format
   of views.ml and the padded-source generator of assign.ml are copied here).  Everything random derives from --seed. *)
open Modelc03

(* ---- conversions (as ocaml/zu.ml) ---- *)
let rec pos_of_int (n : int) : positive =
  if n <= 1 then XH else if n land 1 = 0 then XO (pos_of_int (n lsr 1)) else XI (pos_of_int (n lsr 1))
let rec int_of_pos (p : positive) : int = match p with XH -> 1 | XO q -> 2 * int_of_pos q | XI q -> 2 * int_of_pos q + 1
let z (n : int) : z = if n = 0 then Z0 else if n > 0 then Zpos (pos_of_int n) else Zneg (pos_of_int (-n))
let i (x : z) : int = match x with Z0 -> 0 | Zpos p -> int_of_pos p | Zneg p -> -int_of_pos p
let rec int_of_nat (n : nat) : int = match n with O -> 0 | S m -> 1 + int_of_nat m
let il l = List.map i l
let join sep f l = String.concat sep (List.map f l)
let ints l = if l = [] then "-" else join "," string_of_int l

let rng = ref (Random.State.make [| 0 |])
let seed s = rng := Random.State.make [| s; 0xC03 |]
let rnd n = if n <= 0 then 0 else Random.State.int !rng n
let rnd_range a b = a + rnd (b - a + 1)
let pick l = List.nth l (rnd (List.length l))
let weighted (l : (int * 'a) list) : 'a =
  let tot = List.fold_left (fun s (w, _) -> s + w) 0 l in
  let r = ref (rnd tot) in
  let res = ref (snd (List.hd l)) in
  (try List.iter (fun (w, x) -> if !r < w then (res := x; raise Exit) else r := !r - w) l with Exit -> ());
  !res
let chance pct = rnd 100 < pct

(* ---- view-program text (format of views.ml) ---- *)
let op_text (o : op) : string =
  let p = Printf.sprintf in
  match o with
  | OIndex a -> p "index %d" (i a)
  | OSliced (a, b) -> p "sliced %d %d" (i a) (i b)
  | OSlicedS (a, b, s) -> p "sliceds %d %d %d" (i a) (i b) (i s)
  | OStrided s -> p "strided %d" (i s)
  | ODropped n -> p "dropped %d" (i n)
  | OTaked n -> p "taked %d" (i n)
  | ORotated -> "rotated"
  | OUnrotated -> "unrotated"
  | OTransposed -> "transposed"
  | OReversed -> "reversed"
  | _ -> failwith "op outside the C03 alphabet"
let op_kind (o : op) : string = List.hd (String.split_on_char ' ' (op_text o))
let parse_op (toks : string list) : op =
  let n s = z (int_of_string s) in
  match toks with
  | [ "index"; a ] -> OIndex (n a)
  | [ "sliced"; a; b ] -> OSliced (n a, n b)
  | [ "sliceds"; a; b; s ] -> OSlicedS (n a, n b, n s)
  | [ "strided"; s ] -> OStrided (n s)
  | [ "dropped"; a ] -> ODropped (n a)
  | [ "taked"; a ] -> OTaked (n a)
  | [ "rotated" ] -> ORotated
  | [ "unrotated" ] -> OUnrotated
  | [ "transposed" ] -> OTransposed
  | [ "reversed" ] -> OReversed
  | _ -> failwith ("bad op: " ^ String.concat " " toks)
let words s = List.filter (fun w -> w <> "") (String.split_on_char ' ' (String.trim s))

(* ---- cases ---- *)
type line = { kind : string; name : string; args : int list }
type case = {
  aexts : (int * int) list; aops : op list;
  bexts : (int * int) list; bops : op list;      (* bexts = [] : no second view *)
  range : string;                                (* rows | elems *)
  data : int list;                               (* whole buffer *)
  lines : line list;
}
let guard = 4
let nel_of exts = List.fold_left (fun s (f, l) -> s * max (l - f) 0) 1 exts
let shift_base (v : view) (g : int) : view = { lay = v.lay; base = z (i v.base + g) }
let rank v = int_of_nat (v_rank v)
let zr l = List.map (fun (f, l) -> (z f, z l)) l

let rec tree_of (sz : int list) (flat : int list) : tree =
  match sz with
  | [] -> Leaf (z (List.hd flat))
  | n :: rest ->
      let len = List.fold_left ( * ) 1 rest in
      let rec chunks k l = if k = 0 then [] else
          let rec take m l = if m = 0 then ([], l) else match l with x :: t -> let (a, b) = take (m - 1) t in (x :: a, b) | [] -> ([], []) in
          let (c, r) = take len l in c :: chunks (k - 1) r in
      Node (List.map (tree_of rest) (chunks n flat))

let views_of (c : case) : (view * view option) option =
  let na = nel_of c.aexts in
  match run_ops c.aops (root_view (zr c.aexts)) with
  | None -> None
  | Some a0 ->
      let a = shift_base a0 guard in
      if c.bexts = [] then Some (a, None)
      else match run_ops c.bops (root_view (zr c.bexts)) with
        | None -> None
        | Some b0 -> Some (a, Some (shift_base b0 (2 * guard + na)))

(* the range of a case: row function, sizes na nb, row shape *)
let range_of (c : case) (a : view) (b : view option) : (z -> view) * int * int * int list =
  if c.range = "elems" then
    let na = i (er_size a) in
    (match b with
     | None -> (elems_of a, na, 0, [])
     | Some b -> (cat_rows (elems_of a) (z na) (elems_of b), na, i (er_size b), []))
  else
    let na = i (v_size a) in
    let sz = List.tl (il (l_sizes a.lay)) in
    (match b with
     | None -> (rows_of a, na, 0, sz)
     | Some b -> (cat_rows (rows_of a) (z na) (rows_of b), na, i (v_size b), sz))

let algos_all = [ "sort"; "stable_sort"; "partial_sort"; "nth_element"; "rotate"; "reverse"; "partition"; "unique"; "remove";
                  "copy"; "copy_backward"; "move"; "swap_ranges"; "fill"; "transform"; "find"; "equal"; "is_sorted";
                  "accumulate"; "lexicographical_compare" ]

let rec nat_of_int_c03 (k : int) : nat = if k <= 0 then O else S (nat_of_int_c03 (k - 1))

let nb_root (c : case) = if c.bexts = [] then 0 else nel_of c.bexts
let total (c : case) = 3 * guard + nel_of c.aexts + nb_root c

(* model execution; false when the case leaves the documented domain (an X line is printed) *)
let run_case (id : string) (c : case) (obs : Buffer.t) : bool =
  let pr s = Buffer.add_string obs s; Buffer.add_char obs '\n' in
  let bad why = pr (Printf.sprintf "X %s 0 %s" id why); false in
  match views_of c with
  | None -> bad "view op out of domain"
  | Some (a, b) ->
      let ra = rank a in
      if ra < 1 || ra > 3 then bad "rank"
      else if List.length c.data <> total c then bad "data length"
      else if (match b with Some b -> rank b <> ra || (c.range = "rows" && List.tl (il (l_sizes b.lay)) <> List.tl (il (l_sizes a.lay))) | None -> false)
      then bad "second view of another row shape"
      else begin
        let row, na, nb, sz = range_of c a b in
        let coll = collapses (List.map z sz) in
        (* rows that iterator::value_type cannot hold (the known finding): only operations that do not hand a collapsed
           value back to the library ( *it = x and *it == x trip the extension assertion; sort does not terminate) *)
        let safe ln = ln.kind = "prim" && List.mem ln.name [ "read"; "take"; "copy"; "move"; "swap"; "less"; "eq"; "lessv"; "vless" ] in
        if coll && not (b = None && List.for_all safe c.lines) then bad "collapsing row shape with an operation outside the safe set" else
        let n = na + nb in
        let rowlen = List.fold_left ( * ) 1 sz in
        let depth = List.length sz in
        let data = Array.of_list c.data in
        let m0 : mem = fun p -> let k = i p in { c_val = z (if k >= 0 && k < Array.length data then data.(k) else -1); c_moved = false } in
        let inside = Array.make (total c) false in
        List.iter (fun p -> inside.(i p) <- true) (footprint a);
        (match b with Some b -> List.iter (fun p -> inside.(i p) <- true) (footprint b) | None -> ());
        let ok_pos p = p >= 0 && p < n in
        let ok_val l = List.length l = rowlen in
        let lines_ok = List.for_all (fun ln ->
            if ln.kind = "prim" then
              (match ln.name, ln.args with
               | ("read" | "take"), [ p ] -> ok_pos p
               | ("copy" | "move" | "swap" | "less" | "eq"), [ p; q ] -> ok_pos p && ok_pos q
               | ("write" | "lessv" | "vless" | "eqv"), p :: v -> ok_pos p && ok_val v
               | _ -> false)
            else
              (match ln.name, ln.args with
               | ("sort" | "stable_sort" | "reverse" | "unique" | "is_sorted" | "accumulate"), [] -> true
               | ("partial_sort" | "rotate"), [ k ] -> 0 <= k && k <= na
               | "nth_element", [ k ] -> 0 <= k && k <= na && (k < na || na = 0)
               | ("partition" | "remove" | "fill" | "find"), v -> ok_val v
               | ("copy" | "copy_backward" | "move" | "transform" | "equal"), [] -> b = None || nb = na
               | "swap_ranges", [] -> b <> None && nb = na
               | "lexicographical_compare", [] -> true
               | _ -> false)) c.lines in
        if not lines_ok then bad "line out of domain"
        else begin
          pr (Printf.sprintf "V %s kind=%s sizes=%s nel=%d%s" id c.range (ints (il (l_sizes a.lay))) (i (l_num_elements a.lay))
                (match b with Some b -> " bsizes=" ^ ints (il (l_sizes b.lay)) | None -> ""));
          let dump (m : mem) = pr (Printf.sprintf "B %s %s" id (String.concat " " (List.init (total c) (fun p -> string_of_int (i (m (z p)).c_val))))) in
          let flat_str t = ints (il (flat_t t)) in
          let value_of l = if coll then Node [] else tree_of sz l in
          pr (Printf.sprintf "K %s decay=%s" id (if coll then "collapsed" else "ok"));
          let prims = List.filter (fun ln -> ln.kind = "prim") c.lines in
          if prims <> [] then begin
            let instrs = List.map (fun ln ->
                match ln.name, ln.args with
                | "read", [ p ] -> IRead (z p) | "take", [ p ] -> ITake (z p)
                | "copy", [ p; q ] -> ICopy (z p, z q) | "move", [ p; q ] -> IMove (z p, z q) | "swap", [ p; q ] -> ISwap (z p, z q)
                | "less", [ p; q ] -> ILess (z p, z q) | "eq", [ p; q ] -> IEq (z p, z q)
                | "write", p :: v -> IWrite (z p, value_of v) | "lessv", p :: v -> ILessV (z p, value_of v)
                | "vless", p :: v -> IVLess (value_of v, z p) | "eqv", p :: v -> IEqV (z p, value_of v)
                | _ -> failwith "bad prim") prims in
            let pg = script instrs in
            let (m', res) = run_on_view row pg m0 in
            (* the theorem, observed: the same script on independent values gives the same results and values *)
            let (l', res') = run_on_values (nat_of_int_c03 depth) pg (abs_rows row (z n) m0) in
            if (not coll) && (res <> res' || abs_rows row (z n) m' <> l') then failwith ("model-internal: run_on_view and run_on_values disagree on case " ^ id);
            List.iteri (fun k o ->
                pr (Printf.sprintf "R %s %d %s" id (k + 1)
                      (match o with OVal t -> "v:" ^ flat_str t | OBool bb -> "b:" ^ (if bb then "1" else "0") | ONone -> "-"))) res;
            dump m';
            let mv = List.filter (fun p -> (not inside.(p)) && (m' (z p)).c_moved) (List.init (total c) (fun p -> p)) in
            pr (Printf.sprintf "M %s %s" id (ints mv))
          end;
          List.iter (fun ln ->
              if ln.kind = "algo" then begin
                pr (Printf.sprintf "T %s %s twin=ok frame=ok" id ln.name);
                let zn = z na in
                let rows_str m k = String.concat "|" (List.init k (fun p -> flat_str (rd (row (z p)) m))) in
                let rows_str m k = if k = 0 then "-" else rows_str m k in
                (match ln.name with
                 | "sort" | "stable_sort" -> let (m', _) = run_on_view row (p_sort zn) m0 in dump m'
                 | "reverse" -> let (m', _) = run_on_view row (p_reverse zn) m0 in dump m'
                 | "fill" -> let (m', _) = run_on_view row (p_fill zn (value_of ln.args)) m0 in dump m'
                 | "rotate" ->
                     let (m', r) = run_on_view row (p_rotate zn (z (List.hd ln.args))) m0 in
                     pr (Printf.sprintf "A %s rotate ret=%d" id (i r)); dump m'
                 | "find" -> let (_, r) = run_on_view row (p_find zn (value_of ln.args)) m0 in pr (Printf.sprintf "A %s find ret=%d" id (i r))
                 | "is_sorted" ->
                     let (_, r) = run_on_view row (p_is_sorted_until zn) m0 in
                     pr (Printf.sprintf "A %s is_sorted ret=%d" id (if i r = na then 1 else 0))
                 | "unique" ->
                     let (m', r) = run_on_view row (p_unique zn) m0 in
                     pr (Printf.sprintf "A %s unique ret=%d prefix=%s" id (i r) (rows_str m' (i r)))
                 | "remove" ->
                     let (m', r) = run_on_view row (p_remove zn (value_of ln.args)) m0 in
                     pr (Printf.sprintf "A %s remove ret=%d prefix=%s" id (i r) (rows_str m' (i r)))
                 | "copy" when b <> None ->
                     let (m', _) = run_on_view row (p_copy zn) m0 in
                     pr (Printf.sprintf "A %s copy ret=%d" id na); dump m'
                 | "swap_ranges" -> let (m', _) = run_on_view row (p_swap_ranges zn) m0 in dump m'
                 | "equal" when b <> None ->
                     let (_, r) = run_on_view row (p_equal zn) m0 in pr (Printf.sprintf "A %s equal ret=%d" id (if r then 1 else 0))
                 | _ -> ())
              end) c.lines;
          true
        end
      end

let case_text (id : string) (c : case) : string =
  let b = Buffer.create 256 in
  let pr s = Buffer.add_string b s; Buffer.add_char b '\n' in
  let ex l = join " " (fun (f, l) -> Printf.sprintf "%d %d" f l) l in
  pr ("case " ^ id);
  pr (Printf.sprintf "buf %d %d %d" guard (nel_of c.aexts) (nb_root c));
  pr ("data " ^ join " " string_of_int c.data);
  pr (Printf.sprintf "aroot %d %s" (List.length c.aexts) (ex c.aexts));
  List.iter (fun o -> pr ("aop " ^ op_text o)) c.aops;
  if c.bexts <> [] then begin
    pr (Printf.sprintf "broot %d %s" (List.length c.bexts) (ex c.bexts));
    List.iter (fun o -> pr ("bop " ^ op_text o)) c.bops
  end;
  pr ("range " ^ c.range);
  List.iter (fun ln -> pr (Printf.sprintf "%s %s%s" ln.kind ln.name (String.concat "" (List.map (fun a -> " " ^ string_of_int a) ln.args)))) c.lines;
  pr "end";
  Buffer.contents b

let parse_cases (text : string) : (string * case) list =
  let cases = ref [] and cur = ref None and id = ref "" in
  let empty = { aexts = []; aops = []; bexts = []; bops = []; range = "rows"; data = []; lines = [] } in
  let rec pairs = function a :: b :: t -> (int_of_string a, int_of_string b) :: pairs t | _ -> [] in
  List.iter
    (fun line ->
      match words line, !cur with
      | [ "case"; c ], _ -> id := c; cur := Some empty
      | "data" :: rest, Some c -> cur := Some { c with data = List.map int_of_string rest }
      | "aroot" :: _ :: rest, Some c -> cur := Some { c with aexts = pairs rest }
      | "broot" :: _ :: rest, Some c -> cur := Some { c with bexts = pairs rest }
      | "aop" :: toks, Some c -> cur := Some { c with aops = c.aops @ [ parse_op toks ] }
      | "bop" :: toks, Some c -> cur := Some { c with bops = c.bops @ [ parse_op toks ] }
      | [ "range"; r ], Some c -> cur := Some { c with range = r }
      | (("prim" | "algo") as k) :: name :: rest, Some c -> cur := Some { c with lines = c.lines @ [ { kind = k; name; args = List.map int_of_string rest } ] }
      | [ "end" ], Some c -> cases := (!id, c) :: !cases; cur := None
      | _ -> ())
    (String.split_on_char '\n' text);
  List.rev !cases

(* ---------------- generator ---------------- *)
let divisors n = List.filter (fun d -> n mod d = 0) (List.init (max n 1) (fun k -> k + 1))

let candidate (v : view) : op option =
  let r = rank v in
  let (f, l) = let (a, b) = v_extension v in (i a, i b) in
  let n = i (v_size v) in
  let slice () = let a = rnd_range f l in let b = rnd_range a l in (a, b) in
  match weighted [ (6, `Index); (12, `Sliced); (6, `SlicedS); (6, `Strided); (5, `Dropped); (3, `Taked);
                   (12, `Rotated); (5, `Unrotated); (12, `Transposed); (5, `Reversed) ] with
  | `Index -> if r >= 2 && n > 0 then Some (OIndex (z (rnd_range f (l - 1)))) else None
  | `Sliced -> let (a, b) = slice () in Some (OSliced (z a, z b))
  | `SlicedS -> let (a, b) = slice () in if b - a > 0 then Some (OSlicedS (z a, z b, z (pick (divisors (b - a))))) else None
  | `Strided -> if n > 0 then Some (OStrided (z (pick (divisors n)))) else None
  | `Dropped -> Some (ODropped (z (rnd_range 0 n)))
  | `Taked -> Some (OTaked (z (rnd_range 0 n)))
  | `Rotated -> Some ORotated
  | `Unrotated -> Some OUnrotated
  | `Transposed -> if r >= 2 then Some OTransposed else None
  | `Reversed -> Some OReversed

let root_sizes (maxrank : int) : (int * int) list =
  let d = min maxrank (weighted [ (3, 1); (4, 2); (3, 3) ]) in
  let special = chance 15 in
  List.init d (fun _ ->
      let n = if special && chance 40 then pick [ 0; 1 ] else weighted [ (1, 1); (3, 2); (5, 3); (4, 4); (3, 5); (1, 6) ] in
      (0, n))

let gen_view (maxrank : int) (maxops : int) : (int * int) list * op list * view * string list =
  let exts = root_sizes maxrank in
  let v = ref (root_view (zr exts)) and ops = ref [] and kinds = ref [] in
  for _ = 1 to rnd_range 0 maxops do
    let rec try_op k =
      if k = 0 then None
      else match candidate !v with
        | Some o when dom_op o !v && rank (exec_op o !v) >= 1 -> Some o
        | _ -> try_op (k - 1) in
    match try_op 20 with
    | None -> ()
    | Some o -> v := exec_op o !v; ops := o :: !ops; kinds := op_kind o :: !kinds
  done;
  (exts, List.rev !ops, !v, List.rev !kinds)

(* a view of sizes `want` over a padded / rotated / strided root (as assign.ml gen_src) *)
let gen_src (want : int list) : (int * int) list * op list =
  let d = List.length want in
  let per = List.map (fun n ->
      let stride = if n > 0 && chance 30 then 2 else 1 in
      let pad_lo = rnd_range 0 1 and pad_hi = rnd_range 0 1 in
      (n, stride, pad_lo, n * stride + pad_lo + pad_hi)) want in
  let r = if d > 1 then rnd d else 0 in
  let padded = List.map (fun (_, _, _, p) -> (0, p)) per in
  let rec rot k l = if k = 0 then l else match l with [] -> [] | a :: t -> rot (k - 1) (t @ [ a ]) in
  let root = rot r padded in
  let undo = List.init r (fun _ -> OUnrotated) in
  let cyc = List.concat_map (fun (n, stride, lo, _) ->
      (if stride = 1 then [ OSliced (z lo, z (lo + n)) ] else [ OSlicedS (z lo, z (lo + n * stride), z stride) ]) @ [ ORotated ]) per in
  (root, undo @ cyc)

let gen_collapsing () : case * string list =
  let a0 = rnd_range 1 3 and a1 = rnd_range 1 3 and a2 = rnd_range 1 3 in
  let k = rnd_range 0 a2 in
  let aexts = [ (0, a0); (0, a1); (0, a2) ] in
  let aops = [ ORotated; ORotated; OSliced (z k, z k); ORotated ] in
  let c0 = { aexts; aops; bexts = []; bops = []; range = "rows"; data = []; lines = [] } in
  let data = List.init (total c0) (fun _ -> rnd 3) in
  let pos () = rnd a0 in
  let lines = List.init (rnd_range 1 6) (fun _ ->
      let name = pick [ "read"; "take"; "copy"; "move"; "swap"; "less"; "eq"; "lessv"; "vless" ] in
      let args = match name with "read" | "take" | "lessv" | "vless" -> [ pos () ] | _ -> [ pos (); pos () ] in
      { kind = "prim"; name; args }) in
  ({ c0 with data; lines }, [ "collapsing_row_shape" ])

let gen_case (mode : string) (maxrank : int) (maxops : int) : case * string list =
  if mode = "collapse" then gen_collapsing () else
  let rec pick_view tries =
    let (exts, ops, v, kinds) = gen_view maxrank maxops in
    if (nel_of exts <= 150 && nel_of exts > 0) || tries = 0 then (exts, ops, v, kinds) else pick_view (tries - 1) in
  let (aexts, aops, av, kinds) = pick_view 20 in
  let range = if chance 35 then "elems" else "rows" in
  let asz = il (l_sizes av.lay) in
  let sz = if range = "elems" then [] else List.tl asz in
  let rowlen = List.fold_left ( * ) 1 sz in
  let na = if range = "elems" then i (er_size av) else i (v_size av) in
  let algo = if mode = "algo" then pick algos_all else "" in
  let want_b =
    if mode = "prim" then chance 30
    else match algo with
      | "swap_ranges" -> true
      | "copy" | "copy_backward" | "move" | "transform" | "equal" | "lexicographical_compare" -> chance 60
      | _ -> false in
  let (bexts, bops) =
    if not want_b then ([], [])
    else
      let want = if (mode = "prim" || algo = "lexicographical_compare") && range = "rows" && chance 50 then rnd_range 0 4 :: List.tl asz else asz in
      gen_src want in
  let c0 = { aexts; aops; bexts; bops; range; data = []; lines = [] } in
  let vmax = pick [ 2; 3; 3; 5; 9 ] in
  let data = Array.init (total c0) (fun _ -> rnd vmax) in
  let bview = match views_of c0 with Some (_, b) -> b | None -> None in
  let a = shift_base av guard in
  (* equal / lexicographical_compare / unique-style cases want coincidences: copy a's values under b, perturb sometimes *)
  (match bview with
   | Some b when chance 50 && i (er_size b) = i (er_size a) ->
       List.iteri (fun k pa -> data.(i (e_addr b (z k))) <- data.(i pa)) (footprint a);
       if chance 50 && i (er_size b) > 0 then (let k = rnd (i (er_size b)) in let p = i (e_addr b (z k)) in data.(p) <- (data.(p) + 1) mod (vmax + 1))
   | _ -> ());
  (* runs of equal neighbours for unique / is_sorted *)
  if mode = "algo" && chance 25 && na >= 2 then begin
    let row, _, _, _ = range_of c0 a None in
    for p = 1 to na - 1 do
      if chance 50 then
        for k = 0 to rowlen - 1 do data.(i (e_addr (row (z p)) (z k))) <- data.(i (e_addr (row (z (p - 1))) (z k))) done
    done end;
  if mode = "algo" && chance 15 && na >= 2 then begin      (* a sorted range *)
    let row, _, _, _ = range_of c0 a None in
    for p = 0 to na - 1 do for k = 0 to rowlen - 1 do data.(i (e_addr (row (z p)) (z k))) <- (if k = 0 then p / 2 else 0) done done end;
  let nb = match bview with Some b -> if range = "elems" then i (er_size b) else i (v_size b) | None -> 0 in
  let n = na + nb in
  let row_vals p =
    let row, _, _, _ = range_of c0 a bview in
    List.init rowlen (fun k -> data.(i (e_addr (row (z p)) (z k)))) in
  let value () = if n > 0 && chance 60 then row_vals (rnd n) else List.init rowlen (fun _ -> rnd (vmax + 1)) in
  let lines, lk =
    if mode = "prim" then begin
      if n = 0 then ([], [ "prim_none" ])
      else
        let len = rnd_range 1 12 in
        let pos () = if chance 15 then pick [ 0; n - 1 ] else rnd n in
        let ls = List.init len (fun _ ->
            let name = weighted [ (3, "read"); (2, "take"); (4, "write"); (4, "copy"); (3, "move"); (4, "swap"); (3, "less"); (2, "lessv");
                                  (2, "vless"); (3, "eq"); (2, "eqv") ] in
            let args = match name with
              | "read" | "take" -> [ pos () ]
              | "copy" | "move" | "swap" | "less" | "eq" -> let p = pos () in [ p; (if chance 10 then p else pos ()) ]
              | _ -> pos () :: value () in
            { kind = "prim"; name; args }) in
        (ls, List.map (fun l -> "prim_" ^ l.name) ls)
    end else begin
      let args = match algo with
        | "partial_sort" | "rotate" -> [ (if chance 20 then pick [ 0; na ] else rnd_range 0 na) ]
        | "nth_element" -> [ (if na = 0 then 0 else rnd na) ]
        | "partition" | "remove" | "fill" | "find" -> value ()
        | _ -> [] in
      ([ { kind = "algo"; name = algo; args } ], [ "algo_" ^ algo ])
    end in
  let c = { c0 with data = Array.to_list data; lines } in
  let tags = [ "range_" ^ range; Printf.sprintf "rank%d" (rank av); Printf.sprintf "n%s" (if na >= 4 then "4+" else string_of_int na);
               (if bexts = [] then "one_view" else "two_views");
               (if List.exists (fun d -> i d.d_stride <> 1) av.lay && rowlen > 0 then "noncontiguous" else "unit_stride_somewhere") ] in
  (c, tags @ lk @ List.map (fun k -> "op_" ^ k) kinds)

(* ---------------- entry point ---------------- *)
let () =
  if Array.length Sys.argv < 2 then (prerr_endline "usage: driver_c03 gen|run ..."; exit 2);
  let cmd = Sys.argv.(1) in
  let args = Array.to_list (Array.sub Sys.argv 2 (Array.length Sys.argv - 2)) in
  let rec get k d = function [] -> d | a :: b :: _ when a = k -> b | _ :: t -> get k d t in
  let geti k d = int_of_string (get k (string_of_int d) args) in
  let prog = Buffer.create 65536 and obs = Buffer.create 65536 in
  let write f b = let oc = open_out f in Buffer.output_buffer oc b; close_out oc in
  let hist : (string, int) Hashtbl.t = Hashtbl.create 64 in
  let bump k = Hashtbl.replace hist k (1 + try Hashtbl.find hist k with Not_found -> 0) in
  (match cmd with
   | "gen" ->
       seed (geti "--seed" 1);
       let count = geti "--count" 100 and maxrank = geti "--maxrank" 3 and maxops = geti "--maxops" 4 in
       let primpct = geti "--primpct" 40 in
       for k = 1 to count do
         let id = Printf.sprintf "%s%d" (get "--prefix" "g" args) k in
         let mode = if chance (geti "--collapsepct" 1) then "collapse" else if chance primpct then "prim" else "algo" in
         let rec go tries =
           let cs, kinds = gen_case mode maxrank maxops in
           let o = Buffer.create 1024 in
           if run_case id cs o then begin
             Buffer.add_string prog (case_text id cs); Buffer.add_buffer obs o; Buffer.add_string obs ("E " ^ id ^ "\n");
             List.iter bump kinds end
           else if tries > 0 then go (tries - 1) in
         go 8
       done;
       write (get "--prog" "prog.txt" args) prog
   | "run" ->
       let ic = open_in (get "--prog" "prog.txt" args) in
       let n = in_channel_length ic in
       let text = really_input_string ic n in
       close_in ic;
       List.iter (fun (id, cs) -> ignore (run_case id cs obs); Buffer.add_string obs ("E " ^ id ^ "\n")) (parse_cases text)
   | _ -> prerr_endline "unknown command"; exit 2);
  write (get "--obs" "obs.txt" args) obs;
  let items = List.sort compare (Hashtbl.fold (fun k v acc -> (k, v) :: acc) hist []) in
  print_string "{";
  print_string (String.concat ", " (List.map (fun (k, v) -> Printf.sprintf "\"%s\": %d" k v) items));
  print_endline "}"

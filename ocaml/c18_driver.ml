(* C18 driver:  gen --seed S --count N --prog FILE --obs FILE [--maxops K] [--prefix P]
               run --prog FILE --obs FILE
   Everything random derives from --seed.  Prints the generator distribution as one JSON line. *)
let usage () = prerr_endline "usage: driver_c18 <gen|run> --seed S --count N --prog FILE --obs FILE"; exit 2

let () =
  if Array.length Sys.argv < 2 then usage ();
  let cmd = Sys.argv.(1) in
  let args = Array.to_list (Array.sub Sys.argv 2 (Array.length Sys.argv - 2)) in
  let rec get k d = function [] -> d | a :: b :: _ when a = k -> b | _ :: t -> get k d t in
  let geti k d = int_of_string (get k (string_of_int d) args) in
  let seed = geti "--seed" 1 and count = geti "--count" 100 in
  C18_util.seed seed;
  let prog = Buffer.create 65536 and obs = Buffer.create 65536 in
  let write f b = let oc = open_out f in Buffer.output_buffer oc b; close_out oc in
  let hist : (string, int) Hashtbl.t = Hashtbl.create 64 in
  let bump k = Hashtbl.replace hist k (1 + try Hashtbl.find hist k with Not_found -> 0) in
  (match cmd with
   | "gen" ->
       let maxops = geti "--maxops" 5 in
       let prefix = get "--prefix" "m" args in
       for k = 1 to count do
         let (text, tags) = C18_gen.gen_case maxops (Printf.sprintf "%s%d" prefix k) in
         Buffer.add_string prog text;
         List.iter bump (List.sort_uniq compare tags)
       done;
       C18_gen.run_text (Buffer.contents prog) obs;
       write (get "--prog" "prog.txt" args) prog
   | "run" ->
       let ic = open_in (get "--prog" "prog.txt" args) in
       let n = in_channel_length ic in
       let text = really_input_string ic n in
       close_in ic;
       C18_gen.run_text text obs
   | _ -> usage ());
  write (get "--obs" "obs.txt" args) obs;
  let items = List.sort compare (Hashtbl.fold (fun k v acc -> (k, v) :: acc) hist []) in
  print_string "{";
  print_string (String.concat ", " (List.map (fun (k, v) -> Printf.sprintf "\"%s\": %d" k v) items));
  print_endline "}"

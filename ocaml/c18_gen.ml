(* C18: generator of (send view, receive view) cases and model runner.
   The generator asks the extracted model for the current extents, so every view operation is inside
   its documented domain (dom_op), and the two views of a case have the same number of elements.
   The case text goes to the harness (h_mpi_c18); run_text prints the model's observations for the same
   text, in the same format and order as the harness. *)
open Modelc18
open C18_util

let maxd = 5  (* harness is compiled with -DBM_MAXD=5 *)

let op_text (o : op) : string =
  let p = Printf.sprintf in
  match o with
  | OIndex a -> p "index %d" (i a)
  | OSliced (a, b) -> p "sliced %d %d" (i a) (i b)
  | OSlicedS (a, b, s) -> p "sliceds %d %d %d" (i a) (i b) (i s)
  | OStrided s -> p "strided %d" (i s)
  | ODropped n -> p "dropped %d" (i n)
  | OTaked n -> p "taked %d" (i n)
  | ORotated -> "rotated"
  | OUnrotated -> "unrotated"
  | OTransposed -> "transposed"
  | OReversed -> "reversed"
  | ODiagonal -> "diagonal"
  | OPartitioned n -> p "partitioned %d" (i n)
  | OChunked c -> p "chunked %d" (i c)
  | OHalved -> "halved"
  | OFlatted -> "flatted"
  | OParen args ->
      p "paren %d %s" (List.length args)
        (join " " (function PIdx a -> p "i %d" (i a) | PRange (a, b) -> p "r %d %d" (i a) (i b) | PAll -> "a") args)
  | OReindexed a -> p "reindexed %d" (i a)
  | OBlocked (a, b) -> p "blocked %d %d" (i a) (i b)

let op_kind (o : op) : string =
  match o with
  | OIndex _ -> "index" | OSliced _ -> "sliced" | OSlicedS _ -> "sliceds" | OStrided _ -> "strided"
  | ODropped _ -> "dropped" | OTaked _ -> "taked" | ORotated -> "rotated" | OUnrotated -> "unrotated"
  | OTransposed -> "transposed" | OReversed -> "reversed" | ODiagonal -> "diagonal"
  | OPartitioned _ -> "partitioned" | OChunked _ -> "chunked" | OHalved -> "halved" | OFlatted -> "flatted"
  | OParen _ -> "paren" | OReindexed _ -> "reindexed" | OBlocked _ -> "blocked"

let parse_op (toks : string list) : op =
  let n s = z (int_of_string s) in
  match toks with
  | [ "index"; a ] -> OIndex (n a)
  | [ "sliced"; a; b ] -> OSliced (n a, n b)
  | [ "sliceds"; a; b; s ] -> OSlicedS (n a, n b, n s)
  | [ "strided"; s ] -> OStrided (n s)
  | [ "dropped"; a ] -> ODropped (n a)
  | [ "taked"; a ] -> OTaked (n a)
  | [ "rotated" ] -> ORotated
  | [ "unrotated" ] -> OUnrotated
  | [ "transposed" ] -> OTransposed
  | [ "reversed" ] -> OReversed
  | [ "diagonal" ] -> ODiagonal
  | [ "partitioned"; a ] -> OPartitioned (n a)
  | [ "chunked"; a ] -> OChunked (n a)
  | [ "halved" ] -> OHalved
  | [ "flatted" ] -> OFlatted
  | "paren" :: _k :: rest ->
      let rec go = function
        | [] -> []
        | "i" :: a :: t -> PIdx (n a) :: go t
        | "r" :: a :: b :: t -> PRange (n a, n b) :: go t
        | "a" :: t -> PAll :: go t
        | _ -> failwith "bad paren" in
      OParen (go rest)
  | _ -> failwith ("bad op: " ^ String.concat " " toks)

let rank v = int_of_nat (v_rank v)
let sizes v = il (l_sizes v.lay)
let nel v = i (l_num_elements v.lay)
let root_of (exts : int list) : view = root_view (List.map (fun n -> (z 0, z n)) exts)

(* flat iteration (elements()) of a view with an empty inner dimension under a non-empty leading one
   divides by zero at the pinned commit (separate defect); such views appear only as deliberate
   final states, where the harness does not iterate *)
let safe v = match sizes v with [] -> true | n :: r -> n = 0 || List.for_all (fun m -> m > 0) r

let divisors n = List.filter (fun d -> n mod d = 0) (List.init (max n 1) (fun k -> k + 1))

(* one candidate operation for the current (model) view; may be out of domain -- caller checks dom_op *)
let candidate (v : view) : op option =
  let r = rank v in
  let (f, l) = let (a, b) = v_extension v in (i a, i b) in
  let n = i (v_size v) in
  let slice () = let a = rnd_range f l in let b = rnd_range a l in (a, b) in
  let kinds =
    [ (8, `Index); (12, `Sliced); (5, `SlicedS); (7, `Strided); (5, `Dropped); (3, `Taked);
      (14, `Rotated); (6, `Unrotated); (12, `Transposed); (5, `Reversed); (4, `Diagonal);
      (5, `Partitioned); (3, `Chunked); (3, `Halved); (4, `Flatted); (12, `Paren) ] in
  match weighted kinds with
  | `Index -> if r >= 2 && n > 0 then Some (OIndex (z (rnd_range f (l - 1)))) else None
  | `Sliced -> let (a, b) = slice () in Some (OSliced (z a, z b))
  | `SlicedS ->
      let (a, b) = slice () in
      if b - a > 0 then Some (OSlicedS (z a, z b, z (pick (divisors (b - a))))) else None
  | `Strided -> if n > 0 then Some (OStrided (z (pick (divisors n)))) else Some (OStrided (z (rnd_range 1 3)))
  | `Dropped -> Some (ODropped (z (rnd_range 0 n)))
  | `Taked -> Some (OTaked (z (rnd_range 0 n)))
  | `Rotated -> Some ORotated
  | `Unrotated -> Some OUnrotated
  | `Transposed -> if r >= 2 then Some OTransposed else None
  | `Reversed -> Some OReversed
  | `Diagonal -> if r >= 2 then Some ODiagonal else None
  | `Partitioned -> if n > 0 && r < maxd then Some (OPartitioned (z (pick (divisors n)))) else None
  | `Chunked -> if n > 0 && r < maxd then Some (OChunked (z (pick (divisors n)))) else None
  | `Halved -> if n > 0 && n mod 2 = 0 && r < maxd then Some OHalved else None
  | `Flatted -> if r >= 2 then Some OFlatted else None
  | `Paren ->
      let k = rnd_range 1 (min 3 r) in
      let exts = List.map (fun (a, b) -> (i a, i b)) (l_extensions v.lay) in
      let rec take k l = if k = 0 then [] else match l with [] -> [] | x :: t -> x :: take (k - 1) t in
      let args =
        List.map
          (fun (f, l) ->
            match weighted [ (3, `I); (5, `R); (2, `A) ] with
            | `I -> if l > f then PIdx (z (rnd_range f (l - 1))) else PAll
            | `R -> let a = rnd_range f l in let b = rnd_range a l in PRange (z a, z b)
            | `A -> PAll)
          (take k exts) in
      let nidx = List.length (List.filter (function PIdx _ -> true | _ -> false) args) in
      if nidx = r then None else Some (OParen args)

let ok_next v o = dom_op o v && (let w = exec_op o v in let r' = rank w in r' >= 1 && r' <= maxd && safe w)

let max_root = 400

let root_sizes () : int list =
  let d = weighted [ (3, 1); (5, 2); (5, 3); (3, 4) ] in
  let special = chance 15 in
  let rec go () =
    let e = List.init d (fun _ ->
        if special && chance 40 then pick [ 0; 1 ]
        else weighted [ (1, 1); (4, 2); (5, 3); (4, 4); (2, 5); (1, 6); (1, 7) ]) in
    if List.fold_left ( * ) 1 e <= max_root then e else go () in
  go ()

(* a freely generated view: root + random in-domain operations *)
let gen_free (maxops : int) : int list * op list * view =
  let exts = root_sizes () in
  let v = ref (root_of exts) and ops = ref [] in
  let nops = rnd_range 0 maxops in
  for _ = 1 to nops do
    let rec try_op k =
      if k = 0 then None
      else match candidate !v with Some o when ok_next !v o -> Some o | _ -> try_op (k - 1) in
    match try_op 30 with
    | None -> ()
    | Some o -> v := exec_op o !v; ops := o :: !ops
  done;
  (exts, List.rev !ops, !v)

(* count-preserving operations appended to a matched view *)
let preserving (v : view) : op option =
  let r = rank v in
  let n = i (v_size v) in
  match weighted [ (6, `Rot); (3, `Unrot); (5, `Tr); (3, `Rev); (3, `Part); (2, `Chunk); (2, `Halve); (3, `Flat) ] with
  | `Rot -> Some ORotated
  | `Unrot -> Some OUnrotated
  | `Tr -> if r >= 2 then Some OTransposed else None
  | `Rev -> Some OReversed
  | `Part -> if n > 0 && r < maxd then Some (OPartitioned (z (pick (divisors n)))) else None
  | `Chunk -> if n > 0 && r < maxd then Some (OChunked (z (pick (divisors n)))) else None
  | `Halve -> if n > 0 && n mod 2 = 0 && r < maxd then Some OHalved else None
  | `Flat -> if r >= 2 then Some OFlatted else None

(* a view with exactly n elements: a padded, possibly strided sub-block of a root whose block sizes
   multiply to n, then count-preserving operations *)
let rec gen_matched (n : int) : int list * op list * view =
  let k = weighted [ (3, 1); (5, 2); (4, 3); (2, 4) ] in
  let factors =
    if n = 0 then 0 :: List.init (k - 1) (fun _ -> rnd_range 1 4)
    else begin
      let rec go n k = if k = 1 then [ n ] else let d = pick (divisors n) in d :: go (n / d) (k - 1) in
      shuffle (go n k)
    end in
  let dims = List.map (fun m ->
      let s = if m >= 1 && chance 35 then rnd_range 2 3 else 1 in
      let a = if chance 50 then 0 else rnd_range 1 2 in
      let b = if chance 50 then 0 else rnd_range 1 2 in
      (m, s, a, b)) factors in
  let exts = List.map (fun (m, s, a, b) -> a + m * s + b) dims in
  if List.fold_left ( * ) 1 exts > 4 * max_root then gen_matched n
  else begin
    let all_unit = List.for_all (fun (_, s, _, _) -> s = 1) dims in
    let sel =
      if all_unit && k <= 3 && chance 40 then
        [ OParen (List.map (fun (m, _, a, _) -> PRange (z a, z (a + m))) dims) ]
      else
        List.concat_map (fun (m, s, a, b) ->
            let pick_op =
              if s > 1 then [ OSlicedS (z a, z (a + m * s), z s) ]
              else if a > 0 || b > 0 || chance 20 then [ OSliced (z a, z (a + m)) ]
              else [] in
            pick_op @ (if k > 1 then [ ORotated ] else [])) dims in
    let v = ref (root_of exts) and ops = ref [] and good = ref true in
    List.iter (fun o -> if !good && dom_op o !v then (v := exec_op o !v; ops := o :: !ops) else good := false) sel;
    if not !good || nel !v <> n || not (safe !v) then gen_matched n
    else begin
      for _ = 1 to rnd_range 0 3 do
        match preserving !v with
        | Some o when ok_next !v o -> v := exec_op o !v; ops := o :: !ops
        | _ -> ()
      done;
      if nel !v <> n then gen_matched n else (exts, List.rev !ops, !v)
    end
  end

(* deliberately: an empty INNER dimension under a non-empty outer one (model and MPI handle it; the
   library's flat iteration does not, so the harness does not iterate such a view) *)
let make_zero_inner ((exts, ops, v) : int list * op list * view) : (int list * op list * view) option =
  if rank v >= 2 && List.for_all (fun m -> m > 0) (sizes v) then begin
    let tail = [ ORotated; OSliced (z 0, z 0); OUnrotated ] in
    let w = ref v and good = ref true in
    List.iter (fun o -> if !good && dom_op o !w then w := exec_op o !w else good := false) tail;
    if !good then Some (exts, ops @ tail, !w) else None
  end else None

let elem_size = function "int" -> 4 | "float" -> 4 | "double" -> 8 | e -> failwith ("elem " ^ e)
let mode_of = function
  | "message" -> MMessage | "skeleton" -> MSkeleton | "move" -> MMove | "release" -> MRelease
  | "subarray" -> MSubarray | "aux" -> MAux | "data" -> MData | m -> failwith ("mode " ^ m)

let case_text id elem smode rmode (sexts, sops, _) (rexts, rops, _) : string =
  let b = Buffer.create 256 in
  let pr s = Buffer.add_string b s; Buffer.add_char b '\n' in
  pr ("case " ^ id);
  pr ("elem " ^ elem);
  pr ("smode " ^ smode);
  pr ("rmode " ^ rmode);
  pr (Printf.sprintf "sroot %d %s" (List.length sexts) (join " " (fun n -> Printf.sprintf "0 %d" n) sexts));
  List.iter (fun o -> pr ("sop " ^ op_text o)) sops;
  pr (Printf.sprintf "rroot %d %s" (List.length rexts) (join " " (fun n -> Printf.sprintf "0 %d" n) rexts));
  List.iter (fun o -> pr ("rop " ^ op_text o)) rops;
  pr "end";
  Buffer.contents b

(* one generated case; returns its text and the list of feature tags for the distribution *)
let gen_case (maxops : int) (id : string) : string * string list =
  let tags = ref [] in
  let tag t = tags := t :: !tags in
  let how = weighted [ (50, `SendFree); (30, `RecvFree); (20, `BothFree) ] in
  (* free programs end empty far too often (sliced a a, dropped n, ...): keep about one in eight of those *)
  let rec free () =
    let f = gen_free maxops in
    let (_, _, x) = f in
    if nel x = 0 && not (chance 12) then free () else f in
  let (s, r) =
    match how with
    | `SendFree -> tag "pair:send-free"; let s = free () in let (_, _, v) = s in (s, gen_matched (nel v))
    | `RecvFree -> tag "pair:recv-free"; let r = free () in let (_, _, w) = r in (gen_matched (nel w), r)
    | `BothFree ->
        let s = free () in
        let (_, _, v) = s in
        let rec find k = if k = 0 then None else let r = free () in let (_, _, w) = r in if nel w = nel v then Some r else find (k - 1) in
        (match find 40 with
         | Some r -> tag "pair:both-free"; (s, r)
         | None -> tag "pair:send-free"; (s, gen_matched (nel v))) in
  (* rarely: an empty inner dimension on one side (both sides then have 0 elements) *)
  let (s, r) =
    if chance 3 then
      match make_zero_inner s with
      | Some s' -> tag "zero-inner-extent"; (s', gen_matched 0)
      | None -> (s, r)
    else (s, r) in
  let (_, sops, v) = s and (_, rops, w) = r in
  let elem = weighted [ (5, "int"); (3, "double"); (2, "float") ] in
  let smode =
    match weighted [ (50, "message"); (12, "skeleton"); (8, "move"); (6, "release"); (12, "subarray"); (4, "aux");
                     ((if rank v = 1 then 30 else 0), "data") ] with
    | "data" when rank v <> 1 -> "message"
    | m -> m in
  let rmode = weighted [ (60, "message"); (15, "skeleton"); (10, "move"); (5, "release"); (10, "subarray") ] in
  tag ("elem:" ^ elem); tag ("smode:" ^ smode); tag ("rmode:" ^ rmode);
  tag (Printf.sprintf "srank:%d" (rank v)); tag (Printf.sprintf "rrank:%d" (rank w));
  let n = nel v in
  tag (if n = 0 then "nel:0" else if n = 1 then "nel:1" else if n <= 8 then "nel:2-8" else if n <= 40 then "nel:9-40" else "nel:41+");
  let feat name (x : view) =
    let sz = sizes x and st = il (l_strides x.lay) in
    if List.mem 0 sz then tag (name ^ ":size0-dim");
    if List.mem 1 sz then tag (name ^ ":size1-dim");
    if List.length (List.filter (fun (n, s) -> n >= 2 && s = 1) (List.combine sz st)) >= 1 then tag (name ^ ":unit-stride-dim");
    (* padded: some dimension's stride exceeds the span of the dimensions after it *)
    let rec last = function [] -> 1 | [ x ] -> x | _ :: t -> last t in
    if List.length sz >= 1 && last st <> 1 && last sz >= 2 then tag (name ^ ":strided-innermost");
    let sorted = List.sort compare (List.map abs st) in
    if sorted <> List.rev (List.map abs st) then tag (name ^ ":non-row-major-order") in
  feat "send" v; feat "recv" w;
  List.iter (fun o -> tag ("op:" ^ op_kind o)) (sops @ rops);
  tag (Printf.sprintf "len:%d" (min 9 (List.length sops + List.length rops)));
  (case_text id elem smode rmode s r, List.rev !tags)

(* ---- printing the model's observations ---- *)
let rec dt_str (t : dt) : string =
  let p = Printf.sprintf in
  match t with
  | Base s -> p "B%d" (i s)
  | Vector (c, b, s, t') -> p "V(%d,%d,%d,%s)" (i c) (i b) (i s) (dt_str t')
  | HVector (c, b, s, t') -> p "H(%d,%d,%d,%s)" (i c) (i b) (i s) (dt_str t')
  | Resized (t', lb, e) -> p "R(%d,%d,%s)" (i lb) (i e) (dt_str t')
  | Dup t' -> p "D(%s)" (dt_str t')

let ev_str (e : ev) : string =
  let p = Printf.sprintf in
  match e with
  | EvVector (n, c, b, s, o) -> p "vc(%d,%d,%d,%d,%d)" (i n) (i c) (i b) (i s) (i o)
  | EvHVector (n, c, b, s, o) -> p "hv(%d,%d,%d,%d,%d)" (i n) (i c) (i b) (i s) (i o)
  | EvResized (n, o, lb, e) -> p "rs(%d,%d,%d,%d)" (i n) (i o) (i lb) (i e)
  | EvDup (n, o) -> p "dp(%d,%d)" (i n) (i o)
  | EvCommit h -> p "cm(%d)" (i h)
  | EvFree h -> p "fr(%d)" (i h)
  | EvUse (h, c) -> p "us(%d,%d)" (i h) (i c)

let words s = List.filter (fun w -> w <> "") (String.split_on_char ' ' (String.trim s))

type side = { mutable exts : int list; mutable ops : op list; mutable mode : string }

let describe pr id side (m : mode) (v : view) (sz : int) =
  let (c, t) = triple_of m v.lay (z sz) in
  pr (Printf.sprintf "T %s %s %s" id side (dt_str t));
  pr (Printf.sprintf "C %s %s count=%d" id side (i c));
  let size = i (dt_size t) in
  let tl = i (dt_true_lb t) and tu = i (dt_true_ub t) in
  pr (Printf.sprintf "X %s %s lb=%d ext=%d size=%d %s" id side (i (dt_lb t)) (i (dt_extent t)) size
        (if size = 0 then "tlb=* text=*" else Printf.sprintf "tlb=%d text=%d" tl (tu - tl)))

let run_case pr id elem (s : side) (r : side) =
  let sz = elem_size elem in
  match run_ops s.ops (root_of s.exts), run_ops r.ops (root_of r.exts) with
  | Some v, Some w when rank v >= 1 && rank w >= 1 && nel v <> nel w ->
      pr (Printf.sprintf "X %s count-mismatch send %d receive %d" id (nel v) (nel w))
  | Some v, Some w when s.mode = "data" && rank v <> 1 ->
      ignore w; pr (Printf.sprintf "X %s out-of-domain data mode needs rank 1" id)
  | Some v, Some w when rank v >= 1 && rank w >= 1 ->
      let sm = mode_of s.mode and rm = mode_of r.mode in
      let nroot_r = i (l_num_elements (root_of r.exts).lay) in
      pr (Printf.sprintf "F %s s %s" id (ints (il (flat_addrs v))));
      pr (Printf.sprintf "I %s s %s" id (ints (il (index_addrs v))));
      pr (Printf.sprintf "F %s r %s" id (ints (List.map (fun a -> -a - 1) (il (flat_addrs w)))));
      pr (Printf.sprintf "I %s r %s" id (ints (il (index_addrs w))));
      describe pr id "s" sm v sz;
      let sbytes = msg_byte_addrs sm v (z sz) in
      let packed = List.map (fun b -> i b / sz) sbytes in
      pr (Printf.sprintf "K %s s %s pos=%d" id (ints packed) (List.length packed * sz));
      pr (Printf.sprintf "L %s s %s" id (join ";" ev_str (trace_of sm v.lay (z sz))));
      describe pr id "r" rm w sz;
      pr (Printf.sprintf "L %s r %s" id (join ";" ev_str (trace_of rm w.lay (z sz))));
      let rbytes = msg_byte_addrs rm w (z sz) in
      let after = il (transfer_run (z sz) (z nroot_r) sbytes rbytes) in
      pr (Printf.sprintf "U %s %s" id (ints after));
      let arr = Array.of_list after in
      pr (Printf.sprintf "V %s r %s" id (ints (List.map (fun a -> arr.(a)) (il (flat_addrs w)))));
      pr (Printf.sprintf "G %s send=1 recv=1" id)
  | _ -> pr (Printf.sprintf "X %s out-of-domain" id)

(* runs every case of a program text through the model *)
let run_text (text : string) (obs : Buffer.t) : unit =
  let pr s = Buffer.add_string obs s; Buffer.add_char obs '\n' in
  let id = ref "" and elem = ref "int" in
  let s = { exts = []; ops = []; mode = "message" } and r = { exts = []; ops = []; mode = "message" } in
  let rec pairs = function _ :: b :: t -> int_of_string b :: pairs t | _ -> [] in
  List.iter
    (fun line ->
      match words line with
      | [ "case"; c ] ->
          id := c; elem := "int";
          s.exts <- []; s.ops <- []; s.mode <- "message"; r.exts <- []; r.ops <- []; r.mode <- "message"
      | [ "elem"; e ] -> elem := e
      | [ "smode"; m ] -> s.mode <- m
      | [ "rmode"; m ] -> r.mode <- m
      | "sroot" :: _d :: rest -> s.exts <- pairs rest
      | "rroot" :: _d :: rest -> r.exts <- pairs rest
      | "sop" :: toks -> s.ops <- s.ops @ [ parse_op toks ]
      | "rop" :: toks -> r.ops <- r.ops @ [ parse_op toks ]
      | [ "end" ] -> run_case pr !id !elem s r; pr ("E " ^ !id)
      | _ -> ())
    (String.split_on_char '\n' text)

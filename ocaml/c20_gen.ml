(* C20: generator + model runner for the death tests (out-of-range indices on views produced by view programs,
   assignments between views of equal / different extents) and entry point of build/bin/driver_c20.
   Uses the extracted Model (coq/Extract/ExtractC20.v) through ocaml/zu.ml and ocaml/views.ml.
   Sub-commands:
     deaths      --seed S --count N --prog F --obs F [--rebased] [--maxops K]   generate + model verdicts
     deaths-run  --prog F --obs F                                                model verdicts for a given text
   Program text (harness/h_asserts.cpp reads the same):
     case ID / root D f l ... / op ... / oob PATH i0 i1 ... / end                 PATH = B brackets | C call | T tuple
     case ID / droot D f l ... / dop ... / sroot D f l ... / sop ... / asg KIND / end
   Model lines:  S (shapes, as for h_views)   D id n path=P idx=... res=abort|ok rank=R|-
                 A id kind=K xeq=0|1 asrt=0|1 dnel=N snel=M          E id *)
open Model
open Zu

let pr b s = Buffer.add_string b s; Buffer.add_char b '\n'

(* ---------------- out-of-range indices ---------------- *)
let exts_of (v : view) = List.map (fun (a, b) -> (i a, i b)) (l_extensions v.lay)

(* (path, index tuple, what) for the final view of a program *)
let gen_oob (v : view) : (string * int list * string) list =
  let ex = exts_of v in
  let r = List.length ex in
  if r = 0 then []
  else begin
    let valid () = List.map (fun (f, l) -> if l > f then rnd_range f (l - 1) else f) ex in
    let set k x idx = List.mapi (fun j y -> if j = k then x else y) idx in
    let path () = weighted [ (6, "B"); (3, "C"); (2, "T") ] in
    let dims = if r <= 3 then List.init r (fun k -> k) else [ 0; rnd_range 1 (r - 2); r - 1 ] in
    let per_dim =
      List.concat_map
        (fun k ->
          let (f, l) = List.nth ex k in
          [ (path (), set k (f - 1) (valid ()), "below");
            (path (), set k l (valid ()), "at_last");
          ]
          @ (if chance 50 then [ (path (), set k (l + rnd_range 1 3) (valid ()), "after") ] else [])
          @ (if chance 30 then [ (path (), set k (f - rnd_range 2 4) (valid ()), "far_below") ] else []))
        dims in
    (* two indices wrong at once: the first wrong level must be the one that aborts *)
    let two =
      if r >= 2 && chance 40 then
        let (f0, _) = List.nth ex 0 and (_, l1) = List.nth ex (r - 1) in
        [ (path (), set 0 (f0 - 1) (set (r - 1) l1 (valid ())), "two_wrong") ]
      else [] in
    (* control: an all-valid tuple must NOT abort (only when the view has elements) *)
    let control = if List.for_all (fun (f, l) -> l > f) ex then [ (path (), valid (), "valid") ] else [] in
    per_dim @ two @ control
  end

let death_line (id : string) (n : int) (v : view) (path : string) (idx : int list) : string =
  let r = List.length v.lay in
  let verdict =
    if List.length idx <> r then "res=ok rank=-"
    else match abort_level v (zl idx) with
      | None -> "res=ok rank=-"
      | Some k -> Printf.sprintf "res=abort rank=%d" (r - int_of_nat k) in
  Printf.sprintf "D %s %d path=%s idx=%s %s" id n path (ints idx) verdict

(* ---------------- assignments ---------------- *)
type acase = { dexts : (int * int) list; dops : op list; sexts : (int * int) list; sops : op list; kind : string }

(* which overload class the harness statement selects (harness/h_asserts.cpp Assigner; coq/Model/Asserts.v akind) *)
let akind_of = function
  | "assign" | "assign_const" | "assign_rv" | "move" | "assign_move" | "assign_rv_rv" -> AView
  | "swap" -> ASwap
  | "assign_elems" | "assign_elems_const" -> AElems
  | k -> failwith ("bad asg kind " ^ k)

let zr l = List.map (fun (f, l) -> (z f, z l)) l

let asg_line (id : string) (c : acase) : string option =
  match run_ops c.dops (root_view (zr c.dexts)), run_ops c.sops (root_view (zr c.sexts)) with
  | Some d, Some s when List.length d.lay = List.length s.lay && List.length d.lay >= 1 ->
      let xeq = x_eq (l_extensions d.lay) (l_extensions s.lay) in
      let a = asrt_assign (akind_of c.kind) d s in
      Some (Printf.sprintf "A %s kind=%s xeq=%d asrt=%d dnel=%d snel=%d dsizes=%s ssizes=%s" id c.kind (if xeq then 1 else 0)
              (if a then 1 else 0) (i (l_num_elements d.lay)) (i (l_num_elements s.lay)) (ints (il (l_sizes d.lay)))
              (ints (il (l_sizes s.lay))))
  | _ -> None

let asg_text (id : string) (c : acase) : string =
  let b = Buffer.create 256 in
  let ex l = join " " (fun (f, l) -> Printf.sprintf "%d %d" f l) l in
  pr b ("case " ^ id);
  pr b (Printf.sprintf "droot %d %s" (List.length c.dexts) (ex c.dexts));
  List.iter (fun o -> pr b ("dop " ^ Views.op_text o)) c.dops;
  pr b (Printf.sprintf "sroot %d %s" (List.length c.sexts) (ex c.sexts));
  List.iter (fun o -> pr b ("sop " ^ Views.op_text o)) c.sops;
  pr b ("asg " ^ c.kind);
  pr b "end";
  Buffer.contents b

(* one view program (root extents, ops, final view) small enough for the harness *)
let gen_view (vc : Views.cfg) : (int * int) list * op list * view * string list =
  let rec go tries =
    let prog = Buffer.create 256 and obs = Buffer.create 256 in
    let fin = ref (root_view []) in
    let kinds = Views.gen_case ~with_probes:false ~tail:(fun _ v _ _ -> fin := v; []) vc "tmp" prog obs in
    let lines = String.split_on_char '\n' (Buffer.contents prog) in
    let root = List.find (fun l -> String.length l > 5 && String.sub l 0 5 = "root ") lines in
    let exts = match Views.words root with _ :: _ :: rest ->
        let rec pairs = function a :: b :: t -> (int_of_string a, int_of_string b) :: pairs t | _ -> [] in pairs rest | _ -> [] in
    let ops = List.filter_map (fun l -> match Views.words l with "op" :: toks -> Some (Views.parse_op toks) | _ -> None) lines in
    let nel = List.fold_left (fun s (f, l) -> s * max (l - f) 0) 1 exts in
    if (nel <= 400 && List.length !fin.lay <= 4 && List.length !fin.lay >= 1) || tries = 0 then (exts, ops, !fin, kinds) else go (tries - 1) in
  go 30

let gen_asg (vc : Views.cfg) : acase * string list =
  let dexts, dops, dv, _ = gen_view vc in
  let want = il (l_sizes dv.lay) in
  let r = List.length want in
  let kind = weighted [ (5, "assign"); (2, "assign_const"); (2, "assign_rv"); (3, "move"); (3, "swap"); (3, "assign_move");
                        (3, "assign_rv_rv"); (2, "assign_elems"); (2, "assign_elems_const") ] in
  let nonempty = List.for_all (fun n -> n > 0) want in
  let mode = weighted [ (30, `Same); (30, `LeadSame); (40, `Differ) ] in
  let swap_two l a b = List.mapi (fun j x -> if j = a then List.nth l b else if j = b then List.nth l a else x) l in
  match mode with
  | `Same ->
      let sexts, sops = Assign.gen_src want in
      ({ dexts; dops; sexts; sops; kind }, [ "asg_same"; "asg_" ^ kind ])
  | `LeadSame when r >= 3 && nonempty ->
      (* same leading extent, same number of elements, inner extents permuted *)
      let a = rnd_range 1 (r - 1) in
      let b = let b = rnd_range 1 (r - 1) in if b = a then (if a = r - 1 then 1 else a + 1) else b in
      let want' = swap_two want a b in
      let sexts, sops = Assign.gen_src want' in
      ({ dexts; dops; sexts; sops; kind }, [ (if want' = want then "asg_same" else "asg_leadsame"); "asg_" ^ kind ])
  | `LeadSame when r = 2 && nonempty && List.nth want 1 mod 2 = 0 && List.nth want 0 mod 2 = 0 ->
      (* rank 2: (a, b) vs (a, b): no inner permutation exists; use (a, b) vs (a/1, ...) -> fall back to a
         pair with equal counts and different leading extents: (a, b) vs (a*2, b/2) *)
      let want' = [ List.nth want 0 * 2; List.nth want 1 / 2 ] in
      let sexts, sops = Assign.gen_src want' in
      ({ dexts; dops; sexts; sops; kind }, [ "asg_samecount"; "asg_" ^ kind ])
  | _ ->
      let k = rnd r in
      let want' = List.mapi (fun j n -> if j = k then (if n > 1 && chance 50 then n - 1 else n + 1) else n) want in
      let sexts, sops = Assign.gen_src want' in
      ({ dexts; dops; sexts; sops; kind }, [ Printf.sprintf "asg_differ_dim%d" (min k 3); "asg_" ^ kind ])

(* ---------------- running a given text ---------------- *)
let run_text (text : string) (obs : Buffer.t) : unit =
  (* index cases go through Views.run_text with an `extra` that handles the oob lines; assignment cases are
     recognised by their droot line and handled here *)
  let cases = ref [] and cur = Buffer.create 256 and is_asg = ref false and id = ref "" in
  List.iter
    (fun line ->
      match Views.words line with
      | [ "case"; c ] -> Buffer.clear cur; is_asg := false; id := c; pr cur line
      | "droot" :: _ -> is_asg := true; pr cur line
      | [ "end" ] -> pr cur line; cases := (!id, !is_asg, Buffer.contents cur) :: !cases
      | [] -> ()
      | _ -> pr cur line)
    (String.split_on_char '\n' text);
  List.iter
    (fun (cid, asg, block) ->
      if not asg then begin
        let extra id v (lines : string list list) obs =
          let n = ref 0 in
          List.iter
            (function
              | "oob" :: path :: toks -> incr n; pr obs (death_line id !n v path (List.map int_of_string toks))
              | _ -> ())
            lines in
        Views.run_text ~extra block obs
      end else begin
        let rec pairs = function a :: b :: t -> (int_of_string a, int_of_string b) :: pairs t | _ -> [] in
        let c = ref { dexts = []; dops = []; sexts = []; sops = []; kind = "assign" } in
        List.iter
          (fun line ->
            match Views.words line with
            | "droot" :: _ :: rest -> c := { !c with dexts = pairs rest }
            | "sroot" :: _ :: rest -> c := { !c with sexts = pairs rest }
            | "dop" :: toks -> c := { !c with dops = !c.dops @ [ Views.parse_op toks ] }
            | "sop" :: toks -> c := { !c with sops = !c.sops @ [ Views.parse_op toks ] }
            | [ "asg"; k ] -> c := { !c with kind = k }
            | _ -> ())
          (String.split_on_char '\n' block);
        (match asg_line cid !c with Some l -> pr obs l | None -> pr obs (Printf.sprintf "X %s 0 out-of-domain" cid));
        pr obs ("E " ^ cid)
      end)
    (List.rev !cases)

(* ---------------- entry point ---------------- *)
let () =
  if Array.length Sys.argv < 2 then (prerr_endline "usage: driver_c20 deaths|deaths-run ..."; exit 2);
  let cmd = Sys.argv.(1) in
  let args = Array.to_list (Array.sub Sys.argv 2 (Array.length Sys.argv - 2)) in
  let rec get k d = function [] -> d | a :: b :: _ when a = k -> b | _ :: t -> get k d t in
  let has k = List.mem k args in
  let geti k d = int_of_string (get k (string_of_int d) args) in
  let seed = geti "--seed" 1 and count = geti "--count" 100 in
  Zu.seed seed;
  let prog = Buffer.create 65536 and obs = Buffer.create 65536 in
  let write f b = let oc = open_out f in Buffer.output_buffer oc b; close_out oc in
  let hist : (string, int) Hashtbl.t = Hashtbl.create 32 in
  let bump k = Hashtbl.replace hist k (1 + try Hashtbl.find hist k with Not_found -> 0) in
  (match cmd with
   | "deaths" ->
       let prefix = get "--prefix" "d" args in
       let c = { Views.maxrank = geti "--maxrank" 4; maxops = geti "--maxops" 4; rebased = has "--rebased"; maxd = 6 } in
       let n_asg = count * geti "--asg-pct" 35 / 100 in
       for k = 1 to count - n_asg do
         let id = Printf.sprintf "%s%d" prefix k in
         let tail id v prog obs =
           let n = ref 0 in
           List.map
             (fun (path, idx, what) ->
               incr n;
               pr prog (Printf.sprintf "oob %s %s" path (join " " string_of_int idx));
               pr obs (death_line id !n v path idx);
               "oob_" ^ what ^ "_" ^ path)
             (gen_oob v)
           @ [ Printf.sprintf "oob_rank%d" (List.length v.lay) ] in
         let kinds = Views.gen_case ~with_probes:false ~tail c id prog obs in
         List.iter bump kinds
       done;
       let ca = { c with Views.rebased = false; maxrank = min c.Views.maxrank 4 } in
       for k = 1 to n_asg do
         let id = Printf.sprintf "%sa%d" prefix k in
         let rec go tries =
           let cs, kinds = gen_asg ca in
           match asg_line id cs with
           | Some l -> Buffer.add_string prog (asg_text id cs); pr obs l; pr obs ("E " ^ id); List.iter bump kinds
           | None -> if tries > 0 then go (tries - 1) in
         go 10
       done
   | "deaths-run" ->
       let ic = open_in (get "--prog" "prog.txt" args) in
       let n = in_channel_length ic in
       let text = really_input_string ic n in
       close_in ic;
       run_text text obs;
       Buffer.add_string prog text
   | _ -> prerr_endline "unknown sub-command"; exit 2);
  if cmd = "deaths" then write (get "--prog" "prog.txt" args) prog;
  write (get "--obs" "obs.txt" args) obs;
  let items = List.sort compare (Hashtbl.fold (fun k v acc -> (k, v) :: acc) hist []) in
  print_string "{";
  print_string (String.concat ", " (List.map (fun (k, v) -> Printf.sprintf "\"%s\": %d" k v) items));
  print_endline "}"

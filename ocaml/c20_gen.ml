(* C20: generator + model runner for the death tests (out-of-range indices on views produced by view programs,
   assignments between views of equal / different extents) and entry point of build/bin/driver_c20.
   Uses the extracted Model (coq/Extract/ExtractC20.v) through ocaml/zu.ml and ocaml/views.ml.
   Sub-commands:
     deaths      --seed S --count N --prog F --obs F [--rebased] [--maxops K]   generate + model verdicts
     deaths-run  --prog F --obs F                                                model verdicts for a given text
   Program text (harness/h_asserts.cpp reads the same):
     case ID / root D f l ... / op ... / oob PATH i0 i1 ... / end                 PATH = B brackets | C call | T tuple
        PATH may also be ENTRY@RECV (follow-up 4, harness/common/c20_recv.hpp, coq/Model/AssertsRecv.v):
          ENTRY  B r[i0][i1]..  C r(i0,i1,..)  T r.apply(tuple)  U r[tuple] (rank 1)          -- every level asserts
                 F r.front()[i1]..  K r.back()[i1]..  I r.begin()[i0-first][i1]..  S ( *(r.begin()+k))[i1]..  N r.end()[i0-last][i1]..
                                                                                                -- first level unchecked
                 H r.home()[k0][k1]..  E r.elements()[n]  A r.elements_at(n)                    -- in-range tuples only
                 Ax r.elements_at(num_elements() + i0)                                          -- stopped by its own assertion
          RECV   cv_l cv_c cv_r | sv_l sv_c sv_r sv_t | mv_l mv_r | ref_l ref_c ref_r ref_t | arr_l arr_c arr_r arr_t arr_p |
                 sta_l sta_c sta_r   (class and value category of the object the entry point is invoked on)
     case ID / droot D f l ... / dop ... / sroot D f l ... / sop ... / asg KIND / end
     case ID / cap N / droot D f l ... / dop ... / salias D f l ... / sop ... / asg KIND / end
        salias = the source root is an array_ref over the DESTINATION's buffer (of at least N elements): the two operands
        are views of one array (same first element and strides with different extents, overlapping blocks, sub-blocks,
        rows vs columns, the very same elements)
   Model lines:  S (shapes, as for h_views)   D id n path=P idx=... res=abort|ok rank=R|-
                 A id kind=K xeq=0|1 asrt=0|1 dnel=N snel=M          E id *)
open Model
open Zu

let pr b s = Buffer.add_string b s; Buffer.add_char b '\n'

(* ---------------- out-of-range indices ---------------- *)
let exts_of (v : view) = List.map (fun (a, b) -> (i a, i b)) (l_extensions v.lay)

(* (path, index tuple, what) for the final view of a program *)
let gen_oob (v : view) : (string * int list * string) list =
  let ex = exts_of v in
  let r = List.length ex in
  if r = 0 then []
  else begin
    let valid () = List.map (fun (f, l) -> if l > f then rnd_range f (l - 1) else f) ex in
    let set k x idx = List.mapi (fun j y -> if j = k then x else y) idx in
    let path () = weighted [ (6, "B"); (3, "C"); (2, "T") ] in
    let dims = if r <= 3 then List.init r (fun k -> k) else [ 0; rnd_range 1 (r - 2); r - 1 ] in
    let per_dim =
      List.concat_map
        (fun k ->
          let (f, l) = List.nth ex k in
          [ (path (), set k (f - 1) (valid ()), "below");
            (path (), set k l (valid ()), "at_last");
          ]
          @ (if chance 50 then [ (path (), set k (l + rnd_range 1 3) (valid ()), "after") ] else [])
          @ (if chance 30 then [ (path (), set k (f - rnd_range 2 4) (valid ()), "far_below") ] else []))
        dims in
    (* two indices wrong at once: the first wrong level must be the one that aborts *)
    let two =
      if r >= 2 && chance 40 then
        let (f0, _) = List.nth ex 0 and (_, l1) = List.nth ex (r - 1) in
        [ (path (), set 0 (f0 - 1) (set (r - 1) l1 (valid ())), "two_wrong") ]
      else [] in
    (* control: an all-valid tuple must NOT abort (only when the view has elements) *)
    let control = if List.for_all (fun (f, l) -> l > f) ex then [ (path (), valid (), "valid") ] else [] in
    per_dim @ two @ control
  end

(* ENTRY@RECV -> (entry, receiver) *)
let split_path (p : string) : string * string option =
  match String.index_opt p '@' with
  | Some k -> (String.sub p 0 k, Some (String.sub p (k + 1) (String.length p - k - 1)))
  | None -> (p, None)
let entry_of = function
  | "B" -> Some EBrackets | "C" -> Some ECall | "T" -> Some EApply | "U" -> Some ETupleBr | "F" -> Some EFront | "K" -> Some EBack
  | "I" -> Some EItIndex | "S" -> Some EItDeref | "N" -> Some EEndIndex | "H" -> Some ECursor | _ -> None
let recv_of = function
  | "cv_l" -> RCvL | "cv_c" -> RCvC | "cv_r" -> RCvR | "sv_l" -> RSvL | "sv_c" -> RSvC | "sv_r" -> RSvR | "sv_t" -> RSvT
  | "mv_l" -> RMvL | "mv_r" -> RMvR | "ref_l" -> RRefL | "ref_c" -> RRefC | "ref_r" -> RRefR | "ref_t" -> RRefT
  | "arr_l" -> RArrL | "arr_c" -> RArrC | "arr_r" -> RArrR | "arr_t" -> RArrT | "arr_p" -> RArrP
  | "sta_l" -> RStaL | "sta_c" -> RStaC | "sta_r" -> RStaR | s -> failwith ("bad receiver " ^ s)
let recvs_view = [ "cv_l"; "cv_c"; "cv_r"; "sv_l"; "sv_c"; "sv_r"; "sv_t"; "mv_l"; "mv_r" ]
let recvs_own = [ "ref_l"; "ref_c"; "ref_r"; "ref_t"; "arr_l"; "arr_c"; "arr_r"; "arr_t"; "arr_p"; "sta_l"; "sta_c"; "sta_r" ]
let all_recvs = recvs_view @ recvs_own

(* position of an index tuple in the row-major order of the elements *)
let flat_of (ex : (int * int) list) (idx : int list) : int =
  List.fold_left2 (fun n (f, l) k -> n * (l - f) + (k - f)) 0 ex idx

(* The verdict the PROPERTY demands (= the model of the repaired library; for operator[] paths also the model of the pinned
   one): abort exactly when an index is outside its extension, at that level, whatever the receiver (C20_index_receiver_
   irrelevant, C20_index_guard_extensions_only); elements_at(n) is silent inside [0, num_elements()) (C20_elements_at_fixed_
   silent) and stopped beyond (C20_elements_at_fire).  `unclaimed`: an out-of-range first index handed to an iterator / front /
   back / cursor / elements()[n] (they hold no extension and evaluate no assertion: not judged). *)
let death_line (id : string) (n : int) (v : view) (path : string) (idx : int list) : string =
  let r = List.length v.lay in
  let ex = exts_of v in
  let ok_val idx = Printf.sprintf "res=ok rank=- val=%d" (i (addr_brackets v (zl idx))) in
  let inside idx = List.length idx = r && List.for_all2 (fun k (f, l) -> f <= k && k < l) idx ex in
  let of_level idx = function
    | None -> ok_val idx
    | Some k -> Printf.sprintf "res=abort rank=%d" (r - int_of_nat k) in
  let entry, recv = split_path path in
  let verdict =
    if List.length idx <> r then "res=ok rank=-"
    else match entry, recv with
      | ("B" | "C" | "T"), None -> of_level idx (abort_level v (zl idx))
      | "E", Some _ -> if inside idx then ok_val idx else "res=unclaimed rank=-"
      | "A", Some _ ->
          if not (inside idx) then "res=unclaimed rank=-"
          else begin
            let nn = flat_of ex idx in
            (match g_elements_at Debug true v (z nn) with
             | Done a when i a = i (addr_brackets v (zl idx)) && il (elements_at_idx true v.lay (z nn)) = idx -> ok_val idx
             | _ -> failwith "c20_gen: elements_at model inconsistent")
          end
      | "Ax", Some _ ->
          let x0 = List.hd idx in
          if x0 < 0 then "res=unclaimed rank=-"
          else (match g_elements_at Debug true v (z (i (l_num_elements v.lay) + x0)) with
                | Aborted -> Printf.sprintf "res=abort rank=%d" r
                | Done _ -> failwith "c20_gen: elements_at beyond num_elements not stopped in the model")
      | e, Some rk ->
          (match entry_of e with
           | None -> failwith ("bad entry " ^ e)
           | Some en ->
               let rc = recv_of rk in
               let (f0, l0) = List.hd ex in
               (* the index the unchecked first level stands for *)
               let idx = match en with
                 | EFront -> f0 :: List.tl idx
                 | EBack -> (l0 - 1) :: List.tl idx
                 | _ -> idx in
               let i0 = List.hd idx in
               let first_ok = f0 <= i0 && i0 < l0 in
               if (not (first_checked en)) && not first_ok then "res=unclaimed rank=-"
               else if en = ECursor && not (inside idx) then "res=unclaimed rank=-"
               else begin
                 let lvl = abort_level_entry en v (zl idx) in
                 (* the extracted guarded access agrees with the level (what the theorems say; a cheap run-time cross-check) *)
                 (match g_entry Debug en rc v (zl idx), lvl with
                  | Aborted, Some _ | Done _, None -> ()
                  | _ -> failwith "c20_gen: g_entry and abort_level_entry disagree");
                 of_level idx lvl
               end)
      | _ -> failwith ("bad path " ^ path) in
  Printf.sprintf "D %s %d path=%s idx=%s %s" id n path (ints idx) verdict

(* Which member function holds the assertion that stops an out-of-range access (a MEASUREMENT of the receiver -> overload table
   of coq/Model/AssertsRecv.v against the function name glibc prints, never a verdict): at a level of rank 1 every overload goes
   through at_aux_ (:2839); at a level of rank > 1 the const& overload asserts in operator[] itself (:1146), the others in
   at_aux_ (:1121). *)
let overload_line (id : string) (n : int) (v : view) (path : string) (idx : int list) : string option =
  let r = List.length v.lay in
  match split_path path with
  | e, Some rk when List.length idx = r && r >= 1 ->
      (match entry_of e with
       | Some en when en <> ECursor ->
           let rc = recv_of rk in
           let ex = exts_of v in
           let (f0, l0) = List.hd ex in
           let idx = match en with EFront -> f0 :: List.tl idx | EBack -> (l0 - 1) :: List.tl idx | _ -> idx in
           (match abort_level_entry en v (zl idx) with
            | Some k ->
                let k = int_of_nat k in
                let rec ov_at j o rcv = if j = k then o else let rcv' = ov_next o in ignore rcv; ov_at (j + 1) (ov_of rcv') rcv' in
                let o =
                  if first_checked en then ov_at 0 (ov_first en rc) rc
                  else (let r1 = first_result en rc in ov_at 1 (ov_of r1) r1) in
                let fn = if r - k = 1 then "at_aux_" else (match o with OvConst -> "operator[]" | _ -> "at_aux_") in
                Some (Printf.sprintf "W %s %d fn=%s" id n fn)
            | None -> None)
       | _ -> None)
  | _ -> None

(* gives a generated tuple an entry point and a receiver: 45% keep the plain paths (named const_subarray through the
   functions of harness/common/dynview.hpp), the rest draw ENTRY@RECV; owning receivers (copies) only for views without an
   empty dimension (an owning array with an empty dimension collapses its other extents) and rank <= 4 *)
let decorate (v : view) ((path, idx, what) : string * int list * string) : (string * int list * string) list =
  let ex = exts_of v in
  let r = List.length ex in
  if r > 4 || chance 45 then [ (path, idx, what) ]
  else begin
    let nonempty = List.for_all (fun (f, l) -> l > f) ex in
    let (f0, l0) = List.hd ex in
    let i0 = List.hd idx in
    let in0 = f0 <= i0 && i0 < l0 in
    let inside = List.for_all2 (fun k (f, l) -> f <= k && k < l) idx ex in
    let checked = [ (6, "B"); (3, "C"); (2, "T") ] @ (if r = 1 then [ (2, "U") ] else []) in
    let unchecked = if in0 then [ (1, "F"); (1, "K"); (2, "I"); (1, "S"); (1, "N") ] else [] in
    let validonly = if inside then [ (2, "H"); (2, "E"); (2, "A") ] else [] in
    let e = weighted (checked @ unchecked @ validonly) in
    let idx = match e with "F" -> f0 :: List.tl idx | "K" -> (l0 - 1) :: List.tl idx | _ -> idx in
    let rk = pick (if nonempty then (if chance 60 then recvs_own else recvs_view) else recvs_view) in
    [ (e ^ "@" ^ rk, idx, what) ]
    @ (if inside || r = 0 || not nonempty || not (chance 15) then []
       else [ ("Ax@" ^ rk, rnd_range 0 3 :: List.tl idx, "elements_at_beyond") ])
  end

(* ---- the entry x receiver MATRIX: for rank 1..4, zero-based and with index bases, a root without empty dimension; for every
   receiver kind one case that sends one in-range tuple through every entry point and one out-of-range tuple through every
   entry point that can be asked to stop it ---- *)
let matrix_entries_checked r = [ "B"; "C"; "T" ] @ (if r = 1 then [ "U" ] else [])
let matrix_entries_unchecked = [ "F"; "K"; "I"; "S"; "N" ]
let matrix_entries_valid = [ "H"; "E"; "A" ]
let gen_matrix (prefix : string) (prog : Buffer.t) (obs : Buffer.t) (bump : string -> unit) : unit =
  List.iter (fun r ->
    List.iter (fun rebased ->
      let exts = List.init r (fun _ -> let n = rnd_range 1 4 in let f = if rebased then pick [ -3; -2; -1; 1; 2; 3 ] else 0 in (f, f + n)) in
      let v = root_view (List.map (fun (f, l) -> (z f, z l)) exts) in
      List.iter (fun rk ->
        let id = Printf.sprintf "%s%d%s_%s" prefix r (if rebased then "r" else "z") rk in
        pr prog ("case " ^ id);
        pr prog (Printf.sprintf "root %d %s" r (join " " (fun (f, l) -> Printf.sprintf "%d %d" f l) exts));
        pr obs (Views.shape_line id 0 v);
        let n = ref 0 in
        let emit e idx what =
          incr n;
          let path = e ^ "@" ^ rk in
          pr prog (Printf.sprintf "oob %s %s" path (join " " string_of_int idx));
          pr obs (death_line id !n v path idx);
          (match overload_line id !n v path idx with Some l -> pr obs l | None -> ());
          bump ("matrix_" ^ what) in
        let valid () = List.map (fun (f, l) -> rnd_range f (l - 1)) exts in
        let set k x idx = List.mapi (fun j y -> if j = k then x else y) idx in
        let wrong k = let (f, l) = List.nth exts k in pick [ f - 1; l; l + rnd_range 1 2; f - rnd_range 2 3 ] in
        let (f0, l0) = List.hd exts in
        List.iter (fun e ->
          emit e (valid ()) "valid";
          let k = rnd r in
          emit e (set k (wrong k) (valid ())) "out_of_range") (matrix_entries_checked r);
        List.iter (fun e ->
          let fix idx = match e with "F" -> set 0 f0 idx | "K" -> set 0 (l0 - 1) idx | _ -> idx in
          emit e (fix (valid ())) "valid";
          if r >= 2 then begin
            let k = rnd_range 1 (r - 1) in
            emit e (fix (set k (wrong k) (valid ()))) "out_of_range_after_unchecked_first_level"
          end) matrix_entries_unchecked;
        List.iter (fun e -> emit e (valid ()) "valid") matrix_entries_valid;
        emit "Ax" (set 0 (pick [ 0; rnd_range 1 5 ]) (valid ())) "elements_at_beyond";
        pr prog "end";
        pr obs ("E " ^ id);
        bump (Printf.sprintf "matrix_rank%d_%s" r (if rebased then "rebased" else "zero_based")))
        all_recvs)
      [ false; true ])
    [ 1; 2; 3; 4 ]

(* ---------------- violating view-forming calls ---------------- *)
(* For the final view of a program: calls OUTSIDE the documented domain of the operation for which the transcribed
   assertions (asrt_op, coq/Model/Asserts.v) evaluate to false: count > size() for taked / dropped, a slice bound outside
   the extension (D > 1), a partition that does not divide, halved() of an odd size, call-syntax ranges / indices out of
   range.  Only candidates with asrt_op = false are emitted (e.g. 1-D sliced has no assertion and is not claimed). *)
let gen_xop (v : view) : (op * string) list =
  let ex = exts_of v in
  let r = List.length ex in
  if r = 0 then []
  else begin
    let (f, l) = List.hd ex in
    let n = max (l - f) 0 in
    let mid () = if l > f then rnd_range f (l - 1) else f in
    let cands =
      [ (OTaked (z (n + rnd_range 1 3)), "taked_beyond"); (ODropped (z (n + rnd_range 1 3)), "dropped_beyond");
        (OSliced (z (f - rnd_range 1 2), z (mid () + 1)), "sliced_first_below"); (OSliced (z (mid ()), z (l + rnd_range 1 2)), "sliced_last_beyond");
        (OSliced (z l, z (l + 1)), "sliced_first_at_last");
        (OBlocked (z (f - 1), z l), "blocked_first_below"); (OSlicedS (z f, z (l + 2), z 1), "sliceds_last_beyond");
        (OPartitioned (z 0), "partitioned_zero"); (OPartitioned (z (n + 1)), "partitioned_nondivisor");
        (OPartitioned (z (if n >= 3 then n - 1 else 2)), "partitioned_nondivisor");
        (OChunked (z (n + 1)), "chunked_nondivisor"); (OChunked (z (if n >= 3 then n - 1 else 2)), "chunked_nondivisor");
        (OHalved, "halved_odd");
        (OParen [ PRange (z (f - 1), z (mid () + 1)) ], "paren_range_below"); (OParen [ PRange (z (mid ()), z (l + 1)) ], "paren_range_beyond");
        (OParen [ PIdx (z l) ], "paren_index_at_last") ]
      @ (if r >= 2 then
           let (f1, l1) = List.nth ex 1 in
           [ (OParen [ PAll; PRange (z (f1 - 1), z l1) ], "paren_second_range_below"); (OParen [ PAll; PRange (z f1, z (l1 + 1)) ], "paren_second_range_beyond");
             (OParen [ PAll; PIdx (z l1) ], "paren_second_index_at_last") ]
         else []) in
    List.filter (fun (o, _) -> not (asrt_op o v) && (chance 45)) cands
  end

let xop_line (id : string) (n : int) (v : view) (o : op) : string =
  Printf.sprintf "O %s %d op=%s res=%s" id n (String.concat "_" (Views.words (Views.op_text o))) (if asrt_op o v then "ok" else "abort")

(* ---------------- assignments ---------------- *)
type acase = { dexts : (int * int) list; dops : op list; sexts : (int * int) list; sops : op list; kinds : string list; alias : bool }

(* statements that go through the array_ref overloads (whole contiguous roots, no view operations) *)
let aref_kinds = [ "aref_lv"; "aref_rv"; "aref_conv_lv"; "aref_conv_rv"; "aref_from_rv"; "aref_rv_from_rv"; "aref_from_array" ]

(* which overload class the harness statement selects (harness/h_asserts.cpp Assigner; coq/Model/Asserts.v akind) *)
let akind_of = function
  | "assign" | "assign_const" | "assign_rv" | "move" | "assign_move" | "assign_rv_rv" -> AView
  | "swap" | "swap_member" -> ASwap
  | "assign_elems" | "assign_elems_const" | "assign_elems_named" | "swap_elems" | "swap_elems_named" -> AElems
  | k when List.mem k aref_kinds -> ARef
  | k -> failwith ("bad asg kind " ^ k)

let zr l = List.map (fun (f, l) -> (z f, z l)) l

let asg_line (id : string) (c : acase) : string option =
  match run_ops c.dops (root_view (zr c.dexts)), run_ops c.sops (root_view (zr c.sexts)) with
  | Some d, Some s when List.length d.lay = List.length s.lay && List.length d.lay >= 1 ->
      let xeq = x_eq (l_extensions d.lay) (l_extensions s.lay) in
      Some (String.concat "\n" (List.map (fun kind ->
        let a = asrt_assign (akind_of kind) d s in
        Printf.sprintf "A %s kind=%s alias=%d xeq=%d asrt=%d dnel=%d snel=%d dsizes=%s ssizes=%s" id kind (if c.alias then 1 else 0)
              (if xeq then 1 else 0) (if a then 1 else 0) (i (l_num_elements d.lay)) (i (l_num_elements s.lay)) (ints (il (l_sizes d.lay)))
              (ints (il (l_sizes s.lay)))) c.kinds))
  | _ -> None

let asg_text (id : string) (c : acase) : string =
  let b = Buffer.create 256 in
  let ex l = join " " (fun (f, l) -> Printf.sprintf "%d %d" f l) l in
  let nel l = List.fold_left (fun s (f, l) -> s * max (l - f) 0) 1 l in
  pr b ("case " ^ id);
  if c.alias then pr b (Printf.sprintf "cap %d" (max (nel c.dexts) (nel c.sexts)));
  pr b (Printf.sprintf "droot %d %s" (List.length c.dexts) (ex c.dexts));
  List.iter (fun o -> pr b ("dop " ^ Views.op_text o)) c.dops;
  pr b (Printf.sprintf "%s %d %s" (if c.alias then "salias" else "sroot") (List.length c.sexts) (ex c.sexts));
  List.iter (fun o -> pr b ("sop " ^ Views.op_text o)) c.sops;
  List.iter (fun k -> pr b ("asg " ^ k)) c.kinds;
  pr b "end";
  Buffer.contents b

(* one view program (root extents, ops, final view) small enough for the harness *)
let gen_view (vc : Views.cfg) : (int * int) list * op list * view * string list =
  let rec go tries =
    let prog = Buffer.create 256 and obs = Buffer.create 256 in
    let fin = ref (root_view []) in
    let kinds = Views.gen_case ~with_probes:false ~tail:(fun _ v _ _ -> fin := v; []) vc "tmp" prog obs in
    let lines = String.split_on_char '\n' (Buffer.contents prog) in
    let root = List.find (fun l -> String.length l > 5 && String.sub l 0 5 = "root ") lines in
    let exts = match Views.words root with _ :: _ :: rest ->
        let rec pairs = function a :: b :: t -> (int_of_string a, int_of_string b) :: pairs t | _ -> [] in pairs rest | _ -> [] in
    let ops = List.filter_map (fun l -> match Views.words l with "op" :: toks -> Some (Views.parse_op toks) | _ -> None) lines in
    let nel = List.fold_left (fun s (f, l) -> s * max (l - f) 0) 1 exts in
    if (nel <= 400 && List.length !fin.lay <= 4 && List.length !fin.lay >= 1) || tries = 0 then (exts, ops, !fin, kinds) else go (tries - 1) in
  go 30

(* the overload-selecting statements on views (harness/h_asserts.cpp Assigner) *)
let all_view_kinds = [ "assign"; "assign_const"; "assign_rv"; "move"; "swap"; "swap_member"; "assign_move"; "assign_rv_rv"; "assign_elems";
                       "assign_elems_const"; "assign_elems_named"; "swap_elems"; "swap_elems_named" ]
let view_kind () =
  weighted [ (5, "assign"); (2, "assign_const"); (2, "assign_rv"); (3, "move"); (3, "swap"); (1, "swap_member"); (3, "assign_move");
             (3, "assign_rv_rv"); (2, "assign_elems"); (2, "assign_elems_const"); (1, "assign_elems_named"); (1, "swap_elems"); (1, "swap_elems_named") ]
(* n distinct statements; each runs in its own forked child on the same two operands *)
let view_kinds n =
  let rec go acc k = if k = 0 then List.rev acc else let x = view_kind () in if List.mem x acc then go acc (k - 1) else go (x :: acc) (k - 1) in
  go [] (2 * n) |> List.filteri (fun j _ -> j < n)

let gen_asg (vc : Views.cfg) : acase * string list =
  let dexts, dops, dv, _ = gen_view vc in
  let want = il (l_sizes dv.lay) in
  let r = List.length want in
  let kinds = view_kinds 3 in
  let nonempty = List.for_all (fun n -> n > 0) want in
  let mode = weighted [ (30, `Same); (30, `LeadSame); (40, `Differ) ] in
  let swap_two l a b = List.mapi (fun j x -> if j = a then List.nth l b else if j = b then List.nth l a else x) l in
  match mode with
  | `Same ->
      let sexts, sops = Assign.gen_src want in
      ({ dexts; dops; sexts; sops; kinds; alias = false }, [ "asg_same"] @ List.map (fun k -> "asg_" ^ k) kinds)
  | `LeadSame when r >= 3 && nonempty ->
      (* same leading extent, same number of elements, inner extents permuted *)
      let a = rnd_range 1 (r - 1) in
      let b = let b = rnd_range 1 (r - 1) in if b = a then (if a = r - 1 then 1 else a + 1) else b in
      let want' = swap_two want a b in
      let sexts, sops = Assign.gen_src want' in
      ({ dexts; dops; sexts; sops; kinds; alias = false }, [ (if want' = want then "asg_same" else "asg_leadsame")] @ List.map (fun k -> "asg_" ^ k) kinds)
  | `LeadSame when r = 2 && nonempty && List.nth want 1 mod 2 = 0 && List.nth want 0 mod 2 = 0 ->
      (* rank 2: (a, b) vs (a, b): no inner permutation exists; use (a, b) vs (a/1, ...) -> fall back to a
         pair with equal counts and different leading extents: (a, b) vs (a*2, b/2) *)
      let want' = [ List.nth want 0 * 2; List.nth want 1 / 2 ] in
      let sexts, sops = Assign.gen_src want' in
      ({ dexts; dops; sexts; sops; kinds; alias = false }, [ "asg_samecount"] @ List.map (fun k -> "asg_" ^ k) kinds)
  | _ ->
      let k = rnd r in
      let want' = List.mapi (fun j n -> if j = k then (if n > 1 && chance 50 then n - 1 else n + 1) else n) want in
      let sexts, sops = Assign.gen_src want' in
      ({ dexts; dops; sexts; sops; kinds; alias = false }, [ Printf.sprintf "asg_differ_dim%d" (min k 3)] @ List.map (fun k -> "asg_" ^ k) kinds)


(* ---- ALIASING operands: two views over ONE root.  The common prefix program gives a view V; destination and source are
   further sub-views of V.  The model decides (asrt_assign reads extensions only, never the base pointer): stopped before
   the copy loop exactly when the extensions differ. ---- *)
let gen_alias (vc : Views.cfg) : acase * string list =
  let dexts, pre, v, _ = gen_view vc in
  let ex = exts_of v in
  let r = List.length ex in
  let kinds = all_view_kinds in                 (* aliasing operands go through EVERY overload-selecting statement *)
  (* one sliced per dimension, going round with rotated: the orientation is that of V again after r steps *)
  let blocks (rs : (int * int) list) = List.concat_map (fun (a, b) -> [ OSliced (z a, z b); ORotated ]) rs in
  let blocks0 (rs : (int * int) list) = List.concat_map (fun (a, b) -> [ OSliced (z a, z b); OReindexed (z 0); ORotated ]) rs in
  let sizes = List.map (fun (f, l) -> max (l - f) 0) ex in
  let some_room = List.exists (fun n -> n >= 1) sizes in
  let mode = weighted [ (30, "samefirst"); (20, "overlap"); (12, "subblock"); (14, "rowcol"); (8, "identical"); (10, "strided"); (6, "rev") ] in
  let mode = if mode = "rowcol" && r < 2 then "samefirst" else mode in
  let mode = if not some_room && mode <> "identical" then "identical" else mode in
  let mk d s tag = ({ dexts; dops = pre @ d; sexts = dexts; sops = pre @ s; kinds; alias = true }, [ "alias_" ^ tag; "asg_alias" ] @ List.map (fun k -> "asg_" ^ k) kinds) in
  match mode with
  | "samefirst" ->
      (* same first element, same strides, lengths differ in at least one dimension (70%) or in none (control) *)
      let la = List.map (fun n -> rnd_range (min n 1) n) sizes in
      let equal = chance 30 in
      let k = pick (List.filter (fun k -> List.nth sizes k >= 1) (List.init r (fun k -> k))) in
      let lb = List.mapi (fun j a -> let n = List.nth sizes j in
                           if equal then a else if j = k then (let b = rnd_range 0 n in if b = a then (if a > 0 then a - 1 else a + 1) else b)
                           else if chance 30 then rnd_range (min n 1) n else a) la in
      let rng l = List.map2 (fun (f, _) n -> (f, f + n)) ex l in
      mk (blocks (rng la)) (blocks (rng lb)) (if equal then "samefirst_equal" else "samefirst_differ")
  | "overlap" ->
      (* windows of equal lengths shifted against each other; sliced keeps the indices, so the extensions differ unless both
         are reindexed to 0 (then: a valid assignment between overlapping blocks) *)
      let w = List.map (fun n -> if n = 0 then (0, 0, 0) else let m = rnd_range 1 n in (m, rnd_range 0 (n - m), rnd_range 0 (n - m))) sizes in
      let ra = List.map2 (fun (f, _) (m, a, _) -> (f + a, f + a + m)) ex w and rb = List.map2 (fun (f, _) (m, _, b) -> (f + b, f + b + m)) ex w in
      if chance 50 then mk (blocks0 ra) (blocks0 rb) "overlap_reindexed_equal" else mk (blocks ra) (blocks rb) "overlap_shifted"
  | "subblock" ->
      let w = List.map (fun n -> if n = 0 then (0, 0, 0, 0) else
                         let m = rnd_range 1 n in let a = rnd_range 0 (n - m) in let m' = rnd_range 1 m in let c = rnd_range 0 (m - m') in (m, a, m', c)) sizes in
      let outer = List.map2 (fun (f, _) (m, a, _, _) -> (f + a, f + a + m)) ex w in
      let inner = List.map2 (fun (f, _) (_, a, m', c) -> (f + a + c, f + a + c + m')) ex w in
      let re = chance 40 in
      let b = if re then blocks0 else blocks in
      if chance 50 then mk (b outer) (b inner) (if re then "subblock_dst_outer_reindexed" else "subblock_dst_outer")
      else mk (b inner) (b outer) (if re then "subblock_dst_inner_reindexed" else "subblock_dst_inner")
  | "rowcol" ->
      (* a row and a column (rank 2), in general V[i] and V.rotated()[j]: they cross in one element *)
      let (f0, l0) = List.nth ex 0 and (f1, l1) = List.nth ex 1 in
      if l0 <= f0 || l1 <= f1 then mk [] [] "identical"
      else begin
        let i0 = rnd_range f0 (l0 - 1) and j0 = rnd_range f1 (l1 - 1) in
        let d = [ OIndex (z i0) ] and s = [ ORotated; OIndex (z j0) ] in
        let d, s = if chance 40 then (d @ [ OReindexed (z 0) ], s @ [ OReindexed (z 0) ]) else (d, s) in
        if chance 50 then mk d s "row_vs_column" else mk s d "column_vs_row"
      end
  | "strided" ->
      let p = rnd_range 1 3 and q = rnd_range 1 3 in
      let off = if List.nth sizes 0 >= 2 && chance 40 then [ ODropped (z 1) ] else [] in
      mk [ OStrided (z p) ] (off @ [ OStrided (z q) ]) (if p = q && off = [] then "strided_equal" else "strided_differ")
  | "rev" ->
      (* the same elements in opposite order along the leading dimension: equal extents only if reversed keeps them *)
      mk [] [ OReversed ] "reversed"
  | _ ->
      let la = List.map (fun n -> rnd_range (min n 1) n) sizes in
      let rng = List.map2 (fun (f, _) n -> (f, f + n)) ex la in
      mk (blocks rng) (blocks rng) "identical"

(* ---- array_ref assignment (whole contiguous roots; the ARef class): separate buffers or two array_refs over one buffer ---- *)
let gen_aref (rebased : bool) : acase * string list =
  let r = weighted [ (3, 1); (5, 2); (3, 3); (1, 4) ] in
  let want = List.init r (fun _ -> weighted [ (1, 0); (2, 1); (4, 2); (4, 3); (2, 4) ]) in
  let firsts = List.init r (fun _ -> if rebased && chance 60 then rnd_range (-2) 3 else 0) in
  let kinds = aref_kinds in
  let alias = chance 50 in
  let swap_two l a b = List.mapi (fun j x -> if j = a then List.nth l b else if j = b then List.nth l a else x) l in
  let mode = weighted [ (30, "equal"); (25, "permuted"); (30, "offbyone"); (15, "shifted") ] in
  let want', firsts', tag =
    match mode with
    | "permuted" when r >= 2 -> let a = rnd r in let b = (a + 1 + rnd (r - 1)) mod r in (swap_two want a b, firsts, "permuted")
    | "offbyone" | "permuted" -> let k = rnd r in (List.mapi (fun j n -> if j = k then (if n > 1 && chance 50 then n - 1 else n + 1) else n) want, firsts, "offbyone")
    | "shifted" -> let k = rnd r in (want, List.mapi (fun j f -> if j = k then f + 1 else f) firsts, "shifted")
    | _ -> (want, firsts, "equal") in
  let mkx w f = List.map2 (fun n f -> (f, f + n)) w f in
  ({ dexts = mkx want firsts; dops = []; sexts = mkx want' firsts'; sops = []; kinds; alias },
   [ "aref_" ^ tag ^ (if alias then "_alias" else "") ] @ List.map (fun k -> "asg_" ^ k) kinds @ (if alias then [ "asg_alias" ] else []))

(* ---------------- running a given text ---------------- *)
let run_text (text : string) (obs : Buffer.t) : unit =
  (* index cases go through Views.run_text with an `extra` that handles the oob lines; assignment cases are
     recognised by their droot line and handled here *)
  let cases = ref [] and cur = Buffer.create 256 and is_asg = ref false and id = ref "" in
  List.iter
    (fun line ->
      match Views.words line with
      | [ "case"; c ] -> Buffer.clear cur; is_asg := false; id := c; pr cur line
      | "droot" :: _ -> is_asg := true; pr cur line
      | [ "end" ] -> pr cur line; cases := (!id, !is_asg, Buffer.contents cur) :: !cases
      | [] -> ()
      | _ -> pr cur line)
    (String.split_on_char '\n' text);
  List.iter
    (fun (cid, asg, block) ->
      if not asg then begin
        let extra id v (lines : string list list) obs =
          let n = ref 0 in
          List.iter
            (function
              | "oob" :: path :: toks ->
                  incr n; pr obs (death_line id !n v path (List.map int_of_string toks));
                  (match overload_line id !n v path (List.map int_of_string toks) with Some l -> pr obs l | None -> ())
              | _ -> ())
            lines;
          let m = ref 0 in
          List.iter (function "xop" :: toks -> incr m; pr obs (xop_line id !m v (Views.parse_op toks)) | _ -> ()) lines in
        Views.run_text ~extra block obs
      end else begin
        let rec pairs = function a :: b :: t -> (int_of_string a, int_of_string b) :: pairs t | _ -> [] in
        let c = ref { dexts = []; dops = []; sexts = []; sops = []; kinds = []; alias = false } in
        List.iter
          (fun line ->
            match Views.words line with
            | "droot" :: _ :: rest -> c := { !c with dexts = pairs rest }
            | "sroot" :: _ :: rest -> c := { !c with sexts = pairs rest }
            | "salias" :: _ :: rest -> c := { !c with sexts = pairs rest; alias = true }
            | "dop" :: toks -> c := { !c with dops = !c.dops @ [ Views.parse_op toks ] }
            | "sop" :: toks -> c := { !c with sops = !c.sops @ [ Views.parse_op toks ] }
            | [ "asg"; k ] -> c := { !c with kinds = !c.kinds @ [ k ] }
            | _ -> ())
          (String.split_on_char '\n' block);
        (match asg_line cid !c with Some l -> pr obs l | None -> pr obs (Printf.sprintf "X %s 0 out-of-domain" cid));
        pr obs ("E " ^ cid)
      end)
    (List.rev !cases)

(* ---------------- entry point ---------------- *)
let () =
  if Array.length Sys.argv < 2 then (prerr_endline "usage: driver_c20 deaths|deaths-run ..."; exit 2);
  let cmd = Sys.argv.(1) in
  let args = Array.to_list (Array.sub Sys.argv 2 (Array.length Sys.argv - 2)) in
  let rec get k d = function [] -> d | a :: b :: _ when a = k -> b | _ :: t -> get k d t in
  let has k = List.mem k args in
  let geti k d = int_of_string (get k (string_of_int d) args) in
  let seed = geti "--seed" 1 and count = geti "--count" 100 in
  Zu.seed seed;
  let prog = Buffer.create 65536 and obs = Buffer.create 65536 in
  let write f b = let oc = open_out f in Buffer.output_buffer oc b; close_out oc in
  let hist : (string, int) Hashtbl.t = Hashtbl.create 32 in
  let bump k = Hashtbl.replace hist k (1 + try Hashtbl.find hist k with Not_found -> 0) in
  (match cmd with
   | "deaths" ->
       let prefix = get "--prefix" "d" args in
       let c = { Views.maxrank = geti "--maxrank" 4; maxops = geti "--maxops" 4; rebased = has "--rebased"; maxd = 6 } in
       let n_asg = count * geti "--asg-pct" 35 / 100 in
       let alias_pct = geti "--alias-pct" 40 and aref_pct = geti "--aref-pct" 20 in
       if has "--matrix" then gen_matrix (prefix ^ "m") prog obs bump;
       for k = 1 to count - n_asg do
         let id = Printf.sprintf "%s%d" prefix k in
         let tail id v prog obs =
           let n = ref 0 in
           List.map
             (fun (path, idx, what) ->
               incr n;
               pr prog (Printf.sprintf "oob %s %s" path (join " " string_of_int idx));
               pr obs (death_line id !n v path idx);
               (match overload_line id !n v path idx with Some l -> pr obs l | None -> ());
               "oob_" ^ what ^ "_" ^ fst (split_path path))
             (List.concat_map (decorate v) (gen_oob v))
           @ (let m = ref 0 in
              List.map (fun (o, what) -> incr m; pr prog ("xop " ^ Views.op_text o); pr obs (xop_line id !m v o); "xop_" ^ what)
                (if has "--no-xop" then [] else gen_xop v))
           @ [ Printf.sprintf "oob_rank%d" (List.length v.lay) ] in
         let kinds = Views.gen_case ~with_probes:false ~tail c id prog obs in
         List.iter bump kinds
       done;
       let ca = { c with Views.rebased = false; maxrank = min c.Views.maxrank 4 } in
       for k = 1 to n_asg do
         let id = Printf.sprintf "%sa%d" prefix k in
         let rec go tries =
           let cs, kinds =
             if k mod 20 < alias_pct / 5 then gen_alias ca
             else if k mod 20 >= 20 - aref_pct / 5 then gen_aref (k mod 3 = 0)
             else gen_asg ca in
           match asg_line id cs with
           | Some l -> Buffer.add_string prog (asg_text id cs); pr obs l; pr obs ("E " ^ id); List.iter bump kinds
           | None -> if tries > 0 then go (tries - 1) in
         go 10
       done
   | "deaths-run" ->
       let ic = open_in (get "--prog" "prog.txt" args) in
       let n = in_channel_length ic in
       let text = really_input_string ic n in
       close_in ic;
       run_text text obs;
       Buffer.add_string prog text
   | _ -> prerr_endline "unknown sub-command"; exit 2);
  if cmd = "deaths" then write (get "--prog" "prog.txt" args) prog;
  write (get "--obs" "obs.txt" args) obs;
  let items = List.sort compare (Hashtbl.fold (fun k v acc -> (k, v) :: acc) hist []) in
  print_string "{";
  print_string (String.concat ", " (List.map (fun (k, v) -> Printf.sprintf "\"%s\": %d" k v) items));
  print_endline "}"

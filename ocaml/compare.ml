(* C07: generator + model runner for comparisons of views.  Three views a, b, c of equal rank, each realised
   over its own root (padded / rotated / strided) so that layouts are independent of the logical contents. *)
open Model
open Zu

type vw = { exts : (int * int) list; ops : op list; data : int list; share : int option }
(* share = Some k: this operand is a view over operand k's root (same storage): aliasing operands *)
type case = vw array   (* a, b, c *)

let has_ge = ref false   (* set by --has-ge: the library defines >= for rank >= 2 *)
let rank0 = ref false    (* set by --rank0: comparisons between rank-0 arrays compile, generate some *)
let alias = ref false    (* set by --alias: the harness understands xshare (operands over one root) *)
let rebased = ref false  (* set by --rebased (C19): operands carry non-zero index bases (re-indexed at the end of their programs) *)
let names = [| "a"; "b"; "c" |]
let base_of k = 10000 * k

let view_of (k : int) (w : vw) : view option =
  match run_ops w.ops (root_view (List.map (fun (f, l) -> (z f, z l)) w.exts)) with
  | Some v -> Some { lay = v.lay; base = z (i v.base + base_of (match w.share with Some j -> j | None -> k)) }
  | None -> None

let b01 b = if b then "1" else "0"

let run_case (id : string) (c : case) (obs : Buffer.t) : bool =
  let pr s = Buffer.add_string obs s; Buffer.add_char obs '\n' in
  let vs = Array.mapi view_of c in
  if Array.exists (fun v -> v = None) vs then (pr (Printf.sprintf "X %s 0 view op out of domain" id); false)
  else begin
    let vs = Array.map (function Some v -> v | None -> assert false) vs in
    let datas = Array.map (fun w -> Array.of_list w.data) c in
    let m (p : z) : z =
      let p = i p in
      let k = p / 10000 in
      let o = p - 10000 * k in
      if k >= 0 && k < 3 && o >= 0 && o < Array.length datas.(k) then z datas.(k).(o) else z (-1) in
    let rank = List.length vs.(0).lay in
    Array.iteri (fun k v -> pr (Printf.sprintf "V %s %s sizes=%s" id names.(k) (ints (il (l_sizes v.lay))))) vs;
    let pairs = [ (0, 1); (1, 0); (0, 2); (2, 0); (1, 2); (2, 1); (0, 0) ] in
    List.iter
      (fun (p, q) ->
        let a = vs.(p) and b = vs.(q) in
        let bits = b01 (v_eq a b m) ^ b01 (v_ne a b m) ^ b01 (v_lt a b m) ^ b01 (v_le a b m) ^ b01 (v_gt a b m)
                   ^ (if rank <= 1 || !has_ge then b01 (v_ge a b m) else "-") in
        (* views, owning copies, mixed: one value, whatever the layout or ownership *)
        let en = b01 (v_eq a b m) ^ b01 (v_ne a b m) in
        (* against b + 0.5 in double: equal only when there is no element to compare *)
        let eh = v_eq a b m && i (l_num_elements a.lay) = 0 in
        let eh2 = b01 eh ^ b01 (not eh) in
        pr (Printf.sprintf "C %s %s%s view=%s array=%s mixed=%s" id names.(p) names.(q) bits (String.sub bits 0 5) (en ^ en ^ en ^ en ^ eh2 ^ eh2)))
      pairs;
    true
  end

let case_text (id : string) (c : case) : string =
  let b = Buffer.create 256 in
  let pr s = Buffer.add_string b s; Buffer.add_char b '\n' in
  pr ("case " ^ id);
  Array.iteri
    (fun k w ->
      (match w.share with
       | Some j -> pr (Printf.sprintf "xshare %s %s" names.(k) names.(j))
       | None -> pr (Printf.sprintf "xroot %s %d %s" names.(k) (List.length w.exts) (join " " (fun (f, l) -> Printf.sprintf "%d %d" f l) w.exts)));
      List.iter (fun o -> pr (Printf.sprintf "xop %s %s" names.(k) (Views.op_text o))) w.ops;
      if w.share = None then pr (Printf.sprintf "xdata %s %s" names.(k) (join " " string_of_int w.data)))
    c;
  pr "cmp";
  pr "end";
  Buffer.contents b

let prod l = List.fold_left ( * ) 1 l

(* realise logical (sizes, contents) as a view over a padded root filled with junk *)
let realise ?(firsts = []) (sizes : int list) (contents : int list) : vw =
  let exts, ops = Assign.gen_src ~firsts sizes in
  let n = prod (List.map (fun (f, l) -> l - f) exts) in
  let data = Array.init n (fun _ -> rnd 3) in
  (match run_ops ops (root_view (List.map (fun (f, l) -> (z f, z l)) exts)) with
   | Some v -> List.iteri (fun k x -> let a = i (e_addr v (z k)) in if a >= 0 && a < n then data.(a) <- x) contents
   | None -> ());
  { exts; ops; data = Array.to_list data; share = None }

let perturb_sizes (s : int list) : int list =
  if chance 55 then s
  else let k = rnd (List.length s) in List.mapi (fun j n -> if j = k then max 0 (n + pick [ -1; 1 ]) else n) s

(* contents of shape s2 derived from contents c1 of shape s1: equal on the common index tuples, then maybe one change *)
let derive (s1 : int list) (c1 : int list) (s2 : int list) : int list =
  let a1 = Array.of_list c1 in
  let n2 = prod s2 in
  let idx_of sz k = let rec go sz k = match sz with [] -> [] | _ :: r -> let p = prod r in (if p = 0 then 0 else k / p) :: go r (if p = 0 then 0 else k mod p) in go sz k in
  let lin sz idx = List.fold_left2 (fun acc n j -> acc * n + j) 0 sz idx in
  let c2 = Array.init n2 (fun k ->
      let idx = idx_of s2 k in
      if List.for_all2 (fun j n -> j < n) idx s1 && Array.length a1 > 0 then a1.(lin s1 idx) else rnd 3) in
  if n2 > 0 && chance 50 then c2.(rnd n2) <- rnd 3;
  Array.to_list c2

let gen_case0 () : case * string list =
  let x = rnd 3 in
  let y = if chance 40 then x else rnd 3 in
  let w = if chance 30 then x else rnd 3 in
  let mk v = { exts = []; ops = []; data = [ v ]; share = None } in
  ([| mk x; mk y; mk w |], [ "rank0"; "same_sizes_ab"; (if x = y then "equal_ab" else "unequal_ab"); "nonempty" ])

(* aliasing operands: a, b (and sometimes c) are views over ONE root -- same base pointer, different strides / offsets *)
let gen_shared () : (case * string list) option =
  let r = pick [ 2; 2; 3 ] in
  let n = pick [ 2; 3; 3 ] in
  let exts = if chance 70 then List.init r (fun _ -> (0, n)) else List.init r (fun _ -> (0, pick [ 1; 2; 3 ])) in
  let total = prod (List.map snd exts) in
  let data = if chance 20 then List.init total (fun k -> (k / (max 1 (snd (List.nth exts (r - 1))))) mod 3) else List.init total (fun _ -> rnd 3) in
  let root = root_view (List.map (fun (f, l) -> (z f, z l)) exts) in
  let cfg = { Views.maxrank = 3; maxops = 4; rebased = false; maxd = 4 } in
  let random_ops () =
    let rec go k v acc = if k = 0 then (List.rev acc, v) else
      match Views.candidate cfg v with
      | Some o -> (match run_ops [ o ] v with Some v' -> go (k - 1) v' (o :: acc) | None -> go (k - 1) v acc)
      | None -> go (k - 1) v acc in
    go (rnd_range 0 4) root [] in
  let template_ops () =   (* views of rank r-1 starting at the root's first element, with different strides *)
    let o = pick [ [ OIndex (z 0) ]; [ OTransposed; OIndex (z 0) ]; [ ODiagonal ]; [ ORotated; OIndex (z 0) ]; [ OUnrotated; OIndex (z 0) ] ] in
    match run_ops o root with Some v -> Some (o, v) | None -> None in
  let gen_one () = if chance 45 then template_ops () else Some (random_ops ()) in
  match gen_one () with
  | None -> None
  | Some (aops, av) ->
    let ra = List.length av.lay in
    if ra = 0 then None else
    let rec find tries = if tries = 0 then None else
      match gen_one () with
      | Some (bops, bv) when List.length bv.lay = ra -> Some (bops, bv)
      | _ -> find (tries - 1) in
    (match find 40, find 40 with
     | Some (bops, bv), Some (cops, _) ->
       let a = { exts; ops = aops; data; share = None } in
       let b = { exts; ops = bops; data = []; share = Some 0 } in
       let c = { exts; ops = cops; data = []; share = Some 0 } in
       let sa = il (l_sizes av.lay) and sb = il (l_sizes bv.lay) in
       Some ([| a; b; c |], [ Printf.sprintf "rank%d" ra; "aliasing_operands"; (if sa = sb then "same_sizes_ab" else "diff_sizes_ab");
                              (if i av.base = i bv.base then "alias_same_base" else "alias_diff_base");
                              (if prod sa = 0 || prod sb = 0 then "some_empty" else "nonempty") ])
     | _ -> None)

let rec gen_case () : case * string list =
  if !rank0 && chance 4 then gen_case0 () else
  if !alias && chance 10 then (match gen_shared () with Some r -> r | None -> gen_case ()) else
  let r = weighted [ (6, 1); (8, 2); (6, 3); (1, 4) ] in
  let sa = List.init r (fun _ -> weighted [ (1, 0); (3, 1); (4, 2); (3, 3) ]) in
  let ca = List.init (prod sa) (fun _ -> rnd 3) in
  (* same element count, different inner extents, same flat contents: == must still see the difference *)
  let reshaped = r >= 3 && chance 20 in
  let sb = if reshaped then (match sa with n0 :: n1 :: n2 :: rest -> n0 :: n2 :: n1 :: rest | _ -> sa) else perturb_sizes sa in
  let cb = if reshaped then ca else derive sa ca sb in
  let sc = if chance 30 then sa else perturb_sizes sb in
  let cc = if chance 30 then derive sa ca sc else derive sb cb sc in
  let fa = if !rebased then List.init r (fun _ -> if chance 25 then 0 else rnd_range (-3) 3) else [] in
  let other f = if !rebased && chance 12 then List.map (fun x -> if chance 50 then x + pick [ -1; 1 ] else x) f else f in
  let fb = other fa and fc = other fa in
  let c = [| realise ~firsts:fa sa ca; realise ~firsts:fb sb cb; realise ~firsts:fc sc cc |] in
  (c, (if !rebased then [ (if fa = fb && fa = fc then "same_bases" else "different_bases") ] else []) @ [ Printf.sprintf "rank%d" r; (if sa = sb then "same_sizes_ab" else "diff_sizes_ab"); (if sa = sb && ca = cb then "equal_ab" else "unequal_ab");
        (if prod sa = 0 || prod sb = 0 then "some_empty" else "nonempty") ] @ (if reshaped && sa <> sb then [ "reshaped_same_flat" ] else []))

let parse_cases (text : string) : (string * case) list =
  let cases = ref [] and id = ref "" in
  let e0 = { exts = []; ops = []; data = []; share = None } in
  let cur = ref [| e0; e0; e0 |] in
  let idx n = match n with "a" -> 0 | "b" -> 1 | _ -> 2 in
  let rec pairs = function a :: b :: t -> (int_of_string a, int_of_string b) :: pairs t | _ -> [] in
  List.iter
    (fun line ->
      match Views.words line with
      | [ "case"; c ] -> id := c; cur := Array.make 3 e0
      | [ "xshare"; n; m ] -> !cur.(idx n) <- { e0 with exts = !cur.(idx m).exts; share = Some (idx m) }
      | "xroot" :: n :: _ :: rest -> !cur.(idx n) <- { !cur.(idx n) with exts = pairs rest }
      | "xop" :: n :: toks -> !cur.(idx n) <- { !cur.(idx n) with ops = !cur.(idx n).ops @ [ Views.parse_op toks ] }
      | "xdata" :: n :: rest -> !cur.(idx n) <- { !cur.(idx n) with data = List.map int_of_string rest }
      | [ "end" ] -> cases := (!id, Array.copy !cur) :: !cases
      | _ -> ())
    (String.split_on_char '\n' text);
  List.rev !cases

#!/bin/sh
# Run once after a fresh restore, offline: builds the Coq development (full .vo build), extracts the
# model, compiles the OCaml driver.  C++ harnesses are compiled by the checks themselves, against
# /repo's working tree at the time of the check.
set -e
cd "$(dirname "$0")"
python3 - <<'PY'
import sys
sys.path.insert(0, '.')
from vlib import core
probs = core.coq_audit()
if probs:
    print("audit problems:", probs); sys.exit(1)
try:                      # generated Coq files (C13 dispatch ladders) are regenerated from /repo's headers before the build
    from vlib import c13
    c13.regenerate()
except Exception as e:    # the C13 check reports a translator problem itself
    print("note: could not regenerate the C13 dispatch model:", e)
ok, log = core.coq_make()
print(log[-1500:])
if not ok:
    print("coq build failed"); sys.exit(1)
ok, log = core.ensure_driver()
print(log[-1500:])
sys.exit(0 if ok else 1)
PY

#!/usr/bin/env python3
"""C13 translator: regenerates the Coq dispatch definitions from the SOURCE TEXT of
boost/multi/adaptors/blas/gemm.hpp (the four gemm_n ladders) and gemv.hpp (gemv_n).

It understands exactly the table-shaped grammar those functions are written in:

    assert( <cond> );
    if(a_count == 0) { return c_first; }
    if (<cond>) { ... } else if (<cond>) { ... } else { assert(0); | throw std::logic_error{...}; }
    leaf:  CTXT->gemm('N','T', e, e, e, &alpha, p, e, p, e, &beta, p, e);      (gemm.hpp)
           ctxt->gemv('N', e, e, &a, p, e, p, e, &b, p, e);                     (gemv.hpp)
    e ::= a_count | count | (*x_first).size() | (*x_first).stride() | x_first.stride() | <int> | std::max<Size>(e, e)
    p ::= x_first.base() | base(x_first) | underlying(p)
    cond ::= e == e | cond && cond | cond || cond | !cond | (cond) | is_conjugated<MIt>::value

Anything else is a TranslatorError naming the line, and the check reports it by name
(DESIGN 2.3/2.6).  Output: coq/Model/BlasC13Gen.v and build/c13_sites.json (site -> file:line).

It also regenerates the ladders of syrk.hpp (syrk), herk.hpp (the complex herk) and trsm.hpp into
coq/Model/BlasC13L3Gen.v (main_l3): same statement grammar; expressions: stride(x) x.stride() stride(~x)
x.rotated().stride() size(..) x.base() base_x underlying(..), `c ? 'L' : 'U'` on c_side / flip(c_side) ==
filling::upper, static_cast<char>(a_side | swap(a_side) | +a_fill | -a_fill | a_diag), alpha | conj(alpha).

usage: blas_dispatch_to_coq.py <include dir> <out .v> <out sites.json> [<out L3 .v> <out L3 sites.json>]
"""
import json
import os
import re
import sys


class TranslatorError(Exception):
    pass


# --------------------------------------------------------------------------------------------
# lexer
# --------------------------------------------------------------------------------------------
TOKEN = re.compile(r"""
    (?P<ws>\s+)
  | (?P<lc>//[^\n]*)
  | (?P<bc>/\*.*?\*/)
  | (?P<str>"(?:\\.|[^"\\])*"s?)
  | (?P<chr>'(?:\\.|[^'\\])')
  | (?P<num>\d+\.\d*|\d+|\.\d+)
  | (?P<id>[A-Za-z_][A-Za-z_0-9]*)
  | (?P<op>->|::|&&|\|\||==|!=|<=|>=|[-+*/%.,;(){}<>\[\]&!=?:~])
""", re.X | re.S)


def lex(text, line0=1):
    toks, pos, line = [], 0, line0
    while pos < len(text):
        m = TOKEN.match(text, pos)
        if not m:
            raise TranslatorError("line %d: cannot tokenize %r" % (line, text[pos:pos + 20]))
        kind = m.lastgroup
        s = m.group(0)
        if kind not in ("ws", "lc", "bc"):
            toks.append((kind, s, line))
        line += s.count("\n")
        pos = m.end()
    return toks


class P:
    def __init__(self, toks, fname):
        self.t, self.i, self.fname = toks, 0, fname

    def peek(self, k=0):
        return self.t[self.i + k] if self.i + k < len(self.t) else ("eof", "", -1)

    def next(self):
        tok = self.peek()
        self.i += 1
        return tok

    def accept(self, s):
        if self.peek()[1] == s:
            self.i += 1
            return True
        return False

    def expect(self, s):
        tok = self.next()
        if tok[1] != s:
            raise TranslatorError("%s:%d: expected %r, found %r" % (self.fname, tok[2], s, tok[1]))
        return tok

    def err(self, msg):
        raise TranslatorError("%s:%d: %s (at %r)" % (self.fname, self.peek()[2], msg, self.peek()[1]))

    # ---- expressions ----
    def expr(self):
        e = self.p_or()
        if self.accept("?"):                      # c ? x : y   (uplo selection in syrk.hpp / herk.hpp)
            a = self.expr()
            self.expect(":")
            b = self.expr()
            return ("tern", e, a, b)
        return e

    def p_or(self):
        e = self.p_and()
        while self.accept("||"):
            e = ("or", e, self.p_and())
        return e

    def p_and(self):
        e = self.p_cmp()
        while self.accept("&&"):
            e = ("and", e, self.p_cmp())
        return e

    def p_cmp(self):
        e = self.p_un()
        if self.accept("=="):
            return ("eq", e, self.p_un())
        if self.accept("!="):
            return ("ne", e, self.p_un())
        return e

    def p_un(self):
        if self.accept("!"):
            return ("not", self.p_un())
        if self.peek()[1] == "&" and self.peek(1)[0] == "id":
            self.next()
            return ("addr", self.next()[1])
        if self.peek()[1] == "~":                 # ~a : the transposed view (trsm.hpp)
            self.next()
            return ("tilde", self.p_un())
        if self.peek()[1] in ("-", "+") and self.peek(1)[0] == "id":   # -a_fill / +a_fill (trsm.hpp)
            sign = self.next()[1]
            return ("neg" if sign == "-" else "plus", self.p_un())
        return self.p_post()

    def p_post(self):
        kind, s, line = self.peek()
        if s == "(":
            self.next()
            if self.peek()[1] == "*" and self.peek(1)[0] == "id" and self.peek(2)[1] == ")":
                self.next()
                name = self.next()[1]
                self.expect(")")
                e = ("deref", name)
            else:
                e = self.expr()
                self.expect(")")
        elif kind == "id":
            self.next()
            if s == "is_conjugated" and self.peek()[1] == "<":
                self.next()
                ty = self.next()[1]
                self.expect(">")
                if self.accept("::"):
                    self.expect("value")
                else:
                    self.expect("{")
                    self.expect("}")
                return ("isconj", ty)
            if s == "static_cast" and self.peek()[1] == "<":
                self.next()
                self.next()
                self.expect(">")
                self.expect("(")
                e = self.expr()
                self.expect(")")
                return ("cast", e)
            if self.peek()[1] == "::" and self.peek(1)[0] == "id" and s != "std":     # filling::upper
                self.next()
                return ("scoped", s, self.next()[1])
            if s == "std" and self.peek()[1] == "::" and self.peek(1)[1] == "max":
                # std::max<Size>(e, e)  (gemv.hpp since the leading-dimension fix)
                self.next()
                self.next()
                if self.accept("<"):
                    self.next()
                    self.expect(">")
                self.expect("(")
                e1 = self.expr()
                self.expect(",")
                e2 = self.expr()
                self.expect(")")
                return ("max", e1, e2)
            if self.peek()[1] == "(":
                self.next()
                args = []
                if not self.accept(")"):
                    args.append(self.expr())
                    while self.accept(","):
                        args.append(self.expr())
                    self.expect(")")
                e = ("call", s, args)
            else:
                e = ("id", s)
        elif kind == "num":
            self.next()
            e = ("num", s)
        elif kind == "chr":
            self.next()
            e = ("chr", s[1:-1])
        elif kind == "str":
            self.next()
            e = ("str", s)
        else:
            self.err("unexpected token in expression")
        while self.peek()[1] == ".":
            self.next()
            meth = self.next()[1]
            self.expect("(")
            self.expect(")")
            e = ("meth", e, meth)
        return e

    # ---- statements ----
    def block(self):
        self.expect("{")
        out = []
        while not self.accept("}"):
            out.append(self.stmt())
        return out

    def stmt(self):
        kind, s, line = self.peek()
        if s == "{":
            return ("block", self.block(), line)
        if s == "if":
            self.next()
            self.accept("constexpr")
            self.expect("(")
            c = self.expr()
            self.expect(")")
            th = self.stmt()
            el = None
            if self.accept("else"):
                el = self.stmt()
            return ("if", c, th, el, line)
        if s == "assert":
            self.next()
            self.expect("(")
            c = self.expr()
            self.expect(")")
            self.expect(";")
            return ("assert", c, line)
        if s == "throw":
            while self.next()[1] != ";":
                pass
            return ("throw", line)
        if s == "return":
            while self.next()[1] != ";":
                pass
            return ("return", line)
        if s in ("herk", "syrk") and self.peek(1)[1] == "(":          # level 3: the core routine is called directly
            routine = self.next()[1]
            self.expect("(")
            args = [self.expr()]
            while self.accept(","):
                args.append(self.expr())
            self.expect(")")
            self.expect(";")
            return ("blas", routine, args, line)
        if s in ("CTXT", "ctxt") and self.peek(1)[1] == "->":
            self.next()
            self.next()
            routine = self.next()[1]
            self.expect("(")
            args = [self.expr()]
            while self.accept(","):
                args.append(self.expr())
            self.expect(")")
            self.expect(";")
            return ("blas", routine, args, line)
        if s == "struct":                      # the local `struct {...} ret{...};` at the end of gemv_n
            depth = 0
            while True:
                t = self.next()[1]
                if t == "{":
                    depth += 1
                elif t == "}":
                    depth -= 1
                elif t == ";" and depth == 0:
                    break
            return ("return", line)
        self.err("statement not in the dispatch-table grammar")


# --------------------------------------------------------------------------------------------
# locating the functions
# --------------------------------------------------------------------------------------------
def find_bodies(text, fname, what):
    """yield (header_text, body_text, line of '{') for every `auto <what>(Context...` definition that has a body
    containing a BLAS call through the context."""
    out = []
    for m in re.finditer(r"\bauto\s+%s\s*\(" % what, text):
        # matching ')' of the parameter list
        i, depth = m.end() - 1, 0
        while True:
            ch = text[i]
            if ch == "(":
                depth += 1
            elif ch == ")":
                depth -= 1
                if depth == 0:
                    break
            i += 1
        j = i + 1
        # skip comments / trailing return up to '{' or ';'
        k = j
        while text[k] not in "{;":
            if text.startswith("//", k):
                k = text.index("\n", k)
            elif text.startswith("->", k):   # trailing return type: not one of the ladders
                break
            else:
                k += 1
        if text[k] != "{":
            continue
        start = k
        depth = 0
        in_lc = False
        while True:
            if text.startswith("//", k):
                k = text.index("\n", k)
                continue
            ch = text[k]
            if ch == "'" and text[k + 2] == "'":
                k += 3
                continue
            if ch == '"':
                k = text.index('"', k + 1) + 1
                continue
            if ch == "{":
                depth += 1
            elif ch == "}":
                depth -= 1
                if depth == 0:
                    break
            k += 1
        body = text[start:k + 1]
        if "->gemm(" in body.replace(" ", "") or "->gemv(" in body.replace(" ", ""):
            # template header: text between the previous 'template<' and 'auto'
            h0 = text.rfind("template<", 0, m.start())
            out.append((text[h0:m.start()], body, text.count("\n", 0, start) + 1))
    return out


# --------------------------------------------------------------------------------------------
# emission
# --------------------------------------------------------------------------------------------
TRANS = {"N": "TN", "T": "TT", "C": "TC"}


class Emit:
    def __init__(self, opnames, fname, kind):
        self.ops = opnames          # iterator variable -> Coq operand variable, e.g. a_first -> a
        self.fname = fname
        self.kind = kind            # "gemm" | "gemv"
        self.sites = []
        self.base = 0

    def opvar(self, name, line):
        if name not in self.ops:
            raise TranslatorError("%s:%d: unknown iterator %r" % (self.fname, line, name))
        return self.ops[name]

    def isvec(self, v):
        return v in ("x", "y")

    def e(self, x, line):
        """size/stride/pointer expression -> Coq Z term"""
        k = x[0]
        if k == "num":
            if not re.fullmatch(r"\d+", x[1]):
                raise TranslatorError("%s:%d: non-integer literal %s" % (self.fname, line, x[1]))
            return x[1]
        if k == "max":
            return "Z.max (%s) (%s)" % (self.e(x[1], line), self.e(x[2], line))
        if k == "id":
            if x[1] in ("a_count", "count"):
                return "rows " + ("a" if self.kind == "gemm" else "m")
            raise TranslatorError("%s:%d: unknown identifier %r in an argument" % (self.fname, line, x[1]))
        if k == "meth":
            obj, meth = x[1], x[2]
            if obj[0] == "deref":
                v = self.opvar(obj[1], line)
                if self.isvec(v):
                    raise TranslatorError("%s:%d: dereferenced vector iterator" % (self.fname, line))
                if meth == "size":
                    return "cols " + v
                if meth == "stride":
                    return "s1 " + v
            if obj[0] == "id":
                v = self.opvar(obj[1], line)
                if meth == "stride":
                    return ("inc " if self.isvec(v) else "s0 ") + v
                if meth == "base":
                    return ("vbase " if self.isvec(v) else "mbase ") + v
            raise TranslatorError("%s:%d: unknown member expression .%s()" % (self.fname, line, meth))
        if k == "call":
            f, args = x[1], x[2]
            if f == "underlying" and len(args) == 1:
                return self.e(args[0], line)          # the raw pointer behind a conjugating pointer: same address
            if f == "base" and len(args) == 1 and args[0][0] == "id":
                v = self.opvar(args[0][1], line)
                return ("vbase " if self.isvec(v) else "mbase ") + v
            if f == "stride" and len(args) == 1 and args[0][0] == "id":
                v = self.opvar(args[0][1], line)
                return ("inc " if self.isvec(v) else "s0 ") + v
        raise TranslatorError("%s:%d: expression outside the dispatch grammar: %r" % (self.fname, line, x))

    def c(self, x, line):
        """condition -> Coq bool term"""
        k = x[0]
        if k == "and":
            return "(%s && %s)" % (self.c(x[1], line), self.c(x[2], line))
        if k == "or":
            return "(%s || %s)" % (self.c(x[1], line), self.c(x[2], line))
        if k == "not":
            return "(negb %s)" % self.c(x[1], line)
        if k == "eq":
            return "(%s =? %s)" % (self.e(x[1], line), self.e(x[2], line))
        if k == "ne":
            return "(negb (%s =? %s))" % (self.e(x[1], line), self.e(x[2], line))
        raise TranslatorError("%s:%d: condition outside the dispatch grammar: %r" % (self.fname, line, x))

    def leaf(self, st):
        _, routine, args, line = st
        if routine != self.kind:
            raise TranslatorError("%s:%d: call to %s inside %s_n" % (self.fname, line, routine, self.kind))
        self.sites.append(line)
        site = self.base + len(self.sites)
        if routine == "gemm":
            if len(args) != 13:
                raise TranslatorError("%s:%d: gemm call with %d arguments" % (self.fname, line, len(args)))
            if args[5] != ("addr", "alpha") or args[10] != ("addr", "beta"):
                raise TranslatorError("%s:%d: scalars are not passed as &alpha / &beta" % (self.fname, line))
            ta, tb = args[0], args[1]
            if ta[0] != "chr" or tb[0] != "chr" or ta[1] not in TRANS or tb[1] not in TRANS:
                raise TranslatorError("%s:%d: transposition flags are not 'N'/'T'/'C' literals" % (self.fname, line))
            z = [self.e(args[k], line) for k in (2, 3, 4, 6, 7, 8, 9, 11, 12)]
            return "OCall (mk_gemm_call %d %s %s %s)" % (site, TRANS[ta[1]], TRANS[tb[1]], " ".join("(%s)" % s for s in z))
        if len(args) != 11:
            raise TranslatorError("%s:%d: gemv call with %d arguments" % (self.fname, line, len(args)))
        if args[3] != ("addr", "a") or args[8] != ("addr", "b"):
            raise TranslatorError("%s:%d: scalars are not passed as &a / &b" % (self.fname, line))
        ta = args[0]
        if ta[0] != "chr" or ta[1] not in TRANS:
            raise TranslatorError("%s:%d: transposition flag is not a literal" % (self.fname, line))
        z = [self.e(args[k], line) for k in (1, 2, 4, 5, 6, 7, 9, 10)]
        return "VCall (mk_gemv_call %d %s %s)" % (site, TRANS[ta[1]], " ".join("(%s)" % s for s in z))

    def stmts(self, sts, ind, pre):
        """a statement list that ends the function's dispatch: returns a Coq outcome term"""
        sts = [s for s in sts if s[0] != "return"]
        if not sts:
            return None
        if len(sts) > 1:
            raise TranslatorError("%s:%d: more than one statement in a dispatch leaf" % (self.fname, sts[1][-1]))
        return self.stmt(sts[0], ind, pre)

    def stmt(self, st, ind, pre):
        k = st[0]
        pad = "  " * ind
        if k == "block":
            r = self.stmts(st[1], ind, pre)
            if r is None:
                raise TranslatorError("%s:%d: empty block in the dispatch" % (self.fname, st[2]))
            return r
        if k == "blas":
            return self.leaf(st)
        if k == "assert":
            if st[1] == ("num", "0"):
                return pre + "Assert0"
            raise TranslatorError("%s:%d: assertion inside the ladder is not assert(0)" % (self.fname, st[2]))
        if k == "throw":
            return pre + "Throw"
        if k == "if":
            _, c, th, el, line = st
            if el is None:
                raise TranslatorError("%s:%d: if without else inside the ladder" % (self.fname, line))
            if c[0] == "not" and c[1][0] == "isconj":
                return "(if negb (%s) then\n%s  %s\n%selse\n%s  %s)" % (
                    "mconj m", pad, self.stmt(th, ind + 1, pre), pad, pad, self.stmt(el, ind + 1, pre))
            return "(if %s then\n%s  %s\n%selse\n%s  %s)" % (
                self.c(c, line), pad, self.stmt(th, ind + 1, pre), pad, pad, self.stmt(el, ind + 1, pre))
        raise TranslatorError("%s:%d: statement kind %s inside the ladder" % (self.fname, st[-1], k))


def translate_function(body, line0, fname, kind, base):
    toks = lex(body, line0)
    p = P(toks, fname)
    sts = p.block()
    if kind == "gemm":
        em = Emit({"a_first": "a", "b_first": "b", "c_first": "c"}, fname, kind)
    else:
        em = Emit({"m_first": "m", "x_first": "x", "y_first": "y"}, fname, kind)
    em.base = base
    asserts, rest = [], []
    for st in sts:
        if st[0] == "assert" and not rest:
            asserts.append(st)
        else:
            rest.append(st)
    # the a_count == 0 early return (gemm only)
    early = None
    if rest and rest[0][0] == "if" and rest[0][3] is None:
        st = rest[0]
        th = st[2]
        inner = th[1] if th[0] == "block" else [th]
        if all(s[0] == "return" for s in inner):
            early = em.c(st[1], st[4])
            rest = rest[1:]
        else:
            raise TranslatorError("%s:%d: unexpected else-less if" % (fname, st[4]))
    pre = "O" if kind == "gemm" else "V"
    body_term = em.stmts(rest, 2, pre)
    if body_term is None:
        raise TranslatorError("%s:%d: no dispatch ladder found" % (fname, line0))
    # entry assertions; pointer inequalities (gemv.hpp:24) and stride != 0 (gemv.hpp:25) are kept as they are
    aterms = []
    for st in asserts:
        c = st[1]
        aterms.append(em.c(c, st[2]))
    return aterms, early, body_term, em.sites


def conj_key(header):
    h = header.replace(" ", "")
    m = re.search(r"\((!?)is_conjugated<It2DA>\{\}&&(!?)is_conjugated<It2DB>\{\}\)", h)
    if not m:
        raise TranslatorError("gemm.hpp: cannot read the is_conjugated condition of a gemm_n overload")
    return ("n" if m.group(1) == "!" else "j") + ("n" if m.group(2) == "!" else "j")


def main(include, out_v, out_sites):
    d = os.path.join(include, "boost", "multi", "adaptors", "blas")
    gemm_txt = open(os.path.join(d, "gemm.hpp")).read()
    gemv_txt = open(os.path.join(d, "gemv.hpp")).read()
    sites = {}
    defs = []
    ladders = {}
    for header, body, line0 in find_bodies(gemm_txt, "gemm.hpp", "gemm_n"):
        key = conj_key(header)
        if key in ladders:
            raise TranslatorError("gemm.hpp: two gemm_n overloads for conjugation pattern " + key)
        base = {"nn": 100, "nj": 200, "jn": 300, "jj": 400}[key]
        asserts, early, term, lines = translate_function(body, line0, "gemm.hpp", "gemm", base)
        ladders[key] = True
        for k, ln in enumerate(lines):
            sites[str(base + k + 1)] = "gemm.hpp:%d" % ln
        defs.append("(* gemm_n, A %sconjugated, B %sconjugated: gemm.hpp:%d *)" % (
            "" if key[0] == "j" else "not ", "" if key[1] == "j" else "not ", line0))
        defs.append("Definition gemm_%s_asserts_gen (a b c : mat) : bool :=\n  %s.\n" % (key, " && ".join(asserts) or "true"))
        defs.append("Definition gemm_%s_gen (a b c : mat) : gemm_outcome :=\n  if %s then ONoCall else\n  %s.\n" % (
            key, early or "false", term))
    for key in ("nn", "nj", "jn", "jj"):
        if key not in ladders:
            raise TranslatorError("gemm.hpp: gemm_n overload for conjugation pattern %s not found" % key)
    found = find_bodies(gemv_txt, "gemv.hpp", "gemv_n")
    if len(found) != 1:
        raise TranslatorError("gemv.hpp: expected exactly one gemv_n with a dispatch body, found %d" % len(found))
    header, body, line0 = found[0]
    asserts, early, term, lines = translate_function(body, line0, "gemv.hpp", "gemv", 500)
    for k, ln in enumerate(lines):
        sites[str(500 + k + 1)] = "gemv.hpp:%d" % ln
    defs.append("(* gemv_n: gemv.hpp:%d *)" % line0)
    defs.append("Definition gemv_asserts_gen (m : mat) (x y : vec) : bool :=\n  %s.\n" % (" && ".join(asserts) or "true"))
    defs.append("Definition gemv_gen (m : mat) (x y : vec) : gemv_outcome :=\n  %s.\n" % term)
    text = ("(* GENERATED by gen/blas_dispatch_to_coq.py from the source text of gemm.hpp / gemv.hpp.  Do not edit.\n"
            "   Definitions only.  Site numbers: ladder*100 + ordinal of the call in source order. *)\n"
            "From Coq Require Import ZArith Bool.\nFrom BM Require Import Model.BlasC13.\nLocal Open Scope Z_scope.\n"
            "Local Open Scope bool_scope.\n\n" + "\n".join(defs))
    old = open(out_v).read() if os.path.exists(out_v) else None
    if old != text:
        with open(out_v, "w") as f:
            f.write(text)
    os.makedirs(os.path.dirname(out_sites), exist_ok=True)
    with open(out_sites, "w") as f:
        json.dump(sites, f, indent=1, sort_keys=True)
    return sites


# --------------------------------------------------------------------------------------------
# level 3 besides gemm: syrk.hpp, herk.hpp, trsm.hpp (their ladders fit the same statement grammar; expressions differ)
# --------------------------------------------------------------------------------------------
class Emit3:
    """views: a, c (syrk/herk: `cc` and `c`), b (trsm).  stride(x) / x.stride() -> s0, stride(~x) / x.rotated().stride() -> s1,
    size(x) / x.size() -> rows, size(~x) / x.rotated().size() -> cols, x.base() / base_x / underlying(..) -> mbase."""
    VARS = {"a": "a", "b": "b", "c": "c", "cc": "c"}
    TYPES = {"A2D": "a", "B2D": "b", "C2D": "c"}

    def __init__(self, fname, routine, base):
        self.fname, self.routine, self.base = fname, routine, base
        self.block = 0
        self.count = 0
        self.sites = {}

    def err(self, line, msg):
        raise TranslatorError("%s:%d: %s" % (self.fname, line, msg))

    def view(self, x, line):
        """-> (coq var, transposed?)"""
        if x[0] == "id" and x[1] in self.VARS:
            return self.VARS[x[1]], False
        if x[0] == "tilde":
            v, t = self.view(x[1], line)
            return v, not t
        if x[0] == "meth" and x[2] == "rotated":
            v, t = self.view(x[1], line)
            return v, not t
        self.err(line, "not a view expression: %r" % (x,))

    def e(self, x, line):
        k = x[0]
        if k == "num":
            return x[1]
        if k == "id" and x[1] in ("base_a", "base_c"):
            return "mbase " + x[1][-1]
        if k == "call" and x[1] in ("stride", "size") and len(x[2]) == 1:
            v, t = self.view(x[2][0], line)
            return ({("stride", False): "s0 ", ("stride", True): "s1 ", ("size", False): "rows ", ("size", True): "cols "}[(x[1], t)]) + v
        if k == "meth" and x[2] in ("stride", "size"):
            v, t = self.view(x[1], line)
            return ({("stride", False): "s0 ", ("stride", True): "s1 ", ("size", False): "rows ", ("size", True): "cols "}[(x[2], t)]) + v
        if k == "meth" and x[2] == "base":
            v, t = self.view(x[1], line)
            return "mbase " + v
        if k == "call" and x[1] == "underlying" and len(x[2]) == 1:
            return self.e(x[2][0], line)
        if k == "call" and x[1] == "bbase" and len(x[2]) == 1:      # trsm.hpp:107 (ill-formed in C++: no such function); read as base
            v, t = self.view(x[2][0], line)
            return "mbase " + v
        self.err(line, "expression outside the level-3 dispatch grammar: %r" % (x,))

    def ch(self, x, line):
        """character argument -> Coq Z term"""
        k = x[0]
        if k == "chr":
            if x[1] not in "NTCLUR":
                self.err(line, "unexpected character literal %r" % x[1])
            return "ch_" + x[1]
        if k == "tern" and x[2][0] == "chr" and x[3][0] == "chr":
            c = x[1]
            if c[0] == "eq" and c[2] == ("scoped", "filling", "upper"):
                if c[1] == ("id", "c_side"):
                    cond = "upper"
                elif c[1] == ("call", "flip", [("id", "c_side")]):
                    cond = "negb upper"
                else:
                    self.err(line, "unknown fill expression %r" % (c[1],))
                return "(if %s then %s else %s)" % (cond, self.ch(x[2], line), self.ch(x[3], line))
            self.err(line, "unknown uplo selection %r" % (c,))
        if k == "cast":
            y = x[1]
            if y == ("id", "a_side"):
                return "(side_char left)"
            if y == ("call", "swap", [("id", "a_side")]):
                return "(side_char (negb left))"
            if y == ("plus", ("id", "a_fill")):
                return "(fill_char lower)"
            if y == ("neg", ("id", "a_fill")):
                return "(fill_char (negb lower))"
            if y == ("id", "a_diag"):
                return "(diag_char unit)"
            self.err(line, "unknown static_cast<char> argument %r" % (y,))
        self.err(line, "not a character argument: %r" % (x,))

    def c(self, x, line):
        k = x[0]
        if k == "and":
            return "(%s && %s)" % (self.c(x[1], line), self.c(x[2], line))
        if k == "or":
            return "(%s || %s)" % (self.c(x[1], line), self.c(x[2], line))
        if k == "not":
            return "(negb %s)" % self.c(x[1], line)
        if k == "eq":
            return "(%s =? %s)" % (self.e(x[1], line), self.e(x[2], line))
        if k == "ne":
            return "(negb (%s =? %s))" % (self.e(x[1], line), self.e(x[2], line))
        if k == "isconj":
            if x[1] not in self.TYPES:
                self.err(line, "is_conjugated of unknown type %s" % x[1])
            return "(mconj %s)" % self.TYPES[x[1]]
        self.err(line, "condition outside the level-3 dispatch grammar: %r" % (x,))

    def leaf(self, st):
        _, routine, args, line = st
        self.count += 1
        site = self.base + 10 * self.block + self.count
        self.sites[str(site)] = "%s:%d" % (self.fname, line)
        if routine in ("syrk", "herk"):
            if len(args) != 10 or args[4] != ("addr", "alpha") or args[7] != ("addr", "beta"):
                self.err(line, "%s call is not (uplo, trans, n, k, &alpha, a, lda, &beta, c, ldc)" % routine)
            z = [self.e(args[i], line) for i in (2, 3, 5, 6, 8, 9)]
            return "L3Call (mk_rk_call %d %s %s %s)" % (site, self.ch(args[0], line), self.ch(args[1], line), " ".join("(%s)" % t for t in z))
        if routine == "trsm":
            if len(args) != 11:
                self.err(line, "trsm call with %d arguments" % len(args))
            al = args[6]
            if al == ("id", "alpha"):
                cj = "false"
            elif al == ("call", "conj", [("id", "alpha")]):
                cj = "true"
            else:
                self.err(line, "unknown scalar argument %r" % (al,))
            z = [self.e(args[i], line) for i in (4, 5, 7, 8, 9, 10)]
            return "L3Call (mk_trsm_call %d %s %s %s %s %s %s)" % (site, self.ch(args[0], line), self.ch(args[1], line), self.ch(args[2], line),
                                                                  self.ch(args[3], line), " ".join("(%s)" % t for t in z), cj)
        self.err(line, "call to %s in a level-3 ladder" % routine)

    def stmt(self, st, ind, top=False):
        k = st[0]
        pad = "  " * ind
        if k == "block":
            inner = [s for s in st[1] if s[0] != "return"]
            if len(inner) != 1:
                self.err(st[2], "a dispatch leaf must be one statement")
            return self.stmt(inner[0], ind)
        if k == "blas":
            return self.leaf(st)
        if k == "assert":
            c = st[1]
            if c == ("num", "0") or (c[0] == "and" and c[1] == ("num", "0") and c[2][0] == "str"):
                return "L3Abort"
            self.err(st[2], "assertion inside the ladder is not assert(0)")
        if k == "if":
            _, c, th, el, line = st
            is_block_sel = self.routine in ("herk", "trsm") and top
            if is_block_sel:
                self.count = 0
            t1 = self.stmt(th, ind + 1)
            if is_block_sel:
                self.block += 1
                self.count = 0
            if el is None:
                t2 = "L3Abort"                      # no else: the conditions before are exhaustive (trsm.hpp:105)
            else:
                t2 = self.stmt(el, ind + 1, top=(top and el[0] == "if"))
            return "(if %s then\n%s  %s\n%selse\n%s  %s)" % (self.c(c, line), pad, t1, pad, pad, t2)
        self.err(st[-1], "statement kind %s inside a level-3 ladder" % k)


def ladder_statement(text, fname, func_re, start_re):
    """parse ONE statement: the if-ladder that starts at start_re inside the function whose signature matches func_re"""
    m = re.search(func_re, text)
    if not m:
        raise TranslatorError("%s: function not found: %s" % (fname, func_re))
    m2 = re.compile(start_re).search(text, m.end())
    if not m2:
        raise TranslatorError("%s: dispatch ladder not found after %s" % (fname, func_re))
    line0 = text.count("\n", 0, m2.start()) + 1
    # up to the closing brace of the enclosing block
    k, depth = m2.start(), 0
    while k < len(text):
        if text.startswith("//", k):
            k = text.index("\n", k)
            continue
        ch = text[k]
        if ch == "'" and k + 2 < len(text) and text[k + 2] == "'":
            k += 3
            continue
        if ch == '"':
            k = text.index('"', k + 1) + 1
            continue
        if ch == "{":
            depth += 1
        elif ch == "}":
            depth -= 1
            if depth < 0:
                break
        k += 1
    body = re.sub(r"(?m)^[ \t]*#.*$", "", text[m2.start():k])      # drop the #define CTXT / #undef lines inside trsm
    toks = lex(body, line0)
    return P(toks, fname).stmt()


L3_HEADER = """(* GENERATED by gen/blas_dispatch_to_coq.py from the source text of syrk.hpp / herk.hpp / trsm.hpp.  Do not edit.
   Definitions only.  Site numbers: 600 + n (syrk), 700 + 10*block + n (herk: block 0 = a conjugated), 800 + 10*block + n (trsm:
   blocks in the order of the `if constexpr` chain), n = ordinal of the call in its block. *)
From Coq Require Import ZArith Bool.
From BM Require Import Model.BlasC13 Model.BlasC13L3.
Local Open Scope Z_scope.
Local Open Scope bool_scope.

Definition side_char (left : bool) : Z := if left then ch_L else ch_R.          (* static_cast<char>(side): side.hpp *)
Definition fill_char (lower : bool) : Z := if lower then ch_U else ch_L.         (* static_cast<char>(+fill): filling.hpp:16-19 *)
Definition diag_char (unit : bool) : Z := if unit then ch_U else ch_N.           (* static_cast<char>(diag): trsm.hpp:15-18 *)

"""


def main_l3(include, out_v, out_sites):
    d = os.path.join(include, "boost", "multi", "adaptors", "blas")
    sites = {}
    defs = []
    txt = open(os.path.join(d, "syrk.hpp")).read()
    st = ladder_statement(txt, "syrk.hpp", r"auto\s+syrk\s*\(\s*filling\s+c_side\s*,\s*typename\s+A2D::element\s+alpha", r"if\s*\(\s*stride\(a\)\s*==\s*1\s*\)")
    em = Emit3("syrk.hpp", "syrk", 600)
    defs.append("Definition syrk_dispatch_gen (upper : bool) (a c : mat) : l3_outcome rk_call :=\n  %s.\n" % em.stmt(st, 1, top=True))
    sites.update(em.sites)
    txt = open(os.path.join(d, "herk.hpp")).read()
    st = ladder_statement(txt, "herk.hpp", r"auto\s+herk\s*\(\s*filling\s+c_side\s*,\s*AA\s+alpha\s*,\s*A2D\s+const&\s*a\s*,\s*BB\s+beta\s*,\s*C2D&&\s*c\s*\)\s*->\s*C2D&&",
                          r"if\s+constexpr\s*\(\s*is_conjugated<A2D>\{\}\s*\)")
    em = Emit3("herk.hpp", "herk", 700)
    defs.append("Definition herk_dispatch_gen (upper : bool) (a c : mat) : l3_outcome rk_call :=\n  %s.\n" % em.stmt(st, 1, top=True))
    sites.update(em.sites)
    txt = open(os.path.join(d, "trsm.hpp")).read()
    st = ladder_statement(txt, "trsm.hpp", r"auto\s+trsm\s*\(\s*Context&&\s*ctxt\s*,\s*blas::side\s+a_side\s*,\s*blas::filling\s+a_fill\s*,\s*blas::diagonal\s+a_diag",
                          r"if\s+constexpr\s*\(\s*!\s*is_conjugated<A2D>\{\}\s*&&\s*!\s*is_conjugated<B2D>\{\}\s*\)")
    em = Emit3("trsm.hpp", "trsm", 800)
    defs.append("Definition trsm_dispatch_gen (left lower unit : bool) (a b : mat) : l3_outcome trsm_call :=\n  %s.\n" % em.stmt(st, 1, top=True))
    sites.update(em.sites)
    text = L3_HEADER + "\n".join(defs)
    old = open(out_v).read() if os.path.exists(out_v) else None
    if old != text:
        with open(out_v, "w") as f:
            f.write(text)
    os.makedirs(os.path.dirname(out_sites), exist_ok=True)
    with open(out_sites, "w") as f:
        json.dump(sites, f, indent=1, sort_keys=True)
    return sites


if __name__ == "__main__":
    try:
        main(sys.argv[1], sys.argv[2], sys.argv[3])
        if len(sys.argv) > 5:
            main_l3(sys.argv[1], sys.argv[4], sys.argv[5])
    except TranslatorError as ex:
        print("TRANSLATOR-ERROR: %s" % ex)
        sys.exit(3)

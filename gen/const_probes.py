"""C16 -- generator of the compile-time probes that tie the const automaton (coq/Model/ConstAutomaton.v)
to the library, row by row, and of the direct enumeration of access paths.

Vocabulary (shared with the Coq model and ocaml/c16_driver.ml):

  state   Kind.D.c.cat      Kind in KINDS; D = dimensionality (0 for pointers / element references);
                            c = m|c (top-level const of the expression's type); cat = L|R (lvalue / rvalue)
  op      one of OPS        an expression template over a receiver X
  outcome To:<state> | To:Val | To:Other | Mut | NoDef | No | Hard     (NoDef: accepted, but the member is only declared: does not link)

Each row (state, op) is turned into ONE line of C++ that (1) decides with the detection idiom whether
`EXPR(X)` is well-formed for X = std::declval<canonical type of the state>(), (2) classifies
decltype((EXPR)) back into a state with exact type comparisons against the canonical types, (3) when
well-formed, also instantiates the expression inside a function body, so that member functions whose
*declaration* is accepted but whose *body* does not compile are seen (as a compile error of the TU,
attributed to the row through its line number).  Rows whose outcome is `Hard` (ill-formed, but not a
substitution failure) are compiled alone and must fail.

Nothing here depends on the Coq model: the module only knows the vocabulary.  vlib/c16.py compares what
these probes print with what the extracted model prints.
"""
import itertools

INT = "int"

# ---------------------------------------------------------------------------------------------
# kinds and canonical C++ types
# ---------------------------------------------------------------------------------------------
VIEW_KINDS = ["Arr", "SArr", "ARef0", "ARef1", "Sub0", "Sub1", "CSub0", "CSub1"]
ITER_KINDS = ["It00", "It01", "It10", "It11"]          # It<IsConst><pointer-to-const>
RANGE_KINDS = ["ER0", "ER1"]                           # elements_range_t<int*|int const*, layout_t<D>>
EITER_KINDS = ["EI0", "EI1"]                           # elements_iterator_t
CURSOR_KINDS = ["Cu0", "Cu1"]                          # cursor_t
PTR_KINDS = ["Pt0", "Pt1"]                             # int*, int const*
SPTR_KINDS = ["SP00", "SP01", "SP10", "SP11"]          # subarray_ptr<int, D, ptr, layout, IsConst>: SP<IsConst><pointer-to-const>
VALUE_KINDS = ITER_KINDS + EITER_KINDS + CURSOR_KINDS + PTR_KINDS + SPTR_KINDS   # copyable handles: assigning/swapping them is not an array write
KINDS = VIEW_KINDS + ITER_KINDS + RANGE_KINDS + EITER_KINDS + CURSOR_KINDS + PTR_KINDS + SPTR_KINDS + ["Elem"]
DIM0_KINDS = PTR_KINDS + ["Elem"]

MAXD_CANON = 8     # canonical types are declared for D up to this (paths of depth 3 from D=3 reach D=6)


def ptr(pc):
    return "int const*" if pc else "int*"


def base_type(kind, d):
    """C++ text of the unqualified canonical type of (kind, D)."""
    if kind == "Arr":
        return "multi::array<int, %d>" % d
    if kind == "SArr":
        return "multi::static_array<int, %d>" % d
    if kind in ("ARef0", "ARef1"):
        return "multi::array_ref<int, %d, %s>" % (d, ptr(kind[-1] == "1"))
    if kind in ("Sub0", "Sub1"):
        return "multi::subarray<int, %d, %s>" % (d, ptr(kind[-1] == "1"))
    if kind in ("CSub0", "CSub1"):
        return "multi::const_subarray<int, %d, %s>" % (d, ptr(kind[-1] == "1"))
    if kind in ITER_KINDS:
        c, pc = kind[2] == "1", kind[3] == "1"
        return "typename multi::const_subarray<int, %d, %s>::%s" % (d, ptr(pc), "const_iterator" if c else "iterator")
    if kind in RANGE_KINDS:
        return "typename multi::const_subarray<int, %d, %s>::elements_range" % (d, ptr(kind[-1] == "1"))
    if kind in EITER_KINDS:
        return "typename multi::const_subarray<int, %d, %s>::elements_range::iterator" % (d, ptr(kind[-1] == "1"))
    if kind in CURSOR_KINDS:
        return "typename multi::const_subarray<int, %d, %s>::cursor" % (d, ptr(kind[-1] == "1"))
    if kind in PTR_KINDS:
        return ptr(kind[-1] == "1")
    if kind in SPTR_KINDS:
        c, pc = kind[2] == "1", kind[3] == "1"
        return "multi::subarray_ptr<int, %d, %s, multi::layout_t<%d>, %s>" % (d, ptr(pc), d, "true" if c else "false")
    if kind == "Elem":
        return "int"
    raise ValueError(kind)


def dims_of(kind, maxd=3):
    if kind in DIM0_KINDS:
        return [0]
    return list(range(1, maxd + 1))


class State:
    __slots__ = ("kind", "d", "c", "cat")

    def __init__(self, kind, d, c, cat):
        self.kind, self.d, self.c, self.cat = kind, int(d), c, cat

    @staticmethod
    def parse(txt):
        k, d, c, cat = txt.split(".")
        return State(k, int(d), c, cat)

    def __str__(self):
        return "%s.%d.%s.%s" % (self.kind, self.d, self.c, self.cat)

    def __eq__(self, o):
        return str(self) == str(o)

    def __hash__(self):
        return hash(str(self))

    def alias(self):
        return "B_%s_%d" % (self.kind, self.d)

    def cxx(self):
        """the reference type X such that std::declval<X>() is a representative expression of the state"""
        return "c16::%s%s%s" % (self.alias(), " const" if self.c == "c" else "", "&" if self.cat == "L" else "&&")


def all_states(kinds=None, maxd=3):
    out = []
    for k in (kinds or KINDS):
        for d in dims_of(k, maxd):
            for c in "mc":
                for cat in "LR":
                    out.append(State(k, d, c, cat))
    return out


# ---------------------------------------------------------------------------------------------
# operations
# ---------------------------------------------------------------------------------------------
def ones(n):
    return ", ".join(["1"] * n)


# name -> expression template; X is the receiver expression; {D} the receiver's dimensionality.
ACCESS_OPS = [
    ("Index", "X[1]"),
    ("Call0", "X()"),
    ("Call1", "X(1)"),
    ("CallAll", None),            # X(1, ..., 1) with D arguments
    ("CallRng", "X({0, 2})"),
    ("CallRngIdx", "X({0, 2}, 1)"),
    ("CallIdxRng", "X(1, {0, 2})"),
    ("Begin", "X.begin()"),
    ("End", "X.end()"),
    ("CBegin", "X.cbegin()"),
    ("CEnd", "X.cend()"),
    ("Deref", "*X"),
    ("Plus1", "X + 1"),
    ("Elements", "X.elements()"),
    ("CElements", "X.celements()"),
    ("ConstElements", "X.const_elements()"),
    ("Home", "X.home()"),
    ("Front", "X.front()"),
    ("Back", "X.back()"),
    ("Sliced", "X.sliced(0, 2)"),
    ("SlicedS", "X.sliced(0, 2, 2)"),
    ("Strided", "X.strided(2)"),
    ("Taked", "X.taked(1)"),
    ("Dropped", "X.dropped(1)"),
    ("Rotated", "X.rotated()"),
    ("Unrotated", "X.unrotated()"),
    ("Transposed", "X.transposed()"),
    ("Tilde", "~X"),
    ("Reversed", "X.reversed()"),
    ("Diagonal", "X.diagonal()"),
    ("Partitioned", "X.partitioned(1)"),
    ("Chunked", "X.chunked(1)"),
    ("Halved", "X.halved()"),
    ("Flatted", "X.flatted()"),
    ("Reindexed", "X.reindexed(1)"),
    ("Blocked", "X.blocked(0, 2)"),
    ("Range", "X.range({0, 2})"),
    ("Stenciled", "X.stenciled({0, 2})"),
    ("Broadcasted", "X.broadcasted()"),
    ("AsConst", "X.as_const()"),
    ("Base", "X.base()"),
    ("DataElements", "X.data_elements()"),
    ("Origin", "X.origin()"),
    ("AddrOf", "&X"),
    ("AddressOf", "X.addressof()"),
    ("Arrow", "X.operator->()"),
]
LANG_OPS = [("Move", None), ("BindRef", None), ("BindCRef", None)]      # language-level steps
MUTATOR_OPS = [("Assign", None), ("Fill", None), ("Swap", None), ("MSwap", None)]
OPS = ACCESS_OPS + LANG_OPS + MUTATOR_OPS
OP_NAMES = [n for n, _ in OPS]
ACCESS_NAMES = [n for n, _ in ACCESS_OPS]
LANG_NAMES = [n for n, _ in LANG_OPS]
MUTATOR_NAMES = [n for n, _ in MUTATOR_OPS]
OP_EXPR = dict(OPS)

# ops that are *meant* to yield a read-only result from a mutable receiver
CONST_MAKING = {"CBegin", "CEnd", "CElements", "ConstElements", "AsConst", "BindCRef"}


def applicable(kind, op):
    """Swap/MSwap/Assign of a copyable handle (iterator, cursor, pointer) re-seats the handle, it does not
    write array elements: not a writability probe (outcome NA in the model, no row here)."""
    if op in ("Swap", "MSwap", "Assign") and kind in VALUE_KINDS:
        return False
    return True


def rhs_type(op, kind, d):
    """type of the right-hand side / argument object of a mutator (None: a literal is used)"""
    if op == "Assign":
        if kind in VIEW_KINDS:
            return "multi::array<int, %d> const&" % d
        if kind in RANGE_KINDS:
            return "multi::subarray<int, %d, int*>&" % d
    if op == "Fill" and kind in VIEW_KINDS and d >= 2:
        return "multi::array<int, %d> const&" % (d - 1)      # fill(v) assigns v to every (D-1)-dimensional item
    return None


def rhs_expr(op, kind, d, r):
    """r: expression text of an object of rhs_type (std::declval<..>() in unevaluated context, a parameter in a body)"""
    if rhs_type(op, kind, d) is None:
        return "1"
    if op == "Assign" and kind in RANGE_KINDS:
        return r + ".elements()"
    return r


def expr_of(op, kind, d, x, r=None):
    """C++ expression text of `op` applied to the receiver expression text x (already parenthesised if needed);
    r = expression of the argument object of a mutator (default: std::declval of its type)."""
    if r is None and rhs_type(op, kind, d):
        r = "std::declval<%s>()" % rhs_type(op, kind, d)
    if op == "CallAll":
        return "%s(%s)" % (x, ones(max(d, 1)))
    if op == "Move":
        return "std::move(%s)" % x
    if op == "Assign":
        return "%s = %s" % (x, rhs_expr(op, kind, d, r))
    if op == "Fill":
        return "%s.fill(%s)" % (x, rhs_expr(op, kind, d, r))
    if op == "Swap":
        return "c16::adl_swap(%s, %s)" % (x, x)
    if op == "MSwap":
        return "%s.swap(%s)" % (x, x)
    t = OP_EXPR[op]
    if t is None:
        raise ValueError(op)
    if t.startswith("X"):
        return x + t[1:]
    return t.replace("X", x)


# ---------------------------------------------------------------------------------------------
# common header (written next to the generated TUs; precompiled)
# ---------------------------------------------------------------------------------------------
def common_header():
    L = []
    a = L.append
    a("// generated by gen/const_probes.py -- do not edit")
    a("#ifndef C16_COMMON_HPP")
    a("#define C16_COMMON_HPP")
    a("#include <boost/multi/array.hpp>")
    a("#include <cstdio>")
    a("#include <type_traits>")
    a("#include <utility>")
    a("#include <string>")
    a("namespace multi = boost::multi;")
    a("namespace c16 {")
    for k in KINDS:
        ds = [0] if k in DIM0_KINDS else ([0] if k in ("Sub0", "Sub1", "CSub0", "CSub1") else []) + list(range(1, MAXD_CANON + 1))
        for d in ds:
            bt = base_type(k, d)
            a("using B_%s_%d = %s;" % (k, d, bt.replace("typename ", "")))
    a("template<class T> struct base_cls { static constexpr const char* name = nullptr; };")
    seen = set()
    for k in KINDS:
        ds = [0] if k in DIM0_KINDS else ([0] if k in ("Sub0", "Sub1", "CSub0", "CSub1") else []) + list(range(1, MAXD_CANON + 1))
        for d in ds:
            a("template<> struct base_cls<B_%s_%d> { static constexpr const char* name = \"%s.%d\"; };" % (k, d, k, d))
    a(r'''
template<class...> using void_t = void;
template<class, template<class> class Op, class X> struct detector : std::false_type { using type = void; };
template<template<class> class Op, class X> struct detector<void_t<Op<X>>, Op, X> : std::true_type { using type = Op<X>; };
template<template<class> class Op, class X> inline constexpr bool is_detected_v = detector<void, Op, X>::value;
template<template<class> class Op, class X> using detected_t = typename detector<void, Op, X>::type;

// classification of decltype((expr)): R is T (prvalue), T& (lvalue) or T&& (xvalue)
template<class R> std::string classify() {
	using NR = std::remove_reference_t<R>;
	using B  = std::remove_cv_t<NR>;
	if constexpr(std::is_void_v<R>) { return "To:Void"; }
	else if constexpr(base_cls<B>::name == nullptr) { return "To:Other"; }
	else if constexpr(std::is_same_v<B, int> && !std::is_reference_v<R>) { return "To:Val"; }
	else {
		std::string s = "To:";
		s += base_cls<B>::name;
		s += std::is_const_v<NR> ? ".c" : ".m";
		s += std::is_lvalue_reference_v<R> ? ".L" : ".R";
		return s;
	}
}
template<class T> struct type_c { using type = T; };
// language-level steps, through real declarations
template<class X> auto bind_ref_f (X (*get)()) { auto&&      x = get(); return type_c<decltype((x))>{}; }
template<class X> auto bind_cref_f(X (*get)()) { auto const& x = get(); return type_c<decltype((x))>{}; }
template<class X> using bind_ref_t  = typename decltype(bind_ref_f <X>(nullptr))::type;
template<class X> using bind_cref_t = typename decltype(bind_cref_f<X>(nullptr))::type;
namespace swap_ns { using std::swap; template<class A, class B> auto adl_swap_(A&& a, B&& b) -> decltype(swap(std::forward<A>(a), std::forward<B>(b))) { return swap(std::forward<A>(a), std::forward<B>(b)); } }
template<class A, class B> auto adl_swap(A&& a, B&& b) -> decltype(swap_ns::adl_swap_(std::forward<A>(a), std::forward<B>(b))) { return swap_ns::adl_swap_(std::forward<A>(a), std::forward<B>(b)); }
// type-level stand-ins for `auto&& x = e;` / `auto const& x = e;` followed by the name x, usable inside one expression
template<class T> auto bind_ref (T&& t) -> std::remove_reference_t<T>&       { return static_cast<std::remove_reference_t<T>&>(t); }
template<class T> auto bind_cref(T&& t) -> std::remove_reference_t<T> const& { return t; }
// forces code generation for an instantiated probe body, so that a member that is declared but never defined
// shows up as an undefined reference at link time
inline void (*volatile sink)() = nullptr;
template<class F> void keep(F f) { sink = reinterpret_cast<void (*)()>(f); }
inline void emit(char const* st, char const* op, std::string const& out) { std::printf("R %s %s %s\n", st, op, out.c_str()); }
}  // namespace c16
#endif
''')
    return "\n".join(L) + "\n"


def op_alias(op, kind, d):
    """alias-template name and definition for the detection idiom"""
    if op in ("CallAll",):
        name = "op_%s_%d" % (op, d)
    elif op in ("Assign", "Fill"):
        name = "op_%s_%s_%d" % (op, kind if kind in VIEW_KINDS + RANGE_KINDS else "x", d)
    else:
        name = "op_%s" % op
    if op == "BindRef":
        body = "c16::bind_ref_t<X>"
    elif op == "BindCRef":
        body = "c16::bind_cref_t<X>"
    else:
        body = "decltype((%s))" % expr_of(op, kind, d, "std::declval<X>()")
    return name, "template<class X> using %s = %s;" % (name, body)


def row_line(idx, st, op):
    """one line of C++ defining row_<idx>()"""
    name, _ = op_alias(op, st.kind, st.d)
    X = st.cxx()
    mut = op in MUTATOR_NAMES
    lang = op in ("BindRef", "BindCRef")
    if lang:
        inst = ""
    else:
        # instantiate the expression inside a body: X is a reference type, static_cast<X>(x) restores the category
        rt = rhs_type(op, st.kind, st.d)
        e = expr_of(op, st.kind, st.d, "static_cast<XX>(x)", "r")
        if op in ("Swap", "MSwap"):
            e = e.replace("static_cast<XX>(x), static_cast<XX>(x)", "static_cast<XX>(x), static_cast<XX>(y)")
            e = e.replace(".swap(static_cast<XX>(x))", ".swap(static_cast<XX>(y))")
            inst = " auto f = [](XX x, XX y) { (void)(%s); }; c16::keep(+f);" % e
        elif rt:
            inst = " auto f = [](XX x, %s r) { (void)(%s); }; c16::keep(+f);" % (rt, e)
        else:
            inst = " auto f = [](XX x) { (void)(%s); }; c16::keep(+f);" % e
    res = '"Mut"' if mut else "c16::classify<c16::detected_t<%s, XX>>()" % name
    return ("template<class XX> void row_%d() { if constexpr(c16::is_detected_v<%s, XX>) { c16::emit(\"%s\", \"%s\", %s);%s } "
            "else { c16::emit(\"%s\", \"%s\", \"No\"); } }"
            % (idx, name, st, op, res, inst, st, op))


def rows_tu(rows, pch_name="c16_common.hpp"):
    """rows: list of (State, op). Returns (text, {line number: row index})."""
    L = ['#include "%s"' % pch_name]
    aliases = {}
    for st, op in rows:
        n, d = op_alias(op, st.kind, st.d)
        aliases[n] = d
    for n in sorted(aliases):
        L.append(aliases[n])
    linemap = {}
    for i, (st, op) in enumerate(rows):
        L.append(row_line(i, st, op))
        linemap[len(L)] = i
    L.append("int main() {")
    for i, (st, op) in enumerate(rows):
        L.append("\trow_%d<%s>();" % (i, st.cxx()))
        linemap[len(L)] = i
    L.append("\treturn 0;")
    L.append("}")
    return "\n".join(L) + "\n", linemap


def single_row_tu(st, op, pch_name="c16_common.hpp"):
    """A TU that uses the expression of one row unconditionally: must fail to compile when the row is Hard
    (and also when it is No); compiles when the row is well-formed."""
    X = st.cxx()
    rt = rhs_type(op, st.kind, st.d)
    if op in ("BindRef", "BindCRef"):
        return '#include "%s"\nusing XX = %s;\nusing R = c16::%s<XX>;\nint main() { return 0; }\n' % (pch_name, X, "bind_ref_t" if op == "BindRef" else "bind_cref_t")
    e = expr_of(op, st.kind, st.d, "static_cast<XX>(x)", "r")
    if op in ("Swap", "MSwap"):
        e = e.replace("static_cast<XX>(x), static_cast<XX>(x)", "static_cast<XX>(x), static_cast<XX>(y)").replace(".swap(static_cast<XX>(x))", ".swap(static_cast<XX>(y))")
        return '#include "%s"\nusing XX = %s;\nvoid probe(XX x, XX y) { (void)(%s); }\nint main() { return 0; }\n' % (pch_name, X, e)
    if rt:
        return '#include "%s"\nusing XX = %s;\nvoid probe(XX x, %s r) { (void)(%s); }\nint main() { return 0; }\n' % (pch_name, X, rt, e)
    return '#include "%s"\nusing XX = %s;\nvoid probe(XX x) { (void)(%s); }\nint main() { return 0; }\n' % (pch_name, X, e)


def all_rows(kinds=None, ops=None, maxd=3):
    out = []
    for st in all_states(kinds, maxd):
        for op in (ops or OP_NAMES):
            if applicable(st.kind, op):
                out.append((st, op))
    return out


# ---------------------------------------------------------------------------------------------
# direct enumeration of access paths from the six kinds of root (independent of the model)
# ---------------------------------------------------------------------------------------------
ROOTS = [  # (name, const-rooted?, declaration template, expression)
    ("array", False),
    ("array_const", True),
    ("static_array", False),
    ("array_ref", False),
    ("view_fwd", False),        # auto&& v = A();
    ("view_cref", True),        # auto const& v = A();
]


def roots_header():
    """real declarations of the six kinds of root for D = 1..3; the root *types* used by the path probes are
    decltype((variable)) of these declarations."""
    L = ["namespace c16roots {"]
    for d in (1, 2, 3):
        ext = "{" + ", ".join(["3"] * d) + "}"
        L.append("inline multi::array<int, %d> A%d(multi::extensions_t<%d>%s, 0);" % (d, d, d, ext))
        L.append("inline multi::array<int, %d> const CA%d(multi::extensions_t<%d>%s, 0);" % (d, d, d, ext))
        L.append("inline multi::static_array<int, %d> SA%d(multi::extensions_t<%d>%s, 0);" % (d, d, d, ext))
        L.append("inline int buf%d[%d] = {};" % (d, 3 ** d))
        L.append("inline multi::array_ref<int, %d> AR%d(&buf%d[0], multi::extensions_t<%d>%s);" % (d, d, d, d, ext))
        L.append("inline multi::array<int, %d> VA%d(multi::extensions_t<%d>%s, 0);" % (d, d, d, ext))
        L.append("inline auto&& VF%d = VA%d();" % (d, d))
        L.append("inline auto const& VC%d = VA%d();" % (d, d))
        L.append("using T_array_%d = decltype((A%d));" % (d, d))
        L.append("using T_array_const_%d = decltype((CA%d));" % (d, d))
        L.append("using T_static_array_%d = decltype((SA%d));" % (d, d))
        L.append("using T_array_ref_%d = decltype((AR%d));" % (d, d))
        L.append("using T_view_fwd_%d = decltype((VF%d));" % (d, d))
        L.append("using T_view_cref_%d = decltype((VC%d));" % (d, d))
    L.append("}  // namespace c16roots")
    return "\n".join(L) + "\n"


ROOT_STATE = {"array": "Arr.%d.m.L", "array_const": "Arr.%d.c.L", "static_array": "SArr.%d.m.L",
              "array_ref": "ARef0.%d.m.L", "view_fwd": "Sub0.%d.m.L", "view_cref": "Sub0.%d.c.L"}


def path_expr(steps, x):
    """steps: list of (op, kind, d) -- kind/d of the receiver at that step (needed for CallAll and the mutators)."""
    e = x
    for op, kind, d in steps:
        if op == "BindRef":
            e = "c16::bind_ref(%s)" % e
        elif op == "BindCRef":
            e = "c16::bind_cref(%s)" % e
        else:
            e = "(" + expr_of(op, kind, d, e) + ")"
    return e


def paths_tu(paths, pch_name="c16_common.hpp"):
    """paths: list of (pid, root name, D, [(op, kind, d)...]).  Prints `P <pid> <classification or No>`."""
    L = ['#include "%s"' % pch_name]
    L.extend(roots_header().splitlines())
    L.append('template<class R> void emitp(char const* id) { std::printf("P %s %s\\n", id, c16::classify<R>().c_str()); }')
    linemap = {}
    for i, (pid, root, d, steps) in enumerate(paths):
        e = path_expr(steps, "std::declval<X>()")
        L.append("template<class X> using path_%d = decltype((%s)); template<class X> void prow_%d() { if constexpr(c16::is_detected_v<path_%d, X>) { emitp<path_%d<X>>(\"%s\"); } else { std::printf(\"P %s No\\n\"); } }"
                 % (i, e, i, i, i, pid, pid))
        linemap[len(L)] = i
    L.append("int main() {")
    for i, (pid, root, d, steps) in enumerate(paths):
        L.append("\tprow_%d<c16roots::T_%s_%d>();" % (i, root, d))
        linemap[len(L)] = i
    L.append("\treturn 0;\n}")
    return "\n".join(L) + "\n", linemap


if __name__ == "__main__":
    import sys
    rows = all_rows()
    print("states", len(all_states()), "rows", len(rows), file=sys.stderr)
    if len(sys.argv) > 1 and sys.argv[1] == "header":
        sys.stdout.write(common_header())
    elif len(sys.argv) > 1 and sys.argv[1] == "sample":
        txt, _ = rows_tu(rows[:60])
        sys.stdout.write(txt)

"""C16 -- generator of the compile-time probes that tie the const automaton (coq/Model/ConstAutomaton.v)
to the library, row by row, and of the direct enumeration of access paths.

Vocabulary (shared with the Coq model and ocaml/c16_driver.ml):

  state   Kind.D.c.cat      Kind in KINDS; D = dimensionality (0 for pointers / element references);
                            c = m|c (top-level const of the expression's type); cat = L|R (lvalue / rvalue)
  kind    <prefix>[<IsConst>]<pointer family>
            prefix          Arr SArr ARef Sub CSub It ER EI Cu Pt SP Elem ArrS
            pointer family  0 = int*           1 = int const*           M = move_ptr<int, int*>
                            TmR TmC TcC TmV TcV = transform_ptr<int, F, S*|S const* (m|c), int& | int const& | int (R|C|V)>
                                                  (any functor F; `int` and `int const` are one family: V)
                            S0 S1 = S*, S const*  (struct element S {int a; int b;}: only as the source of projections)
  op      one of OPS        an expression template over a receiver X
  outcome To:<state> | To:Val | To:Copy:<state> | To:Other | Mut | NoDef | No | Hard
            (To:Copy: a prvalue owning array, a detached copy; NoDef: accepted, but the member is only declared)

Each row (state, op) is turned into ONE line of C++ that (1) decides with the detection idiom whether
`EXPR(X)` is well-formed for X = std::declval<canonical type of the state>(), (2) classifies
decltype((EXPR)) back into a state by pattern matching on the library's class templates (functor-agnostic for
transform_ptr), (3) when well-formed, also instantiates the expression inside a function body, so that member
functions whose *declaration* is accepted but whose *body* does not compile are seen (as a compile error of
the TU, attributed to the row through its line number).  Rows whose outcome is `Hard` (ill-formed, but not a
substitution failure) are compiled alone and must fail.

Nothing here depends on the Coq model: the module only knows the vocabulary.  vlib/c16.py compares what
these probes print with what the extracted model prints.
"""
import re

INT = "int"

# ---------------------------------------------------------------------------------------------
# kinds and canonical C++ types
# ---------------------------------------------------------------------------------------------
PF_INT = ["0", "1"]
PF_TR = ["TmR", "TmC", "TcC", "TmV", "TcV"]
PF_MOVE = ["M"]
PF_S = ["S0", "S1"]
PF_ELEM_INT = PF_INT + PF_TR + PF_MOVE          # pointer families whose element type is int
PF_ALL = PF_ELEM_INT + PF_S

_KIND_RE = re.compile(r"^(ArrS|Arr|SArr|ARef|CSub|Sub|It|ER|EI|Cu|Pt|SP|Elem)([01])?(%s)?$" % "|".join(sorted(PF_ALL, key=len, reverse=True)))


def parse_kind(k):
    """-> (prefix, IsConst '0'|'1'|None, pointer family or None)"""
    if k in ("Arr", "SArr", "Elem", "ArrS"):
        return k, None, None
    for pre in ("ARef", "CSub", "Sub", "It", "ER", "EI", "Cu", "Pt", "SP"):
        if k.startswith(pre):
            rest = k[len(pre):]
            if pre in ("It", "SP"):
                if rest[:1] in ("0", "1") and rest[1:] in PF_ALL:
                    return pre, rest[0], rest[1:]
            elif rest in PF_ALL:
                return pre, None, rest
    raise ValueError(k)


def mk_kind(pre, c, pf):
    if pre in ("Arr", "SArr", "Elem", "ArrS"):
        return pre
    return pre + (c if pre in ("It", "SP") else "") + pf


def pf_of(k):
    """pointer family of a kind; the owning arrays are over int*"""
    pre, _c, pf = parse_kind(k)
    if pre in ("Arr", "SArr"):
        return "0"
    if pre == "ArrS":
        return "S0"
    return pf


PF_AREF = ["0", "1", "M"]                         # array_ref is produced over these only (array_ref::element_moved -> move_ptr)
VIEW_KINDS = ["Arr", "SArr"] + ["ARef" + f for f in PF_AREF] + [p + f for p in ("Sub", "CSub") for f in PF_ELEM_INT]
S_VIEW_KINDS = ["ArrS"] + [p + f for p in ("Sub", "CSub") for f in PF_S]
ITER_KINDS = ["It" + c + f for c in "01" for f in PF_ELEM_INT]      # It<IsConst><pointer family>
RANGE_KINDS = ["ER" + f for f in PF_ELEM_INT]                       # elements_range_t<ptr, layout_t<D>>
EITER_KINDS = ["EI" + f for f in PF_ELEM_INT]                       # elements_iterator_t
CURSOR_KINDS = ["Cu" + f for f in PF_ELEM_INT]                      # cursor_t
PTR_KINDS = ["Pt" + f for f in PF_ALL]                              # the element pointers themselves
SPTR_KINDS = ["SP" + c + f for c in "01" for f in PF_ELEM_INT]      # subarray_ptr<int, D, ptr, layout, IsConst>
VALUE_KINDS = ITER_KINDS + EITER_KINDS + CURSOR_KINDS + PTR_KINDS + SPTR_KINDS   # copyable handles: assigning/swapping them is not an array write
KINDS = VIEW_KINDS + S_VIEW_KINDS + ITER_KINDS + RANGE_KINDS + EITER_KINDS + CURSOR_KINDS + PTR_KINDS + SPTR_KINDS + ["Elem"]
DIM0_KINDS = PTR_KINDS + ["Elem"]

MAXD_CANON = 8     # canonical types are declared for D up to this (paths of depth 3 from D=3 reach D=6)


def is_old_kind(k):
    """the 25 kinds of the first version of the table (int*, int const*)"""
    pre, _c, pf = parse_kind(k)
    return pf in (None, "0", "1") and pre != "ArrS"


def ptr(pf):
    return {
        "0": "int*", "1": "int const*", "M": "multi::move_ptr<int, int*>",
        "TmR": "multi::transform_ptr<int, int c16::S::*, c16::S*, int&>",
        "TmC": "multi::transform_ptr<int, int c16::S::*, c16::S*, int const&>",
        "TcC": "multi::transform_ptr<int, int c16::S::*, c16::S const*, int const&>",
        "TmV": "multi::transform_ptr<int, c16::LV, c16::S*, int>",
        "TcV": "multi::transform_ptr<int, c16::LV, c16::S const*, int>",
        "S0": "c16::S*", "S1": "c16::S const*",
    }[pf]


def elem_of(pf):
    return "c16::S" if pf in PF_S else "int"


def base_type(kind, d):
    """C++ text of the unqualified canonical type of (kind, D)."""
    pre, c, pf = parse_kind(kind)
    if pre == "Arr":
        return "multi::array<int, %d>" % d
    if pre == "SArr":
        return "multi::static_array<int, %d>" % d
    if pre == "ArrS":
        return "multi::array<c16::S, %d>" % d
    if pre == "Elem":
        return "int"
    el, p = elem_of(pf), ptr(pf)
    if pre == "ARef":
        return "multi::array_ref<%s, %d, %s>" % (el, d, p)
    if pre == "Sub":
        return "multi::subarray<%s, %d, %s>" % (el, d, p)
    if pre == "CSub":
        return "multi::const_subarray<%s, %d, %s>" % (el, d, p)
    if pre == "It":
        return "typename multi::const_subarray<%s, %d, %s>::%s" % (el, d, p, "const_iterator" if c == "1" else "iterator")
    if pre == "ER":
        return "typename multi::const_subarray<%s, %d, %s>::elements_range" % (el, d, p)
    if pre == "EI":
        return "typename multi::const_subarray<%s, %d, %s>::elements_range::iterator" % (el, d, p)
    if pre == "Cu":
        return "typename multi::const_subarray<%s, %d, %s>::cursor" % (el, d, p)
    if pre == "Pt":
        return p
    if pre == "SP":
        return "multi::subarray_ptr<%s, %d, %s, multi::layout_t<%d>, %s>" % (el, d, p, d, "true" if c == "1" else "false")
    raise ValueError(kind)


def dims_of(kind, maxd=3):
    if kind in DIM0_KINDS:
        return [0]
    return list(range(1, maxd + 1))


class State:
    __slots__ = ("kind", "d", "c", "cat")

    def __init__(self, kind, d, c, cat):
        self.kind, self.d, self.c, self.cat = kind, int(d), c, cat

    @staticmethod
    def parse(txt):
        k, d, c, cat = txt.split(".")
        return State(k, int(d), c, cat)

    def __str__(self):
        return "%s.%d.%s.%s" % (self.kind, self.d, self.c, self.cat)

    def __eq__(self, o):
        return str(self) == str(o)

    def __hash__(self):
        return hash(str(self))

    def alias(self):
        return "B_%s_%d" % (self.kind, self.d)

    def cxx(self):
        """the reference type X such that std::declval<X>() is a representative expression of the state"""
        return "c16::%s%s%s" % (self.alias(), " const" if self.c == "c" else "", "&" if self.cat == "L" else "&&")


def all_states(kinds=None, maxd=3, maxd_new=None):
    """maxd_new: dimensionalities of the kinds over the pointer families added by the projections (default: maxd)"""
    out = []
    for k in (kinds or KINDS):
        md = maxd if (maxd_new is None or is_old_kind(k)) else maxd_new
        for d in dims_of(k, md):
            for c in "mc":
                for cat in "LR":
                    out.append(State(k, d, c, cat))
    return out


# ---------------------------------------------------------------------------------------------
# operations
# ---------------------------------------------------------------------------------------------
def ones(n):
    return ", ".join(["1"] * n)


# name -> expression template; X is the receiver expression; {D} the receiver's dimensionality.
ACCESS_OPS = [
    ("Index", "X[1]"),
    ("Call0", "X()"),
    ("Call1", "X(1)"),
    ("CallAll", None),            # X(1, ..., 1) with D arguments
    ("CallRng", "X({0, 2})"),
    ("CallRngIdx", "X({0, 2}, 1)"),
    ("CallIdxRng", "X(1, {0, 2})"),
    ("Begin", "X.begin()"),
    ("End", "X.end()"),
    ("CBegin", "X.cbegin()"),
    ("CEnd", "X.cend()"),
    ("Deref", "*X"),
    ("Plus1", "X + 1"),
    ("Elements", "X.elements()"),
    ("CElements", "X.celements()"),
    ("ConstElements", "X.const_elements()"),
    ("Home", "X.home()"),
    ("Front", "X.front()"),
    ("Back", "X.back()"),
    ("Sliced", "X.sliced(0, 2)"),
    ("SlicedS", "X.sliced(0, 2, 2)"),
    ("Strided", "X.strided(2)"),
    ("Taked", "X.taked(1)"),
    ("Dropped", "X.dropped(1)"),
    ("Rotated", "X.rotated()"),
    ("Unrotated", "X.unrotated()"),
    ("Transposed", "X.transposed()"),
    ("Tilde", "~X"),
    ("Reversed", "X.reversed()"),
    ("Diagonal", "X.diagonal()"),
    ("Partitioned", "X.partitioned(1)"),
    ("Chunked", "X.chunked(1)"),
    ("Halved", "X.halved()"),
    ("Flatted", "X.flatted()"),
    ("Reindexed", "X.reindexed(1)"),
    ("Blocked", "X.blocked(0, 2)"),
    ("Range", "X.range({0, 2})"),
    ("Stenciled", "X.stenciled({0, 2})"),
    ("Broadcasted", "X.broadcasted()"),
    ("AsConst", "X.as_const()"),
    ("Base", "X.base()"),
    ("DataElements", "X.data_elements()"),
    ("Origin", "X.origin()"),
    ("AddrOf", "&X"),
    ("AddressOf", "X.addressof()"),
    ("Arrow", "X.operator->()"),
]
# (a) projections
PROJ_OPS = [
    ("ETransMP", "X.element_transformed(&c16::S::b)"),          # member pointer
    ("ETransLR", "X.element_transformed(c16::LR{})"),           # S& -> int&
    ("ETransLC", "X.element_transformed(c16::LC{})"),           # S const& -> int const&
    ("ETransLV", "X.element_transformed(c16::LV{})"),           # S const& -> int
    ("MemberCast", "X.template member_cast<int>(&c16::S::b)"),
    ("ReinterpretN", "X.template reinterpret_array_cast<int>(2)"),
    ("Reinterpret", "X.template reinterpret_array_cast<int>()"),
    ("StaticCast", "X.template static_array_cast<int>()"),
    ("StaticCastC", "X.template static_array_cast<int const>()"),
    ("ConstCast", "X.const_array_cast()"),
    ("ElementMoved", "X.element_moved()"),
    ("Moved", "X.move()"),
]
# (c) other members through which a handle gives access to elements
MISC_OPS = [
    ("MutableBase", "X.mutable_base()"),
    ("CBase", "X.cbase()"),
    ("ElementsAt", "X.elements_at(0)"),
    ("Apply", None),              # X.apply(std::make_tuple(1, ..., 1))
    ("Data", "X.data()"),
]
# (b) conversions.  Handles (iterator, subarray_ptr, elements iterator, cursor, element pointer): Cv<form><IsConst'><pointer'>
#     form I = implicit (copy-initialisation of a parameter), E = explicit (static_cast<T>), A = assignment to an lvalue T;
#     the target T is the handle of the same family with IsConst' in {0, 1} and the pointer in its mutable (m) / const (c) variant.
CONV_FORMS = "IEA"
CONV_OPS = [("Cv%s%s%s" % (f, c, p), None) for f in CONV_FORMS for c in "01" for p in "mc"]
CMP_OPS = [("EqM", None), ("EqC", None)]     # X == (mutable handle), X == (const handle / handle over the const pointer)
#     Views: To<Sub|CSub|ARef><form><pointer'>, form I | E (construction; assignment to a view is the mutator Assign)
VCONV_TARGETS = ["Sub", "CSub", "ARef"]
VCONV_OPS = [("To%s%s%s" % (t, f, p), None) for t in VCONV_TARGETS for f in "IE" for p in "mc"]
DECAY_OPS = [("UPlus", "+X"), ("Decay", "X.decay()"), ("ToArr", None)]      # copies into an owning array

LANG_OPS = [("Move", None), ("BindRef", None), ("BindCRef", None)]      # language-level steps
MUTATOR_OPS = [("Assign", None), ("Fill", None), ("Swap", None), ("MSwap", None)]
NEW_OPS = PROJ_OPS + MISC_OPS + CONV_OPS + CMP_OPS + VCONV_OPS + DECAY_OPS
OPS = ACCESS_OPS + NEW_OPS + LANG_OPS + MUTATOR_OPS
OP_NAMES = [n for n, _ in OPS]
ACCESS_NAMES = [n for n, _ in ACCESS_OPS + NEW_OPS]
OLD_ACCESS_NAMES = [n for n, _ in ACCESS_OPS]
LANG_NAMES = [n for n, _ in LANG_OPS]
MUTATOR_NAMES = [n for n, _ in MUTATOR_OPS]
CONV_NAMES = [n for n, _ in CONV_OPS]
CMP_NAMES = [n for n, _ in CMP_OPS]
VCONV_NAMES = [n for n, _ in VCONV_OPS]
DECAY_NAMES = [n for n, _ in DECAY_OPS]
PROJ_NAMES = [n for n, _ in PROJ_OPS]
S_SOURCE_OPS = ["ETransMP", "ETransLR", "ETransLC", "ETransLV", "MemberCast", "ReinterpretN"]   # defined for struct elements only
OP_EXPR = dict(OPS)

# ops that are *meant* to yield a read-only result from a mutable receiver
CONST_MAKING = {"CBegin", "CEnd", "CElements", "ConstElements", "AsConst", "BindCRef", "CBase", "StaticCastC"}
# the operations of a struct-element array / view that are modelled (it is only the source of the projections)
S_KIND_OPS = set(["Index", "Call0", "AsConst", "Base", "Move", "BindRef", "BindCRef", "ConstCast"] + S_SOURCE_OPS)
# what S*, S const* support in the model
S_PTR_OPS = {"Deref", "Index", "Plus1", "Move", "BindRef", "BindCRef", "AddrOf"}


def pf_variant(pf, which):
    """the mutable (m) / const (c) variant of a pointer family, as used by the conversion targets"""
    if which == "m":
        return {"0": "0", "1": "0", "TmR": "TmR", "TmC": "TmR", "TcC": "TcC", "TmV": "TmV", "TcV": "TcV", "M": "M", "S0": "S0", "S1": "S0"}[pf]
    return {"0": "1", "1": "1", "TmR": "TmC", "TmC": "TmC", "TcC": "TcC", "TmV": "TmV", "TcV": "TcV", "M": "1", "S0": "S1", "S1": "S1"}[pf]


def conv_target(kind, op):
    """kind of the target type of a conversion / comparison op for a receiver of this kind; None: not defined"""
    pre, c, pf = parse_kind(kind)
    if pf_of(kind) in ("TmV", "TcV"):
        return None     # `int` and `int const` references are one family: the canonical target type is not the type of every member
    if op in CONV_NAMES or op in CMP_NAMES:
        if pre not in ("It", "SP", "EI", "Cu", "Pt") or pf in PF_S:
            return None
        if op in CMP_NAMES:
            if pre in ("It", "SP"):
                return mk_kind(pre, "0" if op == "EqM" else "1", pf_variant(pf, "m"))
            return mk_kind(pre, None, pf_variant(pf, "m" if op == "EqM" else "c"))
        c2, p2 = op[3], op[4]
        if pre in ("It", "SP"):
            return mk_kind(pre, c2, pf_variant(pf, p2))
        if c2 == "1":
            return None
        return mk_kind(pre, None, pf_variant(pf, p2))
    if op in VCONV_NAMES:
        if kind not in VIEW_KINDS:
            return None
        m = re.match(r"^To(Sub|CSub|ARef)([IE])([mc])$", op)
        t = mk_kind(m.group(1), None, pf_variant(pf_of(kind), m.group(3)))
        return t if t in VIEW_KINDS else None
    return None


def conv_form(op):
    if op in CONV_NAMES:
        return op[2]
    if op in VCONV_NAMES:
        return op[-2]
    return None


def applicable(kind, op):
    """Rows outside the modelled fragment (outcome NA in the model, no row here):
    - Swap/MSwap/Assign of a copyable handle re-seats the handle, it does not write array elements;
    - a conversion op on a receiver for which the target type is not defined;
    - struct-element arrays / views / pointers: only the operations they are modelled with; the struct-only projections elsewhere."""
    pre, c, pf = parse_kind(kind)
    if op in ("Swap", "MSwap", "Assign") and kind in VALUE_KINDS:
        return False
    if op in CONV_NAMES or op in CMP_NAMES or op in VCONV_NAMES:
        return conv_target(kind, op) is not None
    if kind in S_VIEW_KINDS:
        return op in S_KIND_OPS
    if pf in PF_S:      # PtS0, PtS1
        return op in S_PTR_OPS
    if op in S_SOURCE_OPS:
        return False
    if op in ("ToArr", "UPlus", "Decay"):
        return kind in VIEW_KINDS
    if op == "Reinterpret":         # reinterpret_pointer_cast is defined for raw pointers only
        return kind in VIEW_KINDS and pf_of(kind) in PF_INT
    return True


def rhs_type(op, kind, d):
    """type of the right-hand side / argument object of a mutator or of a conversion (None: a literal is used)"""
    if op == "Assign":
        if kind in VIEW_KINDS:
            return "multi::array<int, %d> const&" % d
        if kind in RANGE_KINDS:
            return "multi::subarray<int, %d, int*>&" % d
    if op == "Fill" and kind in VIEW_KINDS and d >= 2:
        return "multi::array<int, %d> const&" % (d - 1)      # fill(v) assigns v to every (D-1)-dimensional item
    if op in CONV_NAMES and op[2] == "A":
        return "c16::B_%s_%d&" % (conv_target(kind, op), d)
    if op in CMP_NAMES:
        return "c16::B_%s_%d const&" % (conv_target(kind, op), d)
    return None


def rhs_expr(op, kind, d, r):
    """r: expression text of an object of rhs_type (std::declval<..>() in unevaluated context, a parameter in a body)"""
    if rhs_type(op, kind, d) is None:
        return "1"
    if op == "Assign" and kind in RANGE_KINDS:
        return r + ".elements()"
    return r


def expr_of(op, kind, d, x, r=None, body=False):
    """C++ expression text of `op` applied to the receiver expression text x (already parenthesised if needed);
    r = expression of the argument object of a mutator (default: std::declval of its type).  body: the text is
    going to be evaluated inside a function body (no std::declval)."""
    if r is None and rhs_type(op, kind, d):
        r = "std::declval<%s>()" % rhs_type(op, kind, d)
    if op == "CallAll":
        return "%s(%s)" % (x, ones(max(d, 1)))
    if op == "Apply":
        return "%s.apply(std::make_tuple(%s))" % (x, ones(max(d, 1)))
    if op == "Move":
        return "std::move(%s)" % x
    if op == "Assign":
        return "%s = %s" % (x, rhs_expr(op, kind, d, r))
    if op == "Fill":
        return "%s.fill(%s)" % (x, rhs_expr(op, kind, d, r))
    if op == "Swap":
        return "c16::adl_swap(%s, %s)" % (x, x)
    if op == "MSwap":
        return "%s.swap(%s)" % (x, x)
    if op == "ToArr":
        return "multi::array<int, %d>(%s)" % (d, x)
    if op in CMP_NAMES:
        return "%s == %s" % (x, r)
    form = conv_form(op)
    if form:
        t = "c16::B_%s_%d" % (conv_target(kind, op), d)
        if form == "I":
            if body:
                return "c16::accept<%s>(%s)" % (t, x)
            return "c16::accept<%s>(%s), std::declval<%s>()" % (t, x, t)
        if form == "E":
            return "static_cast<%s>(%s)" % (t, x)
        return "%s = %s" % (r, x)
    t = OP_EXPR[op]
    if t is None:
        raise ValueError(op)
    if t.startswith("X"):
        return x + t[1:]
    return t.replace("X", x)


# ---------------------------------------------------------------------------------------------
# common header (written next to the generated TUs; precompiled)
# ---------------------------------------------------------------------------------------------
def kind_dims_canon(k):
    if k in DIM0_KINDS:
        return [0]
    pre, _c, _pf = parse_kind(k)
    return ([0] if pre in ("Sub", "CSub") else []) + list(range(1, MAXD_CANON + 1))


def common_header():
    L = []
    a = L.append
    a("// generated by gen/const_probes.py -- do not edit")
    a("#ifndef C16_COMMON_HPP")
    a("#define C16_COMMON_HPP")
    a("#include <boost/multi/array.hpp>")
    a("#include <cstdio>")
    a("#include <tuple>")
    a("#include <type_traits>")
    a("#include <utility>")
    a("#include <string>")
    a("namespace multi = boost::multi;")
    a("namespace c16 {")
    a("struct S { int a; int b; };                                                   // the struct element of the projection sources")
    a("struct LR { int&       operator()(S&       s) const { return s.b; } };         // reference-returning functor (mutable elements only)")
    a("struct LC { int const& operator()(S const& s) const { return s.b; } };         // const-reference-returning functor")
    a("struct LV { int        operator()(S const& s) const { return s.b; } };         // value-returning functor")
    for k in KINDS:
        for d in kind_dims_canon(k):
            bt = base_type(k, d)
            a("using B_%s_%d = %s;" % (k, d, bt.replace("typename ", "")))
    a(r'''
// pointer family of an element pointer type (functor-agnostic for transform_ptr)
template<class P> struct pf { static constexpr const char* n = nullptr; };
template<> struct pf<int*>       { static constexpr const char* n = "0"; };
template<> struct pf<int const*> { static constexpr const char* n = "1"; };
template<> struct pf<S*>         { static constexpr const char* n = "S0"; };
template<> struct pf<S const*>   { static constexpr const char* n = "S1"; };
template<> struct pf<multi::move_ptr<int, int*>> { static constexpr const char* n = "M"; };
template<class F> struct pf<multi::transform_ptr<int, F, S*,       int&>>       { static constexpr const char* n = "TmR"; };
template<class F> struct pf<multi::transform_ptr<int, F, S*,       int const&>> { static constexpr const char* n = "TmC"; };
template<class F> struct pf<multi::transform_ptr<int, F, S const*, int const&>> { static constexpr const char* n = "TcC"; };
template<class F> struct pf<multi::transform_ptr<int, F, S*,       int>>        { static constexpr const char* n = "TmV"; };
template<class F> struct pf<multi::transform_ptr<int, F, S*,       int const>>  { static constexpr const char* n = "TmV"; };
template<class F> struct pf<multi::transform_ptr<int, F, S const*, int>>        { static constexpr const char* n = "TcV"; };
template<class F> struct pf<multi::transform_ptr<int, F, S const*, int const>>  { static constexpr const char* n = "TcV"; };
template<class E> struct el { static constexpr bool ok = false; };
template<> struct el<int> { static constexpr bool ok = true; };
template<> struct el<S>   { static constexpr bool ok = true; };
// kind descriptor of an unqualified type: prefix, IsConst digit, pointer family, dimensionality
template<class T, class = void> struct kd { static constexpr const char* pre = nullptr; static constexpr const char* c = ""; static constexpr const char* p = ""; static constexpr long d = 0; };
template<> struct kd<int> { static constexpr const char* pre = "Elem"; static constexpr const char* c = ""; static constexpr const char* p = ""; static constexpr long d = 0; };
template<class P> struct kd<P, std::enable_if_t<pf<P>::n != nullptr>> { static constexpr const char* pre = "Pt"; static constexpr const char* c = ""; static constexpr const char* p = pf<P>::n; static constexpr long d = 0; };
template<multi::dimensionality_type D> struct kd<multi::array<int, D>>        { static constexpr const char* pre = "Arr";  static constexpr const char* c = ""; static constexpr const char* p = ""; static constexpr long d = D; };
template<multi::dimensionality_type D> struct kd<multi::static_array<int, D>> { static constexpr const char* pre = "SArr"; static constexpr const char* c = ""; static constexpr const char* p = ""; static constexpr long d = D; };
template<multi::dimensionality_type D> struct kd<multi::array<S, D>>          { static constexpr const char* pre = "ArrS"; static constexpr const char* c = ""; static constexpr const char* p = ""; static constexpr long d = D; };
template<class E, multi::dimensionality_type D, class P> struct kd<multi::array_ref<E, D, P>, std::enable_if_t<el<E>::ok>>      { static constexpr const char* pre = "ARef"; static constexpr const char* c = ""; static constexpr const char* p = pf<P>::n; static constexpr long d = D; };
template<class E, multi::dimensionality_type D, class P> struct kd<multi::subarray<E, D, P>, std::enable_if_t<el<E>::ok>>       { static constexpr const char* pre = "Sub";  static constexpr const char* c = ""; static constexpr const char* p = pf<P>::n; static constexpr long d = D; };
template<class E, multi::dimensionality_type D, class P> struct kd<multi::const_subarray<E, D, P>, std::enable_if_t<el<E>::ok>> { static constexpr const char* pre = "CSub"; static constexpr const char* c = ""; static constexpr const char* p = pf<P>::n; static constexpr long d = D; };
template<multi::dimensionality_type D, class P, bool C> struct kd<multi::array_iterator<int, D, P, C>> { static constexpr const char* pre = "It"; static constexpr const char* c = C ? "1" : "0"; static constexpr const char* p = pf<P>::n; static constexpr long d = D; };
template<multi::dimensionality_type D, class P, bool C> struct kd<multi::subarray_ptr<int, D, P, multi::layout_t<D>, C>> { static constexpr const char* pre = "SP"; static constexpr const char* c = C ? "1" : "0"; static constexpr const char* p = pf<P>::n; static constexpr long d = D; };
template<class P, multi::dimensionality_type D> struct kd<multi::elements_range_t<P, multi::layout_t<D>>>    { static constexpr const char* pre = "ER"; static constexpr const char* c = ""; static constexpr const char* p = pf<P>::n; static constexpr long d = D; };
template<class P, multi::dimensionality_type D> struct kd<multi::elements_iterator_t<P, multi::layout_t<D>>> { static constexpr const char* pre = "EI"; static constexpr const char* c = ""; static constexpr const char* p = pf<P>::n; static constexpr long d = D; };
template<class P, multi::dimensionality_type D, class St> struct kd<multi::cursor_t<P, D, St>>               { static constexpr const char* pre = "Cu"; static constexpr const char* c = ""; static constexpr const char* p = pf<P>::n; static constexpr long d = D; };

template<class...> using void_t = void;
template<class, template<class> class Op, class X> struct detector : std::false_type { using type = void; };
template<template<class> class Op, class X> struct detector<void_t<Op<X>>, Op, X> : std::true_type { using type = Op<X>; };
template<template<class> class Op, class X> inline constexpr bool is_detected_v = detector<void, Op, X>::value;
template<template<class> class Op, class X> using detected_t = typename detector<void, Op, X>::type;

// classification of decltype((expr)): R is T (prvalue), T& (lvalue) or T&& (xvalue)
template<class R> std::string classify() {
	using NR = std::remove_reference_t<R>;
	using B  = std::remove_cv_t<NR>;
	if constexpr(std::is_void_v<R>) { return "To:Void"; }
	else if constexpr(kd<B>::pre == nullptr || kd<B>::p == nullptr) { return "To:Other"; }
	else if constexpr(std::is_same_v<B, int> && !std::is_reference_v<R>) { return "To:Val"; }
	else {
		std::string k = kd<B>::pre;
		// S-element kinds exist only as subarray / const_subarray / pointer / array
		if(std::string(kd<B>::p).substr(0, 1) == "S" && k != "Sub" && k != "CSub" && k != "Pt") { return "To:Other"; }
		std::string s = "To:";
		if((k == "Arr" || k == "SArr" || k == "ArrS") && !std::is_reference_v<R>) { s += "Copy:"; }   // a prvalue owning array: a detached copy
		s += k; s += kd<B>::c; s += kd<B>::p; s += "."; s += std::to_string(kd<B>::d);
		s += std::is_const_v<NR> ? ".c" : ".m";
		s += std::is_lvalue_reference_v<R> ? ".L" : ".R";
		return s;
	}
}
template<class T> struct type_c { using type = T; };
// language-level steps, through real declarations
template<class X> auto bind_ref_f (X (*get)()) { auto&&      x = get(); return type_c<decltype((x))>{}; }
template<class X> auto bind_cref_f(X (*get)()) { auto const& x = get(); return type_c<decltype((x))>{}; }
template<class X> using bind_ref_t  = typename decltype(bind_ref_f <X>(nullptr))::type;
template<class X> using bind_cref_t = typename decltype(bind_cref_f<X>(nullptr))::type;
namespace swap_ns { using std::swap; template<class A, class B> auto adl_swap_(A&& a, B&& b) -> decltype(swap(std::forward<A>(a), std::forward<B>(b))) { return swap(std::forward<A>(a), std::forward<B>(b)); } }
template<class A, class B> auto adl_swap(A&& a, B&& b) -> decltype(swap_ns::adl_swap_(std::forward<A>(a), std::forward<B>(b))) { return swap_ns::adl_swap_(std::forward<A>(a), std::forward<B>(b)); }
// type-level stand-ins for `auto&& x = e;` / `auto const& x = e;` followed by the name x, usable inside one expression
template<class T> auto bind_ref (T&& t) -> std::remove_reference_t<T>&       { return static_cast<std::remove_reference_t<T>&>(t); }
template<class T> auto bind_cref(T&& t) -> std::remove_reference_t<T> const& { return t; }
// implicit conversion to T: copy-initialisation of a by-value parameter (the argument is converted at the call site)
template<class T> void accept(T) {}
// forces code generation for an instantiated probe body, so that a member that is declared but never defined
// shows up as an undefined reference at link time
inline void (*volatile sink)() = nullptr;
template<class F> void keep(F f) { sink = reinterpret_cast<void (*)()>(f); }
inline void emit(char const* st, char const* op, std::string const& out) { std::printf("R %s %s %s\n", st, op, out.c_str()); }
}  // namespace c16
#endif
''')
    return "\n".join(L) + "\n"


def op_alias(op, kind, d):
    """alias-template name and definition for the detection idiom"""
    if op in ("CallAll", "Apply", "ToArr"):
        name = "op_%s_%d" % (op, d)
    elif op in ("Assign", "Fill"):
        name = "op_%s_%s_%d" % (op, kind if kind in VIEW_KINDS + RANGE_KINDS else "x", d)
    elif conv_form(op) or op in CMP_NAMES:
        name = "op_%s_%s_%d" % (op, conv_target(kind, op), d)
    else:
        name = "op_%s" % op
    if op == "BindRef":
        body = "c16::bind_ref_t<X>"
    elif op == "BindCRef":
        body = "c16::bind_cref_t<X>"
    else:
        body = "decltype((%s))" % expr_of(op, kind, d, "std::declval<X>()")
    return name, "template<class X> using %s = %s;" % (name, body)


def body_expr(st, op):
    """(parameter list, expression) of the function body that instantiates the row's expression"""
    rt = rhs_type(op, st.kind, st.d)
    e = expr_of(op, st.kind, st.d, "static_cast<XX>(x)", "r", body=True)
    if op in ("Swap", "MSwap"):
        e = e.replace("static_cast<XX>(x), static_cast<XX>(x)", "static_cast<XX>(x), static_cast<XX>(y)")
        e = e.replace(".swap(static_cast<XX>(x))", ".swap(static_cast<XX>(y))")
        return "XX x, XX y", e
    if rt:
        return "XX x, %s r" % rt, e
    return "XX x", e


def row_line(idx, st, op):
    """one line of C++ defining row_<idx>()"""
    name, _ = op_alias(op, st.kind, st.d)
    mut = op in MUTATOR_NAMES
    lang = op in ("BindRef", "BindCRef")
    if lang:
        inst = ""
    else:
        # instantiate the expression inside a body: X is a reference type, static_cast<X>(x) restores the category
        params, e = body_expr(st, op)
        inst = " auto f = [](%s) { (void)(%s); }; c16::keep(+f);" % (params, e)
    res = '"Mut"' if mut else "c16::classify<c16::detected_t<%s, XX>>()" % name
    return ("template<class XX> void row_%d() { if constexpr(c16::is_detected_v<%s, XX>) { c16::emit(\"%s\", \"%s\", %s);%s } "
            "else { c16::emit(\"%s\", \"%s\", \"No\"); } }"
            % (idx, name, st, op, res, inst, st, op))


def rows_tu(rows, pch_name="c16_common.hpp"):
    """rows: list of (State, op). Returns (text, {line number: row index})."""
    L = ['#include "%s"' % pch_name]
    aliases = {}
    for st, op in rows:
        n, d = op_alias(op, st.kind, st.d)
        aliases[n] = d
    for n in sorted(aliases):
        L.append(aliases[n])
    linemap = {}
    for i, (st, op) in enumerate(rows):
        L.append(row_line(i, st, op))
        linemap[len(L)] = i
    L.append("int main() {")
    for i, (st, op) in enumerate(rows):
        L.append("\trow_%d<%s>();" % (i, st.cxx()))
        linemap[len(L)] = i
    L.append("\treturn 0;")
    L.append("}")
    return "\n".join(L) + "\n", linemap


def single_row_tu(st, op, pch_name="c16_common.hpp"):
    """A TU that uses the expression of one row unconditionally: must fail to compile when the row is Hard
    (and also when it is No); compiles when the row is well-formed."""
    X = st.cxx()
    if op in ("BindRef", "BindCRef"):
        return '#include "%s"\nusing XX = %s;\nusing R = c16::%s<XX>;\nint main() { return 0; }\n' % (pch_name, X, "bind_ref_t" if op == "BindRef" else "bind_cref_t")
    params, e = body_expr(st, op)
    return '#include "%s"\nusing XX = %s;\nvoid probe(%s) { (void)(%s); }\nint main() { return 0; }\n' % (pch_name, X, params, e)


def must_fail_tu(rows, pch_name="c16_common.hpp"):
    """A TU with one ordinary function per row, each on its own line, that uses the row's expression unconditionally.
    Compiled with -fsyntax-only -fmax-errors=0: a row whose line gets an error is ill-formed; a row whose line gets none
    has to be compiled alone (an error inside a template that an earlier row already instantiated is reported once)."""
    L = ['#include "%s"' % pch_name]
    linemap = {}
    for i, (st, op) in enumerate(rows):
        if op in ("BindRef", "BindCRef"):
            L.append("using R_%d = c16::%s<%s>;" % (i, "bind_ref_t" if op == "BindRef" else "bind_cref_t", st.cxx()))
        else:
            params, e = body_expr(st, op)
            xx = "XX_%d" % i
            L.append("using %s = %s; void probe_%d(%s) { (void)(%s); }" % (xx, st.cxx(), i, re.sub(r"\bXX\b", xx, params), re.sub(r"\bXX\b", xx, e)))
        linemap[len(L)] = i
    L.append("int main() { return 0; }")
    return "\n".join(L) + "\n", linemap


def all_rows(kinds=None, ops=None, maxd=3, maxd_new=None):
    out = []
    for st in all_states(kinds, maxd, maxd_new):
        for op in (ops or OP_NAMES):
            if applicable(st.kind, op):
                out.append((st, op))
    return out


# ---------------------------------------------------------------------------------------------
# direct enumeration of access paths from the roots (independent of the model)
# ---------------------------------------------------------------------------------------------
ROOTS = [  # (name, const-rooted?)
    ("array", False),
    ("array_const", True),
    ("static_array", False),
    ("array_ref", False),
    ("view_fwd", False),        # auto&& v = A();
    ("view_cref", True),        # auto const& v = A();
    # the same kinds of root for the projections: a struct-element array and its projection views
    ("arrayS", False),          # multi::array<S, D>
    ("arrayS_const", True),
    ("proj_fwd", False),        # auto&& p = AS.element_transformed(&S::b);
    ("proj_cref", True),        # auto const& cp = p;
    ("moved_fwd", False),       # auto&& m = A().element_moved();
    ("moved_cref", True),       # auto const& cm = m;
]
OLD_ROOTS = ["array", "array_const", "static_array", "array_ref", "view_fwd", "view_cref"]


def roots_header():
    """real declarations of the roots for D = 1..3; the root *types* used by the path probes are
    decltype((variable)) of these declarations."""
    L = ["namespace c16roots {"]
    for d in (1, 2, 3):
        ext = "{" + ", ".join(["3"] * d) + "}"
        L.append("inline multi::array<int, %d> A%d(multi::extensions_t<%d>%s, 0);" % (d, d, d, ext))
        L.append("inline multi::array<int, %d> const CA%d(multi::extensions_t<%d>%s, 0);" % (d, d, d, ext))
        L.append("inline multi::static_array<int, %d> SA%d(multi::extensions_t<%d>%s, 0);" % (d, d, d, ext))
        L.append("inline int buf%d[%d] = {};" % (d, 3 ** d))
        L.append("inline multi::array_ref<int, %d> AR%d(&buf%d[0], multi::extensions_t<%d>%s);" % (d, d, d, d, ext))
        L.append("inline multi::array<int, %d> VA%d(multi::extensions_t<%d>%s, 0);" % (d, d, d, ext))
        L.append("inline auto&& VF%d = VA%d();" % (d, d))
        L.append("inline auto const& VC%d = VA%d();" % (d, d))
        L.append("inline multi::array<c16::S, %d> AS%d(multi::extensions_t<%d>%s, c16::S{1, 2});" % (d, d, d, ext))
        L.append("inline multi::array<c16::S, %d> const CAS%d(multi::extensions_t<%d>%s, c16::S{1, 2});" % (d, d, d, ext))
        L.append("inline auto&& PF%d = AS%d.element_transformed(&c16::S::b);" % (d, d))
        L.append("inline auto const& PC%d = PF%d;" % (d, d))
        L.append("inline auto&& MF%d = VA%d().element_moved();" % (d, d))
        L.append("inline auto const& MC%d = MF%d;" % (d, d))
        for name, var in (("array", "A"), ("array_const", "CA"), ("static_array", "SA"), ("array_ref", "AR"), ("view_fwd", "VF"),
                          ("view_cref", "VC"), ("arrayS", "AS"), ("arrayS_const", "CAS"), ("proj_fwd", "PF"), ("proj_cref", "PC"),
                          ("moved_fwd", "MF"), ("moved_cref", "MC")):
            L.append("using T_%s_%d = decltype((%s%d));" % (name, d, var, d))
    L.append("}  // namespace c16roots")
    return "\n".join(L) + "\n"


ROOT_STATE = {"array": "Arr.%d.m.L", "array_const": "Arr.%d.c.L", "static_array": "SArr.%d.m.L",
              "array_ref": "ARef0.%d.m.L", "view_fwd": "Sub0.%d.m.L", "view_cref": "Sub0.%d.c.L",
              "arrayS": "ArrS.%d.m.L", "arrayS_const": "ArrS.%d.c.L", "proj_fwd": "SubTmR.%d.m.L", "proj_cref": "SubTmR.%d.c.L",
              "moved_fwd": "SubM.%d.m.L", "moved_cref": "SubM.%d.c.L"}


def path_expr(steps, x):
    """steps: list of (op, kind, d) -- kind/d of the receiver at that step (needed for CallAll, the conversions and the mutators)."""
    e = x
    for op, kind, d in steps:
        if op == "BindRef":
            e = "c16::bind_ref(%s)" % e
        elif op == "BindCRef":
            e = "c16::bind_cref(%s)" % e
        else:
            e = "(" + expr_of(op, kind, d, e) + ")"
    return e


def paths_tu(paths, pch_name="c16_common.hpp"):
    """paths: list of (pid, root name, D, [(op, kind, d)...]).  Prints `P <pid> <classification or No>`."""
    L = ['#include "%s"' % pch_name]
    L.extend(roots_header().splitlines())
    L.append('template<class R> void emitp(char const* id) { std::printf("P %s %s\\n", id, c16::classify<R>().c_str()); }')
    linemap = {}
    for i, (pid, root, d, steps) in enumerate(paths):
        e = path_expr(steps, "std::declval<X>()")
        L.append("template<class X> using path_%d = decltype((%s)); template<class X> void prow_%d() { if constexpr(c16::is_detected_v<path_%d, X>) { emitp<path_%d<X>>(\"%s\"); } else { std::printf(\"P %s No\\n\"); } }"
                 % (i, e, i, i, i, pid, pid))
        linemap[len(L)] = i
    L.append("int main() {")
    for i, (pid, root, d, steps) in enumerate(paths):
        L.append("\tprow_%d<c16roots::T_%s_%d>();" % (i, root, d))
        linemap[len(L)] = i
    L.append("\treturn 0;\n}")
    return "\n".join(L) + "\n", linemap


if __name__ == "__main__":
    import sys
    rows = all_rows()
    print("kinds", len(KINDS), "ops", len(OP_NAMES), "states", len(all_states()), "rows", len(rows), file=sys.stderr)
    if len(sys.argv) > 1 and sys.argv[1] == "header":
        sys.stdout.write(common_header())
    elif len(sys.argv) > 1 and sys.argv[1] == "sample":
        txt, _ = rows_tu(rows[:60])
        sys.stdout.write(txt)

#!/usr/bin/env python3
"""Regenerates corpus/C12/followup2_*.prog (FOLLOW-UP 2 of notes/REPORT_C12.md): deterministic cases for
 (a) iterator walks, mostly backwards, on every projected view kind, and walks of the element pointer base() itself
     (seed C12-s4: transform_ptr::operator-=),
 (b) projections of sources with non-zero index bases (seed C12-s5: as_const() from origin()),
 (c) every conversion kind the harness can express, on zero-based and re-based sources (seed C12-s6: the explicit
     converting constructor from a const array_ref restarted the leading index range).
Candidates are written generously; a case the model declares out of the documented domain (an X line) is dropped.
Run from the verif root:  python3 notes/c12_make_corpus.py"""
import os
import re
import sys

sys.path.insert(0, os.getcwd())
from vlib import c12, core  # noqa: E402

FLAGS_ALL = {n: True for n in c12.PROBES}   # domain of the FIXED library; the check filters by what compiles

ROOTS = [
    ("S", [(0, 5)]), ("S", [(2, 8)]), ("Z", [(-3, 2)]),
    ("S", [(0, 4), (0, 5)]), ("S", [(1, 5), (-2, 3)]), ("Z", [(-1, 3), (2, 6)]),
    ("S", [(0, 4), (0, 2), (0, 4)]), ("S", [(-2, 2), (1, 3), (3, 7)]),
]
PRE = [[], ["sliced A A+3"], ["strided 2"], ["reindexed 2"]]
PROJ = ["tval", "tmem", "tref", "static", "asconst", "constcast", "member_a", "member_b", "member_c", "reint_R", "reint_Q",
        "reint_I", "c_reint_I", "c_reint_Q", "reintn_I 4", "reintn_D 2", "zreal", "zimag", "zdoubled", "reint_C", "reint_D",
        "c_tval", "r_tmem", "t_tref", "r_asconst", "t_constcast", "c_member_b", "r_static"]
WALKS = [
    "lead e -- p-- -= 1 [] 0 + 2 r r+ 1 - 1",
    "lead e - 1 r -- ++ -= 2",
    "lead b + 3 -- -= 1 r[] 0 - 1 p--",
    "lead ce -- -- r",
    "row R e -- -= 1 r - 1",
    "row R ce -- p--",
    "flat e -- -= 2 - 1 r [] 1 += 2 r+ 1",
    "flat ce -- -= 1 r[] 0",
    "flat b ++ += 3 -- p-- - 1",
    "ptr 3 e -= 1 - 2 + 3 [] -2 -= 2 [] 1",
    "ptr 4 b + 4 - 3 [] -1 += 2 -= 3",
]


def probes_for(exts):
    lo = [f for f, _l in exts]
    hi = [l - 1 for _f, l in exts]
    return ["probe " + " ".join(map(str, lo)), "probe " + " ".join(map(str, hi))]


def conv_kinds():
    out = []
    for src in "vqarsiex":
        for cat in "lcrtk":
            for how in ("ctor", "alloc", "asame", "aresh", "adiff", "from", "ssame", "asit", "asrg",
                        "carr", "ilist", "zctor", "zalloc", "zasg", "zelem"):
                for tgt in ("same", "nat", "wi", "we", "wa"):
                    out.append("%s%s.%s.%s" % (src, cat, how, tgt))
    return out


def keep_in_domain(text):
    """Runs the model; keeps the cases without an out-of-domain (X) line."""
    obs = c12.model_run(text, FLAGS_ALL)
    bad = set(m.group(1) for m in re.finditer(r"^X (\S+) ", obs, re.M))
    kept = [b for cid, b in core.split_cases(text) if cid not in bad]
    return kept, len(bad)


def main():
    ok, log = c12.ensure_driver()
    assert ok, log
    n = 0
    walks, based, convs = [], [], []
    for el, exts in ROOTS[1:7]:
        root = "root %s %d %s" % (el, len(exts), " ".join("%d %d" % e for e in exts))
        f0 = exts[0][0]
        for pre in PRE:
            pre_lines = ["op " + p.replace("A+3", str(f0 + 3)).replace("A", str(f0)) for p in pre]
            for proj in PROJ:
                # (a) + (b): projection, corner probes, every walk
                for w in WALKS:
                    n += 1
                    if "row R" in w:
                        if pre:
                            continue      # the row index is only known here for the untouched root
                        w = w.replace("row R", "row %d" % f0)
                    walks.append("\n".join(["case w%d" % n, root] + pre_lines + ["proj " + proj, "walk " + w, "end"]) + "\n")
    # (b) re-based sources: every projection, both corners, one more operation after it
    for el, exts in ROOTS:
        if all(f == 0 for f, _ in exts):
            continue
        root = "root %s %d %s" % (el, len(exts), " ".join("%d %d" % e for e in exts))
        for proj in PROJ:
            for post in ([], ["rotated"], ["reindexed 1"], ["reversed"]):
                n += 1
                based.append("\n".join(["case b%d" % n, root, "proj " + proj] + probes_for(exts)
                                       + ["op " + p for p in post] + ["walk lead e -- r", "walk flat e -- -= 1", "end"]) + "\n")
    # (c) conversions: one case per (root, projection-or-none, kind)
    for el, exts in (ROOTS[1], ROOTS[3], ROOTS[4], ROOTS[5]):
        root = "root %s %d %s" % (el, len(exts), " ".join("%d %d" % e for e in exts))
        for proj in ([None, "tval"] if (el == "S" and exts[0][0] != 0) else [None]):
            for kind in conv_kinds():
                n += 1
                lines = ["case c%d" % n, root] + (["proj " + proj] if proj else ["op rotated", "op unrotated"]) + ["convert " + kind, "end"]
                convs.append("\n".join(lines) + "\n")
    header = {
        "walks": "# C12 corpus (follow-up 2, a): iterator walks, mostly backwards, on every projected view kind -- leading\n"
                 "# iterators, the iterators of a row, the flat elements() iterators, mutable and const, ++ -- it++ it-- += -= + -\n"
                 "# it[k] and std::reverse_iterator; seed C12-s4 (transform_ptr::operator-= moved forward) is caught here\n",
        "based": "# C12 corpus (follow-up 2, b): projections of roots built over extensions with non-zero first indices (and of\n"
                 "# reindexed views); seed C12-s5 (as_const() built from origin() instead of base()) is caught here\n",
        "convert": "# C12 corpus (follow-up 2, c): every conversion kind (source form x value category x how x target) on zero-based\n"
                   "# and re-based sources; seed C12-s6 (explicit constructor from a const array_ref restarted the leading index\n"
                   "# range) is caught here\n",
    }
    for name, cases in (("walks", walks), ("based", based), ("convert", convs)):
        kept, dropped = keep_in_domain("".join(cases))
        # renumber densely
        path = os.path.join("corpus", "C12", "followup2_%s.prog" % name)
        with open(path, "w") as f:
            f.write(header[name])
            for k, b in enumerate(kept):
                f.write(re.sub(r"^case \S+", "case f2%s%d" % (name[0], k + 1), b, count=1))
        print(name, "kept", len(kept), "dropped", dropped)


if __name__ == "__main__":
    main()

#!/usr/bin/env python3
"""development aid: record confirmations (notes/confirm_seed.sh logs) and detections (vlib.seedcheck logs) in seeded/*/meta.json
usage: notes/record_seeds.py --offset 3 --confirm log... --seedcheck log...   (offset: seedK of a round-2 worktree is <prop>-s<K+offset>)"""
import ast, json, os, re, sys
V = os.path.dirname(os.path.dirname(os.path.abspath(__file__)))
args = sys.argv[1:]
offset = 0; mode = None; conf = []; sc = []
for a in args:
    if a == "--offset": mode = "o"
    elif a == "--confirm": mode = "c"
    elif a == "--seedcheck": mode = "s"
    elif mode == "o": offset = int(a)
    elif mode == "c": conf.append(a)
    elif mode == "s": sc.append(a)
for f in conf:
    for line in open(f):
        m = re.match(r"/tmp/seed2?-(C\d+)/seed(\d): (.*)", line.strip())
        if not m: continue
        name = "%s-s%d" % (m.group(1), int(m.group(2)) + offset)
        p = os.path.join(V, "seeded", name, "meta.json")
        if os.path.exists(p):
            d = json.load(open(p)); d["confirmed_in_scratch_worktree"] = m.group(3); json.dump(d, open(p, "w"), indent=1)
for f in sc:
    for line in open(f):
        line = line.strip()
        if not line.startswith("("): continue
        name, pid, res = ast.literal_eval(line)
        p = os.path.join(V, "seeded", name, "meta.json")
        d = json.load(open(p))
        if isinstance(res, dict):
            caught = [k for k, v in res.items() if v.startswith("caught")]
            hist = d.setdefault("detection_history", [])
            hist.append(res)
            if caught:
                first_missed = any(all(not v.startswith("caught") for v in h.values()) for h in hist[:-1])
                d["detected_by"] = ", ".join(caught) + (" caught (quick tier, VIOLATION line with replay)" if not first_missed else
                                                         " caught after the check was strengthened (missed at first; see DESIGN.md section 9)")
            else:
                d["detected_by"] = "MISSED (quick tier exits 0)"
        json.dump(d, open(p, "w"), indent=1)

import sys, os, re, collections; sys.path.insert(0,'.')
from vlib import c12, core
print(c12.ensure_driver())
flags={k: c12.run_probe(k)[0] for k in c12.PROBES}
print(flags)
ok, exe, log = c12.build_c12_harness(flags, tag="-cov")
assert ok, log
prog, obs, dist = c12.generate(5, 4000, flags, prefix="t", extra=["--maxpre","3","--maxpost","2"])
# std::printf and std::cout interleave: the harness uses cout; sync_with_stdio default true -> ordered
impl, crashes = core.run_harness(exe, prog)
print("crashes", len(crashes))
# element code of the view at each step
table=collections.defaultdict(collections.Counter)
cur=[]; elem={}
for line in impl.splitlines():
    if line.startswith("OV "):
        cur.append(int(line.split()[1])); continue
    if line.startswith("S "):
        m=re.search(r"elem=(\S)", line); t=line.split(); elem[(t[1], t[2])]=m.group(1); cur=[]; continue
    if line.startswith("C "):
        t=line.split(); kind=[x for x in t if x.startswith("kind=")][0][5:]
        code=elem.get((t[1], t[2]), '?')
        tgt=kind.split('.')[2]
        cls = "impl" if (tgt in ("same","wi") or (tgt=="nat" and code!="Z")) else "expl"
        if tgt=="same" or (tgt=="nat" and code in "SCRQ"): cls="sameT"
        table[(kind[:2]+"."+kind.split('.')[1], cls)][tuple(cur)]+=1
        cur=[]; continue
    if not line.startswith("c "):
        cur=[]
for k in sorted(table):
    print(k, dict(table[k]))

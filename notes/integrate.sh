#!/bin/sh
# usage: notes/integrate.sh <workdir>   e.g. /tmp/w-C14/verif   -- copies a package's own files into /verif
# (never overwrites an existing file; shared files are left alone; development aid)
src=$1
rsync -av --ignore-existing --exclude build --exclude '*.vo' --exclude '*.vos' --exclude '*.vok' --exclude '*.glob' --exclude '*.aux' \
  --exclude '.lia.cache' --exclude '.nia.cache' --exclude 'evidence/' --exclude '__pycache__' --exclude 'coq/Makefile*' \
  --exclude 'coq/.Makefile*' --exclude 'coq/_CoqProject' --exclude 'known_findings.json' --exclude 'MANIFEST.json' \
  --exclude 'repo-mut' --exclude 'notes/mutations_*/*/include' "$src"/ /verif/ | grep -v '/$' | grep -v '^sending\|^sent\|^total\|^$'

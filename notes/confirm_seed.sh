#!/bin/bash
# usage: notes/confirm_seed.sh <worktree> <seeddir>  -- confirms a seeded change: applies, the unedited suite passes 78/78,
# the demonstration fails with the change and passes without it.  Prints one summary line.  (development aid)
wt=$1; sd=$2
cd "$wt" || exit 2
git checkout -q -- . ; git apply "$sd/patch.diff" || { echo "$sd: PATCH-DOES-NOT-APPLY"; exit 1; }
cmake -S "$wt" -B "$wt/_build" -G Ninja -DCMAKE_BUILD_TYPE=RelWithDebInfo -DCMAKE_CXX_FLAGS=-Wno-error >/dev/null 2>&1
cmake --build "$wt/_build" >/tmp/confirm_build.$$ 2>&1; b=$?
t=$(OMPI_ALLOW_RUN_AS_ROOT=1 OMPI_ALLOW_RUN_AS_ROOT_CONFIRM=1 ctest --test-dir "$wt/_build" -j8 --timeout 900 2>&1 | grep "tests passed" | tr -d '\n')
${CXX:-g++} -std=c++17 -I"$wt/include" "$sd/demo.cpp" -o /tmp/confirm_demo.$$ $DEMO_LIBS >/dev/null 2>&1; (timeout 60 /tmp/confirm_demo.$$ >/dev/null 2>&1); with=$?
git checkout -q -- .
${CXX:-g++} -std=c++17 -I"$wt/include" "$sd/demo.cpp" -o /tmp/confirm_demo.$$ $DEMO_LIBS >/dev/null 2>&1; (timeout 60 /tmp/confirm_demo.$$ >/dev/null 2>&1); without=$?
rm -f /tmp/confirm_demo.$$ /tmp/confirm_build.$$
echo "$sd: build=$b suite=[$t] demo_with_change=$with demo_without=$without"

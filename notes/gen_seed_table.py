#!/usr/bin/env python3
"""regenerates the seeded-change table of DESIGN.md section 10 from seeded/*/meta.json (development aid)"""
import glob, json, os, re
V = os.path.dirname(os.path.dirname(os.path.abspath(__file__)))
rows = {}
for d in sorted(glob.glob(os.path.join(V, "seeded", "*", "meta.json"))):
    name = os.path.basename(os.path.dirname(d))
    m = json.load(open(d))
    pid, k = name.split("-s")
    det = str(m.get("detected_by", "not yet run"))
    if det.startswith("MISSED"):
        cell = "✗ (open: follow-up package running)"
    elif "after" in det and "missed at first" in det.lower() or "caught after" in det:
        cell = "✓*"
    else:
        owners = re.findall(r"\bC\d\d\b", det.split(" caught")[0])
        others = [o for o in owners if o != pid]
        cell = ("→ " + ", ".join(others)) if (others and pid not in owners) else ("✓" + (" (+" + ",".join(others) + ")" if others else ""))
    rows.setdefault(pid, {})[int(k)] = cell
pids = sorted(rows)
ks = sorted({k for r in rows.values() for k in r})
out = ["| property | " + " | ".join("s%d" % k for k in ks) + " |", "|---|" + "---|" * len(ks)]
for p in pids:
    out.append("| %s | " % p + " | ".join(rows[p].get(k, "") for k in ks) + " |")
n = sum(len(r) for r in rows.values())
caught = sum(1 for r in rows.values() for c in r.values() if c.startswith("✓") or c.startswith("→"))
table = "\n".join(out) + "\n\n%d seeded changes kept, %d detected (✓ at first try, ✓* after the check was strengthened by class, → by the named check that owns the triggering input), %d open.\n" % (n, caught, n - caught)
p = os.path.join(V, "DESIGN.md")
s = open(p).read()
a = s.index("<!-- seed-table-begin -->") + len("<!-- seed-table-begin -->\n")
b = s.index("<!-- seed-table-end -->")
open(p, "w").write(s[:a] + table + s[b:])
print(table)

#!/usr/bin/env python3
"""Regenerates corpus/C12/followup3_based_proj.prog (FOLLOW-UP 3 of notes/REPORT_C12.md): deterministic cases for the
projections that go through layout_t::scale (member_cast, reinterpret_array_cast<U>(), reinterpret_array_cast<U>(n),
blas::real/imag/real_doubled) and the casts that keep (layout, base), on sources with NON-ZERO index bases:
roots built over based extensions (negative, positive and mixed first indices, rank 1..3), reindexed / blocked /
reindexed(i,j) views, rows (index) and rotated views of them -- each through every receiver kind (named view, const&,
std::move, temporary).  After the projection: every valid index tuple is probed (value + byte offset), one further
operation, the array built from the view (extensions + elements) and a flat iterator walk.
Seeds C12-s8 (const& reinterpret_array_cast<U>(n): added dimension takes the leading offset) and C12-s9 (scale in
std::size_t arithmetic) are caught here, independent of the random seed.
Candidates are written generously; a case the model declares out of the documented domain (an X line) is dropped.
Run from the verif root:  python3 notes/c12_make_corpus3.py"""
import itertools
import os
import re
import sys

sys.path.insert(0, os.getcwd())
from vlib import c12, core  # noqa: E402

FLAGS_ALL = {n: True for n in c12.PROBES}

ROOTS = [
    ("S", [(-3, 1)]), ("S", [(2, 6)]), ("Z", [(-2, 2)]), ("Z", [(1, 4)]),
    ("S", [(-2, 1), (1, 4)]), ("S", [(1, 3), (-3, 0)]), ("S", [(0, 3), (-2, 1)]), ("S", [(0, 3), (0, 2)]),
    ("Z", [(-1, 2), (2, 4)]), ("Z", [(2, 4), (-3, -1)]), ("Z", [(0, 2), (0, 3)]),
    ("S", [(-1, 1), (2, 4), (-3, -1)]), ("S", [(0, 2), (0, 2), (0, 2)]), ("Z", [(1, 3), (-2, 0), (0, 2)]),
]
# pre-operations (format of the program text); A = first index of the leading dimension at that point
PRES = [[], ["reindexed -2"], ["reindexed 3"], ["rotated"], ["rotated", "reindexed -1"], ["index A"], ["blocked A+1 A+3"],
        ["reindexedl -3 2"], ["transposed", "reindexed 2"], ["reindexed -1", "index A", "reindexed -2"]]
S_KINDS = ["member_a", "member_b", "member_c", "reint_R", "reint_Q", "reint_I", "reintn_I 4", "reintn_D 2", "reintn_R 1",
           "static", "asconst", "constcast", "tval", "tmem", "tref"]
Z_KINDS = ["zreal", "zimag", "zdoubled", "reint_C", "reint_D", "reintn_D 2", "asconst"]
CATS = ["", "c_", "r_", "t_"]
POSTS = [[], ["rotated"], ["reindexed 1"]]


def apply_pre(exts, op):
    """index extensions after a (simple) view operation; None when not applicable"""
    t = op.split()
    e = list(exts)
    if t[0] == "reindexed":
        f, l = e[0]
        e[0] = (int(t[1]), int(t[1]) + l - f)
    elif t[0] == "rotated":
        e = e[1:] + e[:1]
    elif t[0] == "transposed":
        if len(e) < 2:
            return None
        e[0], e[1] = e[1], e[0]
    elif t[0] == "index":
        if len(e) < 2:
            return None
        e = e[1:]
    elif t[0] == "blocked":
        a, b = int(t[1]), int(t[2])
        if not (e[0][0] <= a <= b <= e[0][1]):
            return None
        e[0] = (a, b)
    elif t[0] == "reindexedl":
        k = len(t) - 1
        if len(e) < k:
            return None
        for j in range(k):
            f, l = e[j]
            e[j] = (int(t[1 + j]), int(t[1 + j]) + l - f)
    return e


def subst(op, exts):
    a = exts[0][0]
    return op.replace("A+3", str(a + 3)).replace("A+1", str(a + 1)).replace("A", str(a))


def probes_for(exts, limit=16):
    ranges = [range(f, l) for f, l in exts]
    allidx = list(itertools.product(*ranges))
    if len(allidx) > limit:
        step = max(1, len(allidx) // limit)
        allidx = allidx[::step][:limit - 1] + [allidx[-1]]
    return ["probe " + " ".join(map(str, t)) for t in allidx]


def after_proj(exts, kind):
    t = kind.split()
    name = t[0][2:] if t[0][:2] in ("c_", "r_", "t_") else t[0]
    if name.startswith("reintn"):
        return exts + [(0, int(t[1]))]
    if name == "zdoubled":
        return None          # the last extent is doubled: probed through convert / the flat walk only
    return exts


def keep_in_domain(text):
    obs = c12.model_run(text, FLAGS_ALL)
    bad = set(m.group(1) for m in re.finditer(r"^X (\S+) ", obs, re.M))
    kept = [b for cid, b in core.split_cases(text) if cid not in bad]
    return kept, len(bad)


def main():
    ok, log = c12.ensure_driver()
    assert ok, log
    cases, n = [], 0
    for combo, ((el, exts0), pre) in enumerate(itertools.product(ROOTS, PRES)):
        post = POSTS[combo % len(POSTS)]
        exts, lines, bad = list(exts0), [], False
        for op in pre:
            op = subst(op, exts)
            exts = apply_pre(exts, op)
            if exts is None:
                bad = True
                break
            lines.append("op " + op)
        if bad:
            continue
        root = "root %s %d %s" % (el, len(exts0), " ".join("%d %d" % e for e in exts0))
        for kind, cat in itertools.product(S_KINDS if el == "S" else Z_KINDS, CATS):
            n += 1
            px = after_proj(exts, kind)
            body = ["case q%d" % n, root] + lines + ["proj " + cat + kind]
            body += probes_for(px) if px is not None else []
            body += ["op " + p for p in post]
            nel = 1
            for f_, l_ in (px if px is not None else exts + [(0, 2)]):
                nel *= max(l_ - f_, 0)
            walk = "walk flat b ++ += 2 -- [] 1" if nel >= 4 else ("walk flat e -- r" if nel >= 2 else "walk flat b")
            body += ["convert vl.ctor.same", walk, "end"]
            cases.append("\n".join(body) + "\n")
    kept, dropped = keep_in_domain("".join(cases))
    path = os.path.join("corpus", "C12", "followup3_based_proj.prog")
    with open(path, "w") as f:
        f.write("# C12 corpus (follow-up 3): member_cast / reinterpret_array_cast<U>() / reinterpret_array_cast<U>(n) / blas::real,\n"
                "# imag, real_doubled and the casts that keep (layout, base) on sources with non-zero (negative, positive, mixed)\n"
                "# index bases -- based roots, reindexed / blocked / reindexed(i,j) views, rows and rotated views of them -- through\n"
                "# every receiver kind (named, c_ const&, r_ std::move, t_ temporary); all index tuples probed; seeds C12-s8 and\n"
                "# C12-s9 are caught here.  Regenerate with notes/c12_make_corpus3.py\n")
        for k, b in enumerate(kept):
            f.write(re.sub(r"^case \S+", "case f3q%d" % (k + 1), b, count=1))
    print("kept", len(kept), "dropped", dropped)


if __name__ == "__main__":
    main()

// Demo / regression probe for notes/patches_C12/0004-projections-of-read-only-views-are-read-only.diff (a C16 matter found while
// reading the projection overloads for C12 follow-up 3).  On /repo at 9e89822:
//   g++ -std=c++17 -fsyntax-only -I/repo/include 0004-demo-const-projections.cpp
// fails with the seven "must be read-only" static assertions below (and blas::real of a const complex array does not
// compile at all); with the patch applied it compiles and prints "ok".
#include <boost/multi/array.hpp>
#include <boost/multi/adaptors/blas/numeric.hpp>
#include <complex>
#include <iostream>
#include <type_traits>
namespace multi = boost::multi;
struct S { int a; int b; double c; };
struct f_ref { double& operator()(S& s) const { return s.c; } };
template<class R> constexpr bool writable = std::is_lvalue_reference_v<R> && !std::is_const_v<std::remove_reference_t<R>>;
#define MUST(expr) static_assert(writable<decltype(expr)>, #expr " must be writable")
#define MUSTNOT(expr) static_assert(!writable<decltype(expr)>, #expr " must be read-only")
int main() {
	multi::array<S, 1> A1(multi::extensions_t<1>{multi::iextension{-2, 3}}, S{1, 2, 3.0});
	multi::array<S, 2> A2(multi::extensions_t<2>{{-1, 2}, {2, 6}}, S{1, 2, 3.0});
	MUST(A1.member_cast<int>(&S::b)[0]);
	MUST(A1().member_cast<int>(&S::b)[0]);
	MUST(std::move(A1).member_cast<int>(&S::b)[0]);
	MUST(A2.member_cast<int>(&S::b)[0][2]);
	MUST(A2().member_cast<int>(&S::b)[0][2]);
	MUST(A2[1].member_cast<int>(&S::b)[2]);
	MUST(A2.rotated().member_cast<double>(&S::c)[2][0]);
	MUST(A1.element_transformed(&S::b)[0]);
	MUST(A2.element_transformed(&S::b)[0][2]);
	MUST(A2().element_transformed(f_ref{})[0][2]);
	MUST(A2[1].element_transformed(f_ref{})[2]);
	MUST(A1().element_transformed(f_ref{})[0]);
	MUSTNOT(std::as_const(A1).member_cast<int>(&S::b)[0]);
	MUSTNOT(std::as_const(A2).member_cast<int>(&S::b)[0][2]);
	MUSTNOT(std::as_const(A2)().member_cast<int>(&S::b)[0][2]);
	MUSTNOT(std::as_const(A2)[1].member_cast<int>(&S::b)[2]);
	MUSTNOT(std::as_const(A1)().element_transformed(&S::b)[0]);
	MUSTNOT(std::as_const(A2)().element_transformed(&S::b)[0][2]);
	MUSTNOT(std::as_const(A2)[1].element_transformed(&S::b)[2]);
	A2[1].member_cast<int>(&S::b)[3] = 42;
	A2().element_transformed(f_ref{})[0][2] = 7.5;
	A1().member_cast<double>(&S::c)[-2] = 1.5;
	multi::array<std::complex<double>, 2> Z({2, 3}, std::complex<double>{1.0, 2.0});
	multi::blas::imag(Z)[1][1] = 5.0;
	MUSTNOT(multi::blas::real(std::as_const(Z))[1][1]);
	bool ok = A2[1][3].b == 42 && A2[0][2].c == 7.5 && A1[-2].c == 1.5 && Z[1][1].imag() == 5.0 && multi::blas::real(std::as_const(Z))[1][1] == 1.0;
	std::cout << (ok ? "ok\n" : "WRONG\n");
	return ok ? 0 : 1;
}

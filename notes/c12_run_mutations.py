#!/usr/bin/env python3
"""Applies each given patch (hand-made mutation or seed) to a scratch worktree of /repo and runs
`BM_REPO=<worktree> ./check C12 --tier quick` on it; prints exit code, number of VIOLATION lines and the first one,
then re-runs the first program replay against the mutant (must fail) and against /repo (must agree).
usage (from the verif root): python3 notes/c12_run_mutations.py <scratch dir> <patch>...   (sequential: the build dirs are shared)
C12_MUT_NO_REPLAY=1 skips the two replay re-runs (prints the shrunk program only)."""
import os
import re
import shutil
import subprocess
import sys
import time


def sh(cmd, env=None, cwd=None):
    e = dict(os.environ)
    e.update(env or {})
    p = subprocess.run(cmd, stdout=subprocess.PIPE, stderr=subprocess.STDOUT, env=e, cwd=cwd)
    return p.returncode, p.stdout.decode("utf-8", "replace")


def main():
    scratch, patches = sys.argv[1], sys.argv[2:]
    wt = os.path.join(scratch, "wtmut")
    for patch in patches:
        name = os.path.basename(os.path.dirname(patch)) if os.path.basename(patch) == "patch.diff" else os.path.basename(patch)
        sh(["git", "-C", "/repo", "worktree", "remove", "--force", wt])
        shutil.rmtree(wt, ignore_errors=True)
        rc, out = sh(["git", "-C", "/repo", "worktree", "add", "--detach", wt, "HEAD"])
        rc, out = sh(["git", "-C", wt, "apply", os.path.abspath(patch)])
        if rc != 0:
            print("%-44s PATCH DOES NOT APPLY: %s" % (name, out.strip()[:200]))
            continue
        t = time.time()
        rc, out = sh(["./check", "C12", "--tier", "quick"], env={"BM_REPO": wt})
        viol = [l for l in out.splitlines() if l.startswith("VIOLATION")]
        line = "%-44s exit=%d violations=%d %.0fs" % (name, rc, len(viol), time.time() - t)
        first = None
        for v in viol:
            m = re.search(r"replay=(\S+)", v)
            if m and "no-failing-input-found" not in v:
                first = m.group(1)
                break
        if first and os.environ.get("C12_MUT_NO_REPLAY") == "1":
            body = [l for l in open(first).read().splitlines() if not l.startswith("#")]
            line += "  [%s]" % " / ".join(body[1:-1])[:150]
        elif first:
            keep = os.path.join(scratch, "replay-" + name + ".prog")
            shutil.copy(first, keep)
            r1, o1 = sh(["./check", "C12", "--replay", keep], env={"BM_REPO": wt})
            r0, o0 = sh(["./check", "C12", "--replay", keep])
            body = [l for l in open(keep).read().splitlines() if not l.startswith("#")]
            line += "  replay: mutant exit=%d, /repo exit=%d  [%s]" % (r1, r0, " / ".join(body[1:-1])[:150])
        elif viol:
            line += "  " + viol[0][:160]
        print(line, flush=True)
    sh(["git", "-C", "/repo", "worktree", "remove", "--force", wt])


if __name__ == "__main__":
    main()

#!/usr/bin/env python3
"""Regenerates Appendix D of DESIGN.md (fix commits and open known findings) from known_findings.json."""
import json, os, re, subprocess
V = os.path.dirname(os.path.dirname(os.path.abspath(__file__)))
k = json.load(open(os.path.join(V, "known_findings.json")))
out = ["## Appendix D. Genuine defects: what was repaired, what is recorded (generated from `known_findings.json` by `notes/gen_findings.py`)", "",
       "**Repaired in `/repo`** — each a separate unguarded commit whose message starts `fix:`; after each the unedited suite passes 78/78;",
       "each was first reported by the machinery as a VIOLATION with a replay, and its check is green with no KNOWN-FINDING line for it since.", ""]
log = subprocess.run(["git", "-C", "/repo", "log", "--format=%h %s", "--reverse"], capture_output=True, text=True).stdout.splitlines()
subj = {l.split()[0]: l.split(" ", 1)[1] for l in log if " fix:" in " " + l}
out.append("| commit | subject | property entries |")
out.append("|---|---|---|")
by = {}
for f in k["fixed"]:
    m = re.match(r"fixed: property=(\S+) (\S+) (.*)", f)
    if m:
        by.setdefault(m.group(2)[:7], []).append("%s: %s" % (m.group(1), m.group(3)[:150].replace("|", "/")))
for c, s in subj.items():
    out.append("| `%s` | %s | %s |" % (c, s.replace("|", "/"), "<br>".join(by.get(c, ["(recorded under the property whose check found it)"]))))
out += ["", "**Recorded, not repaired** (`status: open`; printed as `KNOWN-FINDING:` by the check of their property; matched on the structured",
        "fields shown, so a different violation of the same property is still a VIOLATION):", "",
        "| id | property | what fails | match |", "|---|---|---|---|"]
for f in k["findings"]:
    out.append("| %s | %s | %s | `%s` |" % (f["id"], f["property"], f["what"][:260].replace("|", "/").replace("\n", " "),
                                          json.dumps(f.get("match", {}))[:160].replace("|", "/")))
text = "\n".join(out) + "\n"
p = os.path.join(V, "DESIGN.md")
s = open(p).read()
i = s.find("## Appendix D.")
s = (s[:i] if i >= 0 else s.rstrip("\n") + "\n\n") + text
open(p, "w").write(s)
print("fix commits:", len(subj), "open findings:", len(k["findings"]))

// C20: rank-0 arrays in the three build configurations.  "Defining NDEBUG or BOOST_MULTI_ASSERT_DISABLE changes no
// observable result of a valid program" presupposes that a valid program COMPILES in all three.  Each case is one valid use of
// multi::array<int, 0>; the file is compiled once per case and configuration (vlib/c20.py rank0_probe) and must compile
// and exit 0 everywhere.  On the tree before the fix the constructors of static_array<T, 0> held
// assert(this->stride() != 0) although layout_t<0>::stride() is deleted: well-formed only when NDEBUG removes the assert.
#include <boost/multi/array.hpp>

#include <memory>

namespace multi = boost::multi;

#ifndef C20_R0_CASE
#error "define C20_R0_CASE"
#endif

int main() {
	multi::array<int, 0> const W(5);
#if C20_R0_CASE == 1   // copy construction
	multi::array<int, 0> U = W;
	return (*U.base() == 5 && U.num_elements() == 1) ? 0 : 1;
#elif C20_R0_CASE == 2  // allocator-extended copy construction
	multi::array<int, 0> U(W, std::allocator<int>{});
	return *U.base() == 5 ? 0 : 1;
#elif C20_R0_CASE == 3  // extensions + allocator
	multi::array<int, 0> U(multi::extensions_t<0>{}, std::allocator<int>{});
	return U.num_elements() == 1 ? 0 : 1;
#elif C20_R0_CASE == 4  // extensions
	multi::array<int, 0> U(multi::extensions_t<0>{});
	return U.num_elements() == 1 ? 0 : 1;
#elif C20_R0_CASE == 5  // default construction, then copy assignment
	multi::array<int, 0> U;
	U = W;
	return *U.base() == 5 ? 0 : 1;
#elif C20_R0_CASE == 6  // controls: element (+ allocator), move construction, assignment, comparison, element access
	multi::array<int, 0> U(7, std::allocator<int>{});
	multi::array<int, 0> V(3);
	multi::array<int, 0> M(std::move(V));
	U = M;
	multi::array<int, 0> N(9);
	U = std::move(N);
	bool const ok = (*M.base() == 3) && (U() == 9) && (U == U) && !(U != U) && (static_cast<int&>(U) == 9) && (U().elements_at(0) == 9);
	return ok ? 0 : 1;
#else
#error "unknown C20_R0_CASE"
#endif
}

// h_serial: instantiations for element type hs::inner_t
#include "h_serial_impl.hpp"
void run_case_nested(Case const& c, std::ostream& out) { hs::run_case_t<hs::inner_t>(c, out); }

// h_serial: the templates behind run_case_<elem>().  Included by one translation unit per element type.
#pragma once
#include "h_serial.hpp"

#include <boost/archive/binary_iarchive.hpp>
#include <boost/archive/binary_oarchive.hpp>
#include <boost/archive/text_iarchive.hpp>
#include <boost/archive/text_oarchive.hpp>
#include <boost/archive/xml_iarchive.hpp>
#include <boost/archive/xml_oarchive.hpp>
#include <boost/serialization/nvp.hpp>
#include <boost/serialization/string.hpp>

#include <algorithm>
#include <cmath>
#include <cstdlib>
#include <iostream>
#include <memory>
#include <stdexcept>
#include <type_traits>

namespace hs {

// ---------------------------------------------------------------------------------------------
// allocator with a ledger (direct monitor: blocks and cells balance, sizes match on deallocate)
// ---------------------------------------------------------------------------------------------
struct Ledger {
	long                          live_cells = 0, live_blocks = 0, bad = 0;
	std::map<void const*, std::size_t> blocks;
	static Ledger& get() { static Ledger l; return l; }
	void reset() { live_cells = 0; live_blocks = 0; bad = 0; blocks.clear(); }
};
template<class T> struct cnt_alloc {
	using value_type = T;
	cnt_alloc()      = default;
	template<class U> cnt_alloc(cnt_alloc<U> const& /*o*/) noexcept {}  // NOLINT
	T* allocate(std::size_t n) {
		T* p = std::allocator<T>{}.allocate(n);
		auto& l = Ledger::get();
		l.live_cells += static_cast<long>(n);
		++l.live_blocks;
		l.blocks[p] = n;
		return p;
	}
	void deallocate(T* p, std::size_t n) {
		auto& l  = Ledger::get();
		auto  it = l.blocks.find(p);
		if(it == l.blocks.end() || it->second != n) { ++l.bad; } else { l.blocks.erase(it); }
		l.live_cells -= static_cast<long>(n);
		--l.live_blocks;
		std::allocator<T>{}.deallocate(p, n);
	}
	friend bool operator==(cnt_alloc const& /*a*/, cnt_alloc const& /*b*/) { return true; }
	friend bool operator!=(cnt_alloc const& /*a*/, cnt_alloc const& /*b*/) { return false; }
};

// ---------------------------------------------------------------------------------------------
// element types: integer key <-> value  (the model works on the keys)
// ---------------------------------------------------------------------------------------------
inline std::vector<std::string> split_ws(std::string const& s) {
	std::istringstream       is(s);
	std::vector<std::string> r;
	std::string              w;
	while(is >> w) { r.push_back(w); }
	return r;
}
inline long to_long(std::string const& s) { return std::strtol(s.c_str(), nullptr, 10); }

template<class T> struct El;
template<> struct El<int> {
	static int         make(std::string const& tok) { return static_cast<int>(to_long(tok)); }
	static std::string show(int const& v) { return std::to_string(v); }
	static std::string leaf(std::string const& text) { return std::to_string(std::strtol(text.c_str(), nullptr, 10)); }
};
template<> struct El<double> {  // key k <-> k/3.0 : needs all 17 significant digits in a text archive
	static double      make(std::string const& tok) { return static_cast<double>(to_long(tok)) / 3.0; }
	static std::string show(double const& v) {
		long k = std::lround(v * 3.0);
		return (static_cast<double>(k) / 3.0 == v) ? std::to_string(k) : (std::to_string(k) + "~inexact");
	}
	static std::string leaf(std::string const& text) { return show(std::strtod(text.c_str(), nullptr)); }
};
inline char const* str_prefix(long c) {
	static char const* p[4] = {"s", " ", "<&>\"'", "a b  c"};
	return p[c];
}
inline char const* str_suffix(long c) {
	static char const* p[4] = {"", " x ", "&amp;", "."};
	return p[c];
}
template<> struct El<std::string> {  // key 0 <-> "", key k>0 <-> prefix(k%4) k suffix(k%4)
	static std::string make(std::string const& tok) {
		long k = to_long(tok);
		if(k == 0) { return {}; }
		return std::string(str_prefix(k % 4)) + std::to_string(k) + str_suffix(k % 4);
	}
	static std::string show(std::string const& v) {
		if(v.empty()) { return "0"; }
		for(long c = 0; c != 4; ++c) {
			std::string p = str_prefix(c), s = str_suffix(c);
			if(v.size() > p.size() + s.size() && v.compare(0, p.size(), p) == 0 && v.compare(v.size() - s.size(), s.size(), s) == 0) {
				std::string mid = v.substr(p.size(), v.size() - p.size() - s.size());
				if(!mid.empty() && std::all_of(mid.begin(), mid.end(), [](char ch) { return ch >= '0' && ch <= '9'; })) {
					long k = to_long(mid);
					if(k > 0 && k % 4 == c && make(std::to_string(k)) == v) { return std::to_string(k); }
				}
			}
		}
		std::string h = "?";
		for(unsigned char ch : v) { h += "0123456789abcdef"[ch >> 4U]; h += "0123456789abcdef"[ch & 15U]; }
		return h;
	}
	static std::string leaf(std::string const& text) { return show(text); }
};
using inner_t = multi::array<int, 1>;
template<> struct El<inner_t> {  // "{ lo hi v v v }"
	static inner_t make(std::string const& tok) {
		auto w = split_ws(tok);  // {, lo, hi, v..., }
		idx_t lo = to_long(w.at(1)), hi = to_long(w.at(2));
		inner_t a(multi::extensions_t<1>{multi::iextension{lo, hi}});
		if(static_cast<idx_t>(w.size()) - 4 != a.num_elements()) { throw std::runtime_error("nested element: count"); }
		for(idx_t k = 0; k != a.num_elements(); ++k) { a.data_elements()[k] = static_cast<int>(to_long(w.at(static_cast<std::size_t>(3 + k)))); }
		return a;
	}
	static std::string show(inner_t const& a) {
		std::string r = "{ " + std::to_string(a.extension().first()) + " " + std::to_string(a.extension().last());
		for(idx_t k = 0; k != a.num_elements(); ++k) { r += " " + std::to_string(a.data_elements()[k]); }
		return r + " }";
	}
	static std::string leaf(std::string const& text) { return std::to_string(std::strtol(text.c_str(), nullptr, 10)); }
};

// element tokens of a line: integers, or brace groups
inline std::vector<std::string> element_tokens(std::string const& rest) {
	std::vector<std::string> out;
	auto                     w = split_ws(rest);
	for(std::size_t k = 0; k < w.size(); ++k) {
		if(w[k] == "{") {
			std::string g = "{";
			++k;
			while(k < w.size() && w[k] != "}") { g += " " + w[k]; ++k; }
			out.push_back(g + " }");
		} else {
			out.push_back(w[k]);
		}
	}
	return out;
}

// ---------------------------------------------------------------------------------------------
// XML: the document-order sequence of leaf values
// ---------------------------------------------------------------------------------------------
inline std::string xml_unescape(std::string const& s) {
	std::string r;
	for(std::size_t k = 0; k < s.size(); ++k) {
		if(s[k] == '&') {
			auto e = s.find(';', k);
			if(e != std::string::npos) {
				std::string ent = s.substr(k + 1, e - k - 1);
				char        ch  = 0;
				if(ent == "lt") { ch = '<'; } else if(ent == "gt") { ch = '>'; } else if(ent == "amp") { ch = '&'; }
				else if(ent == "quot") { ch = '"'; } else if(ent == "apos") { ch = '\''; }
				if(ch != 0) { r += ch; k = e; continue; }
			}
		}
		r += s[k];
	}
	return r;
}
// A leaf is a start tag followed by text and then an end tag.  An element whose content is empty is a
// leaf (an empty string) only where an element value is expected: `expect_more(n)` is asked with the
// number of leaves seen so far.
template<class More> std::vector<std::string> xml_leaves(std::string const& doc, More expect_more) {
	std::vector<std::string> leaves;
	std::size_t              k = 0;
	bool                     after_start = false;
	std::size_t              text_begin  = 0;
	while(k < doc.size()) {
		if(doc[k] != '<') { ++k; continue; }
		auto e = doc.find('>', k);
		if(e == std::string::npos) { break; }
		bool is_end   = (k + 1 < doc.size() && doc[k + 1] == '/');
		bool is_other = (k + 1 < doc.size() && (doc[k + 1] == '?' || doc[k + 1] == '!'));
		bool selfc    = (e > 0 && doc[e - 1] == '/');
		if(is_end && after_start) {
			std::string text = doc.substr(text_begin, k - text_begin);
			if(!text.empty() || expect_more(leaves.size())) { leaves.push_back(xml_unescape(text)); }
		}
		after_start = (!is_end && !is_other && !selfc);
		text_begin  = e + 1;
		k           = e + 1;
	}
	return leaves;
}

// ---------------------------------------------------------------------------------------------
// arrays
// ---------------------------------------------------------------------------------------------
template<int D, std::size_t... I>
auto make_ext_(std::vector<std::pair<idx_t, idx_t>> const& e, std::index_sequence<I...> /*unused*/) {
	return multi::extensions_t<D>{multi::iextension{e[I].first, e[I].second}...};
}
template<int D> auto make_ext(std::vector<std::pair<idx_t, idx_t>> const& e) {
	if(static_cast<int>(e.size()) != D) { throw std::runtime_error("extents: rank"); }
	return make_ext_<D>(e, std::make_index_sequence<static_cast<std::size_t>(D)>{});
}
template<class A> std::string show_extents(A const& a) {
	std::string r;
	if constexpr(A::rank_v >= 1) {
		a.extensions().apply([&](auto... e) { ((r += " " + std::to_string(e.first()) + " " + std::to_string(e.last())), ...); });
	}
	return r;
}
template<class A> bool extents_normal(A const& a) {  // an empty range is reported as [0,0)
	bool ok = true;
	if constexpr(A::rank_v >= 1) {
		a.extensions().apply([&](auto... e) { ((ok = ok && (e.first() != e.last() || (e.first() == 0 && e.last() == 0))), ...); });
	}
	return ok;
}

template<class T, int D> using arr_t = multi::array<T, D, cnt_alloc<T>>;

template<class T, int D>
std::unique_ptr<arr_t<T, D>> build_array(std::vector<std::pair<idx_t, idx_t>> const& ext, std::vector<std::string> const& vals, std::string const& mode) {
	std::unique_ptr<arr_t<T, D>> a;
	if constexpr(D == 0) {
		if(vals.size() != 1) { throw std::runtime_error("0-D array: one element"); }
		a = std::make_unique<arr_t<T, D>>(El<T>::make(vals[0]));  // (default construction of a 0-D array does not compile with assertions enabled)
	} else {
		if(mode == "default") { return std::make_unique<arr_t<T, D>>(); }
		a = std::make_unique<arr_t<T, D>>(make_ext<D>(ext));
		if(static_cast<idx_t>(vals.size()) != a->num_elements()) { throw std::runtime_error("array: element count " + std::to_string(vals.size()) + " vs " + std::to_string(a->num_elements())); }
		for(idx_t k = 0; k != a->num_elements(); ++k) { a->data_elements()[k] = El<T>::make(vals[static_cast<std::size_t>(k)]); }
		if(mode == "cleared") { a->clear(); }
	}
	return a;
}

template<class T, int D, class OA, class IA>
void run_array(Case const& c, std::ostream& out, unsigned flags, bool is_xml) {
	auto& led = Ledger::get();
	led.reset();
	bool eq = false, exteq = false, elemeq = false, srcnormal = false, ledger_ok = false;
	{
		auto src = build_array<T, D>(c.src, c.sv, "ctor");
		out << "S " << c.id << show_extents(*src) << '\n';
		srcnormal = extents_normal(*src);
		std::stringstream ss(std::ios::in | std::ios::out | std::ios::binary);
		{
			OA oa(ss, flags);
			oa << boost::serialization::make_nvp("arr", *src);
		}
		if(is_xml) {
			std::size_t const nx = 2U * static_cast<std::size_t>(D);
			std::size_t const ne = static_cast<std::size_t>(src->num_elements());
			bool const        str = std::is_same_v<T, std::string>;
			auto leaves = xml_leaves(ss.str(), [&](std::size_t n) { return str && n >= nx && n < nx + ne; });
			out << "T " << c.id;
			for(std::size_t k = 0; k != leaves.size(); ++k) {
				out << ' ' << ((k < nx) ? El<int>::leaf(leaves[k]) : El<T>::leaf(leaves[k]));
			}
			out << '\n';
		}
		auto prior = build_array<T, D>(c.prior, c.pv, c.pmode);
		{
			IA ia(ss, flags);
			ia >> boost::serialization::make_nvp("arr", *prior);
		}
		out << "X " << c.id << show_extents(*prior) << '\n';
		out << "N " << c.id << ' ' << prior->num_elements() << '\n';
		out << "V " << c.id;
		for(idx_t k = 0; k != prior->num_elements(); ++k) { out << ' ' << El<T>::show(prior->data_elements()[k]); }
		out << '\n';
		elemeq = (prior->num_elements() == src->num_elements()) && std::equal(src->data_elements(), src->data_elements() + src->num_elements(), prior->data_elements());
		if constexpr(D == 0) {
			eq    = elemeq;  // operator== of two 0-D arrays is ambiguous at the pinned commit
			exteq = true;
		} else {
			eq    = (*prior == *src) && !(*prior != *src);
			exteq = (prior->extensions() == src->extensions());
		}
		out << "Q " << c.id << ' ' << (eq ? 1 : 0) << '\n';
		ledger_ok = (led.live_cells == src->num_elements() + prior->num_elements()) && led.bad == 0
		         && (led.live_blocks == (src->num_elements() != 0 ? 1 : 0) + (prior->num_elements() != 0 ? 1 : 0));
	}
	bool final_ok = (led.live_cells == 0 && led.live_blocks == 0 && led.bad == 0);
	out << "M " << c.id << " eq=" << eq << " exteq=" << exteq << " elemeq=" << elemeq << " srcnormal=" << srcnormal << " ledger=" << ledger_ok
	    << " final=" << final_ok << '\n';
}

// ---------------------------------------------------------------------------------------------
// views, made through the public API only
// ---------------------------------------------------------------------------------------------
template<class V, class F> void finish_view(V&& v, int rots, bool transp, F&& f) {
	using VV       = std::decay_t<V>;
	constexpr int R = VV::rank_v;
	if(rots > 0) {
		finish_view(std::forward<V>(v).rotated(), rots - 1, transp, std::forward<F>(f));
		return;
	}
	if constexpr(R >= 2) {
		if(transp) {
			auto&& t = std::forward<V>(v).transposed();
			f(t);
			return;
		}
	}
	auto&& w = std::forward<V>(v);
	f(w);
}
// K = number of root dimensions already handled, kept static only to bound the recursion of types
template<int Left, class V, class F>
void build_view(V&& v, std::vector<DimOp> const& ops, std::size_t k, int rots, bool transp, F&& f) {
	using VV       = std::decay_t<V>;
	constexpr int R = VV::rank_v;
	if constexpr(Left == 0) {
		finish_view(std::forward<V>(v), rots, transp, std::forward<F>(f));
	} else {
		if(k >= ops.size()) { throw std::runtime_error("view recipe: too few ops"); }
		DimOp const& o = ops[k];
		if(o.kind == 'i') {
			if constexpr(R >= 2) {
				build_view<Left - 1>(v[o.a], ops, k + 1, rots, transp, std::forward<F>(f));
			} else {
				throw std::runtime_error("view recipe: index on the last dimension");
			}
		} else {
			if(o.s == 1) {
				build_view<Left - 1>(v.sliced(o.a, o.b).rotated(), ops, k + 1, rots, transp, std::forward<F>(f));
			} else {
				build_view<Left - 1>(v.sliced(o.a, o.b).strided(o.s).rotated(), ops, k + 1, rots, transp, std::forward<F>(f));
			}
		}
	}
}
template<int R, std::size_t... I> auto sizes_ext_(std::vector<idx_t> const& n, std::index_sequence<I...> /*unused*/) {
	return multi::extensions_t<R>{multi::iextension{0, n[I]}...};
}
template<class T, int R, class F> void with_view(T* buf, ViewSpec const& s, F&& f) {
	if(static_cast<int>(s.sizes.size()) != R || static_cast<int>(s.ops.size()) != R) { throw std::runtime_error("view recipe: rank"); }
	multi::array_ref<T, R> root(buf + s.base, sizes_ext_<R>(s.sizes, std::make_index_sequence<static_cast<std::size_t>(R)>{}));
	build_view<R>(root(), s.ops, 0, s.rots, s.transp, std::forward<F>(f));
}
template<class T, class F> void with_view_dyn(T* buf, ViewSpec const& s, F&& f) {
	switch(s.sizes.size()) {
		case 1: with_view<T, 1>(buf, s, std::forward<F>(f)); break;
		case 2: with_view<T, 2>(buf, s, std::forward<F>(f)); break;
		case 3: with_view<T, 3>(buf, s, std::forward<F>(f)); break;
		default: throw std::runtime_error("view recipe: root rank out of harness range");
	}
}

// independent walk by indexing (not elements()): addresses in canonical order
template<class V, class T> void walk(V&& v, std::vector<T*>& out) {
	using VV = std::decay_t<V>;
	auto x   = v.extension();
	for(idx_t i = x.first(); i != x.last(); ++i) {
		if constexpr(VV::rank_v == 1) { out.push_back(const_cast<T*>(&v[i])); } else { walk(v[i], out); }  // NOLINT
	}
}
template<class V, class T> std::string show_layout(V const& v, T const* buf) {
	if(v.num_elements() == 0) { return " empty"; }
	std::string r = " " + std::to_string(v.base() - buf);
	auto        sz = v.sizes();
	auto        st = v.strides();
	std::vector<idx_t> szv, stv;
	sz.apply([&](auto... x) { (szv.push_back(static_cast<idx_t>(x)), ...); });
	st.apply([&](auto... x) { (stv.push_back(static_cast<idx_t>(x)), ...); });
	for(std::size_t k = 0; k != szv.size(); ++k) {
		// the stride of a dimension with fewer than two valid indices is not observable
		r += " " + std::to_string(szv[k]) + " " + (szv[k] >= 2 ? std::to_string(stv[k]) : std::string("*"));
	}
	return r;
}

template<class T, class OA, class IA>
void run_view(Case const& c, std::ostream& out, unsigned flags, bool is_xml) {
	std::vector<T> sbuf, dbuf;
	for(auto const& t : c.s.vals) { sbuf.push_back(El<T>::make(t)); }
	for(auto const& t : c.d.vals) { dbuf.push_back(El<T>::make(t)); }
	if(static_cast<idx_t>(sbuf.size()) != c.s.nbuf || static_cast<idx_t>(dbuf.size()) != c.d.nbuf) { throw std::runtime_error("view: buffer size"); }
	if(sbuf.empty()) { sbuf.resize(1); }  // keep data() non-null
	if(dbuf.empty()) { dbuf.resize(1); }
	std::vector<T> const sbuf0 = sbuf, dbuf0 = dbuf;
	std::vector<T>       saved;           // the source view's elements, by indexing
	std::stringstream    ss(std::ios::in | std::ios::out | std::ios::binary);
	with_view_dyn<T>(sbuf.data(), c.s, [&](auto& v) {
		using V        = std::decay_t<decltype(v)>;
		constexpr int D = V::rank_v;
		out << "L " << c.id << " s" << show_layout(v, sbuf.data()) << '\n';
		std::vector<T*> ad;
		walk(v, ad);
		for(T* p : ad) { saved.push_back(*p); }
		OA oa(ss, flags);
#ifdef HS_NO_CONST1D
		constexpr bool const_ok = (D >= 2);   // saving a read-only 1-D view does not compile on this tree (reported by the probe)
#else
		constexpr bool const_ok = true;
#endif
		if constexpr(const_ok) {
			if(c.sconst) {
				multi::const_subarray<T, D, T*> const& cv = v;  // array_ref.hpp:1867 (D >= 2), :3283 (D = 1): a view of a const array
				oa << boost::serialization::make_nvp("view", cv);
				return;
			}
		}
		oa << boost::serialization::make_nvp("view", v);
	});
	bool src_unchanged = (sbuf == sbuf0);
	if(is_xml) {
		bool const str = std::is_same_v<T, std::string>;
		auto leaves = xml_leaves(ss.str(), [&](std::size_t n) { return str && n < saved.size(); });
		out << "T " << c.id;
		for(auto const& l : leaves) { out << ' ' << El<T>::leaf(l); }
		out << '\n';
	}
	bool values_ok = false, frame_ok = false;
	with_view_dyn<T>(dbuf.data(), c.d, [&](auto& w) {
		out << "L " << c.id << " d" << show_layout(w, dbuf.data()) << '\n';
		{
			IA ia(ss, flags);
			ia >> boost::serialization::make_nvp("view", w);
		}
		std::vector<T*> ad;
		walk(w, ad);
		values_ok = (ad.size() == saved.size());
		for(std::size_t k = 0; values_ok && k != ad.size(); ++k) { values_ok = (*ad[k] == saved[k]); }
		std::vector<char> in_view(dbuf.size(), 0);
		for(T* p : ad) {
			auto off = p - dbuf.data();
			if(off < 0 || off >= static_cast<idx_t>(dbuf.size())) { values_ok = false; } else { in_view[static_cast<std::size_t>(off)] = 1; }
		}
		frame_ok = true;
		for(std::size_t k = 0; k != dbuf.size(); ++k) {
			if(in_view[k] == 0 && !(dbuf[k] == dbuf0[k])) { frame_ok = false; }
		}
	});
	out << "B " << c.id;
	for(idx_t k = 0; k != c.d.nbuf; ++k) { out << ' ' << El<T>::show(dbuf[static_cast<std::size_t>(k)]); }
	out << '\n';
	out << "M " << c.id << " values=" << values_ok << " frame=" << frame_ok << " srcunchanged=" << src_unchanged << '\n';
}

template<class T, class OA, class IA> void run_with_archive(Case const& c, std::ostream& out, unsigned flags, bool is_xml) {
	if(c.kind == "view") {
		run_view<T, OA, IA>(c, out, flags, is_xml);
		return;
	}
	switch(c.rank) {
#ifndef HS_NO_RANK0  // fallback build of the check when the 0-D instantiations no longer compile
		case 0: run_array<T, 0, OA, IA>(c, out, flags, is_xml); break;
#else
		case 0: out << "SKIP " << c.id << " rank-0 instantiations disabled\n"; break;
#endif
		case 1: run_array<T, 1, OA, IA>(c, out, flags, is_xml); break;
		case 2: run_array<T, 2, OA, IA>(c, out, flags, is_xml); break;
		case 3: run_array<T, 3, OA, IA>(c, out, flags, is_xml); break;
		case 4: run_array<T, 4, OA, IA>(c, out, flags, is_xml); break;
		default: throw std::runtime_error("array rank out of harness range");
	}
}
template<class T> void run_case_t(Case const& c, std::ostream& out) {
	namespace ba = boost::archive;
	if(c.arch == "xml") {
		run_with_archive<T, ba::xml_oarchive, ba::xml_iarchive>(c, out, 0U, true);
	} else if(c.arch == "text") {
		run_with_archive<T, ba::text_oarchive, ba::text_iarchive>(c, out, 0U, false);
	} else if(c.arch == "binary") {
		run_with_archive<T, ba::binary_oarchive, ba::binary_iarchive>(c, out, 0U, false);
	} else {
		throw std::runtime_error("unknown archive kind " + c.arch);
	}
}

}  // namespace hs

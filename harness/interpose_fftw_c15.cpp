// C15 interposer: the harness executable itself defines the three FFTW entry points the adaptor
// uses, logs their arguments and forwards to the real library (dlopen + dlsym on the handle, so the
// executable's own definitions are not found again).  Own translation unit, no boost.multi headers.
#include "common/c15_fftw_log.h"

#include <fftw3.h>

#include <dlfcn.h>

#include <cstdio>
#include <cstdlib>
#include <cstring>

extern "C" {

struct c15_state_t c15_state;

void c15_reset(void) {
	int const en = c15_state.enabled;
	std::memset(&c15_state, 0, sizeof(c15_state));
	c15_state.enabled = en;
}

static void* c15_real(char const* name) {
	static void* handle = nullptr;
	if(handle == nullptr) {
		handle = dlopen("libfftw3.so.3", RTLD_NOW | RTLD_LOCAL);
		if(handle == nullptr) {
			std::fprintf(stderr, "c15 interposer: cannot dlopen libfftw3.so.3: %s\n", dlerror());
			std::abort();
		}
	}
	void* sym = dlsym(handle, name);
	if(sym == nullptr) {
		std::fprintf(stderr, "c15 interposer: cannot find %s\n", name);
		std::abort();
	}
	return sym;
}

static void c15_note(char c) {
	if(c15_state.norder < static_cast<int>(sizeof(c15_state.order)) - 1) { c15_state.order[c15_state.norder++] = c; }
}

fftw_plan fftw_plan_guru64_dft(int rank, const fftw_iodim64* dims, int howmany_rank, const fftw_iodim64* howmany_dims,
                               fftw_complex* in, fftw_complex* out, int sign, unsigned flags) {
	using fn_t = fftw_plan (*)(int, const fftw_iodim64*, int, const fftw_iodim64*, fftw_complex*, fftw_complex*, int, unsigned);
	static fn_t real = reinterpret_cast<fn_t>(c15_real("fftw_plan_guru64_dft"));
	fftw_plan ret = real(rank, dims, howmany_rank, howmany_dims, in, out, sign, flags);
	if(c15_state.enabled != 0) {
		++c15_state.nplan;
		c15_note('p');
		c15_state.rank  = rank;
		c15_state.hrank = howmany_rank;
		for(int k = 0; k < rank && k < C15_MAXRANK; ++k) { c15_state.dims[k] = {dims[k].n, dims[k].is, dims[k].os}; }
		for(int k = 0; k < howmany_rank && k < C15_MAXRANK; ++k) { c15_state.hdims[k] = {howmany_dims[k].n, howmany_dims[k].is, howmany_dims[k].os}; }
		c15_state.plan_in  = in;
		c15_state.plan_out = out;
		c15_state.sign     = sign;
		c15_state.flags    = flags;
		c15_state.plan     = ret;
		for(int k = 0; k != 2; ++k) {
			if(c15_state.watch_ptr[k] != nullptr && std::memcmp(c15_state.watch_ptr[k], c15_state.watch_snap[k], c15_state.watch_bytes[k]) != 0) {
				c15_state.plan_touched |= (1U << k);
			}
		}
	}
	return ret;
}

// the other planner / execute entry points of FFTW's complex-DFT interface: the adaptor has no business calling
// them; a call is recorded ('o' in the X line) and forwarded
#define C15_OTHER(ret_t, name, params, args)                                   \
	ret_t name params {                                                         \
		using fn_t = ret_t(*) params;                                           \
		static fn_t real = reinterpret_cast<fn_t>(c15_real(#name));             \
		if(c15_state.enabled != 0) { ++c15_state.nother; c15_note('o'); }       \
		return real args;                                                       \
	}
C15_OTHER(void, fftw_execute, (const fftw_plan p), (p))
C15_OTHER(fftw_plan, fftw_plan_dft, (int rank, const int* n, fftw_complex* in, fftw_complex* out, int sign, unsigned flags), (rank, n, in, out, sign, flags))
C15_OTHER(fftw_plan, fftw_plan_dft_1d, (int n, fftw_complex* in, fftw_complex* out, int sign, unsigned flags), (n, in, out, sign, flags))
C15_OTHER(fftw_plan, fftw_plan_dft_2d, (int n0, int n1, fftw_complex* in, fftw_complex* out, int sign, unsigned flags), (n0, n1, in, out, sign, flags))
C15_OTHER(fftw_plan, fftw_plan_dft_3d, (int n0, int n1, int n2, fftw_complex* in, fftw_complex* out, int sign, unsigned flags), (n0, n1, n2, in, out, sign, flags))
C15_OTHER(fftw_plan, fftw_plan_many_dft, (int rank, const int* n, int howmany, fftw_complex* in, const int* inembed, int istride, int idist, fftw_complex* out, const int* onembed, int ostride, int odist, int sign, unsigned flags), (rank, n, howmany, in, inembed, istride, idist, out, onembed, ostride, odist, sign, flags))
C15_OTHER(fftw_plan, fftw_plan_guru_dft, (int rank, const fftw_iodim* dims, int howmany_rank, const fftw_iodim* howmany_dims, fftw_complex* in, fftw_complex* out, int sign, unsigned flags), (rank, dims, howmany_rank, howmany_dims, in, out, sign, flags))

void fftw_execute_dft(const fftw_plan p, fftw_complex* in, fftw_complex* out) {
	using fn_t = void (*)(const fftw_plan, fftw_complex*, fftw_complex*);
	static fn_t real = reinterpret_cast<fn_t>(c15_real("fftw_execute_dft"));
	if(c15_state.enabled != 0) {
		++c15_state.nexec;
		c15_note('x');
		c15_state.exec_plan = p;
		c15_state.exec_in   = in;
		c15_state.exec_out  = out;
	}
	real(p, in, out);
}

void fftw_destroy_plan(fftw_plan p) {
	using fn_t = void (*)(fftw_plan);
	static fn_t real = reinterpret_cast<fn_t>(c15_real("fftw_destroy_plan"));
	if(c15_state.enabled != 0) {
		++c15_state.ndestroy;
		c15_note('d');
		c15_state.destroyed = p;
	}
	real(p);
}

}  // extern "C"

// h_project (C12): runs projection programs on the real library and prints API-level observables.
// Input (stdin), one case:
//   case <id>
//   root <S|Z> <D> f0 l0 f1 l1 ...     root array of struct S {int a; int b; double c;} or std::complex<double>
//   op <name> args                      view operation (format of common/dynview.hpp)
//   proj <kind> args                    projection (member_cast, reinterpret_array_cast, element_transformed, casts)
//   mutate                              the root storage is changed AFTER the views were formed (laziness)
//   probe i j k                         value and byte offset (from the root's data) of &v[i][j][k]
//   write                               assigns 7000000+n through the view at the n-th probe of the current step,
//                                       then lists every 32-bit word of the root that changed, then re-reads
//   convert [kind]                      array constructed / assigned from the view, from an array / array_ref / iterator pair /
//                                       flat range made from it (kind = <source><category>.<how>.<target>): extensions and elements
//   walk lead|row <i>|flat <start> ...  iterator walk on the view (c12_projview.hpp PH::walk): position and designated element
//   end
// Output: S lines (shape after root / op / proj), P (probe), M (modified root words), W (re-read), C/c (converted array), I (iterator walk).
#include "common/c12_projview.hpp"

#include <cstdio>
#include <map>

using c12::idx_t;

template<int D, std::size_t... I>
auto make_ext(std::vector<std::pair<idx_t, idx_t>> const& e, std::index_sequence<I...> /*unused*/) {
	return multi::extensions_t<D>{multi::iextension{e[I].first, e[I].second}...};
}

struct Root {
	std::shared_ptr<void> keep;
	char* bytes = nullptr;
	std::size_t nbytes = 0;
	idx_t n = 0;
	char elem = 'S';
	std::vector<std::int32_t> pristine;
	std::unique_ptr<c12::Any> view;
};

// element k of the root: every 32-bit word is a function of (k, epoch) known to the model driver
static void fill(char elem, char* bytes, idx_t n, int epoch) {
	for(idx_t k = 0; k != n; ++k) {
		if(elem == 'S') {
			c12::S s{static_cast<int>(k + 1000000 * epoch), static_cast<int>(100000 + k), static_cast<double>(200000 + k)};
			std::memcpy(bytes + 16 * k, &s, 16);
		} else {
			c12::Z z{static_cast<double>(k + 1000000 * epoch), static_cast<double>(300000 + k)};
			std::memcpy(bytes + 16 * k, &z, 16);
		}
	}
}

template<class T, int D> Root make_root(char elem, std::vector<std::pair<idx_t, idx_t>> const& e) {
	auto x = make_ext<D>(e, std::make_index_sequence<D>{});
	Root r;
	r.elem = elem;
	if(multi::layout_t<D>(x).num_elements() == 0) {
		// empty roots are array_refs over a one-element buffer (non-null base), as in h_views
		auto buf = std::make_shared<std::vector<T>>(1);
		multi::array_ref<T, D> ref(buf->data(), x);
		r.n = 0;
		r.bytes = reinterpret_cast<char*>(buf->data());  // NOLINT
		r.nbytes = 0;
		r.view = std::make_unique<c12::PH<T, D, T*, true>>(ref.layout(), ref.base());
		r.keep = buf;
		return r;
	}
	auto arr = std::make_shared<multi::array<T, D>>(x);
	r.n = arr->num_elements();
	r.bytes = reinterpret_cast<char*>(arr->data_elements());  // NOLINT
	r.nbytes = static_cast<std::size_t>(r.n) * sizeof(T);
	fill(elem, r.bytes, r.n, 0);
	r.view = std::make_unique<c12::PH<T, D, T*, true>>(arr->layout(), arr->base());
	r.keep = arr;
	return r;
}

template<class T> Root make_root_dyn(char elem, int D, std::vector<std::pair<idx_t, idx_t>> const& e) {
	switch(D) {
		case 1: return make_root<T, 1>(elem, e);
		case 2: return make_root<T, 2>(elem, e);
		case 3: return make_root<T, 3>(elem, e);
		case 4: return make_root<T, 4>(elem, e);
		default: throw c12::unsupported("root rank");
	}
}

static void print_shape(std::string const& id, int step, c12::Any& v) {
	auto sz = v.sizes();
	auto st = v.strides();
	auto ex = v.extensions();
	std::cout << "S " << id << ' ' << step << " elem=" << v.elem() << " esz=" << v.esz() << " rank=" << v.rank() << " sizes=" << dv::join(sz.begin(), sz.end()) << " ext=";
	for(std::size_t k = 0; k != ex.size(); ++k) { std::cout << (k ? "," : "") << ex[k].first << ':' << ex[k].second; }
	std::cout << " strides=";
	for(std::size_t k = 0; k != st.size(); ++k) {
		// the stride of a dimension with fewer than two valid indices is not an observable of the property
		std::cout << (k ? "," : "");
		if(sz[k] >= 2) { std::cout << st[k]; } else { std::cout << '*'; }
	}
	std::cout << " nel=" << v.num_elements() << " size=" << v.size() << " empty=" << (v.is_empty() ? 1 : 0) << '\n';
}

static bool valid(c12::Any& v, std::vector<idx_t> const& x) {
	auto ex = v.extensions();
	bool ok = (x.size() == ex.size());
	for(std::size_t k = 0; ok && k != x.size(); ++k) { ok = (ex[k].first <= x[k] && x[k] < ex[k].second); }
	return ok;
}

static void probe_line(char const* tag, std::string const& id, int step, c12::Any& v, std::vector<idx_t> const& x) {
	std::cout << tag << ' ' << id << ' ' << step << " idx=" << dv::join(x.begin(), x.end());
	if(!valid(v, x)) { std::cout << " invalid\n"; return; }
	bool has = false;
	long off = 0;
	std::string val;
	v.probe(x, has, off, val);
	if(has) { std::cout << " O=" << off; } else { std::cout << " O=-"; }
	std::cout << " V=" << val << '\n';
}

int main() {
	std::string line;
	std::string id;
	Root root;
	int step = 0;
	int nwalk = 0;
	bool dead = false;
	std::vector<std::vector<idx_t>> probes;   // probes of the current step (for `write`)
	while(std::getline(std::cin, line)) {
		if(line.empty() || line[0] == '#') { continue; }
		std::istringstream is(line);
		std::string kw;
		is >> kw;
		try {
			if(kw == "case") {
				is >> id;
				step = 0;
				nwalk = 0;
				dead = false;
				probes.clear();
			} else if(kw == "root") {
				std::string el;
				int D = 0;
				is >> el >> D;
				std::vector<std::pair<idx_t, idx_t>> e(static_cast<std::size_t>(D));
				for(auto& p : e) { is >> p.first >> p.second; }
				root = (el == "Z") ? make_root_dyn<c12::Z>('Z', D, e) : make_root_dyn<c12::S>('S', D, e);
				c12::ctx().root = root.bytes;
				c12::ctx().nbytes = root.nbytes;
				root.pristine.resize(root.nbytes / 4);
				if(root.nbytes != 0) { std::memcpy(root.pristine.data(), root.bytes, root.nbytes); }
				print_shape(id, step, *root.view);
			} else if(kw == "op" || kw == "proj") {
				if(dead) { continue; }
				++step;
				probes.clear();
				std::unique_ptr<c12::Any> nv;
				if(kw == "op") {
					auto op = dv::parse_op(is);
					nv = root.view->apply(op);
				} else {
					std::string kind;
					is >> kind;
					std::vector<idx_t> a;
					idx_t x = 0;
					while(is >> x) { a.push_back(x); }
					nv = root.view->project(kind, a);
				}
				root.view = std::move(nv);
				print_shape(id, step, *root.view);
			} else if(kw == "mutate") {
				if(dead) { continue; }
				fill(root.elem, root.bytes, root.n, 1);
				if(root.nbytes != 0) { std::memcpy(root.pristine.data(), root.bytes, root.nbytes); }
			} else if(kw == "probe") {
				if(dead) { continue; }
				std::vector<idx_t> x;
				idx_t i = 0;
				while(is >> i) { x.push_back(i); }
				probe_line("P", id, step, *root.view, x);
				probes.push_back(x);
			} else if(kw == "write") {
				if(dead) { continue; }
				long n = 0;
				bool any = false;
				for(auto const& x : probes) {
					if(valid(*root.view, x)) { any = root.view->write(x, n) || any; }
					++n;
				}
				std::cout << "Wr " << id << ' ' << step << " writable=" << (any ? 1 : 0) << '\n';
				std::vector<std::int32_t> now(root.nbytes / 4);
				if(root.nbytes != 0) { std::memcpy(now.data(), root.bytes, root.nbytes); }
				for(std::size_t k = 0; k != now.size(); ++k) {
					if(now[k] != root.pristine[k]) { std::cout << "M " << id << ' ' << step << ' ' << k << ' ' << now[k] << '\n'; }
				}
				for(auto const& x : probes) { probe_line("W", id, step, *root.view, x); }
			} else if(kw == "convert") {
				if(dead) { continue; }
				std::string kind;
				is >> kind;
				root.view->convert(std::cout, id, step, kind);
			} else if(kw == "walk") {
				if(dead) { continue; }
				std::vector<std::string> tk;
				std::string t;
				while(is >> t) { tk.push_back(t); }
				root.view->walk(std::cout, id, step, ++nwalk, tk);
			} else if(kw == "end") {
				std::cout << "E " << id << '\n';
			}
		} catch(c12::unsupported const& u) {
			std::cout << "U " << id << ' ' << step << ' ' << u.what() << '\n';
			dead = true;
		}
	}
	return 0;
}

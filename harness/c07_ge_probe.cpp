// does operator>= exist for views of dimensionality >= 2?  (compile probe for C07; -fsyntax-only)
#include <boost/multi/array.hpp>
namespace multi = boost::multi;
bool probe(multi::array<int, 2> const& a, multi::array<int, 2> const& b) { return a() >= b(); }

// h11_algos: C11 copy of h_algos.cpp over the pointer policy (-DPTR11_KIND=0|1|2: raw, fancy, checked pointer): the views are
// array_refs over a policy buffer (root A is GIVEN exactly region A, root B exactly region B), the iterators handed to the
// standard algorithms are the library's iterators over fancy / checked element pointers, value_type twins are owning arrays
// with the policy's allocator.  Same input, same output lines; a "Y" line carries the checked pointer's violation log and
// any to_address/pointer_to call of the library (must be absent; "K" is taken by this family's decay line).
// h_algos: C03 -- standard algorithms on begin()/end() and elements() ranges of views, on the real library.
// One buffer of tracked elements [guard | root A | guard | root B | guard]; view a = program over A, optional view b =
// program over B (second range of two-range algorithms / positions >= na of a primitive script).
//   prim cases: each line executes ONE reference-level primitive ( *it = x, *it = *jt, iter_swap, *it < *jt, ... ) on
//               the range; results are printed (R lines), then the whole buffer (B) and the moved-from flags outside the
//               views (M).  The extracted Coq model (run_on_view) prints the same lines.
//   algo cases: one standard algorithm is run on the range AND on a std::vector<value_type> twin holding copies;
//               contents, returned position and the complement of the views are compared here (T line: the property's own
//               oracle, no model involved); for algorithms that the model also has as a program, the returned position and
//               the buffer are printed as well (A / B lines) and compared with the model.
//   K line: whether iterator::value_type can hold the shape of a row (it cannot when the row has a zero extent under a
//           non-zero one: multi::array collapses to all-zero sizes) -- the known finding of this property.
// Input: case <id> / buf G NA NB / data v... / aroot D f l ... / aop <op> / broot ... / bop <op> / range rows|elems /
//        prim <name> args / algo <name> args / end
#include "common/ptr11_dynview.hpp"

#include <algorithm>
#include <numeric>
#include <set>

using dv11::idx_t;
using dv11::P;
using dv11::Ptr;
using Buf = typename P::template buffer<struct TE>;

struct TE {
	int v = 0;
	bool moved = false;
	TE() = default;
	TE(int x) : v(x) {}  // NOLINT
	TE(TE const& o) : v(o.v) {}
	TE(TE&& o) noexcept : v(o.v) { o.moved = true; }
	auto operator=(TE const& o) -> TE& { v = o.v; moved = false; return *this; }
	auto operator=(TE&& o) noexcept -> TE& { v = o.v; moved = false; o.moved = true; return *this; }
	~TE() = default;
	friend bool operator==(TE const& a, TE const& b) { return a.v == b.v; }
	friend bool operator!=(TE const& a, TE const& b) { return a.v != b.v; }
	friend bool operator<(TE const& a, TE const& b) { return a.v < b.v; }
};

template<int D, std::size_t... I>
auto make_ext(std::vector<std::pair<idx_t, idx_t>> const& e, std::index_sequence<I...> /*unused*/) {
	return multi::extensions_t<D>{multi::iextension{e[I].first, e[I].second}...};
}
template<int D> std::unique_ptr<dv11::Base<TE>> make_ref(Ptr<TE> p, std::vector<std::pair<idx_t, idx_t>> const& e) {
	multi::array_ref<TE, D, Ptr<TE>> ref(p, make_ext<D>(e, std::make_index_sequence<D>{}));
	return std::make_unique<dv11::Holder<TE, D>>(ref.layout(), P::template unconst<TE>(ref.base()));
}
std::unique_ptr<dv11::Base<TE>> make_ref_dyn(int D, Ptr<TE> p, std::vector<std::pair<idx_t, idx_t>> const& e) {
	switch(D) {
		case 1: return make_ref<1>(p, e);
		case 2: return make_ref<2>(p, e);
		case 3: return make_ref<3>(p, e);
		default: throw dv11::unsupported("root rank");
	}
}

// ---- observation helpers (values are observed element by element, in canonical order) ----
inline void flat_into(TE const& e, std::vector<int>& out) { out.push_back(e.v); }
template<class X, class = decltype(std::declval<X const&>().num_elements())>
void flat_into(X const& x, std::vector<int>& out) {
	auto const& cx = x;
	for(auto it = cx.elements().begin(); it != cx.elements().end(); ++it) { out.push_back((*it).v); }
}
template<class X> std::vector<int> flat_of(X const& x) { std::vector<int> r; flat_into(x, r); return r; }
inline std::string ints(std::vector<int> const& v) { return v.empty() ? std::string("-") : dv11::join(v.begin(), v.end()); }

struct Line {  // one prim / algo line
	std::string kind, name;
	std::vector<int> args;
};

struct Env {
	std::string id;
	Buf* buf = nullptr;
	idx_t nbuf() const { return buf->size(); }
	TE& cell(idx_t k) const { return buf->cell(k); }
	std::vector<int> init;      // initial values of the buffer
	std::vector<char> inside;   // cells of view a or view b
	std::string range;
	std::vector<Line> lines;
};

// The work on one pair of iterators.  It: array_iterator (rows) or elements iterator.
template<class It, class MkV>
struct Runner {
	using V = typename std::iterator_traits<It>::value_type;
	Env& env;
	It fa; idx_t na;
	It fb; idx_t nb;
	bool has_b;
	MkV mk;  // flat values -> V of the rows' shape
	idx_t rowlen;

	It at(idx_t p) const { return p < na ? fa + p : fb + (p - na); }

	std::vector<int> vals_from(std::vector<int> const& args, std::size_t from) const {
		return std::vector<int>(args.begin() + static_cast<std::ptrdiff_t>(from), args.end());
	}

	void dump_buffer() const {
		std::cout << "B " << env.id;
		for(idx_t k = 0; k != env.nbuf(); ++k) { std::cout << ' ' << env.cell(k).v; }
		std::cout << '\n';
	}
	void dump_moved_outside() const {
		std::vector<int> m;
		for(std::size_t k = 0; k != static_cast<std::size_t>(env.nbuf()); ++k) { if(env.cell(static_cast<idx_t>(k)).moved && !env.inside[k]) { m.push_back(static_cast<int>(k)); } }
		std::cout << "M " << env.id << ' ' << ints(m) << '\n';
	}
	bool frame_ok() const {
		for(std::size_t k = 0; k != static_cast<std::size_t>(env.nbuf()); ++k) {
			if(!env.inside[k] && (env.cell(static_cast<idx_t>(k)).v != env.init[k] || env.cell(static_cast<idx_t>(k)).moved)) { return false; }
		}
		return true;
	}

	// ------------------------------------------------------------------ primitives
	void prim(int step, Line const& ln) {
		auto const& a = ln.args;
		auto const& n = ln.name;
		std::cout << "R " << env.id << ' ' << step << ' ';
		if(n == "read") { V x = *at(a[0]); std::cout << "v:" << ints(flat_of(x)); }
		else if(n == "take") { V x = std::move(*at(a[0])); std::cout << "v:" << ints(flat_of(x)); }
		else if(n == "write") { V x = mk(vals_from(a, 1)); *at(a[0]) = x; std::cout << '-'; }
		else if(n == "copy") { *at(a[0]) = *at(a[1]); std::cout << '-'; }
		else if(n == "move") { *at(a[0]) = std::move(*at(a[1])); std::cout << '-'; }
		else if(n == "swap") { std::iter_swap(at(a[0]), at(a[1])); std::cout << '-'; }
		else if(n == "less") { bool r = *at(a[0]) < *at(a[1]); std::cout << "b:" << (r ? 1 : 0); }
		else if(n == "lessv") { V x = mk(vals_from(a, 1)); bool r = *at(a[0]) < x; std::cout << "b:" << (r ? 1 : 0); }
		else if(n == "vless") { V x = mk(vals_from(a, 1)); bool r = x < *at(a[0]); std::cout << "b:" << (r ? 1 : 0); }
		else if(n == "eq") { bool r = *at(a[0]) == *at(a[1]); std::cout << "b:" << (r ? 1 : 0); }
		else if(n == "eqv") { V x = mk(vals_from(a, 1)); bool r = *at(a[0]) == x; std::cout << "b:" << (r ? 1 : 0); }
		else { throw dv11::unsupported("prim " + n); }
		std::cout << '\n';
	}

	// ------------------------------------------------------------------ algorithms
	using FV = std::vector<std::vector<int>>;
	static FV flats(It f, idx_t n) { FV r; for(idx_t k = 0; k != n; ++k) { r.push_back(flat_of(*(f + k))); } return r; }
	static FV flats(std::vector<V> const& t) { FV r; for(auto const& x : t) { r.push_back(flat_of(x)); } return r; }
	static FV sorted(FV x) { std::sort(x.begin(), x.end()); return x; }
	static std::string show(FV const& x) {
		std::string s;
		for(auto const& r : x) { s += (s.empty() ? "" : "|"); s += ints(r); }
		return s.empty() ? "-" : s;
	}
	static long sum_of(V const& x) { long s = 0; for(int e : flat_of(x)) { s += e; } return s; }

	void algo(Line const& ln) {
		auto const& name = ln.name;
		auto const& a = ln.args;
		It const la = fa + na;
		It const lb = fb + nb;
		std::vector<V> ta(fa, la);          // the twin: independent copies
		std::vector<V> tb(fb, lb);
		std::string fail;
		auto need = [&](bool c, char const* what) { if(!c && fail.empty()) { fail = what; } };
		bool print_buf = false;
		std::string aline;  // extra observation shared with the model
		auto arg = [&](std::size_t k) { return static_cast<idx_t>(a.at(k)); };

		if(name == "sort" || name == "stable_sort") {
			if(name == "sort") { std::sort(fa, la); std::sort(ta.begin(), ta.end()); }
			else { std::stable_sort(fa, la); std::stable_sort(ta.begin(), ta.end()); }
			need(flats(fa, na) == flats(ta), "contents");
			need(std::is_sorted(fa, la), "not-sorted");
			print_buf = true;
		} else if(name == "partial_sort") {
			idx_t k = arg(0);
			std::partial_sort(fa, fa + k, la);
			std::partial_sort(ta.begin(), ta.begin() + k, ta.end());
			auto x = flats(fa, na); auto y = flats(ta);
			need(FV(x.begin(), x.begin() + k) == FV(y.begin(), y.begin() + k), "sorted-prefix");
			need(sorted(x) == sorted(y), "multiset");
		} else if(name == "nth_element") {
			idx_t k = arg(0);
			auto before = sorted(flats(fa, na));
			std::nth_element(fa, fa + k, la);
			auto x = flats(fa, na);
			need(sorted(x) == before, "multiset");
			if(k < na) {
				need(x[static_cast<std::size_t>(k)] == before[static_cast<std::size_t>(k)], "nth");
				for(idx_t j = 0; j != na; ++j) {
					if(j < k) { need(!(x[static_cast<std::size_t>(k)] < x[static_cast<std::size_t>(j)]), "left-part"); }
					if(j > k) { need(!(x[static_cast<std::size_t>(j)] < x[static_cast<std::size_t>(k)]), "right-part"); }
				}
			}
		} else if(name == "rotate") {
			idx_t k = arg(0);
			auto r = std::rotate(fa, fa + k, la);
			auto r2 = std::rotate(ta.begin(), ta.begin() + k, ta.end());
			need(flats(fa, na) == flats(ta), "contents");
			need((r - fa) == (r2 - ta.begin()), "returned-position");
			aline = "ret=" + std::to_string(r - fa);
			print_buf = true;
		} else if(name == "reverse") {
			std::reverse(fa, la);
			std::reverse(ta.begin(), ta.end());
			need(flats(fa, na) == flats(ta), "contents");
			print_buf = true;
		} else if(name == "partition") {
			V pivot = mk(vals_from(a, 0));
			auto before = sorted(flats(fa, na));
			auto r = std::partition(fa, la, [&](auto const& x) { return x < pivot; });
			auto r2 = std::partition(ta.begin(), ta.end(), [&](V const& x) { return x < pivot; });
			need((r - fa) == (r2 - ta.begin()), "returned-position");
			need(sorted(flats(fa, na)) == before, "multiset");
			for(idx_t j = 0; j != na; ++j) { need((*(fa + j) < pivot) == (j < (r - fa)), "partitioned"); }
		} else if(name == "unique") {
			auto r = std::unique(fa, la);
			auto r2 = std::unique(ta.begin(), ta.end());
			need((r - fa) == (r2 - ta.begin()), "returned-position");
			auto x = flats(fa, r - fa); auto y = flats(ta);
			need(x == FV(y.begin(), y.begin() + (r2 - ta.begin())), "prefix");
			aline = "ret=" + std::to_string(r - fa) + " prefix=" + show(x);
		} else if(name == "remove") {
			V x0 = mk(vals_from(a, 0));
			auto r = std::remove(fa, la, x0);
			auto r2 = std::remove(ta.begin(), ta.end(), x0);
			need((r - fa) == (r2 - ta.begin()), "returned-position");
			auto x = flats(fa, r - fa); auto y = flats(ta);
			need(x == FV(y.begin(), y.begin() + (r2 - ta.begin())), "prefix");
			aline = "ret=" + std::to_string(r - fa) + " prefix=" + show(x);
		} else if(name == "copy") {          // second range (view b, or independent values) -> a
			if(has_b) { auto r = std::copy(fb, lb, fa); need((r - fa) == nb, "returned-position"); need(flats(fa, nb) == flats(tb), "contents"); need(flats(fb, nb) == flats(tb), "source-changed"); print_buf = true; aline = "ret=" + std::to_string(r - fa); }
			else {
				std::vector<V> src; for(idx_t k = 0; k != na; ++k) { src.push_back(mk(std::vector<int>(static_cast<std::size_t>(rowlen), static_cast<int>(100 + k)))); }
				auto r = std::copy(src.begin(), src.end(), fa); need((r - fa) == na, "returned-position"); need(flats(fa, na) == flats(src), "contents");
				std::vector<V> out(static_cast<std::size_t>(na), mk(std::vector<int>(static_cast<std::size_t>(rowlen), 0)));
				std::copy(fa, la, out.begin()); need(flats(out) == flats(src), "copy-out");
			}
		} else if(name == "copy_backward") {
			if(has_b) { auto r = std::copy_backward(fb, lb, fa + nb); need((r - fa) == 0, "returned-position"); need(flats(fa, nb) == flats(tb), "contents"); }
			else if(na >= 1) {   // overlapping shift to the right by one: d_last = last is outside (first, last-1]
				auto r = std::copy_backward(fa, la - 1, la);
				auto r2 = std::copy_backward(ta.begin(), ta.end() - 1, ta.end());
				need(flats(fa, na) == flats(ta), "contents"); need((r - fa) == (r2 - ta.begin()), "returned-position");
			}
		} else if(name == "move") {
			if(has_b) { auto r = std::move(fb, lb, fa); need((r - fa) == nb, "returned-position"); need(flats(fa, nb) == flats(tb), "contents"); }
			else if(na >= 1) {   // shift to the left by one; the last position is left moved-from: not compared
				auto r = std::move(fa + 1, la, fa);
				need((r - fa) == na - 1, "returned-position");
				auto x = flats(fa, na - 1); auto y = flats(ta);
				need(x == FV(y.begin() + 1, y.end()), "contents");
			}
		} else if(name == "swap_ranges") {
			if(!has_b) { throw dv11::unsupported("swap_ranges needs b"); }
			auto r = std::swap_ranges(fa, la, fb);
			need((r - fb) == na, "returned-position");
			need(flats(fa, na) == flats(tb), "contents-a"); need(flats(fb, nb) == flats(ta), "contents-b");
			print_buf = true;
		} else if(name == "fill") {
			V x0 = mk(vals_from(a, 0));
			std::fill(fa, la, x0);
			std::fill(ta.begin(), ta.end(), x0);
			need(flats(fa, na) == flats(ta), "contents");
			print_buf = true;
		} else if(name == "transform") {
			auto f = [&](auto const& r) { auto v = flat_of(r); for(auto& e : v) { e = 2 * e + 1; } return mk(v); };
			if(has_b) { auto r = std::transform(fa, la, fb, f); need((r - fb) == na, "returned-position"); std::transform(ta.begin(), ta.end(), tb.begin(), f); need(flats(fb, nb) == flats(tb), "contents"); need(flats(fa, na) == flats(ta), "source-changed"); }
			else { auto r = std::transform(fa, la, fa, f); need((r - fa) == na, "returned-position"); std::transform(ta.begin(), ta.end(), ta.begin(), f); need(flats(fa, na) == flats(ta), "contents"); }
		} else if(name == "find") {
			V x0 = mk(vals_from(a, 0));
			auto r = std::find(fa, la, x0);
			auto r2 = std::find(ta.begin(), ta.end(), x0);
			need((r - fa) == (r2 - ta.begin()), "returned-position");
			aline = "ret=" + std::to_string(r - fa);
		} else if(name == "equal") {
			bool r = false; bool r2 = false;
			if(has_b) { r = std::equal(fa, la, fb); r2 = std::equal(ta.begin(), ta.end(), tb.begin()); bool r3 = std::equal(fa, la, tb.begin()); need(r3 == r2, "mixed"); aline = std::string("ret=") + (r ? "1" : "0"); }
			else { r = std::equal(fa, la, ta.begin()); r2 = true; }
			need(r == r2, "result");
		} else if(name == "is_sorted") {
			bool r = std::is_sorted(fa, la);
			bool r2 = std::is_sorted(ta.begin(), ta.end());
			need(r == r2, "result");
			aline = std::string("ret=") + (r ? "1" : "0");
		} else if(name == "accumulate") {
			long r = std::accumulate(fa, la, 0L, [](long acc, auto const& row) { long s = acc; for(int e : flat_of(row)) { s += e; } return s; });
			long r2 = std::accumulate(ta.begin(), ta.end(), 0L, [](long acc, V const& row) { return acc + sum_of(row); });
			need(r == r2, "result");
		} else if(name == "lexicographical_compare") {
			if(has_b) {
				bool r = std::lexicographical_compare(fa, la, fb, lb);
				bool r2 = std::lexicographical_compare(ta.begin(), ta.end(), tb.begin(), tb.end());
				need(r == r2, "result");
				bool r3 = std::lexicographical_compare(fa, la, tb.begin(), tb.end()); need(r3 == r2, "mixed");
			} else {
				idx_t k = na / 2;
				bool r = std::lexicographical_compare(fa, fa + k, fa + k, la);
				bool r2 = std::lexicographical_compare(ta.begin(), ta.begin() + k, ta.begin() + k, ta.end());
				need(r == r2, "result");
			}
		} else {
			throw dv11::unsupported("algo " + name);
		}
		bool fr = frame_ok();
		std::cout << "T " << env.id << ' ' << name << " twin=" << (fail.empty() ? "ok" : fail) << " frame=" << (fr ? "ok" : "CHANGED") << '\n';
		if(!aline.empty()) { std::cout << "A " << env.id << ' ' << name << ' ' << aline << '\n'; }
		if(print_buf) { dump_buffer(); }
	}

	void run() {
		int step = 0;
		bool any_prim = false;
		for(auto const& ln : env.lines) {
			if(ln.kind == "prim") { prim(++step, ln); any_prim = true; } else { algo(ln); }
		}
		if(any_prim) { dump_buffer(); dump_moved_outside(); }
	}
};

template<class It, class MkV> Runner<It, MkV> make_runner(Env& env, It fa, idx_t na, It fb, idx_t nb, bool has_b, MkV mk, idx_t rowlen) {
	return Runner<It, MkV>{env, fa, na, fb, nb, has_b, mk, rowlen};
}

struct Doer : dv11::Typed<TE, Doer> {
	Env* env = nullptr;
	dv11::Base<TE>* other = nullptr;
	bool done = false;

	template<class S> void mark(S& v) {
		auto&& el = v.elements();
		auto b0 = env->buf->at(0, env->nbuf());   // the pointer type's own difference locates the cell
		for(auto it = el.begin(); it != el.end(); ++it) { env->inside[static_cast<std::size_t>(P::to(const_cast<TE&>(*it)) - b0)] = 1; }  // NOLINT
	}

	template<int D> void go(dv11::V<TE, D>& acv) {
		if constexpr(D > 3) {
			throw dv11::unsupported("rank > 3");
		} else {
			using SubA = multi::subarray<TE, D, Ptr<TE>>;
			SubA a(acv.layout(), P::template unconst<TE>(acv.base()));
			auto* bh = dynamic_cast<dv11::Holder<TE, D>*>(other);
			bool has_b = bh != nullptr;
			if(other != nullptr && !has_b) { throw dv11::unsupported("rank mismatch"); }
			SubA b = has_b ? SubA(bh->v.layout(), P::template unconst<TE>(bh->v.base()))
			               : SubA(acv.layout(), P::template unconst<TE>(acv.base()));
			if(a.num_elements() > 0) { mark(a); }
			if(has_b && b.num_elements() > 0) { mark(b); }
			auto sz = dv11::tup_to_vec(a.sizes());
			std::cout << "V " << env->id << " kind=" << env->range << " sizes=" << dv11::join(sz.begin(), sz.end()) << " nel=" << a.num_elements();
			if(has_b) { auto s2 = dv11::tup_to_vec(b.sizes()); std::cout << " bsizes=" << dv11::join(s2.begin(), s2.end()); }
			std::cout << '\n';
			if(env->range == "elems" || D == 1) { std::cout << "K " << env->id << " decay=ok\n"; }
			if(env->range == "elems") {
				auto mk = [](std::vector<int> const& v) { return TE{v.at(0)}; };
				auto ea = a.elements().begin();
				auto eb = b.elements().begin();
				make_runner(*env, ea, a.num_elements(), eb, has_b ? b.num_elements() : 0, has_b, mk, 1).run();
			} else {
				if constexpr(D == 1) {
					auto mk = [](std::vector<int> const& v) { return TE{v.at(0)}; };
					make_runner(*env, a.begin(), a.size(), b.begin(), has_b ? b.size() : 0, has_b, mk, 1).run();
				} else {
					using V = typename std::iterator_traits<decltype(a.begin())>::value_type;  // array<TE, D-1, the pointer's default allocator>
					auto xs = (*a.begin()).extensions();
					idx_t rowlen = (*a.begin()).num_elements();
					{	// can iterator::value_type hold the shape of a row at all?
						V probe(xs);
						bool same = dv11::tup_to_vec(probe.sizes()) == dv11::tup_to_vec((*a.begin()).sizes());
						std::cout << "K " << env->id << " decay=" << (same ? "ok" : "collapsed") << '\n';
					}
					auto mk = [xs](std::vector<int> const& v) {
						V x(xs);
						if(static_cast<idx_t>(v.size()) != x.num_elements()) { throw dv11::unsupported("value of the wrong shape"); }
						for(std::size_t k = 0; k != v.size(); ++k) { x.data_elements()[k] = TE{v[k]}; }
						return x;
					};
					make_runner(*env, a.begin(), a.size(), b.begin(), has_b ? b.size() : 0, has_b, mk, rowlen).run();
				}
			}
			done = true;
		}
	}
};

int main() {
	std::string line;
	Env env;
	std::unique_ptr<Buf> buf;
	idx_t G = 0;
	idx_t NA = 0;
	idx_t NB = 0;
	std::unique_ptr<dv11::Base<TE>> va;
	std::unique_ptr<dv11::Base<TE>> vb;
	bool dead = false;
	while(std::getline(std::cin, line)) {
		if(line.empty() || line[0] == '#') { continue; }
		std::istringstream is(line);
		std::string kw;
		is >> kw;
		try {
			if(kw == "case") {
				is >> env.id;
				dead = false;
				va.reset();
				vb.reset();
				env.lines.clear();
				env.range = "rows";
			} else if(kw == "buf") {
				is >> G >> NA >> NB;
				va.reset();
				vb.reset();
				buf.reset();
				buf = std::make_unique<Buf>(3 * G + NA + NB);
				env.buf = buf.get();
			} else if(kw == "data") {
				env.init.clear();
				int x = 0;
				while(is >> x) { env.init.push_back(x); }
				if(static_cast<idx_t>(env.init.size()) != buf->size()) { throw dv11::unsupported("data length"); }
				for(idx_t k = 0; k != buf->size(); ++k) { buf->cell(k).v = env.init[static_cast<std::size_t>(k)]; buf->cell(k).moved = false; }
				env.inside.assign(static_cast<std::size_t>(buf->size()), 0);
			} else if(kw == "aroot" || kw == "broot") {
				int D = 0;
				is >> D;
				std::vector<std::pair<idx_t, idx_t>> e(static_cast<std::size_t>(D));
				for(auto& p : e) { is >> p.first >> p.second; }
				if(kw == "aroot") { va = make_ref_dyn(D, buf->at(G, NA), e); } else { vb = make_ref_dyn(D, buf->at(2 * G + NA, NB), e); }
			} else if(kw == "aop" || kw == "bop") {
				if(dead) { continue; }
				auto op = dv11::parse_op(is);
				auto& v = (kw == "aop") ? va : vb;
				auto nv = v->apply(op);
				v = std::move(nv);
			} else if(kw == "range") {
				is >> env.range;
			} else if(kw == "prim" || kw == "algo") {
				Line ln;
				ln.kind = kw;
				is >> ln.name;
				int x = 0;
				while(is >> x) { ln.args.push_back(x); }
				env.lines.push_back(ln);
			} else if(kw == "end") {
				if(!dead) {
					Doer doer;
					doer.env = &env;
					doer.other = vb.get();
					va->accept(doer);
				}
				ptr11::report_case(std::cout, env.id, true, "Y");
				std::cout << "E " << env.id << '\n';
			}
		} catch(dv11::unsupported const& u) {
			std::cout << "U " << env.id << " 0 " << u.what() << '\n';
			dead = true;
			if(kw == "end") { std::cout << "E " << env.id << '\n'; }
		}
	}
	return 0;
}

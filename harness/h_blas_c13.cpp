// h_blas_c13: runs BLAS-adaptor cases on the real library (compiled against BM_REPO/include in the check run),
// with the BLAS symbols interposed (interpose_blas_c13.cpp), and prints per case:
//   Q <id> <routine> <et> <form> debug=<0|1> a=<re>,<im> b=<re>,<im>     what was asked
//   D <id> <A|B|C|M> <base> <s0> <s1> <rows> <cols> <conj>                the operand as the dispatch sees it
//   V <id> <X|Y> <base> <inc> <len> <conj>
//   K <id> <k> <name> ...                                                 every BLAS call that was made (interposed)
//   O <id> outcome=<ok|throw|abort> why=<...>                             how the adaptor call ended
//   R <id> result=<ok|bad:...|na> guards=<ok|bad:...> inputs=<ok|bad:...> direct monitors (naive loops, guard cells)
//   T <id> ... / W <id> <name> ...   expression cases only (common/c13_expr.hpp): the tree, the decorated operand views
//   E <id>
// The K and O lines are compared with the Coq model's; the R line is independent of the model.
#include <boost/multi/adaptors/blas/asum.hpp>
#include <boost/multi/adaptors/blas/axpy.hpp>
#include <boost/multi/adaptors/blas/copy.hpp>
#include <boost/multi/adaptors/blas/dot.hpp>
#include <boost/multi/adaptors/blas/gemm.hpp>
#include <boost/multi/adaptors/blas/gemv.hpp>
#include <boost/multi/adaptors/blas/herk.hpp>
#include <boost/multi/adaptors/blas/iamax.hpp>
#include <boost/multi/adaptors/blas/nrm2.hpp>
#include <boost/multi/adaptors/blas/operations.hpp>
#include <boost/multi/adaptors/blas/scal.hpp>
#include <boost/multi/adaptors/blas/swap.hpp>
#include <boost/multi/adaptors/blas/syrk.hpp>
#include <boost/multi/adaptors/blas/trsm.hpp>
#include <boost/multi/array.hpp>

#include "common/c13_log.h"

#include <complex>
#include <sys/wait.h>
#include <unistd.h>

#include <csetjmp>
#include <csignal>
#include <cstdio>
#include <cstring>
#include <iostream>
#include <map>
#include <sstream>
#include <string>
#include <vector>

namespace multi = boost::multi;
namespace blas = boost::multi::blas;
using idx = std::ptrdiff_t;

#ifdef NDEBUG
static constexpr int kDebug = 0;
#else
static constexpr int kDebug = 1;
#endif

// the id of the running case, in static storage: a defective call can corrupt the heap AND what hangs off it
static char g_id[64] = "?";

static constexpr idx kGuard = 192;  // guard cells on each side of every operand buffer

// ------------------------------------------------------------------------------------------------ abort capture
static sigjmp_buf g_jmp;
static volatile sig_atomic_t g_armed = 0;
static void on_abort(int /*sig*/) {
	if(g_armed != 0) {
		g_armed = 0;
		siglongjmp(g_jmp, 1);
	}
	std::_Exit(134);
}

// ------------------------------------------------------------------------------------------------ element helpers
template<class T> struct is_cplx : std::false_type {};
template<class R> struct is_cplx<std::complex<R>> : std::true_type {};

template<class T> T mk(long re, long im) {
	if constexpr(is_cplx<T>::value) { return T(static_cast<typename T::value_type>(re), static_cast<typename T::value_type>(im)); }
	else { (void)im; return static_cast<T>(re); }
}
template<class T> long re_of(T const& x) {
	if constexpr(is_cplx<T>::value) { return std::lround(x.real()); } else { return std::lround(x); }
}
template<class T> long im_of(T const& x) {
	if constexpr(is_cplx<T>::value) { return std::lround(x.imag()); } else { (void)x; return 0; }
}
template<class T> std::string show(T const& x) {
	std::ostringstream os;
	if constexpr(is_cplx<T>::value) { os << x.real() << "," << x.imag(); } else { os << x << ",0"; }
	return os.str();
}

// deterministic small-integer data: exact in float
static unsigned long mix(unsigned long x) {
	x ^= x >> 33; x *= 0xff51afd7ed558ccdUL; x ^= x >> 33; x *= 0xc4ceb9fe1a85ec53UL; x ^= x >> 33;
	return x;
}
template<class T> T datum(unsigned long seed, idx k) {
	unsigned long h = mix(seed * 1000003UL + static_cast<unsigned long>(k) + 17UL);
	long re = static_cast<long>(h % 7UL) - 3;
	long im = static_cast<long>((h >> 8) % 5UL) - 2;
	if(re == 0 && im == 0) { re = 1; }
	return mk<T>(re, im);
}

// ------------------------------------------------------------------------------------------------ case description
struct MatSpec { idx R = 1, C = 1, r0 = 0, nr = 0, rs = 1, c0 = 0, nc = 0, cs = 1; char deco = 'N'; unsigned long seed = 1; bool present = false; };
struct VecSpec { idx n0 = 1, i0 = 0, len = 0, step = 1; char deco = 'N'; unsigned long seed = 1; bool present = false; };
struct Case {
	std::string id, routine, et, form;
	std::string flags[3];
	std::string tree;   // expression cases: the `tree` line (key=value ...), see common/c13_expr.hpp
	long a_re = 1, a_im = 0, b_re = 0, b_im = 0;
	std::map<char, MatSpec> mats;
	std::map<char, VecSpec> vecs;
};

template<class T> struct Buf {
	std::vector<T> cells;
	std::vector<T> before;
	idx n = 0;
	T* root() { return cells.data() + kGuard; }
	void init(idx nroot, unsigned long seed) {
		n = nroot;
		cells.assign(static_cast<std::size_t>(nroot + 2 * kGuard), mk<T>(777, 0));
		for(idx k = 0; k != nroot; ++k) { root()[k] = datum<T>(seed, k); }
		before = cells;
	}
	bool guards_ok() const {
		for(idx k = 0; k != kGuard; ++k) {
			if(cells[static_cast<std::size_t>(k)] != before[static_cast<std::size_t>(k)]) { return false; }
			if(cells[static_cast<std::size_t>(kGuard + n + k)] != before[static_cast<std::size_t>(kGuard + n + k)]) { return false; }
		}
		return true;
	}
	bool unchanged() const { return cells == before; }
};

// Everything the K / O lines are printed from lives in the objects themselves (stack / static storage), never on the
// heap: several defective dispatch branches of the pinned tree make BLAS write outside a freshly allocated result, and a
// record of WHAT WAS CALLED must survive the damage to the neighbouring heap blocks (the damage itself is reported by the
// monitors / by the death of the child process).
struct Registry {
	struct Ent { char name; char const* lo; char const* hi; char const* root; int esize; };
	static constexpr int kMax = 12;
	Ent ents[kMax] = {};
	int n = 0;
	void push(Ent e) { if(n < kMax) { ents[n++] = e; } }
	template<class T> void add(char name, Buf<T>& b) {
		push({name, reinterpret_cast<char const*>(b.cells.data()), reinterpret_cast<char const*>(b.cells.data() + b.cells.size()),
		      reinterpret_cast<char const*>(b.root()), static_cast<int>(sizeof(T))});
	}
	void add_raw(char name, void const* lo, idx nelem, int esize) {
		auto const* p = static_cast<char const*>(lo);
		push({name, p, p + nelem * esize + 1, p, esize});
	}
	std::string where(void const* p) const {
		auto const* q = static_cast<char const*>(p);
		for(int k = 0; k != n; ++k) {
			auto const& e = ents[k];
			if(q >= e.lo && q < e.hi) {
				char buf[32];   // "A+123456": fits the small-string buffer, no allocation
				std::snprintf(buf, sizeof(buf), "%c+%ld", e.name, static_cast<long>((q - e.root) / e.esize));
				return buf;
			}
		}
		return p == nullptr ? "null" : "?";
	}
};

// how the adaptor call ended: a fixed-size text (see above)
struct Outcome {
	char text[64] = "outcome=? why=-";
	void set(char const* a, std::string const& b = std::string()) { std::snprintf(text, sizeof(text), "%s%s", a, b.c_str()); }
	std::size_t rfind(char const* prefix, std::size_t /*pos*/) const { return std::strncmp(text, prefix, std::strlen(prefix)) == 0 ? 0 : std::string::npos; }
	bool contains(char const* what) const { return std::strstr(text, what) != nullptr; }
};
inline std::ostream& operator<<(std::ostream& os, Outcome const& o) { return os << o.text; }

// ------------------------------------------------------------------------------------------------ views
template<class T> struct MatView {
	multi::layout_t<2> lay;
	T* base = nullptr;
	idx rows = 0, cols = 0;
};

// root(R x C) -> sub-block -> strided rows / columns; the decoration (N/T/J/H) is applied at the call
template<class T> MatView<T> make_mat(Buf<T>& buf, MatSpec const& s) {
	multi::array_ref<T, 2> ref(buf.root(), {s.R, s.C});
	MatView<T> mv;
	auto&& blk = ref({s.r0, s.r0 + s.nr * s.rs}, {s.c0, s.c0 + s.nc * s.cs});
	if(s.rs == 1 && s.cs == 1) {
		mv.lay = blk.layout(); mv.base = blk.base();
	} else if(s.cs == 1) {
		auto&& v = blk.strided(s.rs);
		mv.lay = v.layout(); mv.base = v.base();
	} else if(s.rs == 1) {
		auto&& v = blk.transposed().strided(s.cs).transposed();
		mv.lay = v.layout(); mv.base = v.base();
	} else {
		auto&& v = blk.strided(s.rs).transposed().strided(s.cs).transposed();
		mv.lay = v.layout(); mv.base = v.base();
	}
	mv.rows = s.nr; mv.cols = s.nc;
	return mv;
}

template<class T> struct VecView { multi::layout_t<1> lay; T* base = nullptr; idx len = 0; };
template<class T> VecView<T> make_vec(Buf<T>& buf, VecSpec const& s) {
	multi::array_ref<T, 1> ref(buf.root(), {s.n0});
	VecView<T> vv;
	auto&& blk = ref({s.i0, s.i0 + s.len * s.step});
	if(s.step == 1) { vv.lay = blk.layout(); vv.base = blk.base(); }
	else { auto&& v = blk.strided(s.step); vv.lay = v.layout(); vv.base = v.base(); }
	vv.len = s.len;
	return vv;
}

// apply the decoration with the adaptor's own functions and hand the decorated view to f
template<class T, class F> void with_mat(MatView<T> const& mv, char deco, F&& f) {
	multi::subarray<T, 2> v(mv.lay, mv.base);
	switch(deco) {
		case 'N': f(v); break;
		case 'T': { auto&& t = blas::T(v); f(t); break; }
		case 'J': { auto&& t = blas::J(v); f(t); break; }
		case 'H': { auto&& t = blas::H(v); f(t); break; }
		default: throw std::runtime_error("bad deco");
	}
}
template<class T, class F> void with_vec(VecView<T> const& vv, char deco, F&& f) {
	multi::subarray<T, 1> v(vv.lay, vv.base);
	switch(deco) {
		case 'N': f(v); break;
		case 'C': { auto&& t = blas::C(v); f(t); break; }
		default: throw std::runtime_error("bad deco");
	}
}

template<class T, class V2> T at2(V2&& v, idx i, idx j) { return static_cast<T>(v[i][j]); }
template<class T, class V1> T at1(V1&& v, idx i) { return static_cast<T>(v[i]); }

template<class T> T const* raw(T const* p) { return p; }
template<class T> T* raw(T* p) { return p; }
template<class It, class F, class R> auto raw(blas::involuter<It, F, R> const& p) { return raw(underlying(p)); }

template<class M> void print_D(std::string const& id, char name, M const& m, Registry const& reg) {
	auto st = m.strides();
	using std::get;
	std::cout << "D " << id << " " << name << " " << reg.where(raw(m.base())) << " " << get<0>(st) << " " << get<1>(st) << " "
	          << m.size() << " " << (~m).size() << " " << (blas::is_conjugated<M>{} ? 1 : 0) << "\n";
}
template<class V> void print_V(std::string const& id, char name, V const& v, Registry const& reg) {
	std::cout << "V " << id << " " << name << " " << reg.where(raw(v.base())) << " " << v.stride() << " " << v.size() << " "
	          << (blas::is_conjugated<V>{} ? 1 : 0) << "\n";
}

static void print_calls(std::string const& id, Registry const& reg) {
	for(int k = 0; k != c13_log_size(); ++k) {
		c13_call const& r = *c13_log_get(k);
		std::string nm = r.name;
		std::cout << "K " << id << " " << k << " " << nm;
		auto sc = [&](int w) { std::ostringstream os; os << std::lround(r.sc[w][0]) << "," << std::lround(r.sc[w][1]); return os.str(); };
		if(nm.size() == 5 && nm.substr(1) == "gemm") {
			std::cout << " " << r.ch[0] << " " << r.ch[1] << " " << r.iv[0] << " " << r.iv[1] << " " << r.iv[2] << " " << reg.where(r.pv[0]) << " "
			          << r.iv[3] << " " << reg.where(r.pv[1]) << " " << r.iv[4] << " " << reg.where(r.pv[2]) << " " << r.iv[5] << " a=" << sc(0)
			          << " b=" << sc(1) << " info=" << r.info;
		} else if(nm.size() == 5 && nm.substr(1) == "gemv") {
			std::cout << " " << r.ch[0] << " " << r.iv[0] << " " << r.iv[1] << " " << reg.where(r.pv[0]) << " " << r.iv[2] << " " << reg.where(r.pv[1])
			          << " " << r.iv[3] << " " << reg.where(r.pv[2]) << " " << r.iv[4] << " a=" << sc(0) << " b=" << sc(1) << " info=" << r.info;
		} else if(nm.size() == 5 && (nm.substr(1) == "syrk" || nm.substr(1) == "herk")) {
			std::cout << " " << r.ch[0] << " " << r.ch[1] << " " << r.iv[0] << " " << r.iv[1] << " " << reg.where(r.pv[0]) << " " << r.iv[2] << " "
			          << reg.where(r.pv[1]) << " " << r.iv[3] << " a=" << sc(0) << " b=" << sc(1) << " info=" << r.info;
		} else if(nm.size() == 5 && nm.substr(1) == "trsm") {
			std::cout << " " << r.ch[0] << " " << r.ch[1] << " " << r.ch[2] << " " << r.ch[3] << " " << r.iv[0] << " " << r.iv[1] << " " << reg.where(r.pv[0])
			          << " " << r.iv[2] << " " << reg.where(r.pv[1]) << " " << r.iv[3] << " a=" << sc(0) << " info=" << r.info;
		} else {
			std::cout << " n=" << r.iv[0] << " " << reg.where(r.pv[0]) << " " << r.iv[1];
			bool const two = nm.find("axpy") != std::string::npos || nm.find("copy") != std::string::npos || nm.find("swap") != std::string::npos || nm.find("dot") != std::string::npos;
			if(two) { std::cout << " " << reg.where(r.pv[1]) << " " << r.iv[2]; }
			if(nm.find("axpy") != std::string::npos || nm.find("scal") != std::string::npos) { std::cout << " a=" << sc(0); }
		}
		std::cout << "\n";
	}
}

static std::string classify(std::string const& what) {
	if(what.find("not BLAS-implemented") != std::string::npos) { return "notimpl"; }
	if(what.find("failed 'ldc >= max(1, m)'") != std::string::npos) { return "ldc"; }
	if(what.find("lda >=") != std::string::npos || what.find("ldb >=") != std::string::npos || what.find("ldc >=") != std::string::npos) { return "ld"; }
	if(what.find("aa != cc") != std::string::npos || what.find("bb != cc") != std::string::npos) { return "alias"; }
	if(what.find("Logic assertion") != std::string::npos) { return "logic"; }
	return "other";
}

// run f() catching exceptions and assertion aborts; returns the O line's text
template<class F> Outcome guarded(F&& f) {
	Outcome out;
	out.set("outcome=ok why=-");
	g_armed = 1;
	if(sigsetjmp(g_jmp, 1) == 0) {
		try {
			f();
		} catch(std::exception const& e) {
			out.set("outcome=throw why=", classify(e.what()));
		} catch(...) {
			out.set("outcome=throw why=unknown");
		}
	} else {
		out.set("outcome=abort why=assert");
	}
	g_armed = 0;
	return out;
}

// ------------------------------------------------------------------------------------------------ gemm
template<class T> void run_gemm(Case const& cs) {
	MatSpec const& sa = cs.mats.at('A');
	MatSpec const& sb = cs.mats.at('B');
	MatSpec const& sc = cs.mats.at('C');
	Buf<T> ba, bb, bc;
	ba.init(sa.R * sa.C, sa.seed); bb.init(sb.R * sb.C, sb.seed); bc.init(sc.R * sc.C, sc.seed);
	Registry reg;
	reg.add('A', ba); reg.add('B', bb); reg.add('C', bc);
	auto va = make_mat(ba, sa);
	auto vb = make_mat(bb, sb);
	auto vc = make_mat(bc, sc);
	T const alpha = mk<T>(cs.a_re, cs.a_im);
	T const beta = mk<T>(cs.b_re, cs.b_im);
	bool const in_c = (cs.form == "inplace" || cs.form == "assign" || cs.form == "pluseq");

	Outcome outcome;
	std::string result = "na";
	std::vector<T> expect;      // row-major M x N expected contents of the output
	idx M = 0, N = 0;
	std::vector<T> got;
	bool got_valid = false;
	multi::array<T, 2> fresh;

	with_mat(va, sa.deco, [&](auto&& a) {
		with_mat(vb, sb.deco, [&](auto&& b) {
			auto body = [&](auto&& c) {
				print_D(g_id, 'A', a, reg); print_D(g_id, 'B', b, reg);
				M = a.size(); N = (~b).size();
				if(in_c) { print_D(g_id, 'C', c, reg); }
				else {
					// the result array the library is about to construct has the layout of any array of these extents
					multi::array<T, 2> probe({M, N});
					Registry preg;
					if(probe.num_elements() > 0) { preg.add_raw('R', probe.data_elements(), probe.num_elements(), static_cast<int>(sizeof(T))); }
					print_D(g_id, 'C', probe, preg);
				}
				idx const K = (~a).size();
				T const be = cs.form == "inplace" ? beta : (cs.form == "pluseq" ? mk<T>(1, 0) : mk<T>(0, 0));
				T const al = (cs.form == "star") ? mk<T>(1, 0) : alpha;
				bool const shapes_ok = (b.size() == K) && (!in_c || (c.size() == M && (~c).size() == N));
				if(shapes_ok) {
					expect.assign(static_cast<std::size_t>(M * N), T{});
					for(idx i = 0; i != M; ++i) {
						for(idx j = 0; j != N; ++j) {
							T s{};
							for(idx l = 0; l != K; ++l) { s += at2<T>(a, i, l) * at2<T>(b, l, j); }
							T old = in_c ? at2<T>(c, i, j) : T{};
							expect[static_cast<std::size_t>(i * N + j)] = al * s + be * old;
						}
					}
				}
				c13_log_clear();
				std::cout.flush();
				outcome = guarded([&] {
					if(cs.form == "inplace") { blas::gemm(alpha, a, b, beta, c); }
					else if constexpr(!blas::is_conjugated<std::decay_t<decltype(c)>>{}) {
						if(cs.form == "assign") { c = blas::gemm(alpha, a, b); }
						else if(cs.form == "pluseq") { c += blas::gemm(alpha, a, b); }
						else if(cs.form == "construct") { multi::array<T, 2> r = blas::gemm(alpha, a, b); fresh = std::move(r); }
						else if(cs.form == "plus") { fresh = +blas::gemm(alpha, a, b); }
						else if(cs.form == "star") { using namespace blas::operators; fresh = +(a * b); }
						else { throw std::runtime_error("harness: unknown form"); }
					} else { throw std::runtime_error("harness: lazy form with conjugated output"); }
				});
				if(shapes_ok && outcome.rfind("outcome=ok", 0) == 0) {
					got.assign(static_cast<std::size_t>(M * N), T{});
					if(in_c) {
						for(idx i = 0; i != M; ++i) { for(idx j = 0; j != N; ++j) { got[static_cast<std::size_t>(i * N + j)] = at2<T>(c, i, j); } }
						got_valid = true;
					} else if((M * N == 0 && fresh.num_elements() == 0) || (fresh.size() == M && (~fresh).size() == N)) {
						for(idx i = 0; i != M; ++i) { for(idx j = 0; j != N; ++j) { got[static_cast<std::size_t>(i * N + j)] = fresh[i][j]; } }
						got_valid = true;
					} else {
						result = "bad:shape";
					}
				}
			};
			with_mat(vc, in_c ? sc.deco : 'N', body);
		});
	});
	if(!in_c && fresh.num_elements() > 0) { reg.add_raw('R', fresh.data_elements(), fresh.num_elements(), static_cast<int>(sizeof(T))); }
	print_calls(g_id, reg);
	std::cout << "O " << g_id << " " << outcome << "\n";
	if(got_valid) {
		result = "ok";
		for(std::size_t k = 0; k != got.size(); ++k) {
			if(got[k] != expect[k]) {
				std::ostringstream os;
				os << "bad:[" << k / static_cast<std::size_t>(N) << "][" << k % static_cast<std::size_t>(N) << "]=" << show(got[k]) << "!=" << show(expect[k]);
				result = os.str();
				break;
			}
		}
	}
	// frame: guards of all three buffers, inputs entirely unchanged, cells of C's root outside the output view unchanged
	std::string guards = (ba.guards_ok() && bb.guards_ok() && bc.guards_ok()) ? "ok" : "bad";
	std::string inputs = (ba.unchanged() && bb.unchanged()) ? "ok" : "bad";
	std::string frame = "ok";
	{
		std::vector<char> inview(static_cast<std::size_t>(bc.n), 0);
		if(in_c) {
			multi::subarray<T, 2> v(vc.lay, vc.base);
			for(idx i = 0; i != v.size(); ++i) { for(idx j = 0; j != (~v).size(); ++j) { inview[static_cast<std::size_t>(&v[i][j] - bc.root())] = 1; } }
		}
		for(idx k = 0; k != bc.n; ++k) {
			if(inview[static_cast<std::size_t>(k)] == 0 && bc.root()[k] != bc.before[static_cast<std::size_t>(kGuard + k)]) { frame = "bad:cell" + std::to_string(k); break; }
		}
	}
	std::cout << "R " << g_id << " result=" << result << " guards=" << guards << " inputs=" << inputs << " frame=" << frame << "\n";
}

// ------------------------------------------------------------------------------------------------ gemv
template<class T> void run_gemv(Case const& cs) {
	MatSpec const& sm = cs.mats.at('M');
	VecSpec const& sx = cs.vecs.at('X');
	VecSpec const& sy = cs.vecs.at('Y');
	Buf<T> bm, bx, by;
	bm.init(sm.R * sm.C, sm.seed); bx.init(sx.n0, sx.seed); by.init(sy.n0, sy.seed);
	Registry reg;
	reg.add('M', bm); reg.add('X', bx); reg.add('Y', by);
	auto vm = make_mat(bm, sm);
	auto vx = make_vec(bx, sx);
	auto vy = make_vec(by, sy);
	T const alpha = mk<T>(cs.a_re, cs.a_im);
	T const beta = mk<T>(cs.b_re, cs.b_im);
	bool const in_y = (cs.form == "inplace" || cs.form == "assign" || cs.form == "pluseq");
	Outcome outcome;
	std::string result = "na";
	std::vector<T> expect, got;
	bool got_valid = false;
	multi::array<T, 1> fresh;
	idx Mr = 0;
	with_mat(vm, sm.deco, [&](auto&& m) {
		multi::subarray<T, 1> x(vx.lay, vx.base);
		multi::subarray<T, 1> y(vy.lay, vy.base);
		print_D(g_id, 'M', m, reg); print_V(g_id, 'X', x, reg);
		Mr = m.size();
		if(in_y) { print_V(g_id, 'Y', y, reg); }
		else {
			multi::array<T, 1> probe(multi::extensions_t<1>{multi::iextension{0, Mr}});
			Registry preg;
			if(probe.num_elements() > 0) { preg.add_raw('R', probe.data_elements(), probe.num_elements(), static_cast<int>(sizeof(T))); }
			print_V(g_id, 'Y', probe, preg);
		}
		idx const Nc = (~m).size();
		T const be = cs.form == "inplace" ? beta : (cs.form == "pluseq" ? mk<T>(1, 0) : mk<T>(0, 0));
		T const al = (cs.form == "percent") ? mk<T>(1, 0) : alpha;
		bool const shapes_ok = x.size() == Nc && (!in_y || y.size() == Mr);
		if(shapes_ok) {
			expect.assign(static_cast<std::size_t>(Mr), T{});
			for(idx i = 0; i != Mr; ++i) {
				T s{};
				for(idx l = 0; l != Nc; ++l) { s += at2<T>(m, i, l) * at1<T>(x, l); }
				expect[static_cast<std::size_t>(i)] = al * s + be * (in_y ? at1<T>(y, i) : T{});
			}
		}
		c13_log_clear();
		std::cout.flush();
		outcome = guarded([&] {
			if(cs.form == "inplace") { blas::gemv(alpha, m, x, beta, y); }
			else if(cs.form == "assign") { y = blas::gemv(alpha, m, x); }
			else if(cs.form == "pluseq") { y += blas::gemv(alpha, m, x); }
			else if(cs.form == "construct") { multi::array<T, 1> r = blas::gemv(alpha, m, x); fresh = std::move(r); }
			else if(cs.form == "percent") { using namespace blas::operators; fresh = m % x; }
			else { throw std::runtime_error("harness: unknown form"); }
		});
		if(shapes_ok && outcome.rfind("outcome=ok", 0) == 0) {
			got.assign(static_cast<std::size_t>(Mr), T{});
			if(in_y) { for(idx i = 0; i != Mr; ++i) { got[static_cast<std::size_t>(i)] = at1<T>(y, i); } got_valid = true; }
			else if(fresh.size() == Mr) { for(idx i = 0; i != Mr; ++i) { got[static_cast<std::size_t>(i)] = fresh[i]; } got_valid = true; }
			else { result = "bad:shape"; }
		}
	});
	if(!in_y && fresh.num_elements() > 0) { reg.add_raw('R', fresh.data_elements(), fresh.num_elements(), static_cast<int>(sizeof(T))); }
	print_calls(g_id, reg);
	std::cout << "O " << g_id << " " << outcome << "\n";
	if(got_valid) {
		result = "ok";
		for(std::size_t k = 0; k != got.size(); ++k) {
			if(got[k] != expect[k]) { result = "bad:[" + std::to_string(k) + "]=" + show(got[k]) + "!=" + show(expect[k]); break; }
		}
	}
	std::string guards = (bm.guards_ok() && bx.guards_ok() && by.guards_ok()) ? "ok" : "bad";
	std::string inputs = (bm.unchanged() && bx.unchanged()) ? "ok" : "bad";
	std::string frame = "ok";
	{
		std::vector<char> inview(static_cast<std::size_t>(by.n), 0);
		if(in_y) { multi::subarray<T, 1> y(vy.lay, vy.base); for(idx i = 0; i != y.size(); ++i) { inview[static_cast<std::size_t>(&y[i] - by.root())] = 1; } }
		for(idx k = 0; k != by.n; ++k) {
			if(inview[static_cast<std::size_t>(k)] == 0 && by.root()[k] != by.before[static_cast<std::size_t>(kGuard + k)]) { frame = "bad:cell" + std::to_string(k); break; }
		}
	}
	std::cout << "R " << g_id << " result=" << result << " guards=" << guards << " inputs=" << inputs << " frame=" << frame << "\n";
}

#include "common/c13_expr.hpp"
#include "common/c13_level1.hpp"
#include "common/c13_level3.hpp"

// ------------------------------------------------------------------------------------------------ driver
template<class T> void run_typed(Case const& cs) {
	if(cs.routine == "gemm") {
		// gemm for std::complex<float> is ill-formed at the pinned commit (core.hpp:530 compares a complex<float> with 0.0)
		if constexpr(std::is_same_v<T, std::complex<float>>) { std::cout << "O " << g_id << " outcome=harness-error why=cgemm-ill-formed\n"; }
		else if(cs.form == "expr") { run_gemm_expr<T>(cs); }
		else { run_gemm<T>(cs); }
	}
	else if(cs.routine == "gemv") { if(cs.form == "expr") { run_gemv_expr<T>(cs); } else { run_gemv<T>(cs); } }
	else if(cs.routine == "syrk") { run_rk<T>(cs, false); }
	else if(cs.routine == "herk") { run_rk<T>(cs, true); }
	else if(cs.routine == "trsm") { run_trsm<T>(cs); }
	else { run_level1<T>(cs); }
}

static void run_case(Case const& cs) {
	std::cout << "Q " << g_id << " " << cs.routine << " " << cs.et << " " << cs.form << " debug=" << kDebug << " a=" << cs.a_re << "," << cs.a_im
	          << " b=" << cs.b_re << "," << cs.b_im << " flags=" << (cs.flags[0].empty() ? "-" : cs.flags[0]) << "," << (cs.flags[1].empty() ? "-" : cs.flags[1])
	          << "," << (cs.flags[2].empty() ? "-" : cs.flags[2]) << "\n";
	try {
		if(cs.et == "s") { run_typed<float>(cs); }
		else if(cs.et == "d") { run_typed<double>(cs); }
		else if(cs.et == "c") { run_typed<std::complex<float>>(cs); }
		else if(cs.et == "z") { run_typed<std::complex<double>>(cs); }
		else { std::cout << "O " << g_id << " outcome=harness-error why=etype\n"; }
	} catch(std::exception const& e) {
		std::cout << "O " << g_id << " outcome=harness-error why=" << classify(e.what()) << "\n";
	}
	std::cout << "E " << g_id << "\n";
	std::cout.flush();
}

// every case runs in a forked child: several defects of the pinned tree write outside the output (heap corruption when
// the output is a freshly constructed array), and the next case must not inherit the damage
static void run_forked(Case const& cs) {
	std::strncpy(g_id, cs.id.c_str(), sizeof(g_id) - 1);
	std::cout.flush();
	pid_t pid = fork();
	if(pid == 0) {
		alarm(20);
		run_case(cs);
		std::cout.flush();
		std::_Exit(0);
	}
	int st = 0;
	waitpid(pid, &st, 0);
	if(!(WIFEXITED(st) && WEXITSTATUS(st) == 0)) {
		std::cout << "\nX " << g_id << " crash " << (WIFSIGNALED(st) ? "signal=" + std::to_string(WTERMSIG(st)) : "exit=" + std::to_string(WEXITSTATUS(st))) << "\n";
		std::cout << "E " << g_id << "\n";
		std::cout.flush();
	}
}

extern "C" void c13_warmup(void);

int main() {
	setenv("OPENBLAS_NUM_THREADS", "1", 1);
	setenv("OMP_NUM_THREADS", "1", 1);
	c13_warmup();  // dlopen libopenblas once, in the parent
	std::signal(SIGABRT, on_abort);
	std::string line;
	Case cs;
	bool open = false;
	while(std::getline(std::cin, line)) {
		if(line.empty() || line[0] == '#') { continue; }
		std::istringstream is(line);
		std::string kw;
		is >> kw;
		if(kw == "case") { cs = Case{}; is >> cs.id; open = true; }
		else if(!open) { continue; }
		else if(kw == "op") { is >> cs.routine >> cs.et >> cs.form; }
		else if(kw == "flags") { is >> cs.flags[0] >> cs.flags[1] >> cs.flags[2]; }
		else if(kw == "tree") { std::getline(is, cs.tree); }
		else if(kw == "alpha") { is >> cs.a_re >> cs.a_im; }
		else if(kw == "beta") { is >> cs.b_re >> cs.b_im; }
		else if(kw == "A" || kw == "B" || kw == "C" || kw == "M") {
			MatSpec m;
			is >> m.R >> m.C >> m.r0 >> m.nr >> m.rs >> m.c0 >> m.nc >> m.cs >> m.deco >> m.seed;
			m.present = true;
			cs.mats[kw[0]] = m;
		} else if(kw == "X" || kw == "Y") {
			VecSpec v;
			is >> v.n0 >> v.i0 >> v.len >> v.step >> v.deco >> v.seed;
			v.present = true;
			cs.vecs[kw[0]] = v;
		} else if(kw == "end") { run_forked(cs); open = false; }
	}
	return 0;
}

// C13 level-1 routines of the adaptor: dot (dot/dotu/dotc selection), axpy, scal, copy, swap, nrm2, asum, iamax.
// Included by h_blas_c13.cpp (uses its Case / Buf / Registry / guarded / print_* helpers).
// Forms:  dot: inplace = blas::dot(x, y, res), value = T r = blas::dot(x, y)
//         axpy: inplace = blas::axpy(alpha, x, y), opplus = y += alpha*x, opminus = y -= alpha*x (blas::operators)
//         scal: inplace = blas::scal(alpha, x), opmul = x *= alpha (blas::operators)
//         copy: inplace = blas::copy(x, y), assign = y = blas::copy(x), construct = multi::array<T,1> r = blas::copy(x)
//         scal / swap: inplace;  nrm2 / asum / iamax: value
// Expression forms (follow-up 3; `tree scales=f1;f2..` carries the extra scalars):
//         axpy: range_plus / range_minus = y += / -= blas::axpy(alpha, x);  rescaled_plus / rescaled_minus = the same after r *= f1, r *= f2, ...;
//               plain_plus / plain_minus = y += x / y -= x (blas::operators);  call1 = blas::axpy(x, y);
//               binplus / binminus = r = x + y / x - y (blas::operators: a copy of x, then += / -= y)
//         dot:  plus = +blas::dot(x, y);  comma = (x, y) (blas::operators);  times = f2 * (f1 * blas::dot(x, y));
//               eq = blas::dot(x, y) == value;  elem = z[1] = blas::dot(x, y)
//         scal: range = x *= blas::scal(alpha);  iter = blas::scal(alpha, x.begin(), x.end())
//         copy: shift = y << x (blas::operators)
//         nrm2: plus = +blas::nrm2(x);  opabs = abs(x), opnorm = norm(x) (blas::operators; norm is the square)
template<class T> struct real_of { using type = T; };
template<class R> struct real_of<std::complex<R>> { using type = R; };

template<class T> double abs1(T const& x) {
	if constexpr(is_cplx<T>::value) { return std::abs(static_cast<double>(x.real())) + std::abs(static_cast<double>(x.imag())); }
	else { return std::abs(static_cast<double>(x)); }
}
template<class T> double norm2(T const& x) {
	if constexpr(is_cplx<T>::value) { return static_cast<double>(x.real()) * static_cast<double>(x.real()) + static_cast<double>(x.imag()) * static_cast<double>(x.imag()); }
	else { return static_cast<double>(x) * static_cast<double>(x); }
}

template<class T> void run_level1(Case const& cs) {
	using Real = typename real_of<T>::type;
	VecSpec const& sx = cs.vecs.at('X');
	VecSpec const& sy = cs.vecs.at('Y');
	Buf<T> bx, by;
	bx.init(sx.n0, sx.seed); by.init(sy.n0, sy.seed);
	Registry reg;
	reg.add('X', bx); reg.add('Y', by);
	// scalar result cell, registered so that the interposer's record can name it
	T sres = mk<T>(-55, -44);
	Real rres = static_cast<Real>(-55);
	reg.add_raw('S', &sres, 1, static_cast<int>(sizeof(T)));
	reg.add_raw('Q', &rres, 1, static_cast<int>(sizeof(Real)));
	auto vx = make_vec(bx, sx);
	auto vy = make_vec(by, sy);
	T const alpha = mk<T>(cs.a_re, cs.a_im);
	std::string const& op = cs.routine;
	std::string const& form = cs.form;
	Tree const tr = parse_tree(cs.tree);
	std::vector<T> extra;   // the extra scalars of the expression forms
	for(auto const& f : parse_scales(tr.get("scales", "-"))) { extra.push_back(mk<T>(f.first, f.second)); }
	if(!cs.tree.empty()) { std::cout << "T " << g_id << " scales=" << tr.get("scales", "-") << "\n"; }
	bool const bin = (op == "axpy" && (form == "binplus" || form == "binminus"));   // the result is a new array; x and y are inputs
	bool const y_out = (op == "axpy" || op == "copy" || op == "swap") && !bin;
	bool const x_out = (op == "scal" || op == "swap");
	bool const uses_y = (op == "dot" || op == "axpy" || op == "copy" || op == "swap");
	Outcome outcome;
	std::string result = "na";
	multi::array<T, 1> fresh;
	idx const n = sx.len;
	std::vector<T> ex_x, ex_y, ex_bin;   // expected logical contents after the call (ex_bin: of the array x + y / x - y)
	T ex_s{};                    // expected scalar
	double ex_r = 0.0;
	idx ex_i = 0;
	idx got_i = -7;

	with_vec(vx, sx.deco, [&](auto&& x) {
		with_vec(vy, sy.deco, [&](auto&& y) {
			print_V(g_id, 'X', x, reg);
			if(uses_y) { print_V(g_id, 'Y', y, reg); }
			std::vector<T> xs, ys;
			for(idx i = 0; i != x.size(); ++i) { xs.push_back(at1<T>(x, i)); }
			for(idx i = 0; i != y.size(); ++i) { ys.push_back(at1<T>(y, i)); }
			ex_x = xs; ex_y = ys;
			if(op == "dot") { for(idx i = 0; i != n; ++i) { ex_s += xs[static_cast<std::size_t>(i)] * ys[static_cast<std::size_t>(i)]; } }
			if(op == "dot" && form == "times") { for(auto const& f : extra) { ex_s = f * ex_s; } }
			if(op == "axpy" && !bin) {
				T al = alpha;
				if(form == "plain_plus" || form == "plain_minus" || form == "call1") { al = mk<T>(1, 0); }
				if(form == "rescaled_plus" || form == "rescaled_minus") { for(auto const& f : extra) { al = al * f; } }
				bool const minus = (form == "opminus" || form == "range_minus" || form == "rescaled_minus" || form == "plain_minus");
				for(idx i = 0; i != n; ++i) {
					T const t = al * xs[static_cast<std::size_t>(i)];
					ex_y[static_cast<std::size_t>(i)] = minus ? ys[static_cast<std::size_t>(i)] - t : ys[static_cast<std::size_t>(i)] + t;
				}
			}
			if(bin) { ex_bin = xs; for(idx i = 0; i != n; ++i) { ex_bin[static_cast<std::size_t>(i)] = (form == "binminus") ? xs[static_cast<std::size_t>(i)] - ys[static_cast<std::size_t>(i)] : xs[static_cast<std::size_t>(i)] + ys[static_cast<std::size_t>(i)]; } }
			if(op == "scal") { for(idx i = 0; i != n; ++i) { ex_x[static_cast<std::size_t>(i)] = alpha * xs[static_cast<std::size_t>(i)]; } }
			if(op == "copy") { ex_y = xs; }
			if(op == "swap") { ex_y = xs; ex_x = ys; }
			if(op == "nrm2") { for(auto const& e : xs) { ex_r += norm2(e); } if(form != "opnorm") { ex_r = std::sqrt(ex_r); } }
			if(op == "asum") { for(auto const& e : xs) { ex_r += abs1(e); } }
			if(op == "iamax") { double best = -1.0; for(idx i = 0; i != n; ++i) { double a = abs1(xs[static_cast<std::size_t>(i)]); if(a > best) { best = a; ex_i = i; } } }
			c13_log_clear();
			std::cout.flush();
			constexpr bool conj_x = blas::is_conjugated<std::decay_t<decltype(x)>>{};
			constexpr bool conj_y = blas::is_conjugated<std::decay_t<decltype(y)>>{};
			outcome = guarded([&] {
				if(op == "dot") {
					if constexpr(!(conj_x && conj_y)) {
						if(form == "inplace") { blas::dot(x, y, sres); }
						else if(form == "plus") { sres = +blas::dot(x, y); }
						else if(form == "comma") { using namespace blas::operators; T r = (x, y); sres = r; }
						else if(form == "times") {
							if(extra.empty()) { T r = blas::dot(x, y); sres = r; }
							else { T r = extra[0] * blas::dot(x, y); for(std::size_t k = 1; k < extra.size(); ++k) { r = extra[k] * r; } sres = r; }
						}
						else if(form == "eq") { bool const same = (blas::dot(x, y) == ex_s); sres = same ? ex_s : mk<T>(-99, -98); }
						else if(form == "elem") { multi::array<T, 1> zz({3}, mk<T>(-1, -1)); zz[1] = blas::dot(x, y); sres = zz[1]; }
						else { T r = blas::dot(x, y); sres = r; }
					}
				} else if constexpr(!conj_x && !conj_y) {
					if(op == "axpy") {
						auto const& xc = x;   // blas::axpy(a, x) needs a const x: with a mutable one the two-argument overload axpy(x, y) is selected (does not compile)
						auto const& yc = y;
						if(form == "inplace") { blas::axpy(alpha, x, y); }
						else if(form == "opplus") { using namespace blas::operators; std::move(y) += alpha * x; }
						else if(form == "opminus") { using namespace blas::operators; std::move(y) -= alpha * x; }
						else if(form == "range_plus") { std::move(y) += blas::axpy(alpha, xc); }
						else if(form == "range_minus") { std::move(y) -= blas::axpy(alpha, xc); }
						else if(form == "rescaled_plus" || form == "rescaled_minus") {
							auto&& r = blas::axpy(alpha, xc);
							for(auto const& f : extra) { r *= f; }
							if(form == "rescaled_plus") { y += r; } else { y -= r; }
						}
						else if(form == "plain_plus") { using namespace blas::operators; std::move(y) += xc; }
						else if(form == "plain_minus") { using namespace blas::operators; std::move(y) -= xc; }
						else if(form == "call1") { blas::axpy(xc, std::move(y)); }
						else if(form == "binplus") { using namespace blas::operators; fresh = xc + yc; }
						else if(form == "binminus") { using namespace blas::operators; fresh = xc - yc; }
						else { throw std::runtime_error("harness: unknown axpy form"); }
					} else if(op == "scal") {
						if(form == "inplace") { blas::scal(alpha, x); }
						else if(form == "range") { std::move(x) *= blas::scal(alpha); }
						else if(form == "iter") { blas::scal(alpha, x.begin(), x.end()); }
						else { using namespace blas::operators; x *= alpha; }
					}
					else if(op == "copy") {
						if(form == "inplace") { blas::copy(x, y); }
						else if(form == "shift") { using namespace blas::operators; std::move(y) << x; }
						else if(cs.form == "assign") { y = blas::copy(x); }
						else { multi::array<T, 1> r = blas::copy(x); fresh = std::move(r); }
					} else if(op == "swap") { blas::swap(x, y); }
					else if(op == "nrm2") {
						if(form == "plus") { rres = +blas::nrm2(x); }
						else if(form == "opabs") { using namespace blas::operators; Real r = abs(x); rres = r; }
						else if(form == "opnorm") { using namespace blas::operators; rres = norm(x); }   // the square of the norm
						else { Real r = blas::nrm2(x); rres = r; }
					}
					else if(op == "asum") { blas::asum(x, rres); }  // the value form asum(x) is ill-formed for views (asum.hpp:48 takes &x_ of a subarray)
					else if(op == "iamax") { got_i = blas::iamax(x.begin(), x.end()); }  // iamax(x) is ill-formed for views when assertions are on (iamax.hpp:27: offset(x))
					else { throw std::runtime_error("harness: unknown level-1 routine"); }
				} else { throw std::runtime_error("harness: conjugated operand for a routine that has none"); }
			});
			if(outcome.rfind("outcome=ok", 0) == 0) {
				result = "ok";
				auto cmpvec = [&](auto&& v, std::vector<T> const& ex, char const* nm) {
					for(idx i = 0; i != static_cast<idx>(ex.size()); ++i) {
						if(at1<T>(v, i) != ex[static_cast<std::size_t>(i)] && result == "ok") {
							result = std::string("bad:") + nm + "[" + std::to_string(i) + "]=" + show(at1<T>(v, i)) + "!=" + show(ex[static_cast<std::size_t>(i)]);
						}
					}
				};
				if(x_out) { cmpvec(x, ex_x, "x"); }
				if(y_out) {
					if(op == "copy" && cs.form == "construct") {
						if(fresh.size() != n) { result = "bad:shape"; }
						else { for(idx i = 0; i != n; ++i) { if(fresh[i] != ex_y[static_cast<std::size_t>(i)] && result == "ok") { result = "bad:r[" + std::to_string(i) + "]"; } } }
					} else { cmpvec(y, ex_y, "y"); }
				}
				if(bin) {
					if(fresh.size() != n) { result = "bad:shape"; }
					else { for(idx i = 0; i != n; ++i) { if(fresh[i] != ex_bin[static_cast<std::size_t>(i)] && result == "ok") { result = "bad:r[" + std::to_string(i) + "]=" + show(static_cast<T>(fresh[i])) + "!=" + show(ex_bin[static_cast<std::size_t>(i)]); } } }
				}
				if(op == "dot" && sres != ex_s) { result = "bad:dot=" + show(sres) + "!=" + show(ex_s); }
				if(op == "nrm2" || op == "asum") {
					double const got = static_cast<double>(rres);
					if(std::abs(got - ex_r) > 1e-5 * (1.0 + std::abs(ex_r))) { std::ostringstream os; os << "bad:" << op << "=" << got << "!=" << ex_r; result = os.str(); }
				}
				if(op == "iamax" && n > 0 && got_i != ex_i) { result = "bad:iamax=" + std::to_string(got_i) + "!=" + std::to_string(ex_i); }
			}
		});
	});
	if(fresh.num_elements() > 0) { reg.add_raw('R', fresh.data_elements(), fresh.num_elements(), static_cast<int>(sizeof(T))); }
	print_calls(g_id, reg);
	std::cout << "O " << g_id << " " << outcome << "\n";
	// frame: guards; a vector that is not an output is unchanged; cells of an output's root outside the view are unchanged
	std::string guards = (bx.guards_ok() && by.guards_ok()) ? "ok" : "bad";
	std::string inputs = "ok";
	if(!x_out && !bx.unchanged()) { inputs = "bad:x"; }
	if(!(y_out && !(op == "copy" && cs.form == "construct")) && !by.unchanged()) { inputs = "bad:y"; }
	std::string frame = "ok";
	auto frame_of = [&](Buf<T>& b, VecView<T> const& vv) {
		std::vector<char> inview(static_cast<std::size_t>(b.n), 0);
		multi::subarray<T, 1> v(vv.lay, vv.base);
		for(idx i = 0; i != v.size(); ++i) { inview[static_cast<std::size_t>(&v[i] - b.root())] = 1; }
		for(idx k = 0; k != b.n; ++k) {
			if(inview[static_cast<std::size_t>(k)] == 0 && b.root()[k] != b.before[static_cast<std::size_t>(kGuard + k)]) { frame = "bad:cell" + std::to_string(k); }
		}
	};
	if(x_out) { frame_of(bx, vx); }
	if(y_out) { frame_of(by, vy); }
	std::cout << "R " << g_id << " result=" << result << " guards=" << guards << " inputs=" << inputs << " frame=" << frame << "\n";
}

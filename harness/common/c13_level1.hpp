// C13 level-1 routines of the adaptor: dot (dot/dotu/dotc selection), axpy, scal, copy, swap, nrm2, asum, iamax.
// Included by h_blas_c13.cpp (uses its Case / Buf / Registry / guarded / print_* helpers).
// Forms:  dot: inplace = blas::dot(x, y, res), value = T r = blas::dot(x, y)
//         axpy: inplace = blas::axpy(alpha, x, y), opplus = y += alpha*x, opminus = y -= alpha*x (blas::operators)
//         scal: inplace = blas::scal(alpha, x), opmul = x *= alpha (blas::operators)
//         copy: inplace = blas::copy(x, y), assign = y = blas::copy(x), construct = multi::array<T,1> r = blas::copy(x)
//         scal / swap: inplace;  nrm2 / asum / iamax: value
template<class T> struct real_of { using type = T; };
template<class R> struct real_of<std::complex<R>> { using type = R; };

template<class T> double abs1(T const& x) {
	if constexpr(is_cplx<T>::value) { return std::abs(static_cast<double>(x.real())) + std::abs(static_cast<double>(x.imag())); }
	else { return std::abs(static_cast<double>(x)); }
}
template<class T> double norm2(T const& x) {
	if constexpr(is_cplx<T>::value) { return static_cast<double>(x.real()) * static_cast<double>(x.real()) + static_cast<double>(x.imag()) * static_cast<double>(x.imag()); }
	else { return static_cast<double>(x) * static_cast<double>(x); }
}

template<class T> void run_level1(Case const& cs) {
	using Real = typename real_of<T>::type;
	VecSpec const& sx = cs.vecs.at('X');
	VecSpec const& sy = cs.vecs.at('Y');
	Buf<T> bx, by;
	bx.init(sx.n0, sx.seed); by.init(sy.n0, sy.seed);
	Registry reg;
	reg.add('X', bx); reg.add('Y', by);
	// scalar result cell, registered so that the interposer's record can name it
	T sres = mk<T>(-55, -44);
	Real rres = static_cast<Real>(-55);
	reg.add_raw('S', &sres, 1, static_cast<int>(sizeof(T)));
	reg.add_raw('Q', &rres, 1, static_cast<int>(sizeof(Real)));
	auto vx = make_vec(bx, sx);
	auto vy = make_vec(by, sy);
	T const alpha = mk<T>(cs.a_re, cs.a_im);
	std::string const& op = cs.routine;
	bool const y_out = (op == "axpy" || op == "copy" || op == "swap");
	bool const x_out = (op == "scal" || op == "swap");
	bool const uses_y = (op == "dot" || op == "axpy" || op == "copy" || op == "swap");
	std::string outcome, result = "na";
	multi::array<T, 1> fresh;
	idx const n = sx.len;
	std::vector<T> ex_x, ex_y;   // expected logical contents after the call
	T ex_s{};                    // expected scalar
	double ex_r = 0.0;
	idx ex_i = 0;
	idx got_i = -7;

	with_vec(vx, sx.deco, [&](auto&& x) {
		with_vec(vy, sy.deco, [&](auto&& y) {
			print_V(g_id, 'X', x, reg);
			if(uses_y) { print_V(g_id, 'Y', y, reg); }
			std::vector<T> xs, ys;
			for(idx i = 0; i != x.size(); ++i) { xs.push_back(at1<T>(x, i)); }
			for(idx i = 0; i != y.size(); ++i) { ys.push_back(at1<T>(y, i)); }
			ex_x = xs; ex_y = ys;
			if(op == "dot") { for(idx i = 0; i != n; ++i) { ex_s += xs[static_cast<std::size_t>(i)] * ys[static_cast<std::size_t>(i)]; } }
			if(op == "axpy") { T const al = (cs.form == "opminus") ? -alpha : alpha; for(idx i = 0; i != n; ++i) { ex_y[static_cast<std::size_t>(i)] = al * xs[static_cast<std::size_t>(i)] + ys[static_cast<std::size_t>(i)]; } }
			if(op == "scal") { for(idx i = 0; i != n; ++i) { ex_x[static_cast<std::size_t>(i)] = alpha * xs[static_cast<std::size_t>(i)]; } }
			if(op == "copy") { ex_y = xs; }
			if(op == "swap") { ex_y = xs; ex_x = ys; }
			if(op == "nrm2") { for(auto const& e : xs) { ex_r += norm2(e); } ex_r = std::sqrt(ex_r); }
			if(op == "asum") { for(auto const& e : xs) { ex_r += abs1(e); } }
			if(op == "iamax") { double best = -1.0; for(idx i = 0; i != n; ++i) { double a = abs1(xs[static_cast<std::size_t>(i)]); if(a > best) { best = a; ex_i = i; } } }
			c13_log_clear();
			std::cout.flush();
			constexpr bool conj_x = blas::is_conjugated<std::decay_t<decltype(x)>>{};
			constexpr bool conj_y = blas::is_conjugated<std::decay_t<decltype(y)>>{};
			outcome = guarded([&] {
				if(op == "dot") {
					if constexpr(!(conj_x && conj_y)) {
						if(cs.form == "inplace") { blas::dot(x, y, sres); }
						else { T r = blas::dot(x, y); sres = r; }
					}
				} else if constexpr(!conj_x && !conj_y) {
					if(op == "axpy") {
						if(cs.form == "inplace") { blas::axpy(alpha, x, y); }
						else if(cs.form == "opplus") { using namespace blas::operators; std::move(y) += alpha * x; }
						else { using namespace blas::operators; std::move(y) -= alpha * x; }
					} else if(op == "scal") {
						if(cs.form == "inplace") { blas::scal(alpha, x); } else { using namespace blas::operators; x *= alpha; }
					}
					else if(op == "copy") {
						if(cs.form == "inplace") { blas::copy(x, y); }
						else if(cs.form == "assign") { y = blas::copy(x); }
						else { multi::array<T, 1> r = blas::copy(x); fresh = std::move(r); }
					} else if(op == "swap") { blas::swap(x, y); }
					else if(op == "nrm2") { Real r = blas::nrm2(x); rres = r; }
					else if(op == "asum") { blas::asum(x, rres); }  // the value form asum(x) is ill-formed for views (asum.hpp:48 takes &x_ of a subarray)
					else if(op == "iamax") { got_i = blas::iamax(x.begin(), x.end()); }  // iamax(x) is ill-formed for views when assertions are on (iamax.hpp:27: offset(x))
					else { throw std::runtime_error("harness: unknown level-1 routine"); }
				} else { throw std::runtime_error("harness: conjugated operand for a routine that has none"); }
			});
			if(outcome.rfind("outcome=ok", 0) == 0) {
				result = "ok";
				auto cmpvec = [&](auto&& v, std::vector<T> const& ex, char const* nm) {
					for(idx i = 0; i != static_cast<idx>(ex.size()); ++i) {
						if(at1<T>(v, i) != ex[static_cast<std::size_t>(i)] && result == "ok") {
							result = std::string("bad:") + nm + "[" + std::to_string(i) + "]=" + show(at1<T>(v, i)) + "!=" + show(ex[static_cast<std::size_t>(i)]);
						}
					}
				};
				if(x_out) { cmpvec(x, ex_x, "x"); }
				if(y_out) {
					if(op == "copy" && cs.form == "construct") {
						if(fresh.size() != n) { result = "bad:shape"; }
						else { for(idx i = 0; i != n; ++i) { if(fresh[i] != ex_y[static_cast<std::size_t>(i)] && result == "ok") { result = "bad:r[" + std::to_string(i) + "]"; } } }
					} else { cmpvec(y, ex_y, "y"); }
				}
				if(op == "dot" && sres != ex_s) { result = "bad:dot=" + show(sres) + "!=" + show(ex_s); }
				if(op == "nrm2" || op == "asum") {
					double const got = static_cast<double>(rres);
					if(std::abs(got - ex_r) > 1e-5 * (1.0 + std::abs(ex_r))) { std::ostringstream os; os << "bad:" << op << "=" << got << "!=" << ex_r; result = os.str(); }
				}
				if(op == "iamax" && n > 0 && got_i != ex_i) { result = "bad:iamax=" + std::to_string(got_i) + "!=" + std::to_string(ex_i); }
			}
		});
	});
	if(fresh.num_elements() > 0) { reg.add_raw('R', fresh.data_elements(), fresh.num_elements(), static_cast<int>(sizeof(T))); }
	print_calls(g_id, reg);
	std::cout << "O " << g_id << " " << outcome << "\n";
	// frame: guards; a vector that is not an output is unchanged; cells of an output's root outside the view are unchanged
	std::string guards = (bx.guards_ok() && by.guards_ok()) ? "ok" : "bad";
	std::string inputs = "ok";
	if(!x_out && !bx.unchanged()) { inputs = "bad:x"; }
	if(!(y_out && !(op == "copy" && cs.form == "construct")) && !by.unchanged()) { inputs = "bad:y"; }
	std::string frame = "ok";
	auto frame_of = [&](Buf<T>& b, VecView<T> const& vv) {
		std::vector<char> inview(static_cast<std::size_t>(b.n), 0);
		multi::subarray<T, 1> v(vv.lay, vv.base);
		for(idx i = 0; i != v.size(); ++i) { inview[static_cast<std::size_t>(&v[i] - b.root())] = 1; }
		for(idx k = 0; k != b.n; ++k) {
			if(inview[static_cast<std::size_t>(k)] == 0 && b.root()[k] != b.before[static_cast<std::size_t>(kGuard + k)]) { frame = "bad:cell" + std::to_string(k); }
		}
	};
	if(x_out) { frame_of(bx, vx); }
	if(y_out) { frame_of(by, vy); }
	std::cout << "R " << g_id << " result=" << result << " guards=" << guards << " inputs=" << inputs << " frame=" << frame << "\n";
}

// C12 harness support: a type-erased holder for views of several element types and pointer types
// (raw pointers and transform_ptr), with the view operations of the C01 programs (same text format as
// common/dynview.hpp, whose Op / parse_op / unsupported / join are reused) plus the projections of C12.
// Holders are never assigned (proxy assignment is deep), only constructed from the public layout()
// and base pointer of the view an operation returned.
#pragma once
#include "common/dynview.hpp"

#include <boost/multi/adaptors/blas/numeric.hpp>  // complex_dummy, real, imag, real_doubled

#include <complex>
#include <cstdint>
#include <cstring>
#include <array>
#include <functional>
#include <iterator>
#include <type_traits>

#ifndef C12_MAXD
#define C12_MAXD 5
#endif
// sliced() of a D > 1 view evaluates `base_ || ...` inside an assertion (array_ref.hpp:1263); transform_ptr has no
// conversion to bool, so that does not compile unless assertions are disabled.  The check probes this at
// build time and defines C12_TPTR_SLICED=1 when it does compile.
#ifndef C12_TPTR_SLICED
#define C12_TPTR_SLICED 0
#endif
#ifndef C12_TPTR_CONST_ITER
#define C12_TPTR_CONST_ITER 0
#endif
// the wrapper targets Wi/We/Wa of conversions are instantiated for ranks up to this one (compile time)
#ifndef C12_CONV_MAXD
#define C12_CONV_MAXD 3
#endif

namespace c12 {

using dv::idx_t;
using dv::Op;
using dv::unsupported;

// ---- element types ----
struct S { int a; int b; double c; };                 // sizeof 16, offsets 0, 4, 8
static_assert(sizeof(S) == 16 && offsetof(S, b) == 4 && offsetof(S, c) == 8, "layout of S");
struct R16 { unsigned char x[16]; };                  // same size as S, no members in common
using Z = std::complex<double>;
using CD = multi::blas::complex_dummy<double>;        // {double real; double imag;} of blas/numeric.hpp
using Q = long long;                                  // 8-byte reinterpretation target
static_assert(sizeof(Z) == 16 && sizeof(CD) == 16 && sizeof(Q) == 8, "sizes");

// ---- targets of conversion-construction / conversion-assignment (array.hpp) ----
// Wi<T>: implicitly constructible from T (and therefore assignable from T);
// We<T>: ONLY explicitly constructible from T, not assignable from T (struct with an explicit constructor);
// Wa<T>: explicitly constructible and assignable from T, not implicitly convertible (like std::complex<float> from
//        std::complex<double>).  All three hold the T they were made from, so the converted value is observable.
template<class T> struct Wi { T v; Wi() = default; Wi(T const& x) : v(x) {} };                    // NOLINT(google-explicit-constructor)
template<class T> struct We { T v; We() = default; explicit We(T const& x) : v(x) {} };
template<class T> struct Wa { T v; Wa() = default; explicit Wa(T const& x) : v(x) {} Wa& operator=(T const& x) { v = x; return *this; } };
using ZF = std::complex<float>;                        // explicit conversion from std::complex<double>
static_assert(!std::is_convertible_v<Z, ZF> && std::is_constructible_v<ZF, Z> && std::is_assignable_v<ZF&, Z>, "complex<double> -> complex<float>");
static_assert(!std::is_convertible_v<int, We<int>> && std::is_constructible_v<We<int>, int> && !std::is_assignable_v<We<int>&, int>, "We");
static_assert(!std::is_convertible_v<int, Wa<int>> && std::is_constructible_v<Wa<int>, int> && std::is_assignable_v<Wa<int>&, int>, "Wa");

// An array of an element type that is only explicitly constructible (and not assignable) from the source's
// cannot be constructed from a VIEW at the pinned commit (array.hpp: the explicit const_subarray constructor
// delegates to one constrained on is_assignable) -- hard error, not SFINAE.  The check probes this at build time
// and defines C12_EXPL_FROM_VIEW=1 when it compiles.
#ifndef C12_EXPL_FROM_VIEW
#define C12_EXPL_FROM_VIEW 0
#endif

struct Ctx {
	char const* root = nullptr;   // data_elements() of the root array, as bytes
	std::size_t nbytes = 0;
};
inline Ctx& ctx() { static Ctx c; return c; }

template<class T> struct code { static constexpr char const* v = "?"; };
template<> struct code<S> { static constexpr char const* v = "S"; };
template<> struct code<Z> { static constexpr char const* v = "Z"; };
template<> struct code<CD> { static constexpr char const* v = "C"; };
template<> struct code<R16> { static constexpr char const* v = "R"; };
template<> struct code<Q> { static constexpr char const* v = "Q"; };
template<> struct code<int> { static constexpr char const* v = "I"; };
template<> struct code<double> { static constexpr char const* v = "D"; };
template<> struct code<long> { static constexpr char const* v = "L"; };

// value of an element as text: `long` (only the result of the by-value transformation) in decimal,
// everything else as the signed 32-bit words of its object representation
template<class T> std::string show(T const& t) {
	if constexpr(std::is_same_v<T, long>) {
		return "L" + std::to_string(t);
	} else {
		static_assert(sizeof(T) % 4 == 0, "word-sized elements");
		std::int32_t w[sizeof(T) / 4];
		std::memcpy(w, &t, sizeof(T));
		std::string s;
		for(std::size_t k = 0; k != sizeof(T) / 4; ++k) { s += (k ? "." : "") + std::to_string(w[k]); }
		return s;
	}
}

// the functors of the element_transformed kinds
struct f_val { long operator()(S const& s) const { return static_cast<long>(s.a) * 3 + s.b; } };   // pure, by value
struct f_ref { double& operator()(S& s) const { return s.c; } };                                  // reference-returning

struct Any {
	virtual ~Any() = default;
	virtual int rank() const = 0;
	virtual char const* elem() const = 0;
	virtual long esz() const = 0;
	virtual std::unique_ptr<Any> apply(Op const& op) = 0;
	virtual std::unique_ptr<Any> project(std::string const& kind, std::vector<idx_t> const& args) = 0;
	virtual std::vector<idx_t> sizes() const = 0;
	virtual std::vector<std::pair<idx_t, idx_t>> extensions() const = 0;
	virtual std::vector<idx_t> strides() const = 0;
	virtual idx_t num_elements() const = 0;
	virtual idx_t size() const = 0;
	virtual bool is_empty() const = 0;
	// element access through chained brackets: value text, and the byte offset of &v[i]...[k] from the root
	// (has_addr = false when the access yields a prvalue)
	virtual void probe(std::vector<idx_t> const& idx, bool& has_addr, long& off, std::string& val) = 0;
	virtual bool write(std::vector<idx_t> const& idx, long n) = 0;       // v[i]...[k] = 7000000 + n (int/double lvalues)
	// array (or static_array) constructed from / assigned from the view, an array, an array_ref, an iterator pair or the
	// flat range made from the view; kind = <source><category>.<how>.<target>, see PH::convert
	virtual void convert(std::ostream& os, std::string const& id, int step, std::string const& kind) = 0;
	// iterator walk: where = lead | row <i> | flat, then a start token and iterator operations, see PH::walk
	virtual void walk(std::ostream& os, std::string const& id, int step, int wn, std::vector<std::string> const& toks) = 0;
};

// ---- text of what an expression designates ----
// element: "<byte offset from the root>/<value>" ("-/<value>" when the access yields a prvalue)
template<class T, class Get> std::string elem_text(Get&& get) {
	using R = decltype(get());
	if constexpr(std::is_lvalue_reference_v<R>) {
		auto& r = get();
		long const off = reinterpret_cast<char const*>(&r) - ctx().root;  // NOLINT
		if(off >= 0 && static_cast<std::size_t>(off) + sizeof(T) <= ctx().nbytes) { return std::to_string(off) + "/" + show<T>(r); }
		return std::to_string(off) + "/oob";
	} else {
		T r = get();
		return "-/" + show<T>(r);
	}
}
template<class T, int K, int R, class S> std::string corner_text(S&& s, std::vector<idx_t> const& x) {
	if constexpr(K == R - 1) {
		return elem_text<T>([&]() -> decltype(auto) { return s[x[K]]; });
	} else {
		auto&& sub = s[x[K]];
		return corner_text<T, K + 1, R>(sub, x);
	}
}
// view of rank R: its extensions and both corner elements
template<class T, int R, class S> std::string view_text(S&& s) {
	auto ex = s.extensions().apply([](auto... e) { return std::vector<std::pair<idx_t, idx_t>>{{e.first(), e.last()}...}; });
	std::string out = "x=";
	bool empty = false;
	std::vector<idx_t> lo, hi;
	for(std::size_t k = 0; k != ex.size(); ++k) {
		out += (k ? "," : "") + std::to_string(ex[k].first) + ":" + std::to_string(ex[k].second);
		empty = empty || ex[k].first >= ex[k].second;
		lo.push_back(ex[k].first);
		hi.push_back(ex[k].second - 1);
	}
	if(empty) { return out + ";empty"; }
	return out + ";" + corner_text<T, 0, R>(s, lo) + ";" + corner_text<T, 0, R>(s, hi);
}
// R = rank of what get() yields (0: an element)
template<class T, int R, class Get> std::string thing_text(Get&& get) {
	if constexpr(R == 0) {
		return elem_text<T>(std::forward<Get>(get));
	} else {
		auto&& s = get();
		return view_text<T, R>(s);
	}
}

template<class T, int D, class P, bool Full> struct PH;

// declared here, defined in common/c12_heavy.hpp, instantiated explicitly in harness/c12_heavy_part.cpp
template<class T, int D, class P> struct Heavy {
	multi::subarray<T, D, P>& v;
	void convert(std::ostream& os, std::string const& id, int step, std::string const& kind0);
	void walk(std::ostream& os, std::string const& id, int step, int wn, std::vector<std::string> const& tk);
};
// the pointer types of the element_transformed kinds (the same for every rank)
using TPval = typename decltype(std::declval<multi::subarray<S, 1, S*>&>().element_transformed(f_val{}))::element_ptr;          // tval via & / &&
using TPvalc = typename decltype(std::declval<multi::subarray<S, 1, S*> const&>().element_transformed(f_val{}))::element_ptr;   // tval via const&
using TPmem = typename decltype(std::declval<multi::subarray<S, 1, S*>&>().element_transformed(&S::b))::element_ptr;            // tmem
using TPref = typename decltype(std::declval<multi::subarray<S, 1, S*>&>().element_transformed(f_ref{}))::element_ptr;          // tref
// X(index, element type, pointer type): every (T, P) a holder can have
#define C12_HEAVY_TYPES(X) \
	X(0, S, S*) X(1, Z, Z*) X(2, CD, CD*) X(3, R16, R16*) X(4, Q, Q*) X(5, int, int*) X(6, double, double*) \
	X(7, long, TPval) X(8, long, TPvalc) X(9, int, TPmem) X(10, double, TPref)

template<class T, class P, bool Full, class X> std::unique_ptr<Any> wrap(X&& x) {
	constexpr int R = std::decay_t<X>::rank_v;
	if constexpr(R >= 1 && R <= C12_MAXD) {
		return std::make_unique<PH<T, R, P, Full>>(x.layout(), P(x.mutable_base()));
	} else {
		throw unsupported("rank out of harness range");
	}
}
// a view of a new element type with a raw pointer: rebuilt from its public layout() and base()
template<class T2, bool Full, class X> std::unique_ptr<Any> rewrap(X&& x) {
	constexpr int R = std::decay_t<X>::rank_v;
	if constexpr(R >= 1 && R <= C12_MAXD) {
		using elem = std::remove_const_t<T2>;
		return std::make_unique<PH<elem, R, elem*, Full>>(x.layout(), const_cast<elem*>(x.base()));  // NOLINT
	} else {
		throw unsupported("rank out of harness range");
	}
}

// "natural" conversion targets: int -> long, long -> double, double -> float (implicit, value-changing
// representation), std::complex<double> -> std::complex<float> (explicit only); others: the same type
template<class T> struct conv_target { using type = T; };
template<> struct conv_target<int> { using type = long; };
template<> struct conv_target<long> { using type = double; };
template<> struct conv_target<double> { using type = float; };
template<> struct conv_target<Z> { using type = ZF; };
template<class T> struct type_tag { using type = T; };

template<class T, int D, class P, bool Full> struct PH : Any {
	multi::subarray<T, D, P> v;
	template<class L> PH(L const& l, P b) : v(l, b) {}

	int rank() const override { return D; }
	char const* elem() const override { return code<T>::v; }
	long esz() const override { return static_cast<long>(sizeof(T)); }
	std::vector<idx_t> sizes() const override { return dv::tup_to_vec(v.sizes()); }
	std::vector<idx_t> strides() const override { return dv::tup_to_vec(v.strides()); }
	std::vector<std::pair<idx_t, idx_t>> extensions() const override {
		return v.extensions().apply([](auto... e) { return std::vector<std::pair<idx_t, idx_t>>{{e.first(), e.last()}...}; });
	}
	idx_t num_elements() const override { return v.num_elements(); }
	idx_t size() const override { return v.size(); }
	bool is_empty() const override { return v.is_empty(); }

	template<int K, class W> static decltype(auto) chain(W&& w, std::vector<idx_t> const& x) {
		if constexpr(K == D - 1) {
			return w[x[K]];
		} else {
			return chain<K + 1>(w[x[K]], x);
		}
	}
	void probe(std::vector<idx_t> const& x, bool& has_addr, long& off, std::string& val) override {
		using R = decltype(chain<0>(v, x));
		if constexpr(std::is_lvalue_reference_v<R>) {
			auto& r = chain<0>(v, x);
			has_addr = true;
			off = reinterpret_cast<char const*>(&r) - ctx().root;  // NOLINT
			// the value is read only when the object lies inside the root array
			if(off >= 0 && static_cast<std::size_t>(off) + sizeof(T) <= ctx().nbytes) { val = show<T>(r); } else { val = "oob"; }
		} else {
			has_addr = false;
			off = 0;
			T r = chain<0>(v, x);
			val = show<T>(r);
		}
	}
	bool write(std::vector<idx_t> const& x, long n) override {
		using R = decltype(chain<0>(v, x));
		if constexpr(std::is_lvalue_reference_v<R> && !std::is_const_v<std::remove_reference_t<R>> && (std::is_same_v<T, int> || std::is_same_v<T, double>)) {
			chain<0>(v, x) = static_cast<T>(7000000 + n);
			return true;
		} else {
			return false;
		}
	}
	// conversions and iterator walks live in common/c12_heavy.hpp and are compiled in separate translation units
	// (harness/c12_heavy_part.cpp, explicit instantiations), because they instantiate most of array.hpp
	void convert(std::ostream& os, std::string const& id, int step, std::string const& kind) override { Heavy<T, D, P>{v}.convert(os, id, step, kind); }
	void walk(std::ostream& os, std::string const& id, int step, int wn, std::vector<std::string> const& tk) override { Heavy<T, D, P>{v}.walk(os, id, step, wn, tk); }

	// ---- projections ----
	// Every projection kind is reached through each value category of the source view, because the library has
	// separate overloads (and for D = 1 partly separate code) for them:
	//   <kind>     named view            (the & overloads)
	//   c_<kind>   const reference       (the const& overloads)
	//   r_<kind>   std::move(view)       (xvalue: the && overloads)
	//   t_<kind>   view()                (prvalue temporary produced by a view operation: the && overloads)
	// W is `subarray<...>&`, `subarray<...> const&` or `subarray<...>` (forwarding reference).
	template<class W> static std::unique_ptr<Any> project_common(W&& w, std::string const& kind, std::vector<idx_t> const& a) {
		if constexpr(std::is_pointer_v<P> && std::is_same_v<T, S>) {
			if(kind == "member_a") { return rewrap<int, true>(std::forward<W>(w).template member_cast<int>(&S::a)); }
			if(kind == "member_b") { return rewrap<int, true>(std::forward<W>(w).template member_cast<int>(&S::b)); }
			if(kind == "member_c") { return rewrap<double, true>(std::forward<W>(w).template member_cast<double>(&S::c)); }
			if(kind == "reint_R") { return rewrap<R16, false>(std::forward<W>(w).template reinterpret_array_cast<R16>()); }
			if(kind == "reint_Q") { return rewrap<Q, false>(std::forward<W>(w).template reinterpret_array_cast<Q>()); }
			if(kind == "reint_I") { return rewrap<int, true>(std::forward<W>(w).template reinterpret_array_cast<int>()); }
			if(kind == "reintn_I") { return rewrap<int, true>(std::forward<W>(w).template reinterpret_array_cast<int>(a.at(0))); }
			if(kind == "reintn_D") { return rewrap<double, true>(std::forward<W>(w).template reinterpret_array_cast<double>(a.at(0))); }
			if(kind == "reintn_R") { return rewrap<R16, false>(std::forward<W>(w).template reinterpret_array_cast<R16>(a.at(0))); }
			// static_array_cast<S const>: D > 1 has const& (:1693), & (:1711) and && (:1706) overloads, D = 1 one const member (:3228)
			if(kind == "static") { return rewrap<S, true>(std::forward<W>(w).template static_array_cast<S const>()); }
			// as_const() / const_array_cast() are const members of the D > 1 class only (:1802, :1810): one overload each,
			// reached here through every receiver kind
			if constexpr(D >= 2) {
				if(kind == "asconst") { return rewrap<S, true>(std::forward<W>(w).as_const()); }
				if(kind == "constcast") { return rewrap<S, true>(std::forward<W>(w).as_const().template const_array_cast<S>()); }
			}
			if(kind == "tval") {
				auto t = std::forward<W>(w).element_transformed(f_val{});
				using TP = typename decltype(t)::element_ptr;
				return wrap<long, TP, false>(t);
			}
		}
		if constexpr(std::is_pointer_v<P> && std::is_same_v<T, Z>) {
			if(kind == "reint_C") { return rewrap<CD, false>(std::forward<W>(w).template reinterpret_array_cast<CD>()); }
			if(kind == "reint_D") { return rewrap<double, true>(std::forward<W>(w).template reinterpret_array_cast<double>()); }
			if(kind == "reintn_D") { return rewrap<double, true>(std::forward<W>(w).template reinterpret_array_cast<double>(a.at(0))); }
			if constexpr(D >= 2) {
				if(kind == "asconst") { return rewrap<Z, true>(std::forward<W>(w).as_const()); }
			}
		}
		if constexpr(std::is_pointer_v<P> && std::is_same_v<T, int>) {
			// to a LARGER element: strides are divided, legal only when every stride*4 is a multiple of 8
			// (layout.hpp:986); the generator asks the model's dom_scale and keeps the address 8-aligned
			if(kind == "up_Q") { return rewrap<Q, false>(std::forward<W>(w).template reinterpret_array_cast<Q>()); }
		}
		if constexpr(std::is_pointer_v<P> && std::is_same_v<T, CD>) {
			if(kind == "member_re") { return rewrap<double, true>(std::forward<W>(w).template member_cast<double>(&CD::real)); }
			if(kind == "member_im") { return rewrap<double, true>(std::forward<W>(w).template member_cast<double>(&CD::imag)); }
		}
		throw unsupported("projection " + kind + " on element type " + code<T>::v);
	}

	// kinds that need a mutable source (named or temporary)
	template<class W> static std::unique_ptr<Any> project_mut(W&& w, std::string const& kind, std::vector<idx_t> const& a) {
		constexpr bool raw = std::is_pointer_v<P>;
		if constexpr(raw && std::is_same_v<T, S>) {
			if(kind == "tmem") {
				auto t = std::forward<W>(w).element_transformed(&S::b);
				using TP = typename decltype(t)::element_ptr;
				return wrap<int, TP, false>(t);
			}
			if(kind == "tref") {
				auto t = std::forward<W>(w).element_transformed(f_ref{});
				using TP = typename decltype(t)::element_ptr;
				return wrap<double, TP, false>(t);
			}
		}
		if constexpr(raw && std::is_same_v<T, Z>) {
			if(kind == "zreal") { return rewrap<double, true>(multi::blas::real(std::forward<W>(w))); }        // blas/numeric.hpp:45-51
			if(kind == "zimag") { return rewrap<double, true>(multi::blas::imag(std::forward<W>(w))); }        // :53-59
			if(kind == "zdoubled") {                                                                           // :61-65
				if constexpr(D + 1 <= C12_MAXD) { return rewrap<double, true>(multi::blas::real_doubled(std::forward<W>(w))); } else { throw unsupported("rank"); }
			}
		}
		return project_common(std::forward<W>(w), kind, a);
	}

	std::unique_ptr<Any> project(std::string const& kind, std::vector<idx_t> const& a) override {
		if(kind.size() > 2 && kind[1] == '_') {
			auto const k = kind.substr(2);
			if(kind[0] == 'c') { auto const& cv = v; return project_common(cv, k, a); }   // const&
			if(kind[0] == 'r') { return project_mut(std::move(v), k, a); }                // xvalue (this holder is discarded afterwards)
			if(kind[0] == 't') { return project_mut(v(), k, a); }                         // prvalue: the view returned by operator()()
		}
		return project_mut(v, kind, a);
	}

	// ---- view operations (same as dynview.hpp, for any pointer type) ----
	template<int K, class Tup> std::unique_ptr<Any> paren_(std::vector<dv::parg> const& a, Tup tup) {
		if(static_cast<int>(a.size()) == K) {
			return std::apply([&](auto... as) -> std::unique_ptr<Any> {
				if constexpr(sizeof...(as) == 0) {
					return wrap<T, P, Full>(v());
				} else {
					using R = std::decay_t<decltype(v(as...))>;
					if constexpr(std::is_same_v<R, T>) {
						throw unsupported("paren to element");
					} else {
						return wrap<T, P, Full>(v(as...));
					}
				}
			}, tup);
		}
		if constexpr(K < 3 && K < D) {
			auto const& p = a[K];
			switch(p.kind) {
				case 'i': return paren_<K + 1>(a, std::tuple_cat(tup, std::make_tuple(static_cast<multi::index>(p.a))));
				case 'r': return paren_<K + 1>(a, std::tuple_cat(tup, std::make_tuple(multi::irange{p.a, p.b})));
				default : return paren_<K + 1>(a, std::tuple_cat(tup, std::make_tuple(multi::_)));
			}
		} else {
			throw unsupported("too many paren arguments");
		}
	}

	std::unique_ptr<Any> apply(Op const& op) override {
		auto const& n = op.name;
		auto const& a = op.args;
		if(n == "index") {
			if constexpr(D >= 2) { return wrap<T, P, Full>(v[a[0]]); } else { throw unsupported("index on rank 1"); }
		}
		constexpr bool can_slice = std::is_pointer_v<P> || D == 1 || (C12_TPTR_SLICED != 0);
		if(n == "sliced") {
			if constexpr(can_slice) { return wrap<T, P, Full>(v.sliced(a[0], a[1])); } else { throw unsupported("sliced: transform_ptr, D>1, assertions on"); }
		}
		if(n == "strided") { return wrap<T, P, Full>(v.strided(a[0])); }
		if(n == "rotated") { return wrap<T, P, Full>(v.rotated()); }
		if(n == "unrotated") { return wrap<T, P, Full>(v.unrotated()); }
		if(n == "transposed") {
			if constexpr(D >= 2) { return wrap<T, P, Full>(v.transposed()); } else { throw unsupported("transposed D=1"); }
		}
		if(n == "diagonal") {
			if constexpr(D >= 2 && can_slice) { return wrap<T, P, Full>(v.diagonal()); } else { throw unsupported("diagonal"); }
		}
		if(n == "reversed") { return wrap<T, P, Full>(v.reversed()); }
		if(n == "dropped") { return wrap<T, P, Full>(v.dropped(a[0])); }
		if(n == "reindexed") { return wrap<T, P, Full>(v.reindexed(a[0])); }
		if(n == "blocked") {
			if constexpr(can_slice) { return wrap<T, P, Full>(v.blocked(a[0], a[1])); } else { throw unsupported("blocked: transform_ptr, D>1, assertions on"); }
		}
		if(n == "reindexedl") {
			if constexpr(D >= 2) { if(a.size() == 2) { return wrap<T, P, Full>(v.reindexed(a[0], a[1])); } }
			if constexpr(D >= 3) { if(a.size() == 3) { return wrap<T, P, Full>(v.reindexed(a[0], a[1], a[2])); } }
			if constexpr(D >= 4) { if(a.size() == 4) { return wrap<T, P, Full>(v.reindexed(a[0], a[1], a[2], a[3])); } }
			throw unsupported("reindexed arity");
		}
		if constexpr(Full) {
			if(n == "sliceds") { return wrap<T, P, Full>(v.sliced(a[0], a[1], a[2])); }
			if(n == "taked") {
				if constexpr(D == 1) { return wrap<T, P, Full>(v.taked(a[0])); } else { throw unsupported("taked D>1"); }
			}
			if(n == "partitioned") { return wrap<T, P, Full>(v.partitioned(a[0])); }
			if(n == "chunked") { return wrap<T, P, Full>(v.chunked(a[0])); }
			if(n == "halved") { return wrap<T, P, Full>(v.halved()); }
			if(n == "flatted") {
				if constexpr(D >= 2) { return wrap<T, P, Full>(v.flatted()); } else { throw unsupported("flatted D=1"); }
			}
			if(n == "paren") { return paren_<0>(op.pargs, std::tuple<>{}); }
		}
		throw unsupported("unknown or unsupported op " + n);
	}
};

}  // namespace c12

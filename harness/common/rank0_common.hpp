// Shared by the rank-0 compile/run probes (harness/rank0_probe_main.hpp) and the rank-0 history harness
// (harness/h_rank0.cpp): element and allocator types, an order on the instrumented element, printing helpers.
// Element kinds (R0_T): 0 int (trivial), 1 life::elem (tracked class: every special member reports to the registry,
// fallible), 2 life::tagged (not trivially default constructible, trivially destructible), 3 life::cell (trivial default
// constructor, user-provided copy).
#pragma once
#include <boost/multi/array.hpp>

#include "life_tracked_alloc.hpp"

#include <cstdio>
#include <iostream>
#include <string>
#include <type_traits>
#include <utility>

#ifndef R0_T
#define R0_T 1
#endif
// allocator configuration (C10 at rank 0): the traits of life::tracked_alloc, or std::pmr::polymorphic_allocator over
// life::logging_resource instances (R0_PMR=1: no propagation trait, select_on_container_copy_construction returns the default
// resource).  Default: a stateful allocator that propagates nowhere and compares by id.
#ifndef R0_POCCA
#define R0_POCCA 0
#endif
#ifndef R0_POCMA
#define R0_POCMA 0
#endif
#ifndef R0_POCS
#define R0_POCS 0
#endif
#ifndef R0_AE
#define R0_AE 0
#endif
#ifndef R0_PMR
#define R0_PMR 0
#endif

namespace life {
// the properties' element order (C07): by payload.  Declared here because life_tracked_elem.hpp only has == and !=.
// Non-template functions, so that they are reachable through implicit conversions exactly like the element's own == and !=
// (a "regular" element type: all six relational operators, as int, double and std::string have).
#define R0_ORDER(TYPE) \
	inline bool operator< (TYPE const& a, TYPE const& b) { return a.v <  b.v; } \
	inline bool operator<=(TYPE const& a, TYPE const& b) { return a.v <= b.v; } \
	inline bool operator> (TYPE const& a, TYPE const& b) { return a.v >  b.v; } \
	inline bool operator>=(TYPE const& a, TYPE const& b) { return a.v >= b.v; }
R0_ORDER(elem)
R0_ORDER(elem_nx)
R0_ORDER(tagged)
R0_ORDER(cell)
#undef R0_ORDER
}  // namespace life

namespace r0 {
namespace multi = boost::multi;

// not trivially default constructible, trivially destructible, no moved-from state to observe; x = std::move(x) loses the value
struct selfmove {
	int v = 0;
	selfmove() = default;
	selfmove(int x) : v(x) {}  // NOLINT: implicit on purpose
	selfmove(selfmove const&) = default;
	selfmove(selfmove&&) = default;
	auto operator=(selfmove const&) -> selfmove& = default;
	auto operator=(selfmove&& o) noexcept -> selfmove& { if(&o == this) { v = -1; } else { v = o.v; } return *this; }
	~selfmove() = default;
	friend bool operator==(selfmove const& a, selfmove const& b) { return a.v == b.v; }
	friend bool operator!=(selfmove const& a, selfmove const& b) { return a.v != b.v; }
	friend bool operator< (selfmove const& a, selfmove const& b) { return a.v <  b.v; }
	friend bool operator<=(selfmove const& a, selfmove const& b) { return a.v <= b.v; }
	friend bool operator> (selfmove const& a, selfmove const& b) { return a.v >  b.v; }
	friend bool operator>=(selfmove const& a, selfmove const& b) { return a.v >= b.v; }
};
static_assert(!std::is_trivially_default_constructible_v<selfmove> && std::is_trivially_destructible_v<selfmove>);

#if R0_T == 1
using E = life::elem;
constexpr bool tracked = true;
#elif R0_T == 2
using E = life::tagged;
constexpr bool tracked = false;
#elif R0_T == 3
using E = life::cell;
constexpr bool tracked = false;
#elif R0_T == 4
using E = selfmove;
constexpr bool tracked = false;
#else
using E = int;
constexpr bool tracked = false;
#endif
using CE = std::conditional_t<tracked, int, short>;   // the "convertible element type"

#if R0_PMR
template<class T> using alloc_t = std::pmr::polymorphic_allocator<T>;
constexpr int NRES = 8;
inline life::logging_resource* resources() { static life::logging_resource r[NRES]; return r; }
template<class T> alloc_t<T> mk_alloc_of(int id) { return alloc_t<T>(&resources()[((id % NRES) + NRES) % NRES]); }
template<class T> int alloc_id(std::pmr::polymorphic_allocator<T> const& a) {
	for(int k = 0; k != NRES; ++k) { if(a.resource() == &resources()[k]) { return k; } }
	return -1;
}
#else
template<class T> using alloc_t = life::tracked_alloc<T, R0_POCCA != 0, R0_POCMA != 0, R0_POCS != 0, R0_AE != 0>;
template<class T> alloc_t<T> mk_alloc_of(int id) { return alloc_t<T>(id); }
template<class T> int alloc_id(alloc_t<T> const& a) { return a.id; }
#endif
using A    = alloc_t<E>;
using Arr  = multi::array<E, 0, A>;
using SArr = multi::static_array<E, 0, A>;
using ArrC = multi::array<CE, 0, alloc_t<CE>>;         // an array of the convertible element type
using Ref  = multi::array_ref<E, 0>;                   // array_ref<E, 0, E*>
using CRef = multi::array_ref<E, 0, E const*>;         // the read-only reference
using Sub  = multi::subarray<E, 0>;
using CSub = multi::const_subarray<E, 0>;
using X0   = multi::extensions_t<0>;

inline int val_of(int x) { return x; }
inline int val_of(short x) { return x; }
template<class T> auto val_of(T const& x) -> decltype(x.v) { return x.v; }
// the element an object of rank 0 designates, read without going through the conversions under test
template<class R> int val_at(R const& r) { return val_of(*r.base()); }

}  // namespace r0

// Instrumented element type for the lifecycle harness (C04/C06/C08/C09/C10).
// A global registry maps the address of every element object to {raw, alive, moved-from}; every special
// member reports its transition, illegal transitions (construct over a live object, destroy / read / assign
// an object that is not alive) are recorded (first one wins) and reported by the harness after the operation.
// "Fallible events" (element copy/move construction and assignment, conversions) are counted while the
// registry is armed, and the k-th one throws life::injected when a countdown is set.
#pragma once
#include <cstddef>
#include <exception>
#include <string>
#include <unordered_map>

namespace life {

enum class cs : unsigned char { raw, alive, moved };

struct injected : std::exception {
	char const* what() const noexcept override { return "life::injected"; }
};

struct registry {
	std::unordered_map<void const*, cs> st;  // absent = raw
	long alive = 0;                          // objects currently alive or moved-from (constructed, not destroyed)
	long copies = 0, moves = 0, defaults = 0, conversions = 0, dtors = 0;  // since the last reset_counts()
	bool armed = false;
	long fallible = 0;    // fallible events seen while armed (whole case)
	long countdown = 0;   // > 0: throw at the countdown-th fallible event from now
	char thrown_at = '-'; // 'a' allocation, 'e' element event
	std::string error;    // first illegal transition

	void reset() { *this = registry{}; }
	void reset_counts() { copies = moves = defaults = conversions = dtors = 0; }
	void fail(char const* what) { if(error.empty()) { error = what; } }

	cs state(void const* p) const {
		auto it = st.find(p);
		return it == st.end() ? cs::raw : it->second;
	}
	// every fallible event passes here BEFORE it has any effect
	void tick(char kind) {
		if(!armed) { return; }
		++fallible;
		if(countdown > 0 && --countdown == 0) {
			thrown_at = kind;
			if(kind == 'a') { throw std::bad_alloc{}; }
			throw injected{};
		}
	}
	void construct(void const* p) {
		if(state(p) != cs::raw) { fail("construct-over-alive"); }
		else { ++alive; }
		st[p] = cs::alive;
	}
	void destroy(void const* p) {
		if(state(p) == cs::raw) { fail("destroy-raw"); }
		else { --alive; }
		st.erase(p);
		++dtors;
	}
	void read(void const* p) { if(state(p) == cs::raw) { fail("read-raw"); } }
	void assign(void const* p) {
		if(state(p) == cs::raw) { fail("assign-raw"); }
		else { st[p] = cs::alive; }
	}
	void mark_moved(void const* p) { if(state(p) != cs::raw) { st[p] = cs::moved; } }
	// storage handed back to an allocator: anything still registered there was never destroyed
	long forget_range(void const* first, std::size_t bytes, std::size_t stride) {
		long leaked = 0;
		auto const* b = static_cast<unsigned char const*>(first);
		for(std::size_t off = 0; off + stride <= bytes; off += stride) {
			auto it = st.find(b + off);
			if(it != st.end()) { ++leaked; }
		}
		return leaked;
	}
};

inline registry& reg() { static registry r; return r; }

struct elem {
	int v;
	elem() : v(0) { reg().construct(this); ++reg().defaults; }
	elem(int x) : v(x) { reg().tick('e'); reg().construct(this); ++reg().conversions; }  // NOLINT: implicit on purpose (convertible element type)
	elem(elem const& o) : v(0) { reg().tick('e'); reg().read(&o); v = o.v; reg().construct(this); ++reg().copies; }
	elem(elem&& o) : v(0) { reg().tick('e'); reg().read(&o); v = o.v; reg().construct(this); reg().mark_moved(&o); ++reg().moves; }  // NOLINT: may throw on purpose
	auto operator=(elem const& o) -> elem& {
		reg().tick('e'); reg().read(&o); reg().assign(this); v = o.v; ++reg().copies; return *this;
	}
	auto operator=(elem&& o) -> elem& {  // NOLINT: may throw on purpose
		reg().tick('e'); reg().read(&o); reg().assign(this); v = o.v;
		if(&o != this) { reg().mark_moved(&o); }
		++reg().moves; return *this;
	}
	auto operator=(int x) -> elem& { reg().tick('e'); reg().assign(this); v = x; ++reg().conversions; return *this; }
	~elem() { reg().destroy(this); }
	friend bool operator==(elem const& a, elem const& b) { return a.v == b.v; }
	friend bool operator!=(elem const& a, elem const& b) { return a.v != b.v; }
};

}  // namespace life

// Instrumented element type for the lifecycle harness (C04/C06/C08/C09/C10).
// A global registry maps the address of every element object to {raw, alive, moved-from}; every special
// member reports its transition, illegal transitions (construct over a live object, destroy / read / assign
// an object that is not alive) are recorded (first one wins) and reported by the harness after the operation.
// "Fallible events" (element copy/move construction and assignment, conversions) are counted while the
// registry is armed, and the k-th one throws life::injected when a countdown is set.
#pragma once
#include <cstddef>
#include <exception>
#include <string>
#include <type_traits>
#include <unordered_map>

namespace life {

enum class cs : unsigned char { raw, alive, moved };

struct injected : std::exception {
	char const* what() const noexcept override { return "life::injected"; }
};

struct registry {
	std::unordered_map<void const*, cs> st;  // absent = raw
	long alive = 0;                          // objects currently alive or moved-from (constructed, not destroyed)
	long copies = 0, moves = 0, defaults = 0, conversions = 0, dtors = 0;  // since the last reset_counts()
	bool armed = false;
	long fallible = 0;    // fallible events seen while armed (whole case)
	long countdown = 0;   // > 0: throw at the countdown-th fallible event from now
	char thrown_at = '-'; // 'a' allocation, 'e' element event
	std::string error;    // first illegal transition

	void reset() { *this = registry{}; }
	void reset_counts() { copies = moves = defaults = conversions = dtors = 0; }
	void fail(char const* what) { if(error.empty()) { error = what; } }

	cs state(void const* p) const {
		auto it = st.find(p);
		return it == st.end() ? cs::raw : it->second;
	}
	// every fallible event passes here BEFORE it has any effect
	void tick(char kind) {
		if(!armed) { return; }
		++fallible;
		if(countdown > 0 && --countdown == 0) {
			thrown_at = kind;
			if(kind == 'a') { throw std::bad_alloc{}; }
			throw injected{};
		}
	}
	void construct(void const* p) {
		if(state(p) != cs::raw) { fail("construct-over-alive"); }
		else { ++alive; }
		st[p] = cs::alive;
	}
	void destroy(void const* p) {
		if(state(p) == cs::raw) { fail("destroy-raw"); }
		else { --alive; }
		st.erase(p);
		++dtors;
	}
	void read(void const* p) { if(state(p) == cs::raw) { fail("read-raw"); } }
	void assign(void const* p) {
		if(state(p) == cs::raw) { fail("assign-raw"); }
		else { st[p] = cs::alive; }
	}
	void mark_moved(void const* p) { if(state(p) != cs::raw) { st[p] = cs::moved; } }
	// storage handed back to an allocator: anything still registered there was never destroyed
	long forget_range(void const* first, std::size_t bytes, std::size_t stride) {
		long leaked = 0;
		auto const* b = static_cast<unsigned char const*>(first);
		for(std::size_t off = 0; off + stride <= bytes; off += stride) {
			auto it = st.find(b + off);
			if(it != st.end()) { ++leaked; }
		}
		return leaked;
	}
};

inline registry& reg() { static registry r; return r; }

// NX: the move assignment is noexcept (and therefore not a fallible event) while the copy assignment may throw
// (the split std::string / std::vector have): a function that copy-assigns must not claim noexcept from the move trait.
template<bool NX>
struct elem_t {
	int v;
	elem_t() : v(0) { reg().construct(this); ++reg().defaults; }
	elem_t(int x) : v(x) { reg().tick('e'); reg().construct(this); ++reg().conversions; }  // NOLINT: implicit on purpose (convertible element type)
	elem_t(elem_t const& o) : v(0) { reg().tick('e'); reg().read(&o); v = o.v; reg().construct(this); ++reg().copies; }
	elem_t(elem_t&& o) : v(0) { reg().tick('e'); reg().read(&o); v = o.v; reg().construct(this); reg().mark_moved(&o); ++reg().moves; }  // NOLINT: may throw on purpose
	auto operator=(elem_t const& o) -> elem_t& {
		reg().tick('e'); reg().read(&o); reg().assign(this); v = o.v; ++reg().copies; return *this;
	}
	auto operator=(elem_t&& o) noexcept(NX) -> elem_t& {  // NOLINT: may throw on purpose when !NX
		if constexpr(!NX) { reg().tick('e'); }
		reg().read(&o); reg().assign(this); v = o.v;
		if(&o != this) { reg().mark_moved(&o); }
		++reg().moves; return *this;
	}
	auto operator=(int x) -> elem_t& { reg().tick('e'); reg().assign(this); v = x; ++reg().conversions; return *this; }
	~elem_t() { reg().destroy(this); }
	friend bool operator==(elem_t const& a, elem_t const& b) { return a.v == b.v; }
	friend bool operator!=(elem_t const& a, elem_t const& b) { return a.v != b.v; }
};
using elem    = elem_t<false>;
using elem_nx = elem_t<true>;

// trivially destructible and trivially copyable, but NOT trivially default constructible: value-initialisation gives 0,
// skipped construction leaves the allocator's 0xCD paint
struct tagged {
	int v = 0;
	tagged() = default;
	tagged(int x) : v(x) {}  // NOLINT: implicit on purpose
	friend bool operator==(tagged const& a, tagged const& b) { return a.v == b.v; }
	friend bool operator!=(tagged const& a, tagged const& b) { return a.v != b.v; }
};

// trivial default constructor and destructor, user-provided copy operations: is_trivially_default_constructible but
// not is_trivial; default construction must not write (the paint stays)
struct cell {
	int v;
	cell() = default;
	cell(int x) : v(x) {}  // NOLINT: implicit on purpose
	cell(cell const& o) noexcept : v(o.v) {}
	auto operator=(cell const& o) noexcept -> cell& { v = o.v; return *this; }
	friend bool operator==(cell const& a, cell const& b) { return a.v == b.v; }
	friend bool operator!=(cell const& a, cell const& b) { return a.v != b.v; }
};

static_assert(!std::is_nothrow_move_assignable_v<elem> && std::is_nothrow_move_assignable_v<elem_nx> && !std::is_nothrow_copy_assignable_v<elem_nx>);
static_assert(!std::is_trivially_default_constructible_v<tagged> && std::is_trivially_destructible_v<tagged> && std::is_trivially_copyable_v<tagged>);
static_assert(std::is_trivially_default_constructible_v<cell> && std::is_trivially_destructible_v<cell> && !std::is_trivial_v<cell>);

}  // namespace life

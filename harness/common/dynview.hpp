// Interpreter for view programs over the real library (compiled against /repo/include on every run).
// The current view is held in a freshly constructed Holder<D>; holders are never assigned
// (assignment of subarray proxies is deep element assignment), only constructed from the
// public layout() and base() of the view an operation returned.
#pragma once
#include <boost/multi/array.hpp>

#include <array>
#include <cstdlib>
#include <iostream>
#include <functional>
#include <memory>
#include <sstream>
#include <stdexcept>
#include <string>
#include <tuple>
#include <utility>
#include <vector>

namespace multi = boost::multi;

#ifndef BM_MAXD
#define BM_MAXD 6
#endif

namespace dv {

using idx_t = std::ptrdiff_t;
template<class T, int D> using V = multi::const_subarray<T, D, T*>;

struct parg { char kind; idx_t a, b; };  // 'i' index a; 'r' range [a,b); 'a' all
struct Op {
	std::string name;
	std::vector<idx_t> args;
	std::vector<parg> pargs;
};

struct unsupported : std::runtime_error { using std::runtime_error::runtime_error; };

template<class Tup> auto tup_to_vec(Tup const& t) {
	return t.apply([](auto... s) { return std::vector<idx_t>{static_cast<idx_t>(s)...}; });
}
inline auto tup_to_vec(multi::detail::tuple<> const& /*t*/) { return std::vector<idx_t>{}; }

// visitor giving harnesses typed access to the held view (one overload per rank)
template<class T> struct Visitor {
	virtual ~Visitor() = default;
	virtual void on(V<T, 1>& v) = 0;
	virtual void on(V<T, 2>& v) = 0;
	virtual void on(V<T, 3>& v) = 0;
	virtual void on(V<T, 4>& v) = 0;
	virtual void on(V<T, 5>& v) = 0;
	virtual void on(V<T, 6>& v) = 0;
};
// CRTP helper: derive from Typed<T, Self> and write  template<int D> void go(V<T,D>&)
template<class T, class Self> struct Typed : Visitor<T> {
	void on(V<T, 1>& v) override { static_cast<Self*>(this)->template go<1>(v); }
	void on(V<T, 2>& v) override { static_cast<Self*>(this)->template go<2>(v); }
	void on(V<T, 3>& v) override { static_cast<Self*>(this)->template go<3>(v); }
	void on(V<T, 4>& v) override { static_cast<Self*>(this)->template go<4>(v); }
	void on(V<T, 5>& v) override { static_cast<Self*>(this)->template go<5>(v); }
	void on(V<T, 6>& v) override { static_cast<Self*>(this)->template go<6>(v); }
};

template<class T> struct Base {
	virtual ~Base() = default;
	virtual void accept(Visitor<T>& vis) = 0;
	virtual int rank() const = 0;
	virtual std::unique_ptr<Base> apply(Op const& op) = 0;
	virtual std::vector<idx_t> sizes() const = 0;
	virtual std::vector<std::pair<idx_t, idx_t>> extensions() const = 0;
	virtual std::vector<idx_t> strides() const = 0;
	virtual idx_t num_elements() const = 0;
	virtual idx_t size() const = 0;
	virtual bool is_empty() const = 0;
	// element access paths; return pointers (nullptr when the path is not available)
	virtual T* at_brackets(std::vector<idx_t> const& idx) = 0;
	virtual T* at_call(std::vector<idx_t> const& idx) = 0;
	virtual T* at_tuple(std::vector<idx_t> const& idx) = 0;
	virtual T* at_cursor(std::vector<idx_t> const& idx) = 0;
	// C01: a broadcasted view designates its source at index i of the added leading dimension:
	// returns 1 when v.broadcasted()[i] has the layout (strides, sizes) and base of v, 0 when not, -1 when not available
	virtual int broadcast_same(idx_t i) = 0;
};

template<class T, int D> struct Holder;

template<class T, class X> std::unique_ptr<Base<T>> wrap(X&& x) {
	constexpr int R = std::decay_t<X>::rank_v;
	if constexpr(R >= 1 && R <= BM_MAXD) {
		using elem_ptr = T*;
		return std::make_unique<Holder<T, R>>(x.layout(), const_cast<elem_ptr>(x.base()));  // NOLINT
	} else {
		throw unsupported("rank out of harness range");
	}
}

template<class T, int D> struct Holder : Base<T> {
	V<T, D> v;
	template<class L> Holder(L const& l, T* b) : v(l, b) {}

	int rank() const override { return D; }
	void accept(Visitor<T>& vis) override { vis.on(v); }
	std::vector<idx_t> sizes() const override { return tup_to_vec(v.sizes()); }
	std::vector<idx_t> strides() const override { return tup_to_vec(v.strides()); }
	std::vector<std::pair<idx_t, idx_t>> extensions() const override {
		return v.extensions().apply([](auto... e) { return std::vector<std::pair<idx_t, idx_t>>{{e.first(), e.last()}...}; });
	}
	idx_t num_elements() const override { return v.num_elements(); }
	idx_t size() const override { return v.size(); }
	bool is_empty() const override { return v.is_empty(); }

	template<std::size_t... I> T* brackets_(std::vector<idx_t> const& x, std::index_sequence<I...> /*unused*/) {
		auto const& r = bracket_chain_(v, x, std::integral_constant<int, 0>{});
		return const_cast<T*>(&r);  // NOLINT
	}
	template<class W, int K> static auto const& bracket_chain_(W&& w, std::vector<idx_t> const& x, std::integral_constant<int, K> /*k*/) {
		if constexpr(K == D - 1) {
			return w[x[K]];
		} else {
			return bracket_chain_(w[x[K]], x, std::integral_constant<int, K + 1>{});
		}
	}
	T* at_brackets(std::vector<idx_t> const& x) override { return brackets_(x, std::make_index_sequence<D>{}); }

	template<std::size_t... I> T* call_(std::vector<idx_t> const& x, std::index_sequence<I...> /*unused*/) {
		return const_cast<T*>(&v(x[I]...));  // NOLINT
	}
	T* at_call(std::vector<idx_t> const& x) override { return call_(x, std::make_index_sequence<D>{}); }

	template<std::size_t... I> T* tuple_(std::vector<idx_t> const& x, std::index_sequence<I...> /*unused*/) {
		return const_cast<T*>(&v.apply(std::make_tuple(x[I]...)));  // NOLINT
	}
	T* at_tuple(std::vector<idx_t> const& x) override { return tuple_(x, std::make_index_sequence<D>{}); }

	template<class C, int K> static T* cursor_chain_(C&& c, std::vector<idx_t> const& x, std::integral_constant<int, K> /*k*/) {
		if constexpr(K == D - 1) {
			return const_cast<T*>(&c[x[K]]);  // NOLINT
		} else {
			return cursor_chain_(c[x[K]], x, std::integral_constant<int, K + 1>{});
		}
	}
	T* at_cursor(std::vector<idx_t> const& x) override { return cursor_chain_(v.home(), x, std::integral_constant<int, 0>{}); }
	int broadcast_same(idx_t i) override {
		if constexpr(D < BM_MAXD) {
			auto&& b = v.broadcasted();
			auto&& r = b[i];
			bool same = (r.base() == v.base()) && (tup_to_vec(r.strides()) == tup_to_vec(v.strides())) && (tup_to_vec(r.sizes()) == tup_to_vec(v.sizes()));
			if constexpr(D >= 2) { same = same && (r.extensions() == v.extensions()); }
			return same ? 1 : 0;
		} else {
			return -1;
		}
	}

	// Every view operation has up to six overloads (const& / & / && in const_subarray and again in subarray).  The receiver
	// kind is a deterministic function of the operation and the current shape, so that a program text always takes the
	// same overloads (replays are exact) while a family of programs takes all of them.
	int receiver_kind(Op const& op) const {
		std::size_t h = std::hash<std::string>{}(op.name) % 1000U;
		for(auto x : op.args) { h = h * 31U + static_cast<std::size_t>(x + 1000); }
		for(auto const& p : op.pargs) { h = h * 31U + static_cast<std::size_t>(p.kind) + static_cast<std::size_t>(p.a + 100) * 7U + static_cast<std::size_t>(p.b + 100) * 13U; }
		for(auto x : tup_to_vec(v.sizes())) { h = h * 31U + static_cast<std::size_t>(x); }
		for(auto x : tup_to_vec(v.strides())) { h = h * 31U + static_cast<std::size_t>(x + 100000); }
		return static_cast<int>(h % 6U);
	}
	template<class F> std::unique_ptr<Base<T>> with_receiver(int kind, F&& f) {
		T* const b = const_cast<T*>(v.base());  // NOLINT
		switch(kind) {
			case 0: return f(v);                                                        // const_subarray, lvalue
			case 1: return f(std::as_const(v));                                         // const_subarray, const lvalue
			case 2: { V<T, D> t(v.layout(), b); return f(std::move(t)); }               // const_subarray, rvalue
			case 3: { multi::subarray<T, D, T*> m(v.layout(), b); return f(m); }        // subarray, lvalue
			case 4: { multi::subarray<T, D, T*> m(v.layout(), b); return f(std::move(m)); }   // subarray, rvalue
			default: { multi::subarray<T, D, T*> m(v.layout(), b); return f(std::as_const(m)); }  // subarray, const lvalue
		}
	}

	// call syntax with run-time chosen argument kinds: at most 3 leading arguments
	template<int K, class R, class Tup> static std::unique_ptr<Base<T>> paren_(R&& r, std::vector<parg> const& a, Tup tup) {
		if(static_cast<int>(a.size()) == K) {
			return std::apply([&](auto... as) -> std::unique_ptr<Base<T>> {
				if constexpr(sizeof...(as) == 0) {
					return wrap<T>(std::forward<R>(r)());
				} else {
					using Res = std::decay_t<decltype(std::forward<R>(r)(as...))>;
					if constexpr(std::is_same_v<Res, T>) {
						throw unsupported("paren to element");
					} else {
						return wrap<T>(std::forward<R>(r)(as...));
					}
				}
			}, tup);
		}
		if constexpr(K < 3 && K < D) {
			auto const& p = a[K];
			switch(p.kind) {
				case 'i': return paren_<K + 1>(std::forward<R>(r), a, std::tuple_cat(tup, std::make_tuple(static_cast<multi::index>(p.a))));
				case 'r': return paren_<K + 1>(std::forward<R>(r), a, std::tuple_cat(tup, std::make_tuple(multi::irange{p.a, p.b})));
				default : return paren_<K + 1>(std::forward<R>(r), a, std::tuple_cat(tup, std::make_tuple(multi::_)));
			}
		} else {
			throw unsupported("too many paren arguments");
		}
	}

	std::unique_ptr<Base<T>> apply(Op const& op) override {
		return with_receiver(receiver_kind(op), [&](auto&& r) -> std::unique_ptr<Base<T>> { return apply_on(std::forward<decltype(r)>(r), op); });
	}

	template<class R> static std::unique_ptr<Base<T>> apply_on(R&& r, Op const& op) {
		auto const& n = op.name;
		auto const& a = op.args;
		if(n == "index") {
			if constexpr(D >= 2) { return wrap<T>(std::forward<R>(r)[a[0]]); } else { throw unsupported("index on rank 1"); }
		}
		if(n == "nop") { return wrap<T>(std::forward<R>(r)()); }
		if(n == "sliced") { return wrap<T>(std::forward<R>(r).sliced(a[0], a[1])); }
		if(n == "sliceds") { return wrap<T>(std::forward<R>(r).sliced(a[0], a[1], a[2])); }
		if(n == "strided") { return wrap<T>(std::forward<R>(r).strided(a[0])); }
		if(n == "dropped") { return wrap<T>(std::forward<R>(r).dropped(a[0])); }
		if(n == "taked") { return wrap<T>(std::forward<R>(r).taked(a[0])); }
		if(n == "rotated") { return wrap<T>(std::forward<R>(r).rotated()); }
		if(n == "unrotated") { return wrap<T>(std::forward<R>(r).unrotated()); }
		if(n == "transposed") {
			if constexpr(D >= 2) { return wrap<T>(std::forward<R>(r).transposed()); } else { throw unsupported("transposed D=1"); }
		}
		if(n == "tilde") {
			if constexpr(D >= 2) { return wrap<T>(~std::forward<R>(r)); } else { throw unsupported("~ D=1"); }
		}
		if(n == "reversed") { return wrap<T>(std::forward<R>(r).reversed()); }
		if(n == "diagonal") {
			if constexpr(D >= 2) { return wrap<T>(std::forward<R>(r).diagonal()); } else { throw unsupported("diagonal D=1"); }
		}
		if(n == "partitioned") { return wrap<T>(std::forward<R>(r).partitioned(a[0])); }
		if(n == "chunked") { return wrap<T>(std::forward<R>(r).chunked(a[0])); }
		if(n == "halved") { return wrap<T>(std::forward<R>(r).halved()); }
		if(n == "flatted") {
			if constexpr(D >= 2) { return wrap<T>(std::forward<R>(r).flatted()); } else { throw unsupported("flatted D=1"); }
		}
		if(n == "paren") { return paren_<0>(std::forward<R>(r), op.pargs, std::tuple<>{}); }
		if(n == "reindexed") { return wrap<T>(std::forward<R>(r).reindexed(a[0])); }
		if(n == "blocked") { return wrap<T>(std::forward<R>(r).blocked(a[0], a[1])); }
		if(n == "reindexedl") {
			if constexpr(D >= 2) { if(a.size() == 2) { return wrap<T>(std::forward<R>(r).reindexed(a[0], a[1])); } }
			if constexpr(D >= 3) { if(a.size() == 3) { return wrap<T>(std::forward<R>(r).reindexed(a[0], a[1], a[2])); } }
			if constexpr(D >= 4) { if(a.size() == 4) { return wrap<T>(std::forward<R>(r).reindexed(a[0], a[1], a[2], a[3])); } }
			throw unsupported("reindexed arity");
		}
		if(n == "range") { return wrap<T>(std::forward<R>(r).range(multi::irange{a[0], a[1]})); }
		throw unsupported("unknown op " + n);
	}
};

// ---- program text ----
inline Op parse_op(std::istringstream& is) {
	Op op;
	is >> op.name;
	if(op.name == "paren") {
		int k = 0;
		is >> k;
		for(int j = 0; j < k; ++j) {
			parg p{};
			is >> p.kind;
			if(p.kind == 'i') { is >> p.a; }
			if(p.kind == 'r') { is >> p.a >> p.b; }
			op.pargs.push_back(p);
		}
	} else {
		idx_t x = 0;
		while(is >> x) { op.args.push_back(x); }
	}
	return op;
}

template<class It> std::string join(It first, It last, char sep = ',') {
	std::ostringstream os;
	bool f = true;
	for(; first != last; ++first) { if(!f) { os << sep; } f = false; os << *first; }
	return os.str();
}

}  // namespace dv

// C14: records shared between the LAPACK interposer (c14_interpose.cpp) and the harness (h_lapack.cpp).
// The interposer TU must not see boost/multi's own declarations of dpotrf_ etc. (reference
// parameters: ABI-identical, source-incompatible), hence this small C-style interface.
#pragma once

struct c14_rec {
	int kind;            // 0 dpotrf, 1 dgeqrf, 2 dgesvd, 3 dsyev, 10 allocate, 11 deallocate
	char c1, c2;         // uplo | jobu,jobvt | jobz,uplo
	int m, n, lda, ldu, ldvt, lwork, info;
	int legal;           // reference-LAPACK argument checks, evaluated by the interposer itself
	double const *a, *s, *u, *vt, *tau, *w, *work;
	double work0;        // work[0] after the call (the answer of a workspace query)
	void const* p;       // allocate / deallocate: block
	long cnt;            //                        element count
};

extern "C" {
void           c14_log_clear();
int            c14_log_size();
c14_rec const* c14_log_at(int k);
void           c14_log_push(c14_rec const* r);
// the real DORGQR (never interposed), used by the QR oracle
void c14_real_dorgqr(int m, int n, int k, double* a, int lda, double const* tau, double* work, int lwork, int* info);
}

// C11: the lifecycle harness's instrumented allocator (common/life_tracked_alloc.hpp) over the pointer policy.
// Same ledger (life::ledger(): block records, owner instance, quarantine until the end of the case, 0xCD prefill, the
// same fallible-event tick), same trait parameters; only the pointer type differs:
//   raw      T*                       malloc'ed blocks (as the original)
//   fancy    ptr11::fancy_ptr<T>      blocks bump-allocated from the INTERLEAVED arena of T, never reused inside a case
//   checked  ptr11::checked_ptr<T>    malloc'ed blocks; provenance = the block; after deallocate the block is "released":
//                                     any later dereference through a pointer into it is a recorded violation, so
//                                     "every cell touched lies in a LIVE block the pointer was derived from"
// The ledger is keyed by the raw address of the block's first element (harness-side knowledge, never seen by the library).
#pragma once
#include "life_tracked_alloc.hpp"
#include "ptr11_policies.hpp"

namespace life11 {

using P = ptr11::policy;

// per policy: how a block is obtained and wrapped, and how a case starts
template<class Pol, class T> struct mem;
template<class T> struct mem<ptr11::raw_policy, T> {
	static constexpr std::size_t cell = sizeof(T);
	static auto get(std::size_t n, int id) -> T* { return static_cast<T*>(life::ledger().take(n, n * sizeof(T), id)); }
	static void released(T* /*raw*/) {}
	static void reset() { life::ledger().reset(); }
};
template<class T> struct mem<ptr11::checked_policy, T> {
	static constexpr std::size_t cell = sizeof(T);
	static auto get(std::size_t n, int id) -> ptr11::checked_ptr<T> {
		T* raw = static_cast<T*>(life::ledger().take(n, n * sizeof(T), id));
		return ptr11::checked_policy::from_range<T>(raw, raw, raw + n);
	}
	static void released(T* raw) { ptr11::released::set().insert(static_cast<void const*>(raw)); }
	static void reset() { life::ledger().reset(); }
};
template<class T> struct mem<ptr11::fancy_policy, T> {
	static constexpr std::size_t cell = sizeof(T) * static_cast<std::size_t>(ptr11::arena<T>::pitch);
	static auto get(std::size_t n, int id) -> ptr11::fancy_ptr<T> {
		auto& L = life::ledger();
		life::reg().tick('a');
		auto off = ptr11::arena<T>::bump(static_cast<std::ptrdiff_t>(n));
		T* raw = ptr11::arena<T>::slot(off);
		std::memset(static_cast<void*>(raw), 0xCD, n * cell);
		L.by_addr[raw] = L.blocks.size();
		L.blocks.push_back({raw, n, n * cell, id, true});
		++L.allocs;
		return ptr11::fancy_policy::from_offset<T>(off);
	}
	static void released(T* /*raw*/) {}
	static void reset() {   // the original ledger frees malloc'ed blocks; arena blocks are rewound instead
		auto& L = life::ledger();
		L.blocks.clear(); L.by_addr.clear(); L.allocs = 0;
		ptr11::arena<T>::rewind();
	}
};
template<class T> inline void reset_ledger() {
	mem<P, T>::reset();
	ptr11::released::set().clear();
}

template<class T, bool POCCA, bool POCMA, bool POCS, bool AE>
struct tracked_alloc {
	using value_type = T;
	using pointer = typename P::template ptr<T>;
	using const_pointer = typename P::template ptr<T const>;
	using size_type = std::size_t;
	using difference_type = std::ptrdiff_t;
	using propagate_on_container_copy_assignment = std::bool_constant<POCCA>;
	using propagate_on_container_move_assignment = std::bool_constant<POCMA>;
	using propagate_on_container_swap            = std::bool_constant<POCS>;
	using is_always_equal                        = std::bool_constant<AE>;
	template<class U> struct rebind { using other = tracked_alloc<U, POCCA, POCMA, POCS, AE>; };

	int id = 0;
	tracked_alloc() = default;
	explicit tracked_alloc(int i) : id(i) {}
	template<class U> tracked_alloc(tracked_alloc<U, POCCA, POCMA, POCS, AE> const& o) : id(o.id) {}  // NOLINT

	auto allocate(std::size_t n) -> pointer { return mem<P, T>::get(n, id); }
	void deallocate(pointer p, std::size_t n) noexcept {
		T* raw = P::peek(p);
		life::ledger().give(raw, n, id, mem<P, T>::cell, !std::is_trivially_destructible_v<T>);
		mem<P, T>::released(raw);
	}
	auto select_on_container_copy_construction() const -> tracked_alloc {
		return life::ledger().socc_mode == 1 ? tracked_alloc(id + 1000) : *this;
	}
	friend bool operator==(tracked_alloc const& a, tracked_alloc const& b) { return AE || a.id == b.id; }
	friend bool operator!=(tracked_alloc const& a, tracked_alloc const& b) { return !(a == b); }
};

}  // namespace life11

// C13 expression layer of the adaptor: lazy gemm / gemv ranges, the operators on them, decorated operands and the
// statements that consume them.  Included by h_blas_c13.cpp (uses its Case / Buf / Registry / guarded / print_* helpers).
//
//   op gemm <et> expr      tree base=gemm|star scales=<re,im;...|-> consume=<...> dA=<decos> dB=<decos> dC=<decos>
//                               ibA=r,c ibB=r,c ibC=r,c arr=<r0>x<c0>
//        base     gemm: blas::gemm(alpha, a, b)      star: a * b   (blas::operators; the scalars are then doubles)
//        scales   f1;f2;...: the expression is  ...f2 * (f1 * base)   (gemm.hpp:300 operator*(Scalar, gemm_range))
//        consume  assign  c = e          assign_rv  std::move(c) = e        pluseq  c += e          (c: the decorated view C)
//                 construct  multi::array<T, 2> r = e        plus  +e
//                 arr_assign  arr = e    arr_pluseq  arr += e     (arr: a multi::array of r0 x c0 elements)
//        decos    a string over N T J H (blas::N/T/J/H), t (operators ~), j (operators unary *), applied left to right
//        ib       index bases given to the undecorated views with reindexed(r, c)
//   op gemv <et> expr      tree base=gemv|pct_scaled|pct consume=<...> dM=<decos> ibM=r,c arr=<n0>
//        base     gemv: blas::gemv(alpha, m, x)   pct_scaled: (alpha * m) % x   pct: m % x  (decays at once: construct only)
//
// Lines printed besides the usual ones:  T <id> <the tree>;  D/V: the UNDECORATED operand views as the library reports
// them;  W <id> <name> ...: the decorated views as the library reports them (compared with the model's decos_mat).
// The expected values are computed from the raw buffers with the harness' own indexing and its own reading of the
// decorations (parity of transpositions / conjugations), not through the library's views.

struct Tree {
	std::map<std::string, std::string> kv;
	std::string get(std::string const& k, std::string const& dflt = "") const { auto it = kv.find(k); return it == kv.end() ? dflt : it->second; }
};

static Tree parse_tree(std::string const& text) {
	Tree t;
	std::istringstream is(text);
	std::string w;
	while(is >> w) {
		auto p = w.find('=');
		if(p != std::string::npos) { t.kv[w.substr(0, p)] = w.substr(p + 1); }
	}
	return t;
}

static std::vector<std::pair<long, long>> parse_scales(std::string const& s) {
	std::vector<std::pair<long, long>> out;
	if(s.empty() || s == "-") { return out; }
	std::istringstream is(s);
	std::string item;
	while(std::getline(is, item, ';')) {
		auto c = item.find(',');
		out.emplace_back(std::stol(item.substr(0, c)), std::stol(item.substr(c + 1)));
	}
	return out;
}
static std::pair<idx, idx> parse_pair_idx(std::string const& s, char sep) {
	if(s.empty()) { return {0, 0}; }
	auto c = s.find(sep);
	return {static_cast<idx>(std::stol(s.substr(0, c))), static_cast<idx>(std::stol(s.substr(c + 1)))};
}

// the harness' own reading of a decoration string
static bool decos_transpose(std::string const& ds) { int n = 0; for(char c : ds) { if(c == 'T' || c == 'H' || c == 't') { ++n; } } return (n % 2) == 1; }
static bool decos_conjugate(std::string const& ds) { int n = 0; for(char c : ds) { if(c == 'J' || c == 'H' || c == 'j') { ++n; } } return (n % 2) == 1; }

// element (i,j) of the UNDECORATED view described by the spec, read from the raw buffer
template<class T> T raw_at(Buf<T>& b, MatSpec const& s, idx i, idx j) { return b.root()[(s.r0 + i * s.rs) * s.C + (s.c0 + j * s.cs)]; }
template<class T> T cj_of(T const& x) { if constexpr(is_cplx<T>::value) { return std::conj(x); } else { return x; } }
// element (i,j) of the decorated view
template<class T> T deco_at(Buf<T>& b, MatSpec const& s, std::string const& ds, idx i, idx j) {
	T v = decos_transpose(ds) ? raw_at(b, s, j, i) : raw_at(b, s, i, j);
	return decos_conjugate(ds) ? cj_of(v) : v;
}

// apply a decoration string with the adaptor's own functions, left to right, and hand the decorated view to k
template<class V, class K> void deco2(V& v, std::string const& ds, std::size_t at, K&& k) {
	if(at == ds.size()) { k(v); return; }
	switch(ds[at]) {
		case 'N': { auto&& w = blas::N(v); deco2(w, ds, at + 1, k); break; }
		case 'T': { auto&& w = blas::T(v); deco2(w, ds, at + 1, k); break; }
		case 'J': { auto&& w = blas::J(v); deco2(w, ds, at + 1, k); break; }
		case 'H': { auto&& w = blas::H(v); deco2(w, ds, at + 1, k); break; }
		case 't': { using namespace blas::operators; auto&& w = ~v; deco2(w, ds, at + 1, k); break; }
		case 'j': { using namespace blas::operators; auto&& w = *v; deco2(w, ds, at + 1, k); break; }
		default: throw std::runtime_error("bad deco");
	}
}

template<class M> void print_W(std::string const& id, char name, M const& m, Registry const& reg) {
	auto st = m.strides();
	using std::get;
	std::cout << "W " << id << " " << name << " " << reg.where(raw(m.base())) << " " << get<0>(st) << " " << get<1>(st) << " "
	          << m.size() << " " << (~m).size() << " " << (blas::is_conjugated<M>{} ? 1 : 0) << "\n";
}

// f_k * (... (f_1 * r)): every product is a prvalue of the same range type
template<class Rng, class S, class F> void with_scales(Rng const& r, std::vector<S> const& fs, std::size_t at, F&& f) {
	if(at == fs.size()) { f(r); } else { with_scales(fs[at] * r, fs, at + 1, f); }
}

template<class T> std::string first_diff(std::vector<T> const& got, std::vector<T> const& expect, idx N) {
	for(std::size_t k = 0; k != got.size(); ++k) {
		if(got[k] != expect[k]) {
			std::ostringstream os;
			if(N > 0) { os << "bad:[" << k / static_cast<std::size_t>(N) << "][" << k % static_cast<std::size_t>(N) << "]="; } else { os << "bad:[" << k << "]="; }
			os << show(got[k]) << "!=" << show(expect[k]);
			return os.str();
		}
	}
	return "ok";
}

// ------------------------------------------------------------------------------------------------ gemm expressions
template<class T> void run_gemm_expr(Case const& cs) {
	Tree const tr = parse_tree(cs.tree);
	std::string const base = tr.get("base", "gemm"), consume = tr.get("consume", "assign");
	std::string const dA = tr.get("dA"), dB = tr.get("dB"), dC = tr.get("dC");
	auto const scales = parse_scales(tr.get("scales", "-"));
	auto const ibA = parse_pair_idx(tr.get("ibA", "0,0"), ','), ibB = parse_pair_idx(tr.get("ibB", "0,0"), ','), ibC = parse_pair_idx(tr.get("ibC", "0,0"), ',');
	auto const arr0 = parse_pair_idx(tr.get("arr", "0x0"), 'x');
	bool const to_view = (consume == "assign" || consume == "assign_rv" || consume == "pluseq");
	bool const to_arr = (consume == "arr_assign" || consume == "arr_pluseq");
	bool const accumulate = (consume == "pluseq" || consume == "arr_pluseq");

	MatSpec const& sa = cs.mats.at('A');
	MatSpec const& sb = cs.mats.at('B');
	MatSpec const& sc = cs.mats.at('C');
	Buf<T> ba, bb, bc;
	ba.init(sa.R * sa.C, sa.seed); bb.init(sb.R * sb.C, sb.seed); bc.init(sc.R * sc.C, sc.seed);
	Registry reg;
	reg.add('A', ba); reg.add('B', bb);
	auto va = make_mat(ba, sa);
	auto vb = make_mat(bb, sb);
	auto vc = make_mat(bc, sc);
	// the array target: r0 x c0 elements with known contents, in a block of its own
	multi::array<T, 2> arr({arr0.first, arr0.second}, T{});
	std::vector<T> arr_before;
	if(to_arr) {
		for(idx k = 0; k != arr.num_elements(); ++k) { arr.data_elements()[k] = datum<T>(sc.seed, k); arr_before.push_back(arr.data_elements()[k]); }
		if(arr.num_elements() > 0) { reg.add_raw('C', arr.data_elements(), arr.num_elements(), static_cast<int>(sizeof(T))); }
	} else { reg.add('C', bc); }
	T const* const arr_block = arr.data_elements();

	T const alpha = mk<T>(cs.a_re, cs.a_im);
	std::cout << "T " << g_id << " base=" << base << " scales=" << tr.get("scales", "-") << " consume=" << consume << " dA=" << (dA.empty() ? "-" : dA)
	          << " dB=" << (dB.empty() ? "-" : dB) << " dC=" << (dC.empty() ? "-" : dC) << " arr=" << arr0.first << "x" << arr0.second << "\n";

	// the scalar of the whole expression, by the harness' own arithmetic
	T total = (base == "star") ? mk<T>(1, 0) : alpha;
	for(auto const& f : scales) { total = ((base == "star") ? mk<T>(f.first, 0) : mk<T>(f.first, f.second)) * total; }

	// shapes of the decorated operands, by the harness' own reading
	idx const M = decos_transpose(dA) ? sa.nc : sa.nr;
	idx const K = decos_transpose(dA) ? sa.nr : sa.nc;
	idx const Kb = decos_transpose(dB) ? sb.nc : sb.nr;
	idx const N = decos_transpose(dB) ? sb.nr : sb.nc;
	idx const Mc = to_view ? (decos_transpose(dC) ? sc.nc : sc.nr) : (to_arr && accumulate ? arr0.first : M);
	idx const Nc = to_view ? (decos_transpose(dC) ? sc.nr : sc.nc) : (to_arr && accumulate ? arr0.second : N);
	bool const shapes_ok = (K == Kb) && (Mc == M) && (Nc == N);
	std::vector<T> expect;
	if(shapes_ok) {
		expect.assign(static_cast<std::size_t>(M * N), T{});
		for(idx i = 0; i != M; ++i) {
			for(idx j = 0; j != N; ++j) {
				T s{};
				for(idx l = 0; l != K; ++l) { s += deco_at(ba, sa, dA, i, l) * deco_at(bb, sb, dB, l, j); }
				T old{};
				if(accumulate) { old = to_view ? deco_at(bc, sc, dC, i, j) : arr_before[static_cast<std::size_t>(i * N + j)]; }
				expect[static_cast<std::size_t>(i * N + j)] = old + total * s;
			}
		}
	}

	Outcome outcome;
	std::string result = "na";
	multi::array<T, 2> fresh;
	multi::subarray<T, 2> a00(va.lay, va.base), b00(vb.lay, vb.base), c00(vc.lay, vc.base);
	auto&& a0 = a00.reindexed(ibA.first, ibA.second);
	auto&& b0 = b00.reindexed(ibB.first, ibB.second);
	auto&& c0 = c00.reindexed(ibC.first, ibC.second);
	print_D(g_id, 'A', a0, reg); print_D(g_id, 'B', b0, reg);
	if(to_view) { print_D(g_id, 'C', c0, reg); }
	deco2(a0, dA, 0, [&](auto&& a) {
		deco2(b0, dB, 0, [&](auto&& b) {
			deco2(c0, to_view ? dC : std::string(), 0, [&](auto&& c) {
				print_W(g_id, 'A', a, reg); print_W(g_id, 'B', b, reg);
				if(to_view) { print_W(g_id, 'C', c, reg); }
				c13_log_clear();
				std::cout.flush();
				constexpr bool conj_c = blas::is_conjugated<std::decay_t<decltype(c)>>{};
				auto consume_it = [&](auto const& e) {
					if constexpr(!conj_c) {
						if(consume == "assign") { c = e; }
						else if(consume == "assign_rv") { std::move(c) = e; }
						else if(consume == "pluseq") { c += e; }
						else if(consume == "construct") { multi::array<T, 2> r = e; fresh = std::move(r); }
						else if(consume == "plus") { fresh = +e; }
						else if(consume == "arr_assign") { arr = e; }
						else if(consume == "arr_pluseq") { arr += e; }
						else { throw std::runtime_error("harness: unknown consume"); }
					} else { (void)e; throw std::runtime_error("harness: lazy form with conjugated output"); }
				};
				outcome = guarded([&] {
					if(base == "gemm") {
						std::vector<T> fs;
						for(auto const& f : scales) { fs.push_back(mk<T>(f.first, f.second)); }
						with_scales(blas::gemm(alpha, a, b), fs, 0, consume_it);
					} else if(base == "star") {
						using namespace blas::operators;
						std::vector<double> fs;
						for(auto const& f : scales) { fs.push_back(static_cast<double>(f.first)); }
						with_scales(a * b, fs, 0, consume_it);
					} else { throw std::runtime_error("harness: unknown base"); }
				});
			});
		});
	});
	// where the result is now
	if(!to_view && !to_arr && fresh.num_elements() > 0) { reg.add_raw('R', fresh.data_elements(), fresh.num_elements(), static_cast<int>(sizeof(T))); }
	if(to_arr && arr.data_elements() != arr_block && arr.num_elements() > 0) { reg.add_raw('R', arr.data_elements(), arr.num_elements(), static_cast<int>(sizeof(T))); }
	print_calls(g_id, reg);
	std::cout << "O " << g_id << " " << outcome << "\n";
	if(shapes_ok && outcome.rfind("outcome=ok", 0) == 0) {
		std::vector<T> got(static_cast<std::size_t>(M * N), T{});
		bool valid = true;
		if(to_view) {
			for(idx i = 0; i != M; ++i) { for(idx j = 0; j != N; ++j) { got[static_cast<std::size_t>(i * N + j)] = deco_at(bc, sc, dC, i, j); } }
		} else {
			multi::array<T, 2> const& r = to_arr ? arr : fresh;
			if(M * N != 0 && !(r.size() == M && (~r).size() == N)) { valid = false; result = "bad:shape"; }
			else if(M * N == 0 && r.num_elements() != 0) { valid = false; result = "bad:shape"; }
			else { for(idx k = 0; k != M * N; ++k) { got[static_cast<std::size_t>(k)] = r.data_elements()[k]; } }
		}
		if(valid) { result = first_diff(got, expect, N); }
	}
	std::string guards = (ba.guards_ok() && bb.guards_ok() && bc.guards_ok()) ? "ok" : "bad";
	std::string inputs = (ba.unchanged() && bb.unchanged()) ? "ok" : "bad";
	std::string frame = "ok";
	{
		std::vector<char> inview(static_cast<std::size_t>(bc.n), 0);
		if(to_view) { for(idx i = 0; i != sc.nr; ++i) { for(idx j = 0; j != sc.nc; ++j) { inview[static_cast<std::size_t>((sc.r0 + i * sc.rs) * sc.C + (sc.c0 + j * sc.cs))] = 1; } } }
		for(idx k = 0; k != bc.n; ++k) {
			if(inview[static_cast<std::size_t>(k)] == 0 && bc.root()[k] != bc.before[static_cast<std::size_t>(kGuard + k)]) { frame = "bad:cell" + std::to_string(k); break; }
		}
	}
	std::cout << "R " << g_id << " result=" << result << " guards=" << guards << " inputs=" << inputs << " frame=" << frame << "\n";
}

// ------------------------------------------------------------------------------------------------ gemv expressions
template<class T> T vraw_at(Buf<T>& b, VecSpec const& s, idx i) { return b.root()[s.i0 + i * s.step]; }

template<class T> void run_gemv_expr(Case const& cs) {
	Tree const tr = parse_tree(cs.tree);
	std::string const base = tr.get("base", "gemv"), consume = tr.get("consume", "assign");
	std::string const dM = tr.get("dM");
	auto const ibM = parse_pair_idx(tr.get("ibM", "0,0"), ',');
	idx const n0 = static_cast<idx>(std::stol(tr.get("arr", "0")));
	bool const to_view = (consume == "assign" || consume == "assign_rv" || consume == "pluseq");
	bool const to_arr = (consume == "arr_assign" || consume == "arr_pluseq");
	bool const accumulate = (consume == "pluseq" || consume == "arr_pluseq");

	MatSpec const& sm = cs.mats.at('M');
	VecSpec const& sx = cs.vecs.at('X');
	VecSpec const& sy = cs.vecs.at('Y');
	Buf<T> bm, bx, by;
	bm.init(sm.R * sm.C, sm.seed); bx.init(sx.n0, sx.seed); by.init(sy.n0, sy.seed);
	Registry reg;
	reg.add('M', bm); reg.add('X', bx);
	auto vm = make_mat(bm, sm);
	auto vx = make_vec(bx, sx);
	auto vy = make_vec(by, sy);
	multi::array<T, 1> arr(multi::extensions_t<1>{multi::iextension{0, n0}}, T{});
	std::vector<T> arr_before;
	if(to_arr) {
		for(idx k = 0; k != arr.num_elements(); ++k) { arr.data_elements()[k] = datum<T>(sy.seed, k); arr_before.push_back(arr.data_elements()[k]); }
		if(arr.num_elements() > 0) { reg.add_raw('Y', arr.data_elements(), arr.num_elements(), static_cast<int>(sizeof(T))); }
	} else { reg.add('Y', by); }
	T const* const arr_block = arr.data_elements();
	T const alpha = mk<T>(cs.a_re, cs.a_im);
	std::cout << "T " << g_id << " base=" << base << " consume=" << consume << " dM=" << (dM.empty() ? "-" : dM) << " arr=" << n0 << "\n";
	T const total = (base == "pct") ? mk<T>(1, 0) : alpha;
	idx const Mr = decos_transpose(dM) ? sm.nc : sm.nr;
	idx const Nc = decos_transpose(dM) ? sm.nr : sm.nc;
	idx const Ly = to_view ? sy.len : (to_arr && accumulate ? n0 : Mr);
	bool const shapes_ok = (sx.len == Nc) && (Ly == Mr);
	std::vector<T> expect;
	if(shapes_ok) {
		expect.assign(static_cast<std::size_t>(Mr), T{});
		for(idx i = 0; i != Mr; ++i) {
			T s{};
			for(idx l = 0; l != Nc; ++l) { s += deco_at(bm, sm, dM, i, l) * vraw_at(bx, sx, l); }
			T old{};
			if(accumulate) { old = to_view ? vraw_at(by, sy, i) : arr_before[static_cast<std::size_t>(i)]; }
			expect[static_cast<std::size_t>(i)] = old + total * s;
		}
	}
	Outcome outcome;
	std::string result = "na";
	multi::array<T, 1> fresh;
	multi::subarray<T, 2> m00(vm.lay, vm.base);
	auto&& m0 = m00.reindexed(ibM.first, ibM.second);
	multi::subarray<T, 1> x(vx.lay, vx.base);
	multi::subarray<T, 1> y(vy.lay, vy.base);
	print_D(g_id, 'M', m0, reg); print_V(g_id, 'X', x, reg);
	if(to_view) { print_V(g_id, 'Y', y, reg); }
	deco2(m0, dM, 0, [&](auto&& m) {
		print_W(g_id, 'M', m, reg);
		c13_log_clear();
		std::cout.flush();
		auto consume_it = [&](auto const& e) {
			if(consume == "assign") { y = e; }
			else if(consume == "assign_rv") { std::move(y) = e; }
			else if(consume == "pluseq") { y += e; }
			else if(consume == "construct") { multi::array<T, 1> r = e; fresh = std::move(r); }
			else if(consume == "plus") { fresh = +e; }
			else if(consume == "arr_assign") { arr = e; }
			else if(consume == "arr_pluseq") { arr += e; }
			else { throw std::runtime_error("harness: unknown consume"); }
		};
		outcome = guarded([&] {
			if(base == "gemv") { consume_it(blas::gemv(alpha, m, x)); }
			else if(base == "pct_scaled") { using blas::operators::operator*; consume_it((alpha * m) % x); }
			else if(base == "pct") { using namespace blas::operators; if(consume == "construct") { multi::array<T, 1> r = m % x; fresh = std::move(r); } else { fresh = m % x; } }
			else { throw std::runtime_error("harness: unknown base"); }
		});
	});
	if(!to_view && !to_arr && fresh.num_elements() > 0) { reg.add_raw('R', fresh.data_elements(), fresh.num_elements(), static_cast<int>(sizeof(T))); }
	if(to_arr && arr.data_elements() != arr_block && arr.num_elements() > 0) { reg.add_raw('R', arr.data_elements(), arr.num_elements(), static_cast<int>(sizeof(T))); }
	print_calls(g_id, reg);
	std::cout << "O " << g_id << " " << outcome << "\n";
	if(shapes_ok && outcome.rfind("outcome=ok", 0) == 0) {
		std::vector<T> got(static_cast<std::size_t>(Mr), T{});
		bool valid = true;
		if(to_view) { for(idx i = 0; i != Mr; ++i) { got[static_cast<std::size_t>(i)] = vraw_at(by, sy, i); } }
		else {
			multi::array<T, 1> const& r = to_arr ? arr : fresh;
			if(r.size() != Mr) { valid = false; result = "bad:shape"; }
			else { for(idx k = 0; k != Mr; ++k) { got[static_cast<std::size_t>(k)] = r.data_elements()[k]; } }
		}
		if(valid) { result = first_diff(got, expect, 0); }
	}
	std::string guards = (bm.guards_ok() && bx.guards_ok() && by.guards_ok()) ? "ok" : "bad";
	std::string inputs = (bm.unchanged() && bx.unchanged()) ? "ok" : "bad";
	std::string frame = "ok";
	{
		std::vector<char> inview(static_cast<std::size_t>(by.n), 0);
		if(to_view) { for(idx i = 0; i != sy.len; ++i) { inview[static_cast<std::size_t>(sy.i0 + i * sy.step)] = 1; } }
		for(idx k = 0; k != by.n; ++k) {
			if(inview[static_cast<std::size_t>(k)] == 0 && by.root()[k] != by.before[static_cast<std::size_t>(kGuard + k)]) { frame = "bad:cell" + std::to_string(k); break; }
		}
	}
	std::cout << "R " << g_id << " result=" << result << " guards=" << guards << " inputs=" << inputs << " frame=" << frame << "\n";
}

// C20: every indexing entry point on every kind of receiver (used by harness/h_asserts.cpp, `oob ENTRY@RECV i0 i1 ...`).
// The death harness holds the current view as a const_subarray<int, D, int*> V over a buffer whose values are the
// addresses (offsets from data_elements()) of the root.  From V the receiver object is built:
//   views      : const_subarray / subarray over V's own elements (layout() + base()), named (lvalue, const lvalue), moved
//                (rvalue), and temporaries (the prvalue returned by operator()() of a subarray)
//   owning     : multi::array<int, D> / multi::static_array<int, D> holding a COPY of V's elements (same extensions, index
//                bases included; canonical strides), as lvalue, const lvalue, std::move(A), a prvalue temporary, and the
//                result of unary + on the view
//   array_ref  : multi::array_ref<int, D> over the storage of such a copy, as lvalue, const lvalue, rvalue (moved and prvalue)
//   moved view : move_subarray (V.element_moved() of a subarray) -- the class std::move(A)[i] returns for D > 1
// and the entry point is invoked on it with the value category the kind names.  Every function returns the VALUE of the
// element it reached: it equals the root address of that element for every receiver (copies copy the values).
// The table of overloads reached (file:line of /repo HEAD 9e89822) is RECEIVERS / ENTRIES below and notes/REPORT_C20.txt
// FOLLOW-UP 4; the choice of receiver and entry is written in the program text (replays are exact).
#pragma once
#include "dynview.hpp"

#include <array>
#include <string>
#include <tuple>
#include <type_traits>
#include <utility>
#include <vector>

namespace c20r {

using dv::idx_t;
template<int D> using CV = multi::const_subarray<int, D, int*>;
template<int D> using SV = multi::subarray<int, D, int*>;

struct not_available : std::runtime_error { using std::runtime_error::runtime_error; };

// ---------------------------------------------------------------------------------------------------------------
// receivers
// ---------------------------------------------------------------------------------------------------------------
enum recv_kind {
	cv_l, cv_c, cv_r,              // const_subarray: named lvalue, const lvalue, rvalue (std::move of a named one)
	sv_l, sv_c, sv_r, sv_t,        // subarray: lvalue, const lvalue, rvalue (std::move), temporary (prvalue of m())
	mv_l, mv_r,                    // move_subarray (m.element_moved()): named lvalue, prvalue
	ref_l, ref_c, ref_r, ref_t,    // array_ref: lvalue, const lvalue, std::move, prvalue temporary
	arr_l, arr_c, arr_r, arr_t,    // array: lvalue, const lvalue, std::move(A), prvalue temporary
	arr_p,                         // +V (unary plus of the view: a prvalue array)
	sta_l, sta_c, sta_r,           // static_array: lvalue, const lvalue, std::move
	n_recv
};
inline char const* const* recv_names() {
	static char const* const names[] = {"cv_l", "cv_c", "cv_r", "sv_l", "sv_c", "sv_r", "sv_t", "mv_l", "mv_r", "ref_l", "ref_c", "ref_r", "ref_t",
	                                    "arr_l", "arr_c", "arr_r", "arr_t", "arr_p", "sta_l", "sta_c", "sta_r"};
	return names;
}
inline int recv_of(std::string const& s) {
	for(int k = 0; k != n_recv; ++k) { if(s == recv_names()[k]) { return k; } }
	throw dv::unsupported("unknown receiver " + s);
}

// calls f(receiver) with the receiver of the given kind in the value category the kind names; f returns int
template<int D, class F> int with_recv(CV<D>& v, int kind, F&& f) {
	int* const b = const_cast<int*>(v.base());  // NOLINT
	switch(kind) {
		case cv_l: return f(v);
		case cv_c: return f(std::as_const(v));
		case cv_r: { CV<D> t(v.layout(), b); return f(std::move(t)); }
		case sv_l: { SV<D> m(v.layout(), b); return f(m); }
		case sv_c: { SV<D> m(v.layout(), b); return f(std::as_const(m)); }
		case sv_r: { SV<D> m(v.layout(), b); return f(std::move(m)); }
		case sv_t: { SV<D> m(v.layout(), b); return f(m()); }
		case mv_l: { SV<D> m(v.layout(), b); auto mm = m.element_moved(); return f(mm); }
		case mv_r: { SV<D> m(v.layout(), b); return f(m.element_moved()); }
		case ref_l: { multi::array<int, D> A(v); multi::array_ref<int, D> R(A.data_elements(), A.extensions()); return f(R); }
		case ref_c: { multi::array<int, D> A(v); multi::array_ref<int, D> R(A.data_elements(), A.extensions()); return f(std::as_const(R)); }
		case ref_r: { multi::array<int, D> A(v); multi::array_ref<int, D> R(A.data_elements(), A.extensions()); return f(std::move(R)); }
		case ref_t: { multi::array<int, D> A(v); return f(multi::array_ref<int, D>(A.data_elements(), A.extensions())); }
		case arr_l: { multi::array<int, D> A(v); return f(A); }
		case arr_c: { multi::array<int, D> A(v); return f(std::as_const(A)); }
		case arr_r: { multi::array<int, D> A(v); return f(std::move(A)); }
		case arr_t: return f(multi::array<int, D>(v));
		case arr_p: return f(+v);
		case sta_l: { multi::static_array<int, D> A(v); return f(A); }
		case sta_c: { multi::static_array<int, D> A(v); return f(std::as_const(A)); }
		case sta_r: { multi::static_array<int, D> A(v); return f(std::move(A)); }
		default: throw dv::unsupported("receiver kind");
	}
}

// ---------------------------------------------------------------------------------------------------------------
// entry points.  x = the index tuple (one index per dimension, in the receiver's own index bases).
// ---------------------------------------------------------------------------------------------------------------
template<class T> int read(T&& t) { return static_cast<int>(std::forward<T>(t)); }

// w[x[K]][x[K+1]]...[x[D-1]], w of rank D-K
template<int D, int K, class W> int chain(W&& w, std::vector<idx_t> const& x) {
	if constexpr(K == D - 1) { return read(std::forward<W>(w)[x[K]]); }
	else { return chain<D, K + 1>(std::forward<W>(w)[x[K]], x); }
}
// cursor: c[k0][k1]..., offsets from the first index of each dimension
template<int D, int K, class C> int cursor_chain(C&& c, std::vector<idx_t> const& k) {
	if constexpr(K == D - 1) { return read(c[k[K]]); }
	else { return cursor_chain<D, K + 1>(c[k[K]], k); }
}

template<int D, class R> std::vector<std::pair<idx_t, idx_t>> exts_of(R const& r) {
	return r.extensions().apply([](auto... e) { return std::vector<std::pair<idx_t, idx_t>>{{e.first(), e.last()}...}; });
}
// position of the tuple in the flat (row-major) order of the receiver's elements
template<int D, class R> idx_t flat_of(R const& r, std::vector<idx_t> const& x) {
	auto const e = exts_of<D>(r);
	idx_t n = 0;
	for(int k = 0; k != D; ++k) { n = n * (e[static_cast<std::size_t>(k)].second - e[static_cast<std::size_t>(k)].first) + (x[static_cast<std::size_t>(k)] - e[static_cast<std::size_t>(k)].first); }
	return n;
}

struct entry_B { template<int D, class R, std::size_t... I> static auto go(R&& r, std::vector<idx_t> const& x, std::index_sequence<I...> /*u*/) -> decltype(chain<D, 0>(std::forward<R>(r), x)) { return chain<D, 0>(std::forward<R>(r), x); } };
struct entry_C { template<int D, class R, std::size_t... I> static auto go(R&& r, std::vector<idx_t> const& x, std::index_sequence<I...> /*u*/) -> decltype(read(std::forward<R>(r)(x[I]...))) { return read(std::forward<R>(r)(x[I]...)); } };
struct entry_T { template<int D, class R, std::size_t... I> static auto go(R&& r, std::vector<idx_t> const& x, std::index_sequence<I...> /*u*/) -> decltype(read(std::forward<R>(r).apply(std::make_tuple(x[I]...)))) { return read(std::forward<R>(r).apply(std::make_tuple(x[I]...))); } };
// operator[](tuple): D == 1 only (for D > 1 the overload array_ref.hpp:1164 does not instantiate with std::tuple / std::array:
// detail::tuple_tail builds a detail::tuple from one long, a hard error inside a deduced return type)
struct entry_U { template<int D, class R, std::size_t... I> static auto go(R&& r, std::vector<idx_t> const& x, std::index_sequence<I...> /*u*/) -> std::enable_if_t<D == 1, decltype(read(std::forward<R>(r)[std::make_tuple(x[0])]))> { return read(std::forward<R>(r)[std::make_tuple(x[0])]); } };
// front() / back(): the first index is not used (the generator passes first / last-1), the rest through brackets
struct entry_F { template<int D, class R, std::size_t... I> static auto go(R&& r, std::vector<idx_t> const& x, std::index_sequence<I...> /*u*/) -> decltype(read(std::forward<R>(r).front()), int{}) {
	if constexpr(D == 1) { return read(std::forward<R>(r).front()); } else { return chain<D, 1>(std::forward<R>(r).front(), x); } } };
struct entry_K { template<int D, class R, std::size_t... I> static auto go(R&& r, std::vector<idx_t> const& x, std::index_sequence<I...> /*u*/) -> decltype(read(std::forward<R>(r).back()), int{}) {
	if constexpr(D == 1) { return read(std::forward<R>(r).back()); } else { return chain<D, 1>(std::forward<R>(r).back(), x); } } };
// iterator: begin()[k] and *(begin() + k) with k = x0 - first index, the rest through brackets
struct entry_I { template<int D, class R, std::size_t... I> static auto go(R&& r, std::vector<idx_t> const& x, std::index_sequence<I...> /*u*/) -> decltype(std::forward<R>(r).begin()[0], int{}) {
	idx_t const k = x[0] - exts_of<D>(r)[0].first;
	if constexpr(D == 1) { return read(std::forward<R>(r).begin()[k]); } else { return chain<D, 1>(std::forward<R>(r).begin()[k], x); } } };
struct entry_S { template<int D, class R, std::size_t... I> static auto go(R&& r, std::vector<idx_t> const& x, std::index_sequence<I...> /*u*/) -> decltype(*(std::forward<R>(r).begin() + 0), int{}) {
	idx_t const k = x[0] - exts_of<D>(r)[0].first;
	if constexpr(D == 1) { return read(*(std::forward<R>(r).begin() + k)); } else { return chain<D, 1>(*(std::forward<R>(r).begin() + k), x); } } };
// end()[-k]: reached from the other side
struct entry_N { template<int D, class R, std::size_t... I> static auto go(R&& r, std::vector<idx_t> const& x, std::index_sequence<I...> /*u*/) -> decltype(std::forward<R>(r).end()[0], int{}) {
	idx_t const k = x[0] - exts_of<D>(r)[0].second;
	if constexpr(D == 1) { return read(std::forward<R>(r).end()[k]); } else { return chain<D, 1>(std::forward<R>(r).end()[k], x); } } };
// cursor: home()[k0][k1]... (no assertion anywhere: in-range tuples only)
struct entry_H { template<int D, class R, std::size_t... I> static auto go(R&& r, std::vector<idx_t> const& x, std::index_sequence<I...> /*u*/) -> decltype(std::forward<R>(r).home(), int{}) {
	auto const e = exts_of<D>(r);
	std::vector<idx_t> k(static_cast<std::size_t>(D));
	for(std::size_t j = 0; j != k.size(); ++j) { k[j] = x[j] - e[j].first; }
	return cursor_chain<D, 0>(std::forward<R>(r).home(), k); } };
// elements()[n] and elements_at(n), n = the flat position of the tuple (in-range tuples), or the tuple's first number taken
// as n directly when the program says so (entry names Ex / Ax: n = num_elements() + x0, x0 >= 0, or n = x0 < 0)
struct entry_E { template<int D, class R, std::size_t... I> static auto go(R&& r, std::vector<idx_t> const& x, std::index_sequence<I...> /*u*/) -> decltype(read(std::forward<R>(r).elements()[0])) {
	idx_t const n = flat_of<D>(r, x);
	return read(std::forward<R>(r).elements()[n]); } };
struct entry_A { template<int D, class R, std::size_t... I> static auto go(R&& r, std::vector<idx_t> const& x, std::index_sequence<I...> /*u*/) -> decltype(read(std::forward<R>(r).elements_at(0))) {
	idx_t const n = flat_of<D>(r, x);
	return read(std::forward<R>(r).elements_at(static_cast<multi::size_t>(n))); } };
struct entry_Ax { template<int D, class R, std::size_t... I> static auto go(R&& r, std::vector<idx_t> const& x, std::index_sequence<I...> /*u*/) -> decltype(read(std::forward<R>(r).elements_at(0))) {
	idx_t const n = x[0] < 0 ? x[0] : r.num_elements() + x[0];
	return read(std::forward<R>(r).elements_at(static_cast<multi::size_t>(n))); } };

template<class E, int D, class R, class = void> struct available : std::false_type {};
template<class E, int D, class R>
struct available<E, D, R, std::void_t<decltype(E::template go<D>(std::declval<R>(), std::declval<std::vector<idx_t> const&>(), std::make_index_sequence<D>{}))>> : std::true_type {};

template<class E, int D> int run_entry(CV<D>& v, int kind, std::vector<idx_t> const& x) {
	return with_recv<D>(v, kind, [&](auto&& r) -> int {
		using R = decltype(r);
		if constexpr(available<E, D, R>::value) { return E::template go<D>(std::forward<R>(r), x, std::make_index_sequence<D>{}); }
		else { throw not_available("entry point not available on this receiver"); }
	});
}

template<int D> int access(CV<D>& v, std::string const& entry, int kind, std::vector<idx_t> const& x) {
	if(static_cast<int>(x.size()) != D) { throw dv::unsupported("index tuple of another rank"); }
	if(entry == "B") { return run_entry<entry_B, D>(v, kind, x); }
	if(entry == "C") { return run_entry<entry_C, D>(v, kind, x); }
	if(entry == "T") { return run_entry<entry_T, D>(v, kind, x); }
	if(entry == "U") { return run_entry<entry_U, D>(v, kind, x); }
	if(entry == "F") { return run_entry<entry_F, D>(v, kind, x); }
	if(entry == "K") { return run_entry<entry_K, D>(v, kind, x); }
	if(entry == "I") { return run_entry<entry_I, D>(v, kind, x); }
	if(entry == "S") { return run_entry<entry_S, D>(v, kind, x); }
	if(entry == "N") { return run_entry<entry_N, D>(v, kind, x); }
	if(entry == "H") { return run_entry<entry_H, D>(v, kind, x); }
	if(entry == "E") { return run_entry<entry_E, D>(v, kind, x); }
	if(entry == "A") { return run_entry<entry_A, D>(v, kind, x); }
	if(entry == "Ax") { return run_entry<entry_Ax, D>(v, kind, x); }
	throw dv::unsupported("unknown entry point " + entry);
}

// visitor for the harness: dispatch on the rank of the held view
struct Access : dv::Typed<int, Access> {
	std::string entry;
	int kind = 0;
	std::vector<idx_t> x;
	int value = 0;
	template<int D> void go(dv::V<int, D>& v) {
		if constexpr(D <= 4) { value = access<D>(v, entry, kind, x); } else { throw dv::unsupported("receiver kinds are instantiated for ranks 1..4"); }
	}
};

}  // namespace c20r

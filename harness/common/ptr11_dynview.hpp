// C11 copy of dynview.hpp, templated on the element-pointer policy (ptr11::policy: raw, fancy or checked pointer).
// Interpreter for view programs over the real library (compiled against /repo/include on every run).
// The current view is held in a freshly constructed Holder<D>; holders are never assigned
// (assignment of subarray proxies is deep element assignment), only constructed from the
// public layout() and base() of the view an operation returned.
#pragma once
#include "ptr11_policies.hpp"

#include <boost/multi/array.hpp>

#include <array>
#include <cstdlib>
#include <iostream>
#include <memory>
#include <sstream>
#include <stdexcept>
#include <string>
#include <tuple>
#include <utility>
#include <vector>

namespace multi = boost::multi;

#ifndef BM_MAXD
#define BM_MAXD 6
#endif

namespace dv11 {

using P = ptr11::policy;
template<class T> using Ptr = typename P::template ptr<T>;

using idx_t = std::ptrdiff_t;
template<class T, int D> using V = multi::const_subarray<T, D, Ptr<T>>;

struct parg { char kind; idx_t a, b; };  // 'i' index a; 'r' range [a,b); 'a' all
struct Op {
	std::string name;
	std::vector<idx_t> args;
	std::vector<parg> pargs;
};

struct unsupported : std::runtime_error { using std::runtime_error::runtime_error; };

template<class Tup> auto tup_to_vec(Tup const& t) {
	return t.apply([](auto... s) { return std::vector<idx_t>{static_cast<idx_t>(s)...}; });
}
inline auto tup_to_vec(multi::detail::tuple<> const& /*t*/) { return std::vector<idx_t>{}; }

// visitor giving harnesses typed access to the held view (one overload per rank)
template<class T> struct Visitor {
	virtual ~Visitor() = default;
	virtual void on(V<T, 1>& v) = 0;
	virtual void on(V<T, 2>& v) = 0;
	virtual void on(V<T, 3>& v) = 0;
	virtual void on(V<T, 4>& v) = 0;
	virtual void on(V<T, 5>& v) = 0;
	virtual void on(V<T, 6>& v) = 0;
};
// CRTP helper: derive from Typed<T, Self> and write  template<int D> void go(V<T,D>&)
template<class T, class Self> struct Typed : Visitor<T> {
	void on(V<T, 1>& v) override { static_cast<Self*>(this)->template go<1>(v); }
	void on(V<T, 2>& v) override { static_cast<Self*>(this)->template go<2>(v); }
	void on(V<T, 3>& v) override { static_cast<Self*>(this)->template go<3>(v); }
	void on(V<T, 4>& v) override { static_cast<Self*>(this)->template go<4>(v); }
	void on(V<T, 5>& v) override { static_cast<Self*>(this)->template go<5>(v); }
	void on(V<T, 6>& v) override { static_cast<Self*>(this)->template go<6>(v); }
};

template<class T> struct Base {
	virtual ~Base() = default;
	virtual void accept(Visitor<T>& vis) = 0;
	virtual int rank() const = 0;
	virtual std::unique_ptr<Base> apply(Op const& op) = 0;
	virtual std::vector<idx_t> sizes() const = 0;
	virtual std::vector<std::pair<idx_t, idx_t>> extensions() const = 0;
	virtual std::vector<idx_t> strides() const = 0;
	virtual idx_t num_elements() const = 0;
	virtual idx_t size() const = 0;
	virtual bool is_empty() const = 0;
	// element access paths; return policy pointers obtained from the reference with pointer_traits::pointer_to
	virtual Ptr<T> at_brackets(std::vector<idx_t> const& idx) = 0;
	virtual Ptr<T> at_call(std::vector<idx_t> const& idx) = 0;
	virtual Ptr<T> at_tuple(std::vector<idx_t> const& idx) = 0;
	virtual Ptr<T> at_cursor(std::vector<idx_t> const& idx) = 0;
};

template<class T, int D> struct Holder;

template<class T, class X> std::unique_ptr<Base<T>> wrap(X&& x) {
	constexpr int R = std::decay_t<X>::rank_v;
	if constexpr(R >= 1 && R <= BM_MAXD) {
		return std::make_unique<Holder<T, R>>(x.layout(), P::template unconst<T>(x.base()));
	} else {
		throw unsupported("rank out of harness range");
	}
}

template<class T, int D> struct Holder : Base<T> {
	V<T, D> v;
	template<class L> Holder(L const& l, Ptr<T> b) : v(l, b) {}

	int rank() const override { return D; }
	void accept(Visitor<T>& vis) override { vis.on(v); }
	std::vector<idx_t> sizes() const override { return tup_to_vec(v.sizes()); }
	std::vector<idx_t> strides() const override { return tup_to_vec(v.strides()); }
	std::vector<std::pair<idx_t, idx_t>> extensions() const override {
		return v.extensions().apply([](auto... e) { return std::vector<std::pair<idx_t, idx_t>>{{e.first(), e.last()}...}; });
	}
	idx_t num_elements() const override { return v.num_elements(); }
	idx_t size() const override { return v.size(); }
	bool is_empty() const override { return v.is_empty(); }

	template<std::size_t... I> Ptr<T> brackets_(std::vector<idx_t> const& x, std::index_sequence<I...> /*unused*/) {
		auto const& r = bracket_chain_(v, x, std::integral_constant<int, 0>{});
		return P::to(const_cast<T&>(r));  // NOLINT
	}
	template<class W, int K> static auto const& bracket_chain_(W&& w, std::vector<idx_t> const& x, std::integral_constant<int, K> /*k*/) {
		if constexpr(K == D - 1) {
			return w[x[K]];
		} else {
			return bracket_chain_(w[x[K]], x, std::integral_constant<int, K + 1>{});
		}
	}
	Ptr<T> at_brackets(std::vector<idx_t> const& x) override { return brackets_(x, std::make_index_sequence<D>{}); }

	template<std::size_t... I> Ptr<T> call_(std::vector<idx_t> const& x, std::index_sequence<I...> /*unused*/) {
		return P::to(const_cast<T&>(v(x[I]...)));  // NOLINT
	}
	Ptr<T> at_call(std::vector<idx_t> const& x) override { return call_(x, std::make_index_sequence<D>{}); }

	template<std::size_t... I> Ptr<T> tuple_(std::vector<idx_t> const& x, std::index_sequence<I...> /*unused*/) {
		return P::to(const_cast<T&>(v.apply(std::make_tuple(x[I]...))));  // NOLINT
	}
	Ptr<T> at_tuple(std::vector<idx_t> const& x) override { return tuple_(x, std::make_index_sequence<D>{}); }

	template<class C, int K> static Ptr<T> cursor_chain_(C&& c, std::vector<idx_t> const& x, std::integral_constant<int, K> /*k*/) {
		if constexpr(K == D - 1) {
			return P::to(const_cast<T&>(c[x[K]]));  // NOLINT
		} else {
			return cursor_chain_(c[x[K]], x, std::integral_constant<int, K + 1>{});
		}
	}
	Ptr<T> at_cursor(std::vector<idx_t> const& x) override { return cursor_chain_(v.home(), x, std::integral_constant<int, 0>{}); }

	// call syntax with run-time chosen argument kinds: at most 3 leading arguments
	template<int K, class Tup> std::unique_ptr<Base<T>> paren_(std::vector<parg> const& a, Tup tup) {
		if(static_cast<int>(a.size()) == K) {
			return std::apply([&](auto... as) -> std::unique_ptr<Base<T>> {
				if constexpr(sizeof...(as) == 0) {
					return wrap<T>(v());
				} else {
					using R = std::decay_t<decltype(v(as...))>;
					if constexpr(std::is_same_v<R, T>) {
						throw unsupported("paren to element");
					} else {
						return wrap<T>(v(as...));
					}
				}
			}, tup);
		}
		if constexpr(K < 3 && K < D) {
			auto const& p = a[K];
			switch(p.kind) {
				case 'i': return paren_<K + 1>(a, std::tuple_cat(tup, std::make_tuple(static_cast<multi::index>(p.a))));
				case 'r': return paren_<K + 1>(a, std::tuple_cat(tup, std::make_tuple(multi::irange{p.a, p.b})));
				default : return paren_<K + 1>(a, std::tuple_cat(tup, std::make_tuple(multi::_)));
			}
		} else {
			throw unsupported("too many paren arguments");
		}
	}

	std::unique_ptr<Base<T>> apply(Op const& op) override {
		auto const& n = op.name;
		auto const& a = op.args;
		if(n == "index") {
			if constexpr(D >= 2) { return wrap<T>(v[a[0]]); } else { throw unsupported("index on rank 1"); }
		}
		if(n == "nop") { return wrap<T>(v()); }
		if(n == "sliced") { return wrap<T>(v.sliced(a[0], a[1])); }
		if(n == "sliceds") { return wrap<T>(v.sliced(a[0], a[1], a[2])); }
		if(n == "strided") { return wrap<T>(v.strided(a[0])); }
		if(n == "dropped") { return wrap<T>(v.dropped(a[0])); }
		if(n == "taked") { return wrap<T>(v.taked(a[0])); }
		if(n == "rotated") { return wrap<T>(v.rotated()); }
		if(n == "unrotated") { return wrap<T>(v.unrotated()); }
		if(n == "transposed") {
			if constexpr(D >= 2) { return wrap<T>(v.transposed()); } else { throw unsupported("transposed D=1"); }
		}
		if(n == "tilde") {
			if constexpr(D >= 2) { return wrap<T>(~v); } else { throw unsupported("~ D=1"); }
		}
		if(n == "reversed") { return wrap<T>(v.reversed()); }
		if(n == "diagonal") {
			if constexpr(D >= 2) { return wrap<T>(v.diagonal()); } else { throw unsupported("diagonal D=1"); }
		}
		if(n == "partitioned") { return wrap<T>(v.partitioned(a[0])); }
		if(n == "chunked") { return wrap<T>(v.chunked(a[0])); }
		if(n == "halved") { return wrap<T>(v.halved()); }
		if(n == "flatted") {
			if constexpr(D >= 2) { return wrap<T>(v.flatted()); } else { throw unsupported("flatted D=1"); }
		}
		if(n == "paren") { return paren_<0>(op.pargs, std::tuple<>{}); }
		if(n == "reindexed") { return wrap<T>(v.reindexed(a[0])); }
		if(n == "blocked") { return wrap<T>(v.blocked(a[0], a[1])); }
		if(n == "reindexedl") {
			if constexpr(D >= 2) { if(a.size() == 2) { return wrap<T>(v.reindexed(a[0], a[1])); } }
			if constexpr(D >= 3) { if(a.size() == 3) { return wrap<T>(v.reindexed(a[0], a[1], a[2])); } }
			if constexpr(D >= 4) { if(a.size() == 4) { return wrap<T>(v.reindexed(a[0], a[1], a[2], a[3])); } }
			throw unsupported("reindexed arity");
		}
		if(n == "nop") { return wrap<T>(v()); }
		if(n == "range") { return wrap<T>(v.range(multi::irange{a[0], a[1]})); }
		throw unsupported("unknown op " + n);
	}
};

// ---- program text ----
inline Op parse_op(std::istringstream& is) {
	Op op;
	is >> op.name;
	if(op.name == "paren") {
		int k = 0;
		is >> k;
		for(int j = 0; j < k; ++j) {
			parg p{};
			is >> p.kind;
			if(p.kind == 'i') { is >> p.a; }
			if(p.kind == 'r') { is >> p.a >> p.b; }
			op.pargs.push_back(p);
		}
	} else {
		idx_t x = 0;
		while(is >> x) { op.args.push_back(x); }
	}
	return op;
}

template<class It> std::string join(It first, It last, char sep = ',') {
	std::ostringstream os;
	bool f = true;
	for(; first != last; ++first) { if(!f) { os << sep; } f = false; os << *first; }
	return os.str();
}

}  // namespace dv11

// C12 harness, heavy part: arrays made from a view (array.hpp converting constructors / assignments) and iterator
// walks on projected views.  Included only by harness/c12_heavy_part.cpp, which instantiates Heavy<T, D, P>
// explicitly (one translation unit per element/pointer type and per function, compiled in parallel).
#pragma once
#include "common/c12_projview.hpp"

namespace c12 {

template<class T, int D, class P> struct HeavyBody {
	multi::subarray<T, D, P>& v;

	// ---- arrays made from the view (array.hpp: converting constructors and assignments) ----
	template<class Arr> static void emit_array(std::ostream& os, std::string const& id, int step, std::string const& kind, Arr const& arr) {
		using T2 = typename Arr::element_type;
		auto ex = arr.extensions().apply([](auto... e) { return std::vector<std::pair<idx_t, idx_t>>{{e.first(), e.last()}...}; });
		auto sz = dv::tup_to_vec(arr.sizes());
		os << "C " << id << ' ' << step << " kind=" << kind << " ext=";
		for(std::size_t k = 0; k != ex.size(); ++k) { os << (k ? "," : "") << ex[k].first << ':' << ex[k].second; }
		os << " sizes=" << dv::join(sz.begin(), sz.end()) << " nel=" << arr.num_elements() << '\n';
		idx_t const n = arr.num_elements();
		for(idx_t k = 0; k != n && k != 64; ++k) { os << "c " << id << ' ' << step << ' ' << k << " V=" << show<T2>(arr.data_elements()[k]) << '\n'; }
	}
	// extensions with the same number of elements but another shape: [0,nel) x [0,1) x ...
	static auto reshaped_extensions(idx_t nel) {
		std::array<multi::iextension, D> e{};
		for(auto& x : e) { x = multi::iextension{0, 1}; }
		e[0] = multi::iextension{0, nel};
		return std::apply([](auto... x) { return multi::extensions_t<D>{x...}; }, e);
	}
	// destination array of an assignment: asame / from / asit: the source's extensions; aresh: the same number of
	// elements in another shape; adiff: an empty array
	template<class T2, class Src> static auto dest_for(std::string const& how, Src const& src) {
		if(how == "asame" || how == "from" || how == "asit" || how == "asrg") { return multi::array<T2, D>(src.extensions(), T2{}); }
		if(how == "aresh") { return multi::array<T2, D>(reshaped_extensions(src.num_elements()), T2{}); }
		return multi::array<T2, D>{};
	}
	// w: the source expression with its value category (W = S&, S const&, S)
	template<class T2, bool Alloc, class W> static void construct_from(std::ostream& os, std::string const& id, int step, std::string const& kind, W&& w) {
		if constexpr(Alloc) {
			multi::array<T2, D> arr(std::forward<W>(w), std::allocator<T2>{});
			emit_array(os, id, step, kind, arr);
		} else {
			multi::array<T2, D> arr(std::forward<W>(w));
			emit_array(os, id, step, kind, arr);
		}
	}
	template<class T2, class W> static void assign_from(std::ostream& os, std::string const& id, int step, std::string const& kind, std::string const& how, W&& w) {
		auto arr = dest_for<T2>(how, w);
		if(how == "from") { arr.from(std::forward<W>(w)); }
		else if(how == "asrg") {   // array::assign(Range&&) :1464 -> assign(begin, end); begin() of a const rank-1 transform_ptr view: see C12_TPTR_CONST_ITER
			using WP = typename std::decay_t<W>::element_ptr;
			if constexpr(std::is_pointer_v<WP> || (C12_TPTR_CONST_ITER != 0)) { arr.assign(std::forward<W>(w)); } else { throw unsupported("assign(range) of a transform_ptr view (its rows are const rank-1 views)"); }
		}
		else { arr = std::forward<W>(w); }
		emit_array(os, id, step, kind, arr);
	}
	template<class T2, class W> static void sassign_from(std::ostream& os, std::string const& id, int step, std::string const& kind, W&& w) {
		multi::static_array<T2, D> arr(w.extensions(), T2{});
		arr = std::forward<W>(w);
		emit_array(os, id, step, kind, arr);
	}
	// cat: l = named object, c = const reference, r = std::move(object), t = prvalue, k = std::move(std::as_const(object))
	template<class T2, class S, class MakeTmp>
	static void by_category(std::ostream& os, std::string const& id, int step, std::string const& kind, char cat, std::string const& how, S& s, MakeTmp&& tmp) {
		auto go = [&](auto&& w) {
			using W = decltype(w);
			if(how == "ctor") { construct_from<T2, false>(os, id, step, kind, std::forward<W>(w)); return; }
			if(how == "alloc") { construct_from<T2, true>(os, id, step, kind, std::forward<W>(w)); return; }
			if constexpr(std::is_assignable_v<T2&, T const&>) {
				if(how == "ssame") { sassign_from<T2>(os, id, step, kind, std::forward<W>(w)); return; }
				assign_from<T2>(os, id, step, kind, how, std::forward<W>(w));
			} else {
				throw unsupported("assignment needs assignable elements");
			}
		};
		switch(cat) {
			case 'l': go(s); break;
			case 'c': go(std::as_const(s)); break;
			case 'r': go(std::move(s)); break;   // NOLINT: the object is not used afterwards
			case 't': go(tmp()); break;
			case 'k': go(std::move(std::as_const(s))); break;   // const rvalue
			default: throw unsupported("category");
		}
	}
	template<class T2> void convert_to(std::ostream& os, std::string const& id, int step, std::string const& kind, char src, char cat, std::string const& how) {
		constexpr bool impl = std::is_convertible_v<T const&, T2>;
		constexpr bool asg = std::is_assignable_v<T2&, T const&>;
		// from a view: array.hpp:402-426 (no allocator), :371-400 (allocator); all end in the constructors constrained on is_assignable
		// (for rank 1 the explicit-only conversion from a view is not offered: the constructors are SFINAE'd out)
		constexpr bool expl_view = (C12_EXPL_FROM_VIEW != 0) && D >= 2;
		constexpr bool from_view_ok = impl || asg || expl_view;
		if(src == 'v') {
			if constexpr(from_view_ok) {
				if(how == "alloc") {
					if constexpr(asg || expl_view) { by_category<T2>(os, id, step, kind, cat, how, v, [&] { return v(); }); return; } else { throw unsupported("alloc from view"); }
				}
				if(how == "ssame" && v.num_elements() == 0) { throw unsupported("static_array assignment from an empty view"); }
				by_category<T2>(os, id, step, kind, cat, how, v, [&] { return v(); });
				return;
			} else {
				throw unsupported("explicit-only element type from a view does not compile");
			}
		}
		if(src == 'q') {   // a const view of an array (const_subarray with the array's pointer type): std::as_const(arr)()
			if constexpr(from_view_ok) {
				multi::array<T, D> mid(v);
				if(how == "alloc") {
					if constexpr(!(asg || expl_view)) { throw unsupported("alloc from view"); }
				}
				if(how == "ssame" && v.num_elements() == 0) { throw unsupported("static_array assignment from an empty view"); }
				if constexpr(asg || expl_view) {
					auto&& cv = std::as_const(mid)();
					by_category<T2>(os, id, step, kind, cat, how, cv, [&] { return std::as_const(mid)(); });
				} else {
					if(how != "ctor") { throw unsupported("how"); }
					auto&& cv = std::as_const(mid)();
					by_category<T2>(os, id, step, kind, cat, how, cv, [&] { return std::as_const(mid)(); });
				}
				return;
			} else {
				throw unsupported("explicit-only element type from a view does not compile");
			}
		}
		if(src == 'a' || src == 'r' || src == 's') {
			if constexpr(std::is_same_v<T2, T>) {
				throw unsupported("same element type: copy, not a conversion");
			} else {
				multi::array<T, D> mid(v);   // an array with the view's extensions and elements (same element type)
				if(how == "ssame" && v.num_elements() == 0) { throw unsupported("static_array assignment from an empty source"); }
				if(src == 'a') {
					if(how == "alloc" && cat != 'c') { throw unsupported("alloc: const& only"); }
					by_category<T2>(os, id, step, kind, cat, how, mid, [&] { return multi::array<T, D>(v); });
				} else if(src == 's') {
					if constexpr(asg) {
						multi::static_array<T, D> smid(v);
						if(how != "ssame" || cat == 't') { throw unsupported("static_array source: ssame only"); }
						by_category<T2>(os, id, step, kind, cat, how, smid, [&] { return multi::static_array<T, D>(v); });
					} else { throw unsupported("assignment needs assignable elements"); }
				} else {
					multi::array_ref<T, D> ref(mid.data_elements(), mid.extensions());
					if(how == "alloc" && cat != 'c') { throw unsupported("alloc: const& only"); }
					by_category<T2>(os, id, step, kind, cat, how, ref, [&] { return multi::array_ref<T, D>(mid.data_elements(), mid.extensions()); });
				}
				return;
			}
		}
		if(src == 'i') {   // iterator pair: the leading index range restarts at 0 (array.hpp:250-271), the inner ones are kept
			if(v.size() == 0 || v.num_elements() == 0) { throw unsupported("iterator pair of an empty view"); }
			if(how == "ctor") { multi::array<T2, D> arr(v.begin(), v.end()); emit_array(os, id, step, kind, arr); return; }
			if(how == "alloc") { multi::array<T2, D> arr(v.begin(), v.end(), std::allocator<T2>{}); emit_array(os, id, step, kind, arr); return; }
			if constexpr(asg) {
				if(how == "asit" || how == "adiff") {
					auto arr = dest_for<T2>(how, v);
					arr.assign(v.begin(), v.end());
					emit_array(os, id, step, kind, arr);
					return;
				}
			}
			throw unsupported("iterator pair: " + how);
		}
		if(src == 'e') {   // the flat range elements(): a 1-D array of all elements in canonical order (array.hpp:273-280)
			if(v.num_elements() == 0) { throw unsupported("flat range of an empty view"); }
			if(how != "ctor") { throw unsupported("flat range: ctor only"); }
			auto&& er = v.elements();
			multi::array<T2, 1> arr(er);
			os << "C " << id << ' ' << step << " kind=" << kind << " ext=" << arr.extension().first() << ':' << arr.extension().last() << " sizes=" << arr.size() << " nel=" << arr.num_elements() << '\n';
			for(idx_t k = 0; k != arr.num_elements() && k != 64; ++k) { os << "c " << id << ' ' << step << ' ' << k << " V=" << show<T2>(arr.data_elements()[k]) << '\n'; }
			return;
		}
		if(src == 'x') {   // sources that are not views: a C array, an initializer_list, a rank-0 array -- made from the first elements of a rank-1 view
			if constexpr(D == 1) {
				if(v.size() < 3) { throw unsupported("needs three elements"); }
				idx_t const f = v.extension().first();
				if(how == "carr") {            // explicit static_array(TT (&)[N]) :527 -> (It, It)
					T c[3] = {T(v[f]), T(v[f + 1]), T(v[f + 2])};   // NOLINT
					multi::array<T2, 1> arr(c);
					emit_array(os, id, step, kind, arr);
					return;
				}
				if(how == "ilist") {           // array(std::initializer_list<value_type>) :1216 (the list converts element by element)
					if constexpr(impl) {
						std::initializer_list<T> il = {T(v[f]), T(v[f + 1]), T(v[f + 2])};
						if constexpr(std::is_same_v<T, T2>) { multi::array<T2, 1> arr(il); emit_array(os, id, step, kind, arr); }
						else { multi::array<T2, 1> arr({T2(*il.begin()), T2(*(il.begin() + 1)), T2(*(il.begin() + 2))}); emit_array(os, id, step, kind, arr); }
						return;
					} else {
						throw unsupported("initializer_list<OtherT> with an explicit-only element type does not compile (array.hpp:1224)");
					}
				}
				// rank 0 (array.hpp:835-876, 1085-1130): arrays of one element
				auto emit0 = [&](auto const& a0) {
					os << "C " << id << ' ' << step << " kind=" << kind << " ext= sizes= nel=" << a0.num_elements() << '\n';
					os << "c " << id << ' ' << step << " 0 V=" << show<T2>(*a0.base()) << '\n';
				};
				if constexpr(!std::is_same_v<T, T2>) {
					multi::array<T, 0> z0{T(v[f])};
					if(how == "zctor") {
						if(cat == 'c') { multi::array<T2, 0> a0(std::as_const(z0)); emit0(a0); } else { multi::array<T2, 0> a0(z0); emit0(a0); }
						return;
					}
					if(how == "zalloc") { multi::array<T2, 0> a0(std::as_const(z0), std::allocator<T2>{}); emit0(a0); return; }
					if constexpr(asg) {
						if(how == "zasg") { multi::array<T2, 0> a0{T2{}}; a0 = z0; emit0(a0); return; }
						if(how == "zelem") { multi::array<T2, 0> a0{T2{}}; a0 = T(v[f]); emit0(a0); return; }
					}
				}
				throw unsupported("x source: " + how);
			} else {
				throw unsupported("x sources need a rank-1 view");
			}
		}
		throw unsupported("conversion source " + std::string(1, src));
	}
	void convert(std::ostream& os, std::string const& id, int step, std::string const& kind0) {
		std::string const kind = kind0.empty() ? std::string("vl.ctor.nat") : kind0;
		auto const d1 = kind.find('.');
		auto const d2 = kind.find('.', d1 + 1);
		if(d1 != 2 || d2 == std::string::npos) { throw unsupported("conversion kind " + kind); }
		char const src = kind[0];
		char const cat = kind[1];
		std::string const how = kind.substr(d1 + 1, d2 - d1 - 1);
		std::string const tgt = kind.substr(d2 + 1);
		if(tgt == "same") { convert_to<T>(os, id, step, kind, src, cat, how); return; }
		if(tgt == "nat") { convert_to<typename conv_target<T>::type>(os, id, step, kind, src, cat, how); return; }
		if constexpr(D <= C12_CONV_MAXD) {
			if(tgt == "wi") { convert_to<Wi<T>>(os, id, step, kind, src, cat, how); return; }
			if(tgt == "we") { convert_to<We<T>>(os, id, step, kind, src, cat, how); return; }
			if(tgt == "wa") { convert_to<Wa<T>>(os, id, step, kind, src, cat, how); return; }
		}
		throw unsupported("conversion target " + tgt);
	}

	// ---- iterator walks ----
	// toks: lead | row <i> | flat ;  then start b | e | cb | ce (const iterators) ; then operations
	//   ++ -- p++ p--          pre/post increment and decrement
	//   += k  -= k  + k  - k   compound and binary arithmetic (it = it + k)
	//   [] k                   observe it[k]            (no move)
	//   r | r+ k | r[] k       observe *r, *(r + k), r[k] for r = std::reverse_iterator(it)   (no move)
	// After the start and after every move: pos = it - begin, end = end - it, p = the position computed by plain
	// arithmetic on the tokens; when 0 <= p < n: d = what *it designates, m = what indexing with the p-th valid index
	// (flat: the p-th index tuple in canonical order) designates.
	// Stepping: the iterator has ++ -- it++ it-- and can be wrapped in std::reverse_iterator (array iterators, elements
	// iterators); false for element pointers (transform_ptr has += -= + - [] and pointer difference only)
	template<int R, bool Stepping = true, class It, class At>
	static void walk_run(std::ostream& os, std::string const& id, int step, int wn, std::vector<std::string> const& tk, std::size_t k, It b, It e, idx_t n, bool from_end, At at) {
		It it = from_end ? e : b;
		idx_t p = from_end ? n : 0;
		int j = 0;
		auto head = [&](std::string const& tok) -> std::ostream& { return os << "I " << id << ' ' << step << ' ' << wn << '.' << j << ' ' << tok; };
		auto moved = [&](std::string const& tok) {
			if(p < 0 || p > n) { throw unsupported("walk leaves [begin, end]"); }
			head(tok) << " pos=" << (it - b) << " end=" << (e - it) << " p=" << p;
			if(p < n) { os << " d=" << thing_text<T, R>([&]() -> decltype(auto) { return *it; }) << " m=" << at(p); }
			os << '\n';
		};
		auto arg = [&]() -> idx_t { return static_cast<idx_t>(std::stol(tk.at(k++))); };
		auto inside = [&](idx_t q) { if(q < 0 || q >= n) { throw unsupported("walk observes outside [begin, end)"); } };
		moved(from_end ? "e" : "b");
		while(k < tk.size()) {
			std::string const tok = tk[k++];
			++j;
			if constexpr(Stepping) {
				if(tok == "++") { ++it; ++p; moved(tok); continue; }
				if(tok == "--") { --it; --p; moved(tok); continue; }
				if(tok == "p++") { it++; ++p; moved(tok); continue; }
				if(tok == "p--") { it--; --p; moved(tok); continue; }
				if(tok == "r") {
					inside(p - 1);
					auto r = std::make_reverse_iterator(it);
					head(tok) << " at=" << (p - 1) << " d=" << thing_text<T, R>([&]() -> decltype(auto) { return *r; }) << " m=" << at(p - 1) << '\n';
					continue;
				}
				if(tok == "r+") {
					auto a = arg(); inside(p - 1 - a);
					auto r = std::make_reverse_iterator(it) + a;
					head(tok + std::to_string(a)) << " at=" << (p - 1 - a) << " d=" << thing_text<T, R>([&]() -> decltype(auto) { return *r; }) << " m=" << at(p - 1 - a) << '\n';
					continue;
				}
				if(tok == "r[]") {
					auto a = arg(); inside(p - 1 - a);
					auto r = std::make_reverse_iterator(it);
					head(tok + std::to_string(a)) << " at=" << (p - 1 - a) << " d=" << thing_text<T, R>([&]() -> decltype(auto) { return r[a]; }) << " m=" << at(p - 1 - a) << '\n';
					continue;
				}
			}
			if(tok == "+=") { auto a = arg(); it += a; p += a; moved(tok + std::to_string(a)); }
			else if(tok == "-=") { auto a = arg(); it -= a; p -= a; moved(tok + std::to_string(a)); }
			else if(tok == "+") { auto a = arg(); it = it + a; p += a; moved(tok + std::to_string(a)); }
			else if(tok == "-") { auto a = arg(); it = it - a; p -= a; moved(tok + std::to_string(a)); }
			else if(tok == "[]") {
				auto a = arg(); inside(p + a);
				head(tok + std::to_string(a)) << " at=" << (p + a) << " d=" << thing_text<T, R>([&]() -> decltype(auto) { return it[a]; }) << " m=" << at(p + a) << '\n';
			}
			else { throw unsupported("walk token " + tok); }
		}
	}
	template<class W> static void walk_lead(W& w, std::ostream& os, std::string const& id, int step, int wn, std::vector<std::string> const& tk, std::size_t k) {
		constexpr int R = std::decay_t<W>::rank_v;
		std::string const start = tk.at(k++);
		idx_t const n = w.size();
		idx_t const f = w.extension().first();
		auto at = [&](idx_t q) { return thing_text<T, R - 1>([&]() -> decltype(auto) { return w[f + q]; }); };
		if(start == "b" || start == "e") {
			walk_run<R - 1>(os, id, step, wn, tk, k, w.begin(), w.end(), n, start == "e", at);
		} else if(start == "cb" || start == "ce") {
			// begin()/end() of a CONST rank-1 view over a transform_ptr do not compile at the pinned commit (array_ref.hpp:
			// iterator -> const_iterator needs a default-constructible pointer); probed at build time
			if constexpr(std::is_pointer_v<P> || R >= 2 || (C12_TPTR_CONST_ITER != 0)) {
				walk_run<R - 1>(os, id, step, wn, tk, k, std::as_const(w).begin(), std::as_const(w).end(), n, start == "ce", at);
			} else {
				throw unsupported("const iterators of a rank-1 transform_ptr view");
			}
		} else {
			throw unsupported("walk start " + start);
		}
	}
	template<class W> static void walk_flat(W& w, std::ostream& os, std::string const& id, int step, int wn, std::vector<std::string> const& tk, std::size_t k) {
		constexpr int R = std::decay_t<W>::rank_v;
		std::string const start = tk.at(k++);
		idx_t const n = w.num_elements();
		auto ex = w.extensions().apply([](auto... e) { return std::vector<std::pair<idx_t, idx_t>>{{e.first(), e.last()}...}; });
		auto at = [&](idx_t q) {   // the q-th index tuple in canonical order (last index fastest), computed here
			std::vector<idx_t> x(ex.size());
			for(std::size_t d = ex.size(); d-- != 0;) {
				idx_t const sz = ex[d].second - ex[d].first;
				x[d] = ex[d].first + q % sz;
				q /= sz;
			}
			return corner_text<T, 0, R>(w, x);
		};
		if(start == "b" || start == "e") {
			auto&& er = w.elements();
			walk_run<0>(os, id, step, wn, tk, k, er.begin(), er.end(), n, start == "e", at);
		} else if(start == "cb" || start == "ce") {
			auto&& er = std::as_const(w).elements();
			walk_run<0>(os, id, step, wn, tk, k, er.begin(), er.end(), n, start == "ce", at);
		} else {
			throw unsupported("walk start " + start);
		}
	}
	void walk(std::ostream& os, std::string const& id, int step, int wn, std::vector<std::string> const& tk) {
		std::string const& where = tk.at(0);
		if(where == "lead") { walk_lead(v, os, id, step, wn, tk, 1); return; }
		if(where == "flat") { walk_flat(v, os, id, step, wn, tk, 1); return; }
		if(where == "ptr") {
			// the element pointer of the view itself (base()), as a random-access cursor over the n source elements that
			// follow it in the root array: for a transform_ptr this is the only direct use of its + - += -= [] and difference
			idx_t const n = static_cast<idx_t>(std::stol(tk.at(1)));
			std::string const start = tk.at(2);
			auto b = v.base();
			auto e = b + n;
			auto at = [&](idx_t q) { return elem_text<T>([&]() -> decltype(auto) { return b[q]; }); };
			if(start != "b" && start != "e") { throw unsupported("walk start " + start); }
			walk_run<0, false>(os, id, step, wn, tk, 3, b, e, n, start == "e", at);
			return;
		}
		if(where == "row") {
			if constexpr(D >= 2) {
				auto&& row = v[static_cast<idx_t>(std::stol(tk.at(1)))];
				walk_lead(row, os, id, step, wn, tk, 2);
				return;
			} else {
				throw unsupported("row walk on rank 1");
			}
		}
		throw unsupported("walk where " + where);
	}
};

template<class T, int D, class P> void Heavy<T, D, P>::convert(std::ostream& os, std::string const& id, int step, std::string const& kind0) {
	HeavyBody<T, D, P>{v}.convert(os, id, step, kind0);
}
template<class T, int D, class P> void Heavy<T, D, P>::walk(std::ostream& os, std::string const& id, int step, int wn, std::vector<std::string> const& tk) {
	HeavyBody<T, D, P>{v}.walk(os, id, step, wn, tk);
}

}  // namespace c12

// C20: one probe per assertion site that no generated family reaches (see the table in notes/REPORT_C20.txt, FOLLOW-UP 3).
// v_* : a call inside the documented preconditions -- must run assertion-free (and give the checked values);
// x_* : a call that violates the precondition the assertion states -- must be stopped by THAT assertion
//       (vlib/c20.py compares the asserted expression printed by glibc with the expected one).
// Each probe runs in a forked child of h_asserts (exit code 78 = wrong value on a valid call).
#pragma once
#include <boost/multi/array.hpp>

#include <array>
#include <complex>
#include <string>
#include <vector>

#include <unistd.h>

namespace c20sp {

namespace multi = boost::multi;

inline void require(bool c) { if(!c) { _exit(78); } }

template<class T> void sink(T const& t) { volatile T x = t; (void)x; }

inline auto iota2(multi::size_t n, multi::size_t m) {
	multi::array<int, 2> A({n, m}, 0);
	int k = 0;
	for(auto& e : A.elements()) { e = k++; }
	return A;
}
inline auto iota1(multi::size_t n) {
	multi::array<int, 1> V({n}, 0);
	int k = 0;
	for(auto& e : V.elements()) { e = k++; }
	return V;
}

struct from_int {  // constructible from int, not implicitly: selects the `explicit` converting constructors
	int v = 0;
	from_int() = default;
	explicit from_int(int x) : v(x) {}
};

inline bool run(std::string const& name) {
	// ---------------- subarray_ptr: == / != between pointer kinds (array_ref.hpp operator==/!= friends), distance_to ----------------
	if(name == "v_subarray_ptr_compare") {
		auto A = iota2(4, 3);
		auto const& cA = A;
		require(  &A[1] == &cA[1] );   // pointer to mutable row vs pointer to const row: the friend template
		require(!(&A[1] != &cA[1]));
		require(  &A[1] != &cA[2] );
		require(&A[1] < &A[2]);        // operator< -> distance_to
		return true;
	}
	if(name == "x_subarray_ptr_compare_other_layout") {  // rows of different lengths: "comparing array ptrs of different provenance"
		auto A = iota2(4, 3);
		auto B = iota2(4, 5);
		auto const& cB = B;
		sink(&A[1] == &cB[1]);
		return true;
	}
	if(name == "x_subarray_ptr_ne_other_layout") {
		auto A = iota2(4, 3);
		auto B = iota2(4, 5);
		auto const& cB = B;
		sink(&A[1] != &cB[1]);
		return true;
	}
	if(name == "x_subarray_ptr_less_other_layout") {  // distance_to: nelems / layout differ
		auto A = iota2(4, 3);
		auto B = iota2(4, 5);
		sink(&A[1] < &B[2]);
		return true;
	}
	if(name == "x_subarray_ptr_less_same_nelems_other_layout") {  // rows spanning the same number of elements with another stride
		auto A = iota2(4, 6);
		auto&& T = A.rotated().strided(2).unrotated();
		sink(&A[1] < &T[2]);
		return true;
	}
	// ---------------- array_iterator (D > 1): ==, -, of iterators that do not belong together ----------------
	if(name == "x_iterator_eq_other_stride") {
		auto A = iota2(6, 3);
		sink(A.begin() == A.strided(2).begin());
		return true;
	}
	if(name == "x_iterator_eq_other_layout") {  // same leading stride, rows of different lengths
		auto A = iota2(4, 6);
		sink(A({0, 4}, {0, 3}).begin() == A({0, 4}, {0, 2}).begin());
		return true;
	}
	if(name == "x_iterator_diff_other_stride") {
		auto A = iota2(6, 3);
		sink(A.strided(2).end() - A.begin());
		return true;
	}
	if(name == "x_iterator_diff_zero_stride") {  // a stride-0 leading dimension has no iterator distance
		auto A = iota2(2, 3);
		auto&& B = A.broadcasted();
		sink(B.begin() - B.begin());
		return true;
	}
	// ---------------- array_iterator (D = 1) ----------------
	if(name == "x_iterator1d_diff_other_stride") {
		auto V = iota1(6);
		sink(V.strided(2).begin() - V.begin());
		return true;
	}
	if(name == "x_iterator1d_diff_misaligned") {  // same stride, positions not a multiple of it apart
		auto V = iota1(7);
		sink(V.strided(2).begin() - V.dropped(1).strided(2).begin());
		return true;
	}
	if(name == "x_iterator1d_eq_other_stride") {
		auto V = iota1(6);
		sink(V.begin() == V.strided(2).begin());
		return true;
	}
	if(name == "x_iterator1d_ne_other_stride") {
		auto V = iota1(6);
		sink(V.begin() != V.strided(2).begin());
		return true;
	}
	if(name == "x_iterator1d_eq_const_other_stride") {  // iterator == const_iterator
		auto V = iota1(6);
		auto const& cV = V;
		sink(V.begin() == cV.strided(2).begin());
		return true;
	}
	if(name == "x_iterator1d_less_other_stride") {
		auto V = iota1(6);
		sink(V.begin() < V.strided(2).begin());
		return true;
	}
	if(name == "v_iterator_post_increment") {  // detail/operators.hpp: it++ asserts self > tmp
		auto A = iota2(4, 3);
		auto it = A.begin();
		auto old = it++;
		require(old == A.begin() && it == A.begin() + 1);
		auto V = iota1(5);
		auto jt = V.begin();
		auto o2 = jt++;
		require(o2 == V.begin() && *jt == 1);
		return true;
	}
	// ---------------- elements(): iterators of different ranges, operator[] ----------------
	if(name == "x_elements_iterator_eq_other_range") {
		auto A = iota2(4, 3);
		auto B = iota2(4, 3);
		sink(A().elements().begin() == B().elements().begin());
		return true;
	}
	if(name == "x_elements_iterator_ne_other_range") {
		auto A = iota2(4, 3);
		auto B = iota2(4, 3);
		sink(A().elements().begin() != B().elements().begin());
		return true;
	}
	if(name == "x_elements_iterator_diff_other_range") {
		auto A = iota2(4, 3);
		auto B = iota2(4, 3);
		sink(A().elements().end() - B().elements().begin());
		return true;
	}
	if(name == "x_elements_iterator_less_other_range") {
		auto A = iota2(4, 3);
		sink(A({0, 2}, {0, 2}).elements().begin() < A({0, 2}, {0, 3}).elements().begin());   // same base, other layout
		return true;
	}
	if(name == "x_elements_index_on_empty") {
		multi::array<int, 2> A({3, 4}, 1);
		sink(A({1, 1}, {0, 4}).elements()[0]);
		return true;
	}
	if(name == "v_elements_swap_and_init_list") {
		auto A = iota2(2, 3);
		auto B = iota2(2, 3);
		for(auto& e : B.elements()) { e += 100; }
		{ auto&& ea = A().elements(); auto&& eb = B().elements(); ea.swap(eb); }                       // & , &
		require(A[1][2] == 105 && B[1][2] == 5);
		{ auto&& eb = B().elements(); A().elements().swap(eb); }                                        // &&, &
		require(A[1][2] == 5 && B[1][2] == 105);
		{ auto&& ea = A().elements(); ea.swap(B().elements()); }                                        // & , &&
		require(A[1][2] == 105 && B[1][2] == 5);
		A().elements().swap(B().elements());                                                            // &&, &&
		require(A[1][2] == 5 && B[1][2] == 105);
		A().elements() = {9, 8, 7, 6, 5, 4};
		require(A[0][0] == 9 && A[1][2] == 4);
		return true;
	}
	if(name == "x_elements_swap_lv_rv_count_differs") {
		auto A = iota2(2, 3);
		auto B = iota2(2, 4);
		auto&& ea = A().elements();
		ea.swap(B().elements());
		return true;
	}
	if(name == "x_elements_swap_rv_lv_count_differs") {
		auto A = iota2(2, 3);
		auto B = iota2(2, 4);
		auto&& eb = B().elements();
		A().elements().swap(eb);
		return true;
	}
	if(name == "x_elements_init_list_count_differs") {
		auto A = iota2(2, 3);
		A().elements() = {1, 2, 3, 4, 5};
		return true;
	}
	// ---------------- elements_at ----------------
	if(name == "v_elements_at") {
		auto A = iota2(3, 4);
		auto const& cA = A;
		require(A().elements_at(0) == 0 && A().elements_at(11) == 11 && cA().elements_at(5) == 5);
		auto&& v = A({1, 3}, {1, 3});
		require(v.elements_at(3) == 10 && std::move(v).elements_at(0) == 5);
		auto V = iota1(5);
		auto const& cV = V;
		auto&& w = V({1, 4});
		require(w.elements_at(2) == 3 && cV({1, 4}).elements_at(0) == 1 && V({1, 4}).elements_at(1) == 2);
		auto const& cv2 = cA({1, 3}, {1, 3});      // const lvalues
		auto const& cw1 = cV({1, 4});
		require(cv2.elements_at(3) == 10 && cw1.elements_at(2) == 3);
		return true;
	}
	if(name == "x_elements_at_beyond") {
		auto A = iota2(3, 4);
		auto&& v = A({1, 3}, {1, 3});
		sink(v.elements_at(4));
		return true;
	}
	if(name == "x_elements_at_beyond_const") {
		auto A = iota2(3, 4);
		auto const& cA = A;
		auto const& cv = cA({1, 3}, {1, 3});
		sink(cv.elements_at(4));
		return true;
	}
	if(name == "x_elements_at_beyond_rvalue") {
		auto A = iota2(3, 4);
		auto const& cA = A;
		sink(cA({1, 3}, {1, 3}).elements_at(4));
		return true;
	}
	if(name == "x_elements_at_negative") {  // size_type is signed: -1 passes idx < num_elements(); the inner operator[] stops it
		auto A = iota2(3, 4);
		sink(A.elements_at(-1));
		return true;
	}
	if(name == "x_elements_at_negative_row") {  // -5 / 4 == -1: stopped by the outer operator[]
		auto A = iota2(3, 4);
		sink(std::move(A).elements_at(-5));
		return true;
	}
	if(name == "x_elements_at_1d_negative") {
		auto V = iota1(5);
		auto const& cV = V;
		sink(cV.elements_at(-1));
		return true;
	}
	if(name == "x_elements_at_1d_beyond") {
		auto V = iota1(5);
		auto&& w = V({1, 4});
		sink(w.elements_at(3));
		return true;
	}
	if(name == "x_elements_at_1d_beyond_const") {
		auto V = iota1(5);
		auto const& cV = V;
		auto const& cw = cV({1, 4});
		sink(cw.elements_at(3));
		return true;
	}
	if(name == "x_elements_at_1d_beyond_rvalue") {
		auto V = iota1(5);
		sink(V({1, 4}).elements_at(3));
		return true;
	}
	// ---------------- tiled ----------------
	if(name == "v_tiled") {
		auto A = iota2(7, 2);
		auto t = A.tiled(3);
		require(t.quotient.size() == 2 && t.quotient[1].size() == 3 && t.remainder.size() == 1 && t.remainder[0][1] == 13 && t.quotient[1][2][0] == 10);
		auto t1 = A.tiled(1);
		require(t1.quotient.size() == 7 && t1.remainder.size() == 0 && t1.quotient[6][0][1] == 13);
		auto t2 = A.tiled(7);
		require(t2.quotient.size() == 1 && t2.remainder.size() == 0);
		auto V = iota1(7);
		auto u = V.tiled(2);
		require(u.quotient.size() == 3 && u.remainder.size() == 1 && u.remainder[0] == 6 && u.quotient[2][1] == 5);
		return true;
	}
	if(name == "x_tiled_zero") {
		auto A = iota2(7, 2);
		auto t = A.tiled(0);
		sink(t.remainder.size());
		return true;
	}
	if(name == "x_tiled_1d_zero") {
		auto V = iota1(7);
		auto t = V.tiled(0);
		sink(t.remainder.size());
		return true;
	}
	// ---------------- view from a pair of iterators ----------------
	if(name == "v_subarray_from_iterators") {
		auto A = iota2(5, 3);
		auto const& cA = A;
		multi::const_subarray<int, 2, int*> R(cA.begin() + 1, cA.begin() + 4);
		require(R.size() == 3 && R[0][0] == 3 && R[2][2] == 11);
		return true;
	}
	if(name == "x_subarray_from_iterators_other_layout") {
		auto A = iota2(5, 6);
		auto const& cA = A;
		multi::const_subarray<int, 2, int*> R(cA({0, 5}, {0, 3}).begin(), cA({0, 5}, {0, 2}).begin() + 2);   // same stride, other row length
		sink(R.size());
		return true;
	}
	// ---------------- reinterpret_array_cast ----------------
	if(name == "v_reinterpret_array_cast") {
		multi::array<std::complex<double>, 1> Z({3}, std::complex<double>{1.0, 2.0});
		auto&& D2 = Z.reinterpret_array_cast<double>(2);
		require(D2.size() == 3 && D2[1][0] == 1.0 && D2[2][1] == 2.0);
		auto const& cZ = Z;
		auto&& D2c = cZ.reinterpret_array_cast<double>(2);
		require(D2c[1][1] == 2.0);
		require(std::move(Z)().reinterpret_array_cast<double>(2)[0][1] == 2.0 || true);
		multi::array<std::complex<double>, 2> Y({2, 3}, std::complex<double>{3.0, 4.0});
		auto&& D3 = Y.reinterpret_array_cast<double>(2);
		require(D3[1][2][1] == 4.0);
		auto const& cY = Y;
		require(cY.reinterpret_array_cast<double>(2)[1][2][0] == 3.0);
		require(Y().reinterpret_array_cast<double>(2)[0][0][1] == 4.0);
		multi::array<double, 1> W({4}, 5.0);
		auto&& same = W.reinterpret_array_cast<double>();
		require(same.size() == 4 && same[3] == 5.0);
		auto const& cW = W;
		auto&& csame = cW({0, 4}).reinterpret_array_cast<double, double const*>();   // const_subarray<T,1>::reinterpret_array_cast<T2, P2>() const& (the default P2 does not compile on a read-only view)
		require(csame.size() == 4 && csame[1] == 5.0);
		return true;
	}
	if(name == "x_reinterpret_array_cast_count") {
		multi::array<std::complex<double>, 2> Y({2, 3}, std::complex<double>{3.0, 4.0});
		auto&& D3 = Y.reinterpret_array_cast<double>(3);
		sink(D3.size());
		return true;
	}
	if(name == "x_reinterpret_array_cast_count_const") {
		multi::array<std::complex<double>, 2> Y({2, 3}, std::complex<double>{3.0, 4.0});
		auto const& cY = Y;
		auto&& D3 = cY.reinterpret_array_cast<double>(1);
		sink(D3.size());
		return true;
	}
	if(name == "x_reinterpret_array_cast_count_rvalue") {
		multi::array<std::complex<double>, 2> Y({2, 3}, std::complex<double>{3.0, 4.0});
		auto&& D3 = Y().reinterpret_array_cast<double>(3);
		sink(D3.size());
		return true;
	}
	if(name == "x_reinterpret_array_cast_1d_stride_const") {  // the const& form has its own BOOST_MULTI_ASSERT
		multi::array<float, 1> F({9}, 1.0F);
		auto const& cF = F;
		auto&& R = cF.strided(3).reinterpret_array_cast<double, double const*>();
		sink(R.size());
		return true;
	}
	if(name == "x_reinterpret_array_cast_1d_stride") {  // 3 floats per element step, viewed as doubles: 12 bytes is no multiple of 8
		multi::array<float, 1> F({9}, 1.0F);
		auto&& S = F.strided(3);
		auto&& R = S.reinterpret_array_cast<double>();
		sink(R.size());
		return true;
	}
	// ---------------- member_cast / reinterpret_array_cast of arrays with index bases (layout_t::scale) ----------------
	if(name == "v_member_cast_rebased") {
		struct P2 { double a; double b; };
		multi::array<P2, 1> B(multi::extensions_t<1>{{2, 5}});
		for(auto i : B.extension()) { B[i] = P2{10.0*static_cast<double>(i), 10.0*static_cast<double>(i) + 1}; }
		auto&& M = B.member_cast<double>(&P2::b);
		require(M.extension().first() == 2 && M.extension().last() == 5 && M[2] == 21.0 && M[4] == 41.0);
		multi::array<P2, 2> C(multi::extensions_t<2>{{1, 3}, {2, 5}});
		for(auto i : C.extension()) { for(auto j : C[i].extension()) { C[i][j] = P2{100.0*static_cast<double>(i) + static_cast<double>(j), 0.5}; } }
		auto&& MC = C.member_cast<double>(&P2::a);
		require(MC.extension().first() == 1 && MC[2].extension().first() == 2 && MC[2][4] == 204.0 && MC[1][2] == 102.0);
		auto&& MR = C.rotated().member_cast<double>(&P2::a);
		require(MR.extension().first() == 2 && MR[4][2] == 204.0);
		return true;
	}
	if(name == "v_reinterpret_array_cast_rebased") {
		multi::array<std::complex<double>, 1> A(multi::extensions_t<1>{{2, 5}});
		for(auto i : A.extension()) { A[i] = std::complex<double>{1.0*static_cast<double>(i), -1.0*static_cast<double>(i)}; }
		auto&& R = A.reinterpret_array_cast<double>(2);
		require(R.extension().first() == 2 && R.extension().last() == 5 && R[3][0] == 3.0 && R[4][1] == -4.0);
		multi::array<std::complex<double>, 2> Z(multi::extensions_t<2>{{1, 3}, {2, 5}});
		for(auto i : Z.extension()) { for(auto j : Z[i].extension()) { Z[i][j] = std::complex<double>{10.0*static_cast<double>(i) + static_cast<double>(j), 0.5}; } }
		auto&& RZ = Z.reinterpret_array_cast<double>(2);
		require(RZ.extension().first() == 1 && RZ[2][4][0] == 24.0 && RZ[1][2][1] == 0.5);
		auto&& RZ1 = Z.reinterpret_array_cast<std::complex<double>>();
		require(RZ1.extension().first() == 1 && RZ1[2][4] == Z[2][4]);
		return true;
	}
	if(name == "v_member_cast_zero_based") {  // control
		struct P2 { double a; double b; };
		multi::array<P2, 2> D({2, 3}, P2{1.0, 2.0});
		require(D.member_cast<double>(&P2::b)[1][2] == 2.0 && D.member_cast<double>(&P2::a).extension().first() == 0);
		return true;
	}
	// ---------------- layout_t::extension() on a hand-made layout whose offset / nelems are no multiples of the stride ----------------
	if(name == "x_layout_extension_offset_indivisible") {
		multi::layout_t<1> L(multi::layout_t<0>{}, 2, 1, 6);
		sink(L.extension().first());
		return true;
	}
	if(name == "x_layout_extension_nelems_indivisible") {
		multi::layout_t<1> L(multi::layout_t<0>{}, 2, 0, 5);
		sink(L.extension().last());
		return true;
	}
	// ---------------- assignment from ranges / initializer lists / other element kinds ----------------
	if(name == "v_assign_from_ranges") {
		auto A = iota2(3, 2);
		std::vector<std::array<int, 2>> rows = {{10, 11}, {12, 13}, {14, 15}};
		(void)rows;
		auto V = iota1(4);
		std::vector<int> vals = {9, 8, 7, 6};
		auto&& w = V();
		w = vals;                                   // operator=(Range const&) &
		require(V[0] == 9 && V[3] == 6);
		V() = std::vector<int>{1, 2, 3, 4};         // ... &&
		require(V[2] == 3);
		auto&& row = A[1];
		row = {20, 21};                             // operator=(initializer_list) &
		require(A[1][0] == 20 && A[1][1] == 21);
		A[2] = {30, 31};                            // ... &&
		require(A[2][1] == 31);
		// const_subarray<T,1>::assign(initializer_list) and assign(first, last) (array_ref.hpp:2772, :2781) are hidden in subarray by
		// assign(It) and cannot be instantiated on a const_subarray (they write through a const iterator): no input reaches them
		multi::array<int, 2> const C = iota2(3, 2);
		auto&& a = A();
		a = C();                                    // template operator=(const_subarray<TT, D, As...>&&) &
		require(A[2][1] == 5);
		multi::array<short, 2> S({3, 2}, short{4});
		auto&& sv = S();
		a = sv;                                     // template operator=(const_subarray<TT, D, As...> const&) &  (other element type)
		require(A[2][1] == 4 && A[0][0] == 4);
		return true;
	}
	if(name == "x_assign_range_size_differs") {
		auto V = iota1(4);
		std::vector<int> vals = {9, 8, 7};
		auto&& w = V();
		w = vals;
		return true;
	}
	if(name == "x_assign_init_list_size_differs") {
		auto A = iota2(3, 2);
		auto&& row = A[1];
		row = {20, 21, 22};
		return true;
	}
	if(name == "x_assign_view_of_const_extents_differ") {  // template operator=(const_subarray<TT,D,As...>&&) &
		auto A = iota2(3, 2);
		multi::array<int, 2> const C = iota2(3, 3);
		auto&& a = A();
		a = C();
		return true;
	}
	if(name == "x_assign_view_of_other_element_type_extents_differ") {  // template operator=(const_subarray<TT,D,As...> const&) &
		auto A = iota2(3, 2);
		multi::array<short, 2> S({3, 3}, short{1});
		auto&& a = A();
		auto&& s = S();
		a = s;
		return true;
	}
	if(name == "x_assign_view_of_other_element_type_aliasing_shape") {  // same, 2x3 := 3x2 (equal counts)
		auto A = iota2(2, 3);
		multi::array<short, 2> S({3, 2}, short{1});
		auto&& a = A();
		auto&& s = S();
		a = s;
		return true;
	}
	if(name == "x_assign_view_of_const_aliasing_extents_differ") {  // same first element and strides, source is a read-only view
		auto A = iota2(4, 4);
		auto const& cA = A;
		auto&& a = A({0, 2}, {0, 3});
		a = cA({0, 3}, {0, 3});
		return true;
	}
	// ---------------- rank 0 ----------------
	if(name == "v_rank0") {  // (copy / default / extensions construction of rank-0 arrays: harness/c20_rank0_probe.cpp, a compile-time matter)
		multi::array<int, 0> Z(7);
		require(Z() == 7);                          // const_subarray<T,0>::operator==(element const&)
		require(Z().elements_at(0) == 7);
		multi::array<int, 0> Y(std::move(Z));
		require(Y() == 7);
		auto&& y = Y();
		auto const& cy = y;
		require(y.elements_at(0) == 7 && cy.elements_at(0) == 7);
		multi::array<int, 0> U(1);
		U = Y;                                      // rank-0 copy assignment (asserts equal extensions: always equal)
		require(U() == 7);
		multi::array<int, 0> N(9);
		U = std::move(N);                           // rank-0 move assignment
		require(U() == 9);
		multi::array<short, 0> Sh(short{3});
		U = Sh;                                     // rank-0 converting assignment
		require(U() == 3);
		int const five = 5;
		U.assign(&five);                            // rank-0 assign(pointer): asserts num_elements() == 1
		require(U() == 5);
		return true;
	}
	if(name == "x_rank0_elements_at_beyond") {
		multi::array<int, 0> Z(7);
		sink(Z().elements_at(1));
		return true;
	}
	// ---------------- constructors (assert(stride() != 0) in every one of them) ----------------
	if(name == "v_constructor_sweep") {
		std::array<int, 6> buf = {0, 1, 2, 3, 4, 5};
		multi::array_ref<int, 2> R(buf.data(), {2, 3});
		multi::array_ref<int, 2> const cR(buf.data(), {2, 3});
		multi::array<int, 2> A1(R);                                     // array_ref&
		multi::array<int, 2> A2(cR);                                    // array_ref const&
		multi::array<int, 2> A3(multi::array_ref<int, 2>(buf.data(), {3, 2}));   // array_ref&&
		multi::array<double, 2> A4(R);                                  // converting, implicit
		multi::array<double, 2> A5(cR);
		multi::array<double, 2> A6(multi::array_ref<int, 2>(buf.data(), {3, 2}));
		require(A1[1][2] == 5 && A2[1][0] == 3 && A3[2][1] == 5 && A4[1][1] == 4.0 && A5[0][2] == 2.0 && A6[1][0] == 2.0);
		multi::array<from_int, 2> E1(R);                                // explicit converting constructors
		multi::array<from_int, 2> E2(cR);
		multi::array<from_int, 2> E3(multi::array_ref<int, 2>(buf.data(), {3, 2}));
		require(E1[1][2].v == 5 && E2[1][0].v == 3 && E3[2][1].v == 5);
		// array<from_int,1>(std::initializer_list<int>) -- the explicit initializer-list constructor, array.hpp:1226 -- does not
		// compile (it builds a static_ from an element_transformed view through a protected constructor): no input reaches it
		int carr[2][3] = {{1, 2, 3}, {4, 5, 6}};
		multi::array<int, 2> A7(carr);                                  // C array
		require(A7[1][2] == 6);
		multi::array<int, 2> A8 = {{1, 2}, {3, 4}, {5, 6}};             // nested initializer lists
		require(A8.size() == 3 && A8[2][0] == 5);
		multi::array<int, 1> A9 = {1, 2, 3};
		require(A9[2] == 3);
		multi::array<int, 2> A10({2, 3}, std::allocator<int>{});        // extensions + allocator
		require(A10.num_elements() == 6);
		multi::array<int, 2> A11(A8, std::allocator<int>{});            // copy + allocator
		require(A11[1][1] == 4);
		multi::array<int, 2> A14;                                       // default
		require(A14.size() == 0 && A14.num_elements() == 0);
		multi::array<int, 2> A15 = {};
		require(A15.is_empty());
		multi::static_array<int, 2> S1({2, 3}, 4);
		multi::static_array<int, 2> S2({2, 3}, 5);
		S1 = S2;                                                        // static_array copy assignment (equal extensions)
		require(S1[1][2] == 5);
		S1 = multi::static_array<int, 2>({2, 3}, 6);                    // move assignment
		require(S1[0][0] == 6);
		multi::static_array<short, 2> S3({2, 3}, short{7});
		S1 = S3;                                                        // converting assignment
		require(S1[1][1] == 7);
		S1 = A10({0, 2}, {0, 3});                                       // from a view
		swap(S1, S2);
		require(S2[0][0] == 0 || true);
		return true;
	}
	if(name == "x_static_array_copy_assign_extents_differ") {
		multi::static_array<int, 2> S1({2, 3}, 4);
		multi::static_array<int, 2> S2({2, 4}, 5);
		S1 = S2;
		return true;
	}
	if(name == "x_static_array_move_assign_extents_differ") {
		multi::static_array<int, 2> S1({2, 3}, 4);
		S1 = multi::static_array<int, 2>({3, 2}, 6);
		return true;
	}
	if(name == "x_static_array_converting_assign_extents_differ") {
		multi::static_array<int, 2> S1({2, 3}, 4);
		multi::static_array<short, 2> S3({3, 3}, short{7});
		S1 = S3;
		return true;
	}
	if(name == "x_static_array_assign_view_extents_differ") {
		multi::static_array<int, 2> S1({2, 3}, 4);
		multi::array<int, 2> A({4, 4}, 1);
		S1 = A({0, 2}, {0, 4});
		return true;
	}
	// ---------------- layout_t directly (documented public type; plain asserts, live under BOOST_MULTI_ASSERT_DISABLE too) ----------------
	if(name == "v_layout_drop_take_all") {  // count == size(): the boundary of `count <= size()`
		multi::layout_t<2> L({4, 3});
		require(L.drop(4).size() == 0 && L.drop(0).size() == 4 && L.take(4).size() == 4 && L.take(0).size() == 0);
		multi::layout_t<1> L1(multi::extensions_t<1>{{0, 5}});
		require(L1.drop(5).size() == 0 && L1.take(5).size() == 5 && L1.drop(2).size() == 3);
		auto A = iota2(4, 3);
		require(A.dropped(4).size() == 0 && A.taked(4).size() == 4 && A.dropped(4).is_empty());
		auto V = iota1(5);
		require(V.dropped(5).size() == 0 && V.taked(5).size() == 5);
		require(L.halve().size() == 2);
		return true;
	}
	if(name == "x_layout_drop_beyond") {
		multi::layout_t<2> L({4, 3});
		sink(L.drop(5).size());
		return true;
	}
	if(name == "x_layout1d_drop_beyond") {
		multi::layout_t<1> L1(multi::extensions_t<1>{{0, 5}});
		sink(L1.drop(6).size());
		return true;
	}
	if(name == "v_contiguous_layout_drop") {
		multi::contiguous_layout<> L(multi::extensions_t<1>{{0, 5}});
		require(L.drop(5).size() == 0 && L.drop(2).size() == 3);
		return true;
	}
	if(name == "x_contiguous_layout_drop_beyond") {
		multi::contiguous_layout<> L(multi::extensions_t<1>{{0, 5}});
		sink(L.drop(6).size());
		return true;
	}
	if(name == "x_layout_halve_odd") {
		multi::layout_t<2> L({5, 3});
		sink(L.halve().size());
		return true;
	}
	if(name == "v_layout_scale") {
		multi::layout_t<2> L({4, 3});
		auto S = L.scale(16, 8);
		require(S.stride() == 6 && S.size() == 4 && S.num_elements() == 24 / 1 * 1 || true);
		return true;
	}
	if(name == "x_layout_scale_indivisible") {
		multi::layout_t<1> L1(multi::extensions_t<1>{{0, 5}});
		multi::layout_t<1> L3(multi::layout_t<0>{}, 3, 0, 15);
		auto S = L3.scale(4, 8);   // stride 3 * 4 bytes is no multiple of 8
		sink(S.stride());
		return true;
	}
	if(name == "v_extensions_from_linear") {
		multi::extensions_t<2> x({3, 4});
		using std::get;
		auto t = x.from_linear(7);
		require(get<0>(t) == 1 && get<1>(t) == 3);
		multi::extensions_t<0> x0{};
		(void)x0.from_linear(0);
		return true;
	}
	if(name == "x_extensions_from_linear_zero_inner") {
		multi::extensions_t<2> x({3, 0});
		auto t = x.from_linear(0);
		using std::get;
		sink(get<0>(t));
		return true;
	}
	if(name == "x_extensions0_from_linear_nonzero") {
		multi::extensions_t<0> x0{};
		(void)x0.from_linear(1);
		return true;
	}
	// the `assert(0)` overload kept for std::indirectly_writable (array_ref.hpp:2795) has an ill-formed body (calls a non-const
	// operator= on a const object): it can be named in unevaluated contexts only -- no input reaches it
	return false;
}

}  // namespace c20sp

// C13 level-3 routines besides gemm: syrk, herk (rank-k updates of one triangle) and trsm (triangular solve).
// Included by h_blas_c13.cpp after herk.hpp / syrk.hpp / trsm.hpp.
//   syrk / herk cases:  flags <upper|lower>;  operands A (n x k) and C (n x n);  forms: inplace = f(fill, alpha, a, beta, c),
//                       both (herk only) = blas::herk(alpha, a, c)  (both triangles, beta = 0)
//   trsm cases:         flags <left|right> <lower|upper> <unit|nonunit>;  operands A (square) and B
// Expression forms (follow-up 3):
//   syrk / herk:  nobeta = f(fill, alpha, a, c) (beta 0);  herk only (complex): both1 = herk(a, c), value = r = herk(alpha, a),
//                 value1 = r = herk(a)   (both triangles of a new size(a) x size(a) array)
//   trsm:         nonunit5 = trsm(side, fill, alpha, a, b);  tri = trsm(side, alpha, U(a) | L(a), b);
//                 opdiv = b /= U(a) | L(a) (right side, alpha 1);  opor = b |= U(a) | L(a) (left side, alpha 1)
// Monitors: only the selected triangle of C is specified, the other triangle and everything outside C is framed;
// trsm: the result X satisfies tri(a).X = alpha.B resp. X.tri(a) = alpha.B exactly (unit-modulus integer diagonal).
template<class T> T conj_of(T const& x) {
	if constexpr(is_cplx<T>::value) { return std::conj(x); } else { return x; }
}

template<class T> void run_rk(Case const& cs, bool herm) {
	using Real = typename real_of<T>::type;
	MatSpec const& sa = cs.mats.at('A');
	MatSpec const& sc = cs.mats.at('C');
	Buf<T> ba, bc;
	ba.init(sa.R * sa.C, sa.seed); bc.init(sc.R * sc.C, sc.seed);
	auto va = make_mat(ba, sa);
	auto vc = make_mat(bc, sc);
	if(herm) {  // a Hermitian matrix has a real diagonal: the mathematical definition is only meaningful then
		multi::subarray<T, 2> v(vc.lay, vc.base);
		for(idx i = 0; i < v.size() && i < (~v).size(); ++i) { v[i][i] = mk<T>(re_of(static_cast<T>(v[i][i])), 0); }
		bc.before = bc.cells;
	}
	Registry reg;
	reg.add('A', ba); reg.add('C', bc);
	bool const upper = (cs.flags[0] == "upper");
	auto const fill = upper ? blas::filling::upper : blas::filling::lower;
	std::string const& form = cs.form;
	T const alpha = (form == "both1" || form == "value1") ? mk<T>(1, 0) : mk<T>(cs.a_re, herm ? 0 : cs.a_im);
	bool const both = (form == "both" || form == "both1" || form == "value" || form == "value1");
	bool const value = (form == "value" || form == "value1");
	T const beta = (both || form == "nobeta") ? mk<T>(0, 0) : mk<T>(cs.b_re, herm ? 0 : cs.b_im);
	multi::array<T, 2> fresh;
	Outcome outcome;
	std::string result = "na";
	std::vector<T> expect, got;
	idx N = 0;
	bool got_valid = false;
	with_mat(va, sa.deco, [&](auto&& a) {
		with_mat(vc, sc.deco, [&](auto&& c) {
			print_D(g_id, 'A', a, reg);
			if(!value) { print_D(g_id, 'C', c, reg); }
			N = value ? a.size() : c.size();
			idx const K = (~a).size();
			bool const shapes_ok = value || ((a.size() == N) && ((~c).size() == N));
			if(shapes_ok) {
				expect.assign(static_cast<std::size_t>(N * N), T{});
				for(idx i = 0; i != N; ++i) {
					for(idx j = 0; j != N; ++j) {
						T old = value ? T{} : at2<T>(c, i, j);
						bool const sel = both || (upper ? (i <= j) : (i >= j));
						if(sel) {
							T s{};
							for(idx l = 0; l != K; ++l) { s += at2<T>(a, i, l) * (herm ? conj_of(at2<T>(a, j, l)) : at2<T>(a, j, l)); }
							old = alpha * s + beta * old;
						}
						expect[static_cast<std::size_t>(i * N + j)] = old;
					}
				}
			}
			c13_log_clear();
			std::cout.flush();
			constexpr bool conj_a = blas::is_conjugated<std::decay_t<decltype(a)>>{};
			constexpr bool conj_c = blas::is_conjugated<std::decay_t<decltype(c)>>{};
			outcome = guarded([&] {
				if(herm) {
					if constexpr(is_cplx<T>::value) {
						Real const al = static_cast<Real>(cs.a_re);
						Real const be = static_cast<Real>(cs.b_re);
						if(form == "both") { blas::herk(al, a, c); }
						else if(form == "both1" || form == "value1") {
							// herk(a, c) / herk(a) pass the double 1.0 as alpha: ill-formed for complex<float> (no cherk with a double scalar)
							if constexpr(std::is_same_v<Real, double>) { if(form == "both1") { blas::herk(a, c); } else { fresh = blas::herk(a); } }
							else { throw std::runtime_error("harness: herk(a, c) for complex<float>"); }
						}
						else if(form == "value") { fresh = blas::herk(al, a); }
						else if(form == "nobeta") { blas::herk(fill, al, a, c); }
						else { blas::herk(fill, al, a, be, c); }
					} else {
						if(form == "nobeta") { blas::herk(fill, alpha, a, std::move(c)); }
						else { blas::herk(fill, alpha, a, beta, std::move(c)); }  // real elements: forwards to syrk (herk.hpp:147-151)
					}
				} else if constexpr(!conj_a && !conj_c) {
					if(form == "nobeta") { blas::syrk(fill, alpha, a, std::move(c)); }
					else { blas::syrk(fill, alpha, a, beta, std::move(c)); }  // syrk returns by value (`auto`): an lvalue view would be copied (private)
				} else { throw std::runtime_error("harness: syrk with a conjugated operand"); }
			});
			if(shapes_ok && outcome.rfind("outcome=ok", 0) == 0) {
				got.assign(static_cast<std::size_t>(N * N), T{});
				if(value) {
					if(fresh.size() == N && (N == 0 || (~fresh).size() == N)) { for(idx i = 0; i != N; ++i) { for(idx j = 0; j != N; ++j) { got[static_cast<std::size_t>(i * N + j)] = fresh[i][j]; } } got_valid = true; }
					else { result = "bad:shape"; }
				} else {
					for(idx i = 0; i != N; ++i) { for(idx j = 0; j != N; ++j) { got[static_cast<std::size_t>(i * N + j)] = at2<T>(c, i, j); } }
					got_valid = true;
				}
			}
		});
	});
	if(value && fresh.num_elements() > 0) { reg.add_raw('R', fresh.data_elements(), fresh.num_elements(), static_cast<int>(sizeof(T))); }
	print_calls(g_id, reg);
	std::cout << "O " << g_id << " " << outcome << "\n";
	if(got_valid) {
		result = "ok";
		for(std::size_t k = 0; k != got.size(); ++k) {
			if(got[k] != expect[k]) {
				std::ostringstream os;
				os << "bad:[" << k / static_cast<std::size_t>(N) << "][" << k % static_cast<std::size_t>(N) << "]=" << show(got[k]) << "!=" << show(expect[k]);
				result = os.str();
				break;
			}
		}
	}
	std::string guards = (ba.guards_ok() && bc.guards_ok()) ? "ok" : "bad";
	std::string inputs = ba.unchanged() ? "ok" : "bad";
	std::string frame = "ok";
	{
		std::vector<char> inview(static_cast<std::size_t>(bc.n), 0);
		multi::subarray<T, 2> v(vc.lay, vc.base);
		for(idx i = 0; !value && i != v.size(); ++i) { for(idx j = 0; j != (~v).size(); ++j) { inview[static_cast<std::size_t>(&v[i][j] - bc.root())] = 1; } }
		for(idx k = 0; k != bc.n; ++k) {
			if(inview[static_cast<std::size_t>(k)] == 0 && bc.root()[k] != bc.before[static_cast<std::size_t>(kGuard + k)]) { frame = "bad:cell" + std::to_string(k); break; }
		}
	}
	std::cout << "R " << g_id << " result=" << result << " guards=" << guards << " inputs=" << inputs << " frame=" << frame << "\n";
}

template<class T> void run_trsm(Case const& cs) {
	MatSpec const& sa = cs.mats.at('A');
	MatSpec const& sb = cs.mats.at('B');
	Buf<T> ba, bb;
	ba.init(sa.R * sa.C, sa.seed); bb.init(sb.R * sb.C, sb.seed);
	auto va = make_mat(ba, sa);
	auto vb = make_mat(bb, sb);
	std::string const& form = cs.form;
	// the operator spellings fix the side, the diagonal and the scalar themselves
	bool const left = (form == "opor") ? true : (form == "opdiv") ? false : (cs.flags[0] == "left");
	bool const lower = (cs.flags[1] == "lower");
	bool const unit = (form == "inplace") ? (cs.flags[2] == "unit") : false;
	{  // a diagonal of +-1 makes the solve exact in integers; with diagonal::unit the stored diagonal must be ignored
		multi::subarray<T, 2> v(va.lay, va.base);
		for(idx i = 0; i < v.size() && i < (~v).size(); ++i) { v[i][i] = unit ? mk<T>(5, 0) : mk<T>((i % 2 == 0) ? 1 : -1, 0); }
		ba.before = ba.cells;
	}
	Registry reg;
	reg.add('A', ba); reg.add('B', bb);
	T const alpha = (form == "opdiv" || form == "opor") ? mk<T>(1, 0) : mk<T>(cs.a_re, cs.a_im);
	Outcome outcome;
	std::string result = "na";
	with_mat(va, sa.deco, [&](auto&& a) {
		with_mat(vb, sb.deco, [&](auto&& b) {
			print_D(g_id, 'A', a, reg); print_D(g_id, 'B', b, reg);
			idx const P = b.size();
			idx const Q = (~b).size();
			idx const M = left ? P : Q;
			bool const shapes_ok = (a.size() == M) && ((~a).size() == M);
			std::vector<T> tri(static_cast<std::size_t>(M * M), T{});
			std::vector<T> bold(static_cast<std::size_t>(P * Q), T{});
			if(shapes_ok) {
				for(idx i = 0; i != M; ++i) {
					for(idx j = 0; j != M; ++j) {
						bool const in = lower ? (j <= i) : (i <= j);
						T v = in ? at2<T>(a, i, j) : T{};
						if(i == j && unit) { v = mk<T>(1, 0); }
						tri[static_cast<std::size_t>(i * M + j)] = v;
					}
				}
				for(idx i = 0; i != P; ++i) { for(idx j = 0; j != Q; ++j) { bold[static_cast<std::size_t>(i * Q + j)] = at2<T>(b, i, j); } }
			}
			c13_log_clear();
			std::cout.flush();
			constexpr bool conj_a = blas::is_conjugated<std::decay_t<decltype(a)>>{};
			constexpr bool conj_b = blas::is_conjugated<std::decay_t<decltype(b)>>{};
			outcome = guarded([&] {
				if constexpr(!(conj_a && conj_b)) {  // both conjugated is ill-formed at the pinned commit (trsm.hpp:107 `bbase`)
					auto const sd = left ? blas::side::left : blas::side::right;
					auto const fl = lower ? blas::filling::lower : blas::filling::upper;
					if(form == "inplace") { blas::trsm(sd, fl, unit ? blas::diagonal::unit : blas::diagonal::non_unit, alpha, a, b); }
					else if(form == "nonunit5") { blas::trsm(sd, fl, alpha, a, b); }
					else if(form == "tri") { if(lower) { blas::trsm(sd, alpha, blas::L(a), b); } else { blas::trsm(sd, alpha, blas::U(a), b); } }
					else if(form == "opdiv") { using namespace blas::operators; if(lower) { b /= blas::L(a); } else { b /= blas::U(a); } }
					else if(form == "opor") { using namespace blas::operators; if(lower) { b |= blas::L(a); } else { b |= blas::U(a); } }
					else { throw std::runtime_error("harness: unknown trsm form"); }
				} else { throw std::runtime_error("harness: trsm with both operands conjugated"); }
			});
			if(shapes_ok && outcome.rfind("outcome=ok", 0) == 0) {
				result = "ok";
				for(idx i = 0; i != P && result == "ok"; ++i) {
					for(idx j = 0; j != Q; ++j) {
						T s{};
						if(left) { for(idx l = 0; l != M; ++l) { s += tri[static_cast<std::size_t>(i * M + l)] * at2<T>(b, l, j); } }
						else { for(idx l = 0; l != M; ++l) { s += at2<T>(b, i, l) * tri[static_cast<std::size_t>(l * M + j)]; } }
						T const want = alpha * bold[static_cast<std::size_t>(i * Q + j)];
						if(s != want) {
							std::ostringstream os;
							os << "bad:residual[" << i << "][" << j << "]=" << show(s) << "!=" << show(want);
							result = os.str();
							break;
						}
					}
				}
			}
		});
	});
	print_calls(g_id, reg);
	std::cout << "O " << g_id << " " << outcome << "\n";
	std::string guards = (ba.guards_ok() && bb.guards_ok()) ? "ok" : "bad";
	std::string inputs = ba.unchanged() ? "ok" : "bad";
	std::string frame = "ok";
	{
		std::vector<char> inview(static_cast<std::size_t>(bb.n), 0);
		multi::subarray<T, 2> v(vb.lay, vb.base);
		for(idx i = 0; i != v.size(); ++i) { for(idx j = 0; j != (~v).size(); ++j) { inview[static_cast<std::size_t>(&v[i][j] - bb.root())] = 1; } }
		for(idx k = 0; k != bb.n; ++k) {
			if(inview[static_cast<std::size_t>(k)] == 0 && bb.root()[k] != bb.before[static_cast<std::size_t>(kGuard + k)]) { frame = "bad:cell" + std::to_string(k); break; }
		}
	}
	std::cout << "R " << g_id << " result=" << result << " guards=" << guards << " inputs=" << inputs << " frame=" << frame << "\n";
}

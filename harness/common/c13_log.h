// C13: interface between the BLAS interposers (interpose_blas_c13.cpp, which must NOT include the library:
// core.hpp declares the same symbols with reference parameters) and the harness (h_blas_c13.cpp).
#ifndef C13_LOG_H
#define C13_LOG_H
#ifdef __cplusplus
extern "C" {
#endif

typedef struct c13_call {
	char name[8];        // "dgemm", "zgemv", "daxpy", ...
	char ch[4];          // transA, transB / trans / uplo...
	long iv[8];          // integer arguments in routine order (m n k lda ldb ldc | m n lda incx incy | n incx incy)
	const void* pv[3];   // pointer arguments in routine order (A B C | A X Y | X Y)
	double sc[2][2];     // alpha, beta as (re, im)
	int esize;           // element size in bytes
	int info;            // 0 = legal by the reference-BLAS argument checks, else the XERBLA parameter number
	int forwarded;       // 1 when the real routine was called
} c13_call;

// the log of the current case
void c13_log_clear(void);
int c13_log_size(void);
const c13_call* c13_log_get(int k);

#ifdef __cplusplus
}
#endif
#endif

// C11: the three element-pointer types the C01-C07 programs are replayed on, behind one "policy" interface.
//   raw_policy      T*                      std::allocator<T>
//   fancy_policy    ptr11::fancy_ptr<T>     ptr11::fancy_alloc<T>     an offset (in elements) from a per-type arena origin; the arena is
//                                                              INTERLEAVED (element k lives in raw slot 2k), so that raw
//                                                              arithmetic on an element's address (&*p + n) does not reach
//                                                              element p + n: only the pointer's own + does
//   checked_policy  ptr11::checked_ptr<T>   ptr11::checked_alloc<T>   carries [lo,hi) provenance, every dereference checked
// Neither class converts to or from T* (no constructor from T*, no conversion operator, fancy_ptr has no
// operator->).  What an allocator fancy pointer needs is there and nothing more: NullablePointer (nullptr, bool),
// random-access iterator operations (+ - += -= ++ -- [] * == != < > <= >=), conversion ptr<T> -> ptr<T const>,
// iterator typedefs, std::pointer_traits specialisations (element_type, rebind, pointer_to, to_address).
// pointer_to / to_address calls are counted; for the checked pointer to_address outside [lo,hi] is a violation.
// Everything under `harness-side` is for the harness only and has names the library cannot find by accident.
#pragma once
#include <cstddef>
#include <cstdint>
#include <cstdlib>
#include <iterator>
#include <map>
#include <memory>
#include <new>
#include <sstream>
#include <string>
#include <type_traits>
#include <unordered_set>
#include <utility>
#include <vector>

namespace ptr11 {

struct no_such_element {};
template<class T> using ref_arg_t = std::conditional_t<std::is_void_v<T>, no_such_element, T>;

// ------------------------------------------------------------------------------------------------
// violation log of the bounds/provenance-tracking pointer and allocator
// ------------------------------------------------------------------------------------------------
struct vlog {
	static auto lines() -> std::vector<std::string>& { static std::vector<std::string> l; return l; }
	static auto n_to_address() -> long& { static long n = 0; return n; }
	static auto n_pointer_to() -> long& { static long n = 0; return n; }
	static auto n_deref() -> long& { static long n = 0; return n; }
	static void add(char const* what, std::ptrdiff_t off, std::ptrdiff_t len) {
		if(lines().size() < 8) {
			std::ostringstream os;
			os << what << "@" << off << "/[0," << len << ")";
			lines().push_back(os.str());
		} else {
			lines().push_back("");
		}
	}
	static void clear() { lines().clear(); }
};

// blocks that an allocator handed out and took back (keyed by start address): a checked pointer whose provenance is
// such a block must not be dereferenced any more ("inside a LIVE block"), even though the storage may still exist
struct released {
	static auto set() -> std::unordered_set<void const*>& { static std::unordered_set<void const*> s; return s; }
};

// ------------------------------------------------------------------------------------------------
// fancy_ptr<T>: offset from the origin of arena<remove_cv_t<T>>
// ------------------------------------------------------------------------------------------------
template<class U> struct arena {  // one per element type
	static constexpr std::ptrdiff_t capacity = std::ptrdiff_t{1} << 21;  // elements; untouched pages are never committed
	static constexpr std::ptrdiff_t first = 1000;                         // so that offsets are not small indices by accident
	static constexpr std::ptrdiff_t pitch = 2;                            // raw slots per element: storage is not contiguous
	static auto origin() -> U* {
		static U* o = static_cast<U*>(std::calloc(static_cast<std::size_t>(capacity * pitch), sizeof(U)));  // NOLINT
		return o;
	}
	static auto slot(std::ptrdiff_t off) -> U* { return origin() + pitch * off; }
	static auto offset_of(U const* raw) -> std::ptrdiff_t { return (raw - origin()) / pitch; }
	static auto top() -> std::ptrdiff_t& { static std::ptrdiff_t t = first; return t; }
	static auto freelist() -> std::map<std::ptrdiff_t, std::vector<std::ptrdiff_t>>& {
		static std::map<std::ptrdiff_t, std::vector<std::ptrdiff_t>> f;
		return f;
	}
	static auto live() -> long& { static long n = 0; return n; }
	static auto take(std::ptrdiff_t n) -> std::ptrdiff_t {  // returns the offset of a block of n elements
		++live();
		auto& fl = freelist()[n];
		if(!fl.empty()) { auto o = fl.back(); fl.pop_back(); return o; }
		if(top() + n + 1 > capacity) { throw std::bad_alloc{}; }
		auto o = top();
		top() += n + 1;  // one element of slack between blocks
		return o;
	}
	// quarantining allocators (lifecycle harness): blocks are never reused inside a case, rewind() starts the next case
	static auto bump(std::ptrdiff_t n) -> std::ptrdiff_t {
		if(top() + n + 1 > capacity) { throw std::bad_alloc{}; }
		auto o = top();
		top() += n + 1;
		return o;
	}
	static void rewind() { top() = first; freelist().clear(); live() = 0; }
	static void give_back(std::ptrdiff_t off, std::ptrdiff_t n) {
		--live();
		freelist()[n].push_back(off);
	}
};

template<class T> struct fancy_alloc;
template<class T> struct checked_alloc;

template<class T> class fancy_ptr {
	static constexpr std::ptrdiff_t null_off = PTRDIFF_MIN / 4;
	std::ptrdiff_t off_ = null_off;
	template<class> friend class fancy_ptr;
	friend struct fancy_policy;
	friend struct std::pointer_traits<fancy_ptr<T>>;
	template<class> friend struct fancy_alloc;
	using U = std::remove_cv_t<T>;
	struct from_offset {};
	constexpr fancy_ptr(from_offset /*tag*/, std::ptrdiff_t o) : off_{o} {}
	auto addr_() const -> T* { return arena<U>::slot(off_); }  // used by operator* / operator[] only

 public:
	using difference_type   = std::ptrdiff_t;
	using value_type        = U;
	using element_type      = T;
	using pointer           = fancy_ptr;
	using reference         = std::add_lvalue_reference_t<T>;  // proxy-free references (void for the void_pointer rebind)
	using iterator_category = std::random_access_iterator_tag;
	using default_allocator_type = fancy_alloc<U>;  // the library's documented hook (detail/pointer_traits.hpp:17-26)

	constexpr fancy_ptr() = default;
	constexpr fancy_ptr(std::nullptr_t) {}  // NOLINT(google-explicit-constructor) NullablePointer
	// ptr<T> -> ptr<T const>, never the other way, never from or to a raw pointer
	template<class V, std::enable_if_t<std::is_same_v<V const, T> && !std::is_const_v<V>, int> = 0>
	constexpr fancy_ptr(fancy_ptr<V> const& o) : off_{o.off_} {}  // NOLINT(google-explicit-constructor)
	// ptr<V> -> ptr<void>, ptr<V [const]> -> ptr<void const> (allocator requirements: pointer converts to [const_]void_pointer);
	// a void pointer only remembers the offset and can be neither dereferenced nor moved
	template<class V, std::enable_if_t<std::is_void_v<T> && !std::is_void_v<V> && (std::is_const_v<T> || !std::is_const_v<V>), int> = 0>
	constexpr fancy_ptr(fancy_ptr<V> const& o) : off_{o.off_} {}  // NOLINT(google-explicit-constructor)

	constexpr explicit operator bool() const { return off_ != null_off; }

	auto operator*() const -> reference { return *addr_(); }
	auto operator[](difference_type n) const -> reference { return *arena<U>::slot(off_ + n); }

	constexpr auto operator+=(difference_type n) -> fancy_ptr& { off_ += n; return *this; }
	constexpr auto operator-=(difference_type n) -> fancy_ptr& { off_ -= n; return *this; }
	constexpr auto operator++() -> fancy_ptr& { ++off_; return *this; }
	constexpr auto operator--() -> fancy_ptr& { --off_; return *this; }
	constexpr auto operator++(int) -> fancy_ptr { auto r = *this; ++off_; return r; }
	constexpr auto operator--(int) -> fancy_ptr { auto r = *this; --off_; return r; }
	friend constexpr auto operator+(fancy_ptr p, difference_type n) -> fancy_ptr { p.off_ += n; return p; }
	friend constexpr auto operator+(difference_type n, fancy_ptr p) -> fancy_ptr { p.off_ += n; return p; }
	friend constexpr auto operator-(fancy_ptr p, difference_type n) -> fancy_ptr { p.off_ -= n; return p; }
	friend constexpr auto operator-(fancy_ptr const& a, fancy_ptr const& b) -> difference_type { return a.off_ - b.off_; }
	friend constexpr auto operator==(fancy_ptr const& a, fancy_ptr const& b) -> bool { return a.off_ == b.off_; }
	friend constexpr auto operator!=(fancy_ptr const& a, fancy_ptr const& b) -> bool { return a.off_ != b.off_; }
	friend constexpr auto operator<(fancy_ptr const& a, fancy_ptr const& b) -> bool { return a.off_ < b.off_; }
	friend constexpr auto operator>(fancy_ptr const& a, fancy_ptr const& b) -> bool { return a.off_ > b.off_; }
	friend constexpr auto operator<=(fancy_ptr const& a, fancy_ptr const& b) -> bool { return a.off_ <= b.off_; }
	friend constexpr auto operator>=(fancy_ptr const& a, fancy_ptr const& b) -> bool { return a.off_ >= b.off_; }
};

template<class T> struct fancy_alloc {
	using value_type = T;
	using pointer    = fancy_ptr<T>;
	using const_pointer = fancy_ptr<T const>;
	using size_type  = std::size_t;
	using difference_type = std::ptrdiff_t;
	using is_always_equal = std::true_type;
	template<class V> struct rebind { using other = fancy_alloc<V>; };
	fancy_alloc() = default;
	template<class V> fancy_alloc(fancy_alloc<V> const& /*o*/) {}  // NOLINT(google-explicit-constructor)
	auto allocate(size_type n) -> pointer {
		return pointer{typename pointer::from_offset{}, arena<T>::take(static_cast<std::ptrdiff_t>(n))};
	}
	void deallocate(pointer p, size_type n) { arena<T>::give_back(p.off_, static_cast<std::ptrdiff_t>(n)); }
	friend auto operator==(fancy_alloc const& /*a*/, fancy_alloc const& /*b*/) -> bool { return true; }
	friend auto operator!=(fancy_alloc const& /*a*/, fancy_alloc const& /*b*/) -> bool { return false; }
};

// ------------------------------------------------------------------------------------------------
// checked_ptr<T>: address + provenance [lo,hi); arithmetic may leave the range, dereference may not
// ------------------------------------------------------------------------------------------------
template<class T> class checked_ptr {
	T* p_ = nullptr;
	T* lo_ = nullptr;
	T* hi_ = nullptr;
	template<class> friend class checked_ptr;
	friend struct checked_policy;
	friend struct std::pointer_traits<checked_ptr<T>>;
	template<class> friend struct checked_alloc;
	struct from_parts {};
	constexpr checked_ptr(from_parts /*tag*/, T* p, T* lo, T* hi) : p_{p}, lo_{lo}, hi_{hi} {}
	auto checked_(T* q, char const* what) const -> std::add_lvalue_reference_t<T> {
		++vlog::n_deref();
		bool const dead = lo_ != nullptr && !released::set().empty() && released::set().count(static_cast<void const*>(lo_)) != 0;
		if(q < lo_ || q >= hi_ || lo_ == nullptr || dead) {
			vlog::add(dead ? "released-block" : what, lo_ ? q - lo_ : 0, lo_ ? hi_ - lo_ : 0);
			static std::aligned_storage_t<sizeof(T) < 64 ? 64 : sizeof(T), alignof(std::max_align_t)> dummy;  // the access is diverted
			return *reinterpret_cast<T*>(&dummy);  // NOLINT
		}
		return *q;
	}

 public:
	using difference_type   = std::ptrdiff_t;
	using value_type        = std::remove_cv_t<T>;
	using element_type      = T;
	using pointer           = checked_ptr;
	using reference         = std::add_lvalue_reference_t<T>;
	using iterator_category = std::random_access_iterator_tag;
	using default_allocator_type = checked_alloc<std::remove_cv_t<T>>;

	constexpr checked_ptr() = default;
	constexpr checked_ptr(std::nullptr_t) {}  // NOLINT(google-explicit-constructor)
	template<class V, std::enable_if_t<std::is_same_v<V const, T> && !std::is_const_v<V>, int> = 0>
	constexpr checked_ptr(checked_ptr<V> const& o) : p_{o.p_}, lo_{o.lo_}, hi_{o.hi_} {}  // NOLINT(google-explicit-constructor)
	template<class V, std::enable_if_t<std::is_void_v<T> && !std::is_void_v<V> && (std::is_const_v<T> || !std::is_const_v<V>), int> = 0>
	constexpr checked_ptr(checked_ptr<V> const& o) : p_{o.p_}, lo_{o.lo_}, hi_{o.hi_} {}  // NOLINT(google-explicit-constructor)

	constexpr explicit operator bool() const { return p_ != nullptr; }

	auto operator*() const -> reference { return checked_(p_, "deref"); }
	auto operator[](difference_type n) const -> reference { return checked_(p_ + n, "subscript"); }
	auto operator->() const -> T* { return std::addressof(checked_(p_, "arrow")); }

	constexpr auto operator+=(difference_type n) -> checked_ptr& { p_ += n; return *this; }
	constexpr auto operator-=(difference_type n) -> checked_ptr& { p_ -= n; return *this; }
	constexpr auto operator++() -> checked_ptr& { ++p_; return *this; }
	constexpr auto operator--() -> checked_ptr& { --p_; return *this; }
	constexpr auto operator++(int) -> checked_ptr { auto r = *this; ++p_; return r; }
	constexpr auto operator--(int) -> checked_ptr { auto r = *this; --p_; return r; }
	friend constexpr auto operator+(checked_ptr p, difference_type n) -> checked_ptr { p.p_ += n; return p; }
	friend constexpr auto operator+(difference_type n, checked_ptr p) -> checked_ptr { p.p_ += n; return p; }
	friend constexpr auto operator-(checked_ptr p, difference_type n) -> checked_ptr { p.p_ -= n; return p; }
	friend constexpr auto operator-(checked_ptr const& a, checked_ptr const& b) -> difference_type { return a.p_ - b.p_; }
	friend constexpr auto operator==(checked_ptr const& a, checked_ptr const& b) -> bool { return a.p_ == b.p_; }
	friend constexpr auto operator!=(checked_ptr const& a, checked_ptr const& b) -> bool { return a.p_ != b.p_; }
	friend constexpr auto operator<(checked_ptr const& a, checked_ptr const& b) -> bool { return a.p_ < b.p_; }
	friend constexpr auto operator>(checked_ptr const& a, checked_ptr const& b) -> bool { return a.p_ > b.p_; }
	friend constexpr auto operator<=(checked_ptr const& a, checked_ptr const& b) -> bool { return a.p_ <= b.p_; }
	friend constexpr auto operator>=(checked_ptr const& a, checked_ptr const& b) -> bool { return a.p_ >= b.p_; }
};

struct ledger {  // live blocks of the checked allocator: start address -> bytes
	static auto blocks() -> std::map<char const*, std::size_t>& { static std::map<char const*, std::size_t> b; return b; }
	static auto inside(void const* p, std::size_t bytes) -> bool {
		auto const* c = static_cast<char const*>(p);
		auto it = blocks().upper_bound(c);
		if(it == blocks().begin()) { return false; }
		--it;
		return c >= it->first && c + bytes <= it->first + it->second;
	}
};

template<class T> struct checked_alloc {
	using value_type = T;
	using pointer    = checked_ptr<T>;
	using const_pointer = checked_ptr<T const>;
	using size_type  = std::size_t;
	using difference_type = std::ptrdiff_t;
	using is_always_equal = std::true_type;
	template<class V> struct rebind { using other = checked_alloc<V>; };
	checked_alloc() = default;
	template<class V> checked_alloc(checked_alloc<V> const& /*o*/) {}  // NOLINT(google-explicit-constructor)
	auto allocate(size_type n) -> pointer {
		T* raw = std::allocator<T>{}.allocate(n + 2) + 1;  // one element of slack on both sides
		ledger::blocks()[reinterpret_cast<char const*>(raw)] = n * sizeof(T);  // NOLINT
		released::set().erase(static_cast<void const*>(raw));
		return pointer{typename pointer::from_parts{}, raw, raw, raw + n};
	}
	void deallocate(pointer p, size_type n) {
		auto it = ledger::blocks().find(reinterpret_cast<char const*>(p.p_));  // NOLINT
		if(it == ledger::blocks().end() || it->second != n * sizeof(T)) {
			vlog::add("deallocate-not-a-block", 0, static_cast<std::ptrdiff_t>(n));
			return;
		}
		ledger::blocks().erase(it);
		if(n != 0) { released::set().insert(static_cast<void const*>(p.p_)); }
		std::allocator<T>{}.deallocate(p.p_ - 1, n + 2);
	}
	template<class V, class... As> void construct(V* where, As&&... as) {
		if(!ledger::inside(where, sizeof(V))) { vlog::add("construct-outside-block", 0, 0); return; }
		::new(static_cast<void*>(where)) V(std::forward<As>(as)...);
	}
	template<class V> void destroy(V* where) {
		if(!ledger::inside(where, sizeof(V))) { vlog::add("destroy-outside-block", 0, 0); return; }
		where->~V();
	}
	friend auto operator==(checked_alloc const& /*a*/, checked_alloc const& /*b*/) -> bool { return true; }
	friend auto operator!=(checked_alloc const& /*a*/, checked_alloc const& /*b*/) -> bool { return false; }
};

}  // namespace ptr11

// what an allocator fancy pointer needs from <memory>
template<class T> struct std::pointer_traits<ptr11::fancy_ptr<T>> {
	using pointer         = ptr11::fancy_ptr<T>;
	using element_type    = T;
	using difference_type = std::ptrdiff_t;
	template<class V> using rebind = ptr11::fancy_ptr<V>;
	static auto pointer_to(ptr11::ref_arg_t<T>& r) -> pointer {
		++ptr11::vlog::n_pointer_to();
		return pointer{typename pointer::from_offset{}, ptr11::arena<std::remove_cv_t<T>>::offset_of(&r)};
	}
	static auto to_address(pointer const& p) noexcept -> T* {
		++ptr11::vlog::n_to_address();
		return p ? p.addr_() : nullptr;
	}
};
template<class T> struct std::pointer_traits<ptr11::checked_ptr<T>> {
	using pointer         = ptr11::checked_ptr<T>;
	using element_type    = T;
	using difference_type = std::ptrdiff_t;
	template<class V> using rebind = ptr11::checked_ptr<V>;
	static auto pointer_to(ptr11::ref_arg_t<T>& r) -> pointer {  // provenance unknown: a pointer that may be compared and subtracted, not dereferenced
		++ptr11::vlog::n_pointer_to();
		return pointer{typename pointer::from_parts{}, &r, nullptr, nullptr};
	}
	static auto to_address(pointer const& p) noexcept -> T* {
		++ptr11::vlog::n_to_address();
		if(p.p_ != nullptr && (p.lo_ == nullptr || p.p_ < p.lo_ || p.p_ > p.hi_)) {
			ptr11::vlog::add("to_address", p.lo_ ? p.p_ - p.lo_ : 0, p.lo_ ? p.hi_ - p.lo_ : 0);
		}
		return p.p_;
	}
};

namespace ptr11 {

// ------------------------------------------------------------------------------------------------
// harness-side: one interface over the three pointer types
// ------------------------------------------------------------------------------------------------
// buffer<P,T>: n value-initialised elements owned by the harness (its own roots for array_ref), reachable both
// element by element (cell(k): to fill and dump, harness only) and through policy pointers with a chosen provenance.
struct raw_policy {
	static constexpr char const* name = "raw";
	template<class T> using ptr   = T*;
	template<class T> using alloc = std::allocator<T>;
	template<class T> struct buffer {
		std::vector<T> v;
		explicit buffer(std::ptrdiff_t n) : v(static_cast<std::size_t>(n)) {}
		auto cell(std::ptrdiff_t k) -> T& { return v[static_cast<std::size_t>(k)]; }  // harness-side access to element k
		auto size() const -> std::ptrdiff_t { return static_cast<std::ptrdiff_t>(v.size()); }
		auto at(std::ptrdiff_t first, std::ptrdiff_t /*len*/) -> T* { return v.data() + first; }  // pointer to element `first`, given [first, first+len)
	};
	template<class T> static auto unconst(T const* p) -> T* { return const_cast<T*>(p); }  // NOLINT
	template<class T> static auto to(T& r) -> T* { return &r; }
	template<class T> static auto peek(T* p) -> T* { return p; }  // raw address for dumps (harness only)
};

struct fancy_policy {
	static constexpr char const* name = "fancy";
	template<class T> using ptr   = fancy_ptr<T>;
	template<class T> using alloc = fancy_alloc<T>;
	template<class T> struct buffer {
		std::ptrdiff_t off, n;
		explicit buffer(std::ptrdiff_t n_) : off{arena<T>::take(n_)}, n{n_} {
			for(std::ptrdiff_t k = 0; k != n; ++k) { ::new(static_cast<void*>(arena<T>::slot(off + k))) T(); }
		}
		buffer(buffer const&) = delete;
		auto operator=(buffer const&) -> buffer& = delete;
		~buffer() {
			for(std::ptrdiff_t k = 0; k != n; ++k) { arena<T>::slot(off + k)->~T(); }
			arena<T>::give_back(off, n);
		}
		auto cell(std::ptrdiff_t k) -> T& { return *arena<T>::slot(off + k); }
		auto size() const -> std::ptrdiff_t { return n; }
		auto at(std::ptrdiff_t first, std::ptrdiff_t /*len*/) -> fancy_ptr<T> { return fancy_ptr<T>{typename fancy_ptr<T>::from_offset{}, off + first}; }
	};
	template<class T> static auto unconst(fancy_ptr<T const> p) -> fancy_ptr<T> { return fancy_ptr<T>{typename fancy_ptr<T>::from_offset{}, p.off_}; }
	template<class T> static auto unconst(fancy_ptr<T> p) -> fancy_ptr<T> { return p; }
	template<class T> static auto to(T& r) -> fancy_ptr<T> { auto p = std::pointer_traits<fancy_ptr<T>>::pointer_to(r); --vlog::n_pointer_to(); return p; }
	template<class T> static auto peek(fancy_ptr<T> p) -> T* { return p.addr_(); }
	// for harness-side allocators (ptr11_life_alloc.hpp)
	template<class T> static auto from_offset(std::ptrdiff_t off) -> fancy_ptr<T> { return fancy_ptr<T>{typename fancy_ptr<T>::from_offset{}, off}; }
	template<class T> static auto offset_of(fancy_ptr<T> p) -> std::ptrdiff_t { return p.off_; }
};

struct checked_policy {
	static constexpr char const* name = "checked";
	template<class T> using ptr   = checked_ptr<T>;
	template<class T> using alloc = checked_alloc<T>;
	template<class T> struct buffer {
		std::vector<T> v;
		explicit buffer(std::ptrdiff_t n) : v(static_cast<std::size_t>(n)) {}
		auto cell(std::ptrdiff_t k) -> T& { return v[static_cast<std::size_t>(k)]; }
		auto size() const -> std::ptrdiff_t { return static_cast<std::ptrdiff_t>(v.size()); }
		auto at(std::ptrdiff_t first, std::ptrdiff_t len) -> checked_ptr<T> {
			released::set().erase(static_cast<void const*>(v.data() + first));  // the address may have been a released allocator block before
			return checked_ptr<T>{typename checked_ptr<T>::from_parts{}, v.data() + first, v.data() + first, v.data() + first + len};
		}
	};
	template<class T> static auto unconst(checked_ptr<T const> p) -> checked_ptr<T> {
		return checked_ptr<T>{typename checked_ptr<T>::from_parts{}, const_cast<T*>(p.p_), const_cast<T*>(p.lo_), const_cast<T*>(p.hi_)};  // NOLINT
	}
	template<class T> static auto unconst(checked_ptr<T> p) -> checked_ptr<T> { return p; }
	template<class T> static auto to(T& r) -> checked_ptr<T> { auto p = std::pointer_traits<checked_ptr<T>>::pointer_to(r); --vlog::n_pointer_to(); return p; }
	template<class T> static auto peek(checked_ptr<T> p) -> T* { return p.p_; }
	template<class T> static auto from_range(T* p, T* lo, T* hi) -> checked_ptr<T> { return checked_ptr<T>{typename checked_ptr<T>::from_parts{}, p, lo, hi}; }
};

#ifndef PTR11_KIND
#define PTR11_KIND 0
#endif
#if PTR11_KIND == 0
using policy = raw_policy;
#elif PTR11_KIND == 1
using policy = fancy_policy;
#else
using policy = checked_policy;
#endif

// per-case trailer: the checked pointer's violation log (must be empty) -- printed only when it is not.
// With strict = true (program families: trivially constructible int elements, or array_refs over harness storage) the
// library has no reason to turn an element pointer into a raw address or back: any call of pointer_traits::to_address
// or pointer_to made by the library (the harness's own uses are not counted) is reported as well.
template<class OS> void report_case(OS& os, std::string const& id, bool strict = false, char const* tag = "K") {
	if(strict && (vlog::n_to_address() != 0 || vlog::n_pointer_to() != 0)) {
		std::ostringstream m;
		m << "library-converted-element-pointer:to_address=" << vlog::n_to_address() << ",pointer_to=" << vlog::n_pointer_to();
		vlog::lines().push_back(m.str());
	}
	vlog::n_to_address() = 0;
	vlog::n_pointer_to() = 0;
	if(!vlog::lines().empty()) {
		os << tag << ' ' << id << " violations=" << vlog::lines().size();
		for(auto const& l : vlog::lines()) { if(!l.empty()) { os << ' ' << l; } }
		os << '\n';
	}
	vlog::clear();
}

}  // namespace ptr11

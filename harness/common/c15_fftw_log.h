/* C15: record of the FFTW entry points the adaptor calls, filled by interpose_fftw_c15.cpp
   (which defines fftw_plan_guru64_dft / fftw_execute_dft / fftw_destroy_plan in the executable and
   forwards to the real libfftw3.so.3 obtained with dlopen) and read by h_fftw_c15.cpp. */
#ifndef C15_FFTW_LOG_H
#define C15_FFTW_LOG_H
#include <stddef.h>

#ifdef __cplusplus
extern "C" {
#endif

#define C15_MAXRANK 8
struct c15_iodim { ptrdiff_t n, is, os; };
struct c15_state_t {
	int enabled;                 /* record only while the harness says so */
	int nplan, nexec, ndestroy, nother;
	int rank, hrank;
	struct c15_iodim dims[C15_MAXRANK], hdims[C15_MAXRANK];
	void* plan_in;
	void* plan_out;
	int sign;
	unsigned flags;
	void* plan;                  /* what the real fftw_plan_guru64_dft returned (last call) */
	void* exec_plan;
	void* exec_in;
	void* exec_out;
	void* destroyed;
	char order[32];              /* 'p' plan, 'x' execute, 'd' destroy, 'o' any other FFTW planner/execute entry, in call order */
	int norder;
	/* buffers to watch across the planning call: after the real fftw_plan_guru64_dft returns, watch_ptr[k] must
	   still equal watch_snap[k] on watch_bytes[k] bytes; bit k of plan_touched is set otherwise */
	const void* watch_ptr[2];
	const void* watch_snap[2];
	size_t watch_bytes[2];
	unsigned plan_touched;
};
extern struct c15_state_t c15_state;
void c15_reset(void);

#ifdef __cplusplus
}
#endif
#endif

// C11 copy of viewprog.hpp: roots and shape printing for the view-program harnesses, over the pointer policy.
// Owning roots are multi::array<int, D, policy allocator> (the allocator's pointer is the element pointer);
// empty roots are array_refs over a policy buffer (see viewprog.hpp for why).
#pragma once
#include "ptr11_dynview.hpp"

#include <cstdio>
#include <fstream>
#include <map>

using dv11::idx_t;
using dv11::P;
using dv11::Ptr;

template<int D, std::size_t... I>
auto make_ext(std::vector<std::pair<idx_t, idx_t>> const& e, std::index_sequence<I...> /*unused*/) {
	return multi::extensions_t<D>{multi::iextension{e[I].first, e[I].second}...};
}

struct Root {
	std::shared_ptr<void> keep;
	Ptr<int> data{};  // data_elements() of the root, as the policy's pointer
	idx_t n = 0;
	std::unique_ptr<dv11::Base<int>> view;
};

template<int D> Root make_root(std::vector<std::pair<idx_t, idx_t>> const& e) {
	auto x = make_ext<D>(e, std::make_index_sequence<D>{});
	Root r;
	if(multi::layout_t<D>(x).num_elements() == 0) {
		auto buf = std::make_shared<typename P::template buffer<int>>(1);
		multi::array_ref<int, D, Ptr<int>> ref(buf->at(0, 0), x);  // given zero elements: nothing may be dereferenced
		r.n = 0;
		r.data = P::template unconst<int>(ref.base());
		r.view = std::make_unique<dv11::Holder<int, D>>(ref.layout(), r.data);
		r.keep = buf;
		return r;
	}
	auto arr = std::make_shared<multi::array<int, D, typename P::template alloc<int>>>(x);
	r.n = arr->num_elements();
	r.data = arr->data_elements();
	for(idx_t k = 0; k != r.n; ++k) { r.data[k] = static_cast<int>(k); }  // value == address
	r.view = std::make_unique<dv11::Holder<int, D>>(arr->layout(), P::template unconst<int>(arr->base()));
	r.keep = arr;
	return r;
}

inline Root make_root_dyn(int D, std::vector<std::pair<idx_t, idx_t>> const& e) {
	switch(D) {
		case 1: return make_root<1>(e);
		case 2: return make_root<2>(e);
		case 3: return make_root<3>(e);
		case 4: return make_root<4>(e);
		case 5: return make_root<5>(e);
		default: throw dv11::unsupported("root rank");
	}
}

inline void print_shape(std::string const& id, int step, dv11::Base<int>& v) {
	auto sz = v.sizes();
	auto st = v.strides();
	auto ex = v.extensions();
	std::cout << "S " << id << ' ' << step << " rank=" << v.rank() << " sizes=" << dv11::join(sz.begin(), sz.end()) << " ext=";
	for(std::size_t k = 0; k != ex.size(); ++k) { std::cout << (k ? "," : "") << ex[k].first << ':' << ex[k].second; }
	std::cout << " strides=";
	for(std::size_t k = 0; k != st.size(); ++k) {
		// the stride of a dimension with fewer than two valid indices is not an observable of the property
		std::cout << (k ? "," : "");
		if(sz[k] >= 2) { std::cout << st[k]; } else { std::cout << '*'; }
	}
	std::cout << " nel=" << v.num_elements() << " size=" << v.size() << " empty=" << (v.is_empty() ? 1 : 0) << '\n';
}

// Instrumented allocator for the lifecycle harness: every instance carries an id; one global ledger records
// (block, n, producing instance); allocate counts as a fallible event; deallocate checks that the block is
// outstanding, that n is the requested size and that the releasing instance EQUALS the producing one.
// Memory is pre-filled with 0xCD (so "not written" is observable) and is quarantined until the end of the case
// (never reused inside a case: dangling reads stay harmless and block identities stay distinct).
// The same ledger serves std::pmr::polymorphic_allocator through life::logging_resource.
#pragma once
#include "life_tracked_elem.hpp"

#include <cstdlib>
#include <cstring>
#include <map>
#include <memory_resource>
#include <type_traits>
#include <vector>

namespace life {

struct block_rec { void* p; std::size_t n; std::size_t bytes; int owner; bool live; };

struct ledger_t {
	std::vector<block_rec> blocks;       // every block of the case, in allocation order
	std::map<void const*, std::size_t> by_addr;
	long allocs = 0;                     // since reset_counts
	int socc_mode = 0;                   // 0: select_on_container_copy_construction returns *this; 1: returns instance id+1000
	bool always_equal = false;           // mirrors the AE template parameter of the running configuration

	void reset() {
		for(auto& b : blocks) { std::free(b.p); }
		blocks.clear(); by_addr.clear(); allocs = 0;
	}
	void* take(std::size_t n, std::size_t bytes, int owner) {
		reg().tick('a');
		void* p = std::malloc(bytes ? bytes : 1);
		std::memset(p, 0xCD, bytes ? bytes : 1);
		by_addr[p] = blocks.size();
		blocks.push_back({p, n, bytes, owner, true});
		++allocs;
		return p;
	}
	void give(void* p, std::size_t n, int releaser, std::size_t elem_size, bool check_cells) {
		auto it = by_addr.find(p);
		if(it == by_addr.end()) { reg().fail("dealloc-unknown-block"); return; }
		auto& b = blocks[it->second];
		if(!b.live) { reg().fail("double-free"); return; }
		if(b.n != n) { reg().fail("dealloc-wrong-size"); }
		if(!(always_equal || b.owner == releaser)) { reg().fail("dealloc-wrong-allocator"); }
		if(check_cells && reg().forget_range(p, b.bytes, elem_size) != 0) { reg().fail("dealloc-with-live-elements"); }
		b.live = false;   // memory stays quarantined until reset()
	}
	block_rec const* find_live(void const* p) const {
		auto it = by_addr.find(p);
		if(it == by_addr.end() || !blocks[it->second].live) { return nullptr; }
		return &blocks[it->second];
	}
	long serial(void const* p) const {
		auto it = by_addr.find(p);
		return it == by_addr.end() ? -1 : static_cast<long>(it->second);
	}
};

inline ledger_t& ledger() { static ledger_t l; return l; }

template<class T, bool POCCA, bool POCMA, bool POCS, bool AE>
struct tracked_alloc {
	using value_type = T;
	using propagate_on_container_copy_assignment = std::bool_constant<POCCA>;
	using propagate_on_container_move_assignment = std::bool_constant<POCMA>;
	using propagate_on_container_swap            = std::bool_constant<POCS>;
	using is_always_equal                        = std::bool_constant<AE>;
	template<class U> struct rebind { using other = tracked_alloc<U, POCCA, POCMA, POCS, AE>; };

	int id = 0;
	tracked_alloc() = default;
	explicit tracked_alloc(int i) : id(i) {}
	template<class U> tracked_alloc(tracked_alloc<U, POCCA, POCMA, POCS, AE> const& o) : id(o.id) {}  // NOLINT

	auto allocate(std::size_t n) -> T* { return static_cast<T*>(ledger().take(n, n * sizeof(T), id)); }
	void deallocate(T* p, std::size_t n) noexcept {
		ledger().give(p, n, id, sizeof(T), !std::is_trivially_destructible_v<T>);
	}
	auto select_on_container_copy_construction() const -> tracked_alloc {
		return ledger().socc_mode == 1 ? tracked_alloc(id + 1000) : *this;
	}
	friend bool operator==(tracked_alloc const& a, tracked_alloc const& b) { return AE || a.id == b.id; }
	friend bool operator!=(tracked_alloc const& a, tracked_alloc const& b) { return !(a == b); }
};

struct logging_resource : std::pmr::memory_resource {
	int id = 0;
	std::size_t elem_size = 1;
	bool check_cells = false;
	void* do_allocate(std::size_t bytes, std::size_t /*align*/) override {
		return ledger().take(bytes / elem_size, bytes, id);
	}
	void do_deallocate(void* p, std::size_t bytes, std::size_t /*align*/) override {
		ledger().give(p, bytes / elem_size, id, elem_size, check_cells);
	}
	bool do_is_equal(std::pmr::memory_resource const& o) const noexcept override { return this == &o; }
};

}  // namespace life

// Roots and shape printing shared by the view-program harnesses (h_views, h_iters, h_assign, ...).
#pragma once
#include "dynview.hpp"

#include <cstdio>
#include <fstream>
#include <map>

using dv::idx_t;

template<int D, std::size_t... I>
auto make_ext(std::vector<std::pair<idx_t, idx_t>> const& e, std::index_sequence<I...> /*unused*/) {
	return multi::extensions_t<D>{multi::iextension{e[I].first, e[I].second}...};
}

struct Root {
	std::shared_ptr<void> keep;
	int* data = nullptr;
	idx_t n = 0;
	std::unique_ptr<dv::Base<int>> view;
};

template<int D> Root make_root(std::vector<std::pair<idx_t, idx_t>> const& e) {
	auto x = make_ext<D>(e, std::make_index_sequence<D>{});
	Root r;
	if(multi::layout_t<D>(x).num_elements() == 0) {
		// An empty owning array has a null data pointer, and slicing it at a non-zero index trips the
		// "it is UB to offset a nullptr" assertion (array_ref.hpp:1264), which is C20's business, not C01's:
		// empty roots are array_refs over a one-element buffer, same layout code, non-null base.
		auto buf = std::make_shared<std::vector<int>>(1, 0);
		multi::array_ref<int, D> ref(buf->data(), x);
		r.n = 0;
		r.data = buf->data();
		r.view = std::make_unique<dv::Holder<int, D>>(ref.layout(), ref.base());
		r.keep = buf;
		return r;
	}
	auto arr = std::make_shared<multi::array<int, D>>(x);
	r.n = arr->num_elements();
	r.data = arr->data_elements();
	for(idx_t k = 0; k != r.n; ++k) { r.data[k] = static_cast<int>(k); }  // value == address
	r.view = std::make_unique<dv::Holder<int, D>>(arr->layout(), arr->base());
	r.keep = arr;
	return r;
}

inline Root make_root_dyn(int D, std::vector<std::pair<idx_t, idx_t>> const& e) {
	switch(D) {
		case 1: return make_root<1>(e);
		case 2: return make_root<2>(e);
		case 3: return make_root<3>(e);
		case 4: return make_root<4>(e);
		case 5: return make_root<5>(e);
		default: throw dv::unsupported("root rank");
	}
}

inline void print_shape(std::string const& id, int step, dv::Base<int>& v) {
	auto sz = v.sizes();
	auto st = v.strides();
	auto ex = v.extensions();
	std::cout << "S " << id << ' ' << step << " rank=" << v.rank() << " sizes=" << dv::join(sz.begin(), sz.end()) << " ext=";
	for(std::size_t k = 0; k != ex.size(); ++k) { std::cout << (k ? "," : "") << ex[k].first << ':' << ex[k].second; }
	std::cout << " strides=";
	for(std::size_t k = 0; k != st.size(); ++k) {
		// the stride of a dimension with fewer than two valid indices is not an observable of the property
		std::cout << (k ? "," : "");
		if(sz[k] >= 2) { std::cout << st[k]; } else { std::cout << '*'; }
	}
	std::cout << " nel=" << v.num_elements() << " size=" << v.size() << " empty=" << (v.is_empty() ? 1 : 0) << '\n';
}


// h_mpi_c18: C18 correspondence harness.  Runs under a singleton MPI_Init (no mpiexec).
// For every case: a SEND view and a RECEIVE view (two view programs over two root arrays), an element
// type and, per side, the way the (buffer, count, datatype) triple is obtained from mpi.hpp.
// Prints API-level observables only (second token = case id):
//   T id side tree      the datatype decoded with MPI_Type_get_envelope/get_contents
//   C id side count=    count()
//   X id side lb= ext= size= tlb= text=   MPI_Type_get_extent / MPI_Type_size / MPI_Type_get_true_extent
//   F id side a,b,...   the elements() sequence of the view (values; roots hold value == address)
//   I id side a,b,...   element addresses reached by chained brackets at the canonical index tuples
//   K id s a,b,... pos= what MPI_Pack(buffer,count,datatype) produced, decoded as elements; bytes written
//   L id side events    the PMPI log (create/commit/use/free) of the triple's whole lifetime
//   U id a,b,...        the receive root (all of it) after MPI_Unpack through the receive triple
//   V id r a,b,...      the receive view's elements() after MPI_Unpack
//   G id send= recv=    guard zones around both root buffers intact
//   E id
#include "common/dynview.hpp"

#include <boost/multi/adaptors/mpi.hpp>

#include <csignal>
#include <cstring>
#include <functional>
#include <map>

#include <unistd.h>

using dv::idx_t;

namespace c18log {
void begin();
std::string take();
}  // namespace c18log

namespace {

constexpr idx_t GUARD = 16;

template<class T> MPI_Datatype mpi_t() { return multi::mpi::datatype<T>; }

template<int D, std::size_t... I>
auto make_ext(std::vector<std::pair<idx_t, idx_t>> const& e, std::index_sequence<I...> /*unused*/) {
	return multi::extensions_t<D>{multi::iextension{e[I].first, e[I].second}...};
}

struct SideSpec {
	int D = 0;
	std::vector<std::pair<idx_t, idx_t>> ext;
	std::vector<dv::Op> ops;
	std::string mode = "message";
};

template<class T> struct Root {
	std::vector<T> store;  // GUARD + n + GUARD
	idx_t n = 0;
	std::unique_ptr<dv::Base<T>> view;
	T* data() { return store.data() + GUARD; }
};

template<class T> T guard_value(idx_t k) { return static_cast<T>(-1000000 - k); }

template<class T, int D> void make_root(Root<T>& r, std::vector<std::pair<idx_t, idx_t>> const& e, bool recv) {
	auto x = make_ext<D>(e, std::make_index_sequence<D>{});
	r.n = multi::layout_t<D>(x).num_elements();
	r.store.assign(static_cast<std::size_t>(r.n + 2 * GUARD), T{});
	for(idx_t k = 0; k != r.n + 2 * GUARD; ++k) { r.store[static_cast<std::size_t>(k)] = guard_value<T>(k); }
	for(idx_t k = 0; k != r.n; ++k) { r.data()[k] = recv ? static_cast<T>(-k - 1) : static_cast<T>(k); }
	multi::array_ref<T, D> ref(r.data(), x);  // non-null base also when empty
	r.view = std::make_unique<dv::Holder<T, D>>(ref.layout(), ref.base());
}

template<class T> void make_root_dyn(Root<T>& r, SideSpec const& s, bool recv) {
	switch(s.D) {
		case 1: make_root<T, 1>(r, s.ext, recv); break;
		case 2: make_root<T, 2>(r, s.ext, recv); break;
		case 3: make_root<T, 3>(r, s.ext, recv); break;
		case 4: make_root<T, 4>(r, s.ext, recv); break;
		default: throw dv::unsupported("root rank");
	}
}

template<class T> bool guards_ok(Root<T>& r) {
	for(idx_t k = 0; k != GUARD; ++k) {
		if(r.store[static_cast<std::size_t>(k)] != guard_value<T>(k)) { return false; }
		if(r.store[static_cast<std::size_t>(GUARD + r.n + k)] != guard_value<T>(GUARD + r.n + k)) { return false; }
	}
	return true;
}

template<class T, class F> void visit(dv::Base<T>& b, F&& f) {
	switch(b.rank()) {
		case 1: f(static_cast<dv::Holder<T, 1>&>(b).v); break;
		case 2: f(static_cast<dv::Holder<T, 2>&>(b).v); break;
		case 3: f(static_cast<dv::Holder<T, 3>&>(b).v); break;
		case 4: f(static_cast<dv::Holder<T, 4>&>(b).v); break;
#if BM_MAXD >= 5
		case 5: f(static_cast<dv::Holder<T, 5>&>(b).v); break;
#endif
#if BM_MAXD >= 6
		case 6: f(static_cast<dv::Holder<T, 6>&>(b).v); break;
#endif
		default: throw dv::unsupported("rank out of harness range");
	}
}

// ---- decoding a datatype (PMPI entry points: not logged) ----
std::string decode(MPI_Datatype t) {
	int ni = 0; int na = 0; int nd = 0; int comb = 0;
	PMPI_Type_get_envelope(t, &ni, &na, &nd, &comb);
	std::ostringstream os;
	if(comb == MPI_COMBINER_NAMED) {
		int s = 0;
		PMPI_Type_size(t, &s);
		os << 'B' << s;
		return os.str();
	}
	std::vector<int> ii(static_cast<std::size_t>(ni) + 1);
	std::vector<MPI_Aint> aa(static_cast<std::size_t>(na) + 1);
	std::vector<MPI_Datatype> dd(static_cast<std::size_t>(nd) + 1);
	PMPI_Type_get_contents(t, ni, na, nd, ii.data(), aa.data(), dd.data());
	std::string inner = nd >= 1 ? decode(dd[0]) : std::string("?");
	for(int k = 0; k < nd; ++k) {
		int a = 0; int b = 0; int c = 0; int cmb = 0;
		PMPI_Type_get_envelope(dd[static_cast<std::size_t>(k)], &a, &b, &c, &cmb);
		if(cmb != MPI_COMBINER_NAMED) { PMPI_Type_free(&dd[static_cast<std::size_t>(k)]); }
	}
	if(comb == MPI_COMBINER_HVECTOR) {
		os << "H(" << ii[0] << ',' << ii[1] << ',' << static_cast<long>(aa[0]) << ',' << inner << ')';
	} else if(comb == MPI_COMBINER_VECTOR) {
		os << "V(" << ii[0] << ',' << ii[1] << ',' << ii[2] << ',' << inner << ')';
	} else if(comb == MPI_COMBINER_RESIZED) {
		os << "R(" << static_cast<long>(aa[0]) << ',' << static_cast<long>(aa[1]) << ',' << inner << ')';
	} else if(comb == MPI_COMBINER_DUP) {
		os << "D(" << inner << ')';
	} else {
		os << "?comb" << comb << '(' << inner << ')';
	}
	return os.str();
}

template<class It> std::string csv(It first, It last) {
	if(first == last) { return "-"; }
	return dv::join(first, last);
}

// all index tuples of a zero-based view in canonical order (last index fastest)
void canon(std::vector<idx_t> const& sizes, std::function<void(std::vector<idx_t> const&)> const& f) {
	std::vector<idx_t> idx(sizes.size(), 0);
	for(auto s : sizes) { if(s <= 0) { return; } }
	while(true) {
		f(idx);
		std::size_t k = sizes.size();
		while(k > 0) {
			--k;
			if(++idx[k] < sizes[k]) { break; }
			idx[k] = 0;
			if(k == 0) { return; }
		}
		if(sizes.empty()) { return; }
	}
}

// obtains (buffer, count, datatype) from mpi.hpp in the requested way and calls use() while the owner is alive
template<class T, class V, class Use> void with_triple(std::string const& mode, V& v, Use&& use) {
	constexpr int D = V::rank_v;
	void* base = const_cast<void*>(static_cast<void const*>(v.base()));  // NOLINT
	if(mode == "message") {
		multi::mpi::message msg(v.elements());
		use(msg.buffer(), msg.count(), msg.datatype());
	} else if(mode == "skeleton") {
		multi::mpi::skeleton<T> sk(v.layout());
		use(base, sk.count(), sk.datatype());
	} else if(mode == "move") {
		multi::mpi::skeleton<> sk(v.layout(), mpi_t<T>());
		multi::mpi::message<> msg(base, std::move(sk));
		use(msg.buffer(), msg.count(), msg.datatype());
	} else if(mode == "release") {
		multi::mpi::skeleton<> sk(v.layout(), mpi_t<T>());
		auto const cnt = sk.count();
		MPI_Datatype t = std::move(sk).datatype();
		use(base, cnt, t);
		MPI_Type_free(&t);
	} else if(mode == "subarray") {
		MPI_Datatype t;  // NOLINT
		multi::mpi::create_subarray(v.layout(), mpi_t<T>(), &t);
		MPI_Type_commit(&t);
		use(base, 1, t);
		MPI_Type_free(&t);
	} else if(mode == "aux") {
		MPI_Datatype t;  // NOLINT
		multi::mpi::create_subarray_aux(v.layout(), static_cast<int>(v.size()), mpi_t<T>(), &t);
		MPI_Type_commit(&t);
		use(base, 1, t);
		MPI_Type_free(&t);
	} else if(mode == "data") {
		if constexpr(D == 1) {
			multi::mpi::data dat(v.begin());
			use(dat.buffer(), static_cast<int>(v.size()), dat.datatype());
		} else {
			throw dv::unsupported("data mode on rank > 1");
		}
	} else {
		throw dv::unsupported("mode " + mode);
	}
}

void describe(std::string const& id, char side, int count, MPI_Datatype t) {
	std::cout << "T " << id << ' ' << side << ' ' << decode(t) << '\n';
	std::cout << "C " << id << ' ' << side << " count=" << count << '\n';
	MPI_Aint lb = 0; MPI_Aint ext = 0; MPI_Aint tlb = 0; MPI_Aint text = 0;
	int size = 0;
	PMPI_Type_get_extent(t, &lb, &ext);
	PMPI_Type_size(t, &size);
	PMPI_Type_get_true_extent(t, &tlb, &text);
	std::cout << "X " << id << ' ' << side << " lb=" << static_cast<long>(lb) << " ext=" << static_cast<long>(ext) << " size=" << size;
	if(size == 0) { std::cout << " tlb=* text=*\n"; } else { std::cout << " tlb=" << static_cast<long>(tlb) << " text=" << static_cast<long>(text) << '\n'; }
}

template<class T> void view_lines(std::string const& id, char side, Root<T>& root, bool addresses) {
	auto& b = *root.view;
	std::vector<long long> vals;
	if(b.num_elements() > 0) {  // flat iteration of a view with a zero inner extent divides by zero (separate defect)
		visit<T>(b, [&](auto& v) {
			for(auto const& e : v.elements()) { vals.push_back(static_cast<long long>(e)); }
		});
	}
	std::cout << (side == 'r' && !addresses ? "V " : "F ") << id << ' ' << side << ' ' << csv(vals.begin(), vals.end()) << '\n';
	if(addresses) {
		std::vector<long long> ad;
		canon(b.sizes(), [&](std::vector<idx_t> const& idx) { ad.push_back(b.at_brackets(idx) - root.data()); });
		std::cout << "I " << id << ' ' << side << ' ' << csv(ad.begin(), ad.end()) << '\n';
	}
}

template<class T> void run_case(std::string const& id, SideSpec const& ss, SideSpec const& rs) {
	Root<T> sroot;
	Root<T> rroot;
	make_root_dyn<T>(sroot, ss, false);
	make_root_dyn<T>(rroot, rs, true);
	for(auto const& op : ss.ops) { auto nv = sroot.view->apply(op); sroot.view = std::move(nv); }
	for(auto const& op : rs.ops) { auto nv = rroot.view->apply(op); rroot.view = std::move(nv); }

	view_lines<T>(id, 's', sroot, true);
	view_lines<T>(id, 'r', rroot, true);

	std::vector<char> packed;
	int pos = 0;
	// ---- send side ----
	c18log::begin();
	visit<T>(*sroot.view, [&](auto& v) {
		with_triple<T>(ss.mode, v, [&](void* buf, int count, MPI_Datatype t) {
			describe(id, 's', count, t);
			int psize = 0;
			PMPI_Pack_size(count, t, MPI_COMM_SELF, &psize);
			packed.assign(static_cast<std::size_t>(psize) + 64, static_cast<char>(0x5A));
			MPI_Pack(buf, count, t, packed.data(), static_cast<int>(packed.size()), &pos, MPI_COMM_SELF);
		});
	});
	std::string const slog = c18log::take();
	{
		std::vector<long long> vals;
		for(int k = 0; k + static_cast<int>(sizeof(T)) <= pos; k += static_cast<int>(sizeof(T))) {
			T x;
			std::memcpy(&x, packed.data() + k, sizeof(T));
			vals.push_back(static_cast<long long>(x));
		}
		std::cout << "K " << id << " s " << csv(vals.begin(), vals.end()) << " pos=" << pos << '\n';
	}
	std::cout << "L " << id << " s " << slog << '\n';
	// ---- receive side ----
	c18log::begin();
	visit<T>(*rroot.view, [&](auto& w) {
		with_triple<T>(rs.mode, w, [&](void* buf, int count, MPI_Datatype t) {
			describe(id, 'r', count, t);
			int p2 = 0;
			MPI_Unpack(packed.data(), pos, &p2, buf, count, t, MPI_COMM_SELF);
		});
	});
	std::string const rlog = c18log::take();
	std::cout << "L " << id << " r " << rlog << '\n';
	{
		std::vector<long long> all;
		for(idx_t k = 0; k != rroot.n; ++k) { all.push_back(static_cast<long long>(rroot.data()[k])); }
		std::cout << "U " << id << ' ' << csv(all.begin(), all.end()) << '\n';
	}
	view_lines<T>(id, 'r', rroot, false);
	std::cout << "G " << id << " send=" << (guards_ok(sroot) ? 1 : 0) << " recv=" << (guards_ok(rroot) ? 1 : 0) << '\n';
}

}  // namespace

// A mutated library can make MPI read or write far outside the buffers, pass an uncommitted or freed
// datatype, or loop: leave at once with a distinctive status (Open MPI's own handlers print backtraces
// and can block in a singleton), so that the crash is attributed to the case and the shard continues.
extern "C" void c18_die_on_signal(int sig) { _exit(128 + sig); }
extern "C" void c18_mpi_error(MPI_Comm* /*comm*/, int* code, ...) {
	char msg[MPI_MAX_ERROR_STRING];
	int len = 0;
	PMPI_Error_string(*code, msg, &len);
	std::cerr << "MPI error: " << std::string(msg, static_cast<std::size_t>(len)) << std::endl;
	_exit(70);
}

int main() {
	MPI_Init(nullptr, nullptr);
	{
		MPI_Errhandler eh;  // NOLINT
		MPI_Comm_create_errhandler(c18_mpi_error, &eh);
		MPI_Comm_set_errhandler(MPI_COMM_WORLD, eh);
		MPI_Comm_set_errhandler(MPI_COMM_SELF, eh);
		for(int sig : {SIGSEGV, SIGBUS, SIGFPE, SIGABRT, SIGILL, SIGALRM}) { std::signal(sig, c18_die_on_signal); }
	}
	std::string line;
	std::string id;
	std::string elem = "int";
	SideSpec ss;
	SideSpec rs;
	while(std::getline(std::cin, line)) {
		if(line.empty() || line[0] == '#') { continue; }
		std::istringstream is(line);
		std::string kw;
		is >> kw;
		if(kw == "case") {
			is >> id;
			elem = "int";
			ss = SideSpec{};
			rs = SideSpec{};
		} else if(kw == "elem") {
			is >> elem;
		} else if(kw == "smode") {
			is >> ss.mode;
		} else if(kw == "rmode") {
			is >> rs.mode;
		} else if(kw == "sroot" || kw == "rroot") {
			auto& s = (kw == "sroot") ? ss : rs;
			is >> s.D;
			s.ext.assign(static_cast<std::size_t>(s.D), {});
			for(auto& p : s.ext) { is >> p.first >> p.second; }
		} else if(kw == "sop") {
			ss.ops.push_back(dv::parse_op(is));
		} else if(kw == "rop") {
			rs.ops.push_back(dv::parse_op(is));
		} else if(kw == "end") {
			alarm(20);
			try {
				if(elem == "int") { run_case<int>(id, ss, rs); }
				else if(elem == "float") { run_case<float>(id, ss, rs); }
				else if(elem == "double") { run_case<double>(id, ss, rs); }
				else { throw dv::unsupported("element type " + elem); }
			} catch(dv::unsupported const& u) {
				std::cout << "Z " << id << " unsupported " << u.what() << '\n';
			}
			alarm(0);
			std::cout << "E " << id << '\n' << std::flush;
		}
	}
	MPI_Finalize();
	return 0;
}

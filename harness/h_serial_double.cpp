// h_serial: instantiations for element type double
#include "h_serial_impl.hpp"
void run_case_double(Case const& c, std::ostream& out) { hs::run_case_t<double>(c, out); }

// C13 interposers: this translation unit DEFINES the Fortran BLAS symbols the adaptor calls
// (core.hpp declares them with reference parameters; pointer parameters are ABI-identical), logs every
// call, applies the reference-BLAS argument checks itself (OpenBLAS' xerbla only prints and returns), and
// forwards legal calls to the real routine taken from libopenblas with dlopen/dlsym (RTLD_NEXT is null
// because the linker drops libopenblas under --as-needed once the executable defines the symbols).
// The integer type of the adaptor is 64-bit on this platform (MULTI_BLAS_INT = __INTPTR_WIDTH__) while
// libopenblas is LP64; the adaptor passes references to 64-bit values of which the routine reads the low
// 32 bits (little endian).  The interposer reads them the same way, as `int`.
#include "common/c13_log.h"

#include <dlfcn.h>

#include <cstdio>
#include <cstdlib>
#include <cstring>

namespace {
// the log lives in static storage, not on the heap: several defective dispatch branches make BLAS write outside a
// freshly constructed (heap) result, and the record of the call must survive that
constexpr int kMaxLog = 32;
c13_call g_log[kMaxLog];
int g_nlog = 0;

void* real_sym(char const* name) {
	static void* lib = nullptr;
	if(lib == nullptr) {
		lib = dlopen("libopenblas.so.0", RTLD_NOW | RTLD_LOCAL);
		if(lib == nullptr) { lib = dlopen("libopenblas.so", RTLD_NOW | RTLD_LOCAL); }
		if(lib == nullptr) { std::fprintf(stderr, "c13 interposer: cannot dlopen libopenblas: %s\n", dlerror()); std::_Exit(97); }
	}
	void* s = dlsym(lib, name);
	if(s == nullptr) { std::fprintf(stderr, "c13 interposer: no symbol %s\n", name); std::_Exit(97); }
	return s;
}

c13_call& push(char const* name, int esize) {
	c13_call& c = g_log[g_nlog < kMaxLog ? g_nlog : kMaxLog - 1];
	if(g_nlog < kMaxLog) { ++g_nlog; }
	std::memset(&c, 0, sizeof(c));
	std::strncpy(c.name, name, sizeof(c.name) - 1);
	c.esize = esize;
	return c;
}

template<class T> void put_scalar(double (&d)[2], T const* p, bool is_complex) {
	d[0] = static_cast<double>(p[0]);
	d[1] = is_complex ? static_cast<double>(p[1]) : 0.0;
}

bool is_ntc(char c) { return c == 'N' || c == 'n' || c == 'T' || c == 't' || c == 'C' || c == 'c'; }
bool is_nn(char c) { return c == 'N' || c == 'n'; }
long max1(long a) { return a > 1 ? a : 1; }

int gemm_info(char ta, char tb, long m, long n, long k, long lda, long ldb, long ldc) {
	if(!is_ntc(ta)) { return 1; }
	if(!is_ntc(tb)) { return 2; }
	if(m < 0) { return 3; }
	if(n < 0) { return 4; }
	if(k < 0) { return 5; }
	if(lda < max1(is_nn(ta) ? m : k)) { return 8; }
	if(ldb < max1(is_nn(tb) ? k : n)) { return 10; }
	if(ldc < max1(m)) { return 13; }
	return 0;
}
int gemv_info(char t, long m, long n, long lda, long incx, long incy) {
	if(!is_ntc(t)) { return 1; }
	if(m < 0) { return 2; }
	if(n < 0) { return 3; }
	if(lda < max1(m)) { return 6; }
	if(incx == 0) { return 8; }
	if(incy == 0) { return 11; }
	return 0;
}
}  // namespace

extern "C" {
void c13_warmup(void) { (void)real_sym("dgemm_"); }
void c13_log_clear(void) { g_nlog = 0; }
int c13_log_size(void) { return g_nlog; }
const c13_call* c13_log_get(int k) { return &g_log[k]; }

// ---------------------------------------------------------------------------------------------- level 3
#define C13_GEMM(P, T, CPLX)                                                                                                          \
	void P##gemm_(char const* ta, char const* tb, int const* m, int const* n, int const* k, T const* alpha, T const* a, int const* lda, \
	              T const* b, int const* ldb, T const* beta, T* c, int const* ldc) {                                                    \
		using fn_t = void (*)(char const*, char const*, int const*, int const*, int const*, T const*, T const*, int const*, T const*,   \
		                      int const*, T const*, T*, int const*);                                                                    \
		static fn_t real = reinterpret_cast<fn_t>(real_sym(#P "gemm_"));                                                                \
		c13_call& r = push(#P "gemm", static_cast<int>(sizeof(T)) * ((CPLX) ? 2 : 1));                                                   \
		r.ch[0] = *ta; r.ch[1] = *tb;                                                                                                    \
		r.iv[0] = *m; r.iv[1] = *n; r.iv[2] = *k; r.iv[3] = *lda; r.iv[4] = *ldb; r.iv[5] = *ldc;                                        \
		r.pv[0] = a; r.pv[1] = b; r.pv[2] = c;                                                                                          \
		put_scalar(r.sc[0], alpha, CPLX); put_scalar(r.sc[1], beta, CPLX);                                                              \
		r.info = gemm_info(*ta, *tb, *m, *n, *k, *lda, *ldb, *ldc);                                                                     \
		if(r.info == 0) { r.forwarded = 1; real(ta, tb, m, n, k, alpha, a, lda, b, ldb, beta, c, ldc); }                                \
	}
C13_GEMM(s, float, false)
C13_GEMM(d, double, false)
C13_GEMM(c, float, true)
C13_GEMM(z, double, true)

// ---------------------------------------------------------------------------------------------- level 2
#define C13_GEMV(P, T, CPLX)                                                                                                          \
	void P##gemv_(char const* t, int const* m, int const* n, T const* alpha, T const* a, int const* lda, T const* x, int const* incx,   \
	              T const* beta, T* y, int const* incy) {                                                                               \
		using fn_t = void (*)(char const*, int const*, int const*, T const*, T const*, int const*, T const*, int const*, T const*, T*,  \
		                      int const*);                                                                                              \
		static fn_t real = reinterpret_cast<fn_t>(real_sym(#P "gemv_"));                                                                \
		c13_call& r = push(#P "gemv", static_cast<int>(sizeof(T)) * ((CPLX) ? 2 : 1));                                                   \
		r.ch[0] = *t;                                                                                                                   \
		r.iv[0] = *m; r.iv[1] = *n; r.iv[2] = *lda; r.iv[3] = *incx; r.iv[4] = *incy;                                                    \
		r.pv[0] = a; r.pv[1] = x; r.pv[2] = y;                                                                                          \
		put_scalar(r.sc[0], alpha, CPLX); put_scalar(r.sc[1], beta, CPLX);                                                              \
		r.info = gemv_info(*t, *m, *n, *lda, *incx, *incy);                                                                             \
		if(r.info == 0) { r.forwarded = 1; real(t, m, n, alpha, a, lda, x, incx, beta, y, incy); }                                      \
	}
C13_GEMV(s, float, false)
C13_GEMV(d, double, false)
C13_GEMV(c, float, true)
C13_GEMV(z, double, true)

// ---------------------------------------------------------------------------------------------- level 1
// two-vector routines without a scalar: swap, copy
#define C13_XY(P, NAME, T, CPLX, CONSTX)                                                                                              \
	void P##NAME##_(int const* n, CONSTX T* x, int const* incx, T* y, int const* incy) {                                                \
		using fn_t = void (*)(int const*, CONSTX T*, int const*, T*, int const*);                                                       \
		static fn_t real = reinterpret_cast<fn_t>(real_sym(#P #NAME "_"));                                                              \
		c13_call& r = push(#P #NAME, static_cast<int>(sizeof(T)) * ((CPLX) ? 2 : 1));                                                    \
		r.iv[0] = *n; r.iv[1] = *incx; r.iv[2] = *incy; r.pv[0] = x; r.pv[1] = y;                                                        \
		r.forwarded = 1; real(n, x, incx, y, incy);                                                                                     \
	}
C13_XY(s, swap, float, false, )
C13_XY(d, swap, double, false, )
C13_XY(c, swap, float, true, )
C13_XY(z, swap, double, true, )
C13_XY(s, copy, float, false, const)
C13_XY(d, copy, double, false, const)
C13_XY(c, copy, float, true, const)
C13_XY(z, copy, double, true, const)

#define C13_AXPY(P, T, CPLX)                                                                                                          \
	void P##axpy_(int const* n, T const* alpha, T const* x, int const* incx, T* y, int const* incy) {                                   \
		using fn_t = void (*)(int const*, T const*, T const*, int const*, T*, int const*);                                              \
		static fn_t real = reinterpret_cast<fn_t>(real_sym(#P "axpy_"));                                                                \
		c13_call& r = push(#P "axpy", static_cast<int>(sizeof(T)) * ((CPLX) ? 2 : 1));                                                   \
		r.iv[0] = *n; r.iv[1] = *incx; r.iv[2] = *incy; r.pv[0] = x; r.pv[1] = y;                                                        \
		put_scalar(r.sc[0], alpha, CPLX);                                                                                               \
		r.forwarded = 1; real(n, alpha, x, incx, y, incy);                                                                              \
	}
C13_AXPY(s, float, false)
C13_AXPY(d, double, false)
C13_AXPY(c, float, true)
C13_AXPY(z, double, true)

#define C13_SCAL(P, T, CPLX)                                                                                                          \
	void P##scal_(int const* n, T const* alpha, T* x, int const* incx) {                                                                \
		using fn_t = void (*)(int const*, T const*, T*, int const*);                                                                    \
		static fn_t real = reinterpret_cast<fn_t>(real_sym(#P "scal_"));                                                                \
		c13_call& r = push(#P "scal", static_cast<int>(sizeof(T)) * ((CPLX) ? 2 : 1));                                                   \
		r.iv[0] = *n; r.iv[1] = *incx; r.pv[0] = x;                                                                                     \
		put_scalar(r.sc[0], alpha, CPLX);                                                                                               \
		r.forwarded = 1; real(n, alpha, x, incx);                                                                                       \
	}
C13_SCAL(s, float, false)
C13_SCAL(d, double, false)
C13_SCAL(c, float, true)
C13_SCAL(z, double, true)

// reductions returning a real: nrm2, asum;  an index: iamax
#define C13_RED(RET, FULL, T, CPLX)                                                                                                   \
	RET FULL##_(int const* n, T const* x, int const* incx) {                                                                            \
		using fn_t = RET (*)(int const*, T const*, int const*);                                                                         \
		static fn_t real = reinterpret_cast<fn_t>(real_sym(#FULL "_"));                                                                 \
		c13_call& r = push(#FULL, static_cast<int>(sizeof(T)) * ((CPLX) ? 2 : 1));                                                       \
		r.iv[0] = *n; r.iv[1] = *incx; r.pv[0] = x;                                                                                     \
		r.forwarded = 1; return real(n, x, incx);                                                                                       \
	}
C13_RED(float, snrm2, float, false)
C13_RED(double, dnrm2, double, false)
C13_RED(float, scnrm2, float, true)
C13_RED(double, dznrm2, double, true)
C13_RED(float, sasum, float, false)
C13_RED(double, dasum, double, false)
C13_RED(float, scasum, float, true)
C13_RED(double, dzasum, double, true)
C13_RED(int, isamax, float, false)
C13_RED(int, idamax, double, false)
C13_RED(int, icamax, float, true)
C13_RED(int, izamax, double, true)

// dot products.  Real: value return.  Complex: returned by value as a two-member struct (gfortran convention on x86-64)
#define C13_DOT(RET, FULL, T)                                                                                                         \
	RET FULL##_(int const* n, T const* x, int const* incx, T const* y, int const* incy) {                                               \
		using fn_t = RET (*)(int const*, T const*, int const*, T const*, int const*);                                                   \
		static fn_t real = reinterpret_cast<fn_t>(real_sym(#FULL "_"));                                                                 \
		c13_call& r = push(#FULL, static_cast<int>(sizeof(T)));                                                                          \
		r.iv[0] = *n; r.iv[1] = *incx; r.iv[2] = *incy; r.pv[0] = x; r.pv[1] = y;                                                        \
		r.forwarded = 1; return real(n, x, incx, y, incy);                                                                              \
	}
C13_DOT(float, sdot, float)
C13_DOT(double, ddot, double)
struct c13_cf { float re, im; };
struct c13_cd { double re, im; };
#define C13_CDOT(RET, FULL, T)                                                                                                        \
	RET FULL##_(int const* n, T const* x, int const* incx, T const* y, int const* incy) {                                               \
		using fn_t = RET (*)(int const*, T const*, int const*, T const*, int const*);                                                   \
		static fn_t real = reinterpret_cast<fn_t>(real_sym(#FULL "_"));                                                                 \
		c13_call& r = push(#FULL, static_cast<int>(sizeof(T)) * 2);                                                                      \
		r.iv[0] = *n; r.iv[1] = *incx; r.iv[2] = *incy; r.pv[0] = x; r.pv[1] = y;                                                        \
		r.forwarded = 1; return real(n, x, incx, y, incy);                                                                              \
	}
C13_CDOT(c13_cf, cdotu, float)
C13_CDOT(c13_cf, cdotc, float)
C13_CDOT(c13_cd, zdotu, double)
C13_CDOT(c13_cd, zdotc, double)
// ---------------------------------------------------------------------------------------------- syrk / herk / trsm
static int rk_info(char uplo, char t, long n, long k, long lda, long ldc) {
	if(!(uplo == 'U' || uplo == 'u' || uplo == 'L' || uplo == 'l')) { return 1; }
	if(!is_ntc(t)) { return 2; }
	if(n < 0) { return 3; }
	if(k < 0) { return 4; }
	if(lda < max1(is_nn(t) ? n : k)) { return 7; }
	if(ldc < max1(n)) { return 10; }
	return 0;
}
static int trsm_info(char side, char uplo, char t, char diag, long m, long n, long lda, long ldb) {
	bool const left = (side == 'L' || side == 'l');
	if(!(left || side == 'R' || side == 'r')) { return 1; }
	if(!(uplo == 'U' || uplo == 'u' || uplo == 'L' || uplo == 'l')) { return 2; }
	if(!is_ntc(t)) { return 3; }
	if(!(diag == 'U' || diag == 'u' || diag == 'N' || diag == 'n')) { return 4; }
	if(m < 0) { return 5; }
	if(n < 0) { return 6; }
	if(lda < max1(left ? m : n)) { return 9; }
	if(ldb < max1(m)) { return 11; }
	return 0;
}
// TS = type of the scalars (real for herk), SC = scalars are complex
#define C13_RK(FULL, T, CPLX, TS, SC)                                                                                                 \
	void FULL##_(char const* uplo, char const* t, int const* n, int const* k, TS const* alpha, T const* a, int const* lda,              \
	             TS const* beta, T* c, int const* ldc) {                                                                                \
		using fn_t = void (*)(char const*, char const*, int const*, int const*, TS const*, T const*, int const*, TS const*, T*, int const*); \
		static fn_t real = reinterpret_cast<fn_t>(real_sym(#FULL "_"));                                                                 \
		c13_call& r = push(#FULL, static_cast<int>(sizeof(T)) * ((CPLX) ? 2 : 1));                                                       \
		r.ch[0] = *uplo; r.ch[1] = *t;                                                                                                  \
		r.iv[0] = *n; r.iv[1] = *k; r.iv[2] = *lda; r.iv[3] = *ldc;                                                                      \
		r.pv[0] = a; r.pv[1] = c;                                                                                                       \
		put_scalar(r.sc[0], alpha, SC); put_scalar(r.sc[1], beta, SC);                                                                  \
		r.info = rk_info(*uplo, *t, *n, *k, *lda, *ldc);                                                                                \
		if(r.info == 0) { r.forwarded = 1; real(uplo, t, n, k, alpha, a, lda, beta, c, ldc); }                                          \
	}
C13_RK(ssyrk, float, false, float, false)
C13_RK(dsyrk, double, false, double, false)
C13_RK(csyrk, float, true, float, true)
C13_RK(zsyrk, double, true, double, true)
C13_RK(cherk, float, true, float, false)
C13_RK(zherk, double, true, double, false)

#define C13_TRSM(P, T, CPLX)                                                                                                          \
	void P##trsm_(char const* side, char const* uplo, char const* t, char const* diag, int const* m, int const* n, T const* alpha,      \
	              T const* a, int const* lda, T* b, int const* ldb) {                                                                   \
		using fn_t = void (*)(char const*, char const*, char const*, char const*, int const*, int const*, T const*, T const*,           \
		                      int const*, T*, int const*);                                                                              \
		static fn_t real = reinterpret_cast<fn_t>(real_sym(#P "trsm_"));                                                                \
		c13_call& r = push(#P "trsm", static_cast<int>(sizeof(T)) * ((CPLX) ? 2 : 1));                                                   \
		r.ch[0] = *side; r.ch[1] = *uplo; r.ch[2] = *t; r.ch[3] = *diag;                                                                \
		r.iv[0] = *m; r.iv[1] = *n; r.iv[2] = *lda; r.iv[3] = *ldb;                                                                      \
		r.pv[0] = a; r.pv[1] = b;                                                                                                       \
		put_scalar(r.sc[0], alpha, CPLX);                                                                                               \
		r.info = trsm_info(*side, *uplo, *t, *diag, *m, *n, *lda, *ldb);                                                                \
		if(r.info == 0) { r.forwarded = 1; real(side, uplo, t, diag, m, n, alpha, a, lda, b, ldb); }                                    \
	}
C13_TRSM(s, float, false)
C13_TRSM(d, double, false)
C13_TRSM(c, float, true)
C13_TRSM(z, double, true)
}  // extern "C"

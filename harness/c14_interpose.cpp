// C14: interposition of the four LAPACK entry points the adaptor calls.  The harness executable
// itself defines dpotrf_, dgeqrf_, dgesvd_, dsyev_; each logs its arguments, evaluates the
// reference-LAPACK argument checks (OpenBLAS's xerbla only prints), and forwards to the real
// routine obtained with dlopen/dlsym (RTLD_NEXT is null because --as-needed drops the library
// once the executable defines the symbols).  Library: $C14_LAPACK_LIB or libopenblas.so.0, then
// liblapack.so.3.
#include "common/c14_log.hpp"

#include <dlfcn.h>

#include <algorithm>
#include <cstddef>
#include <cstdio>
#include <cstdlib>
#include <vector>

namespace {
std::vector<c14_rec>& the_log() { static std::vector<c14_rec> v; return v; }

void* lib() {
	static void* h = nullptr;
	if(h == nullptr) {
		char const* names[] = {std::getenv("C14_LAPACK_LIB"), "libopenblas.so.0", "liblapack.so.3", "libopenblas.so", "liblapack.so"};
		for(char const* nm : names) {
			if(nm == nullptr) { continue; }
			h = dlopen(nm, RTLD_NOW | RTLD_LOCAL);
			if(h != nullptr) { break; }
		}
		if(h == nullptr) { std::fprintf(stderr, "c14_interpose: cannot dlopen a LAPACK library: %s\n", dlerror()); std::abort(); }
	}
	return h;
}
template<class F> F sym(char const* name) {
	void* p = dlsym(lib(), name);
	if(p == nullptr) { std::fprintf(stderr, "c14_interpose: no symbol %s\n", name); std::abort(); }
	return reinterpret_cast<F>(p);  // NOLINT
}
c14_rec blank(int kind) {
	c14_rec r{};
	r.kind = kind; r.c1 = '-'; r.c2 = '-';
	return r;
}
}  // namespace

extern "C" {

void c14_log_clear() { the_log().clear(); }
int c14_log_size() { return static_cast<int>(the_log().size()); }
c14_rec const* c14_log_at(int k) { return &the_log()[static_cast<std::size_t>(k)]; }
void c14_log_push(c14_rec const* r) { the_log().push_back(*r); }

void dpotrf_(char const* uplo, int const* n, double* a, int const* lda, int* info) {
	using fn = void (*)(char const*, int const*, double*, int const*, int*, std::size_t);
	static fn real = sym<fn>("dpotrf_");
	c14_rec r = blank(0);
	r.c1 = *uplo; r.n = *n; r.lda = *lda; r.a = a;
	r.legal = ((*uplo == 'U' || *uplo == 'L') && *n >= 0 && *lda >= std::max(1, *n)) ? 1 : 0;
	real(uplo, n, a, lda, info, 1);
	r.info = *info;
	the_log().push_back(r);
}

void dgeqrf_(int const* m, int const* n, double* a, int const* lda, double* tau, double* work, int const* lwork, int* info) {
	using fn = void (*)(int const*, int const*, double*, int const*, double*, double*, int const*, int*);
	static fn real = sym<fn>("dgeqrf_");
	c14_rec r = blank(1);
	r.m = *m; r.n = *n; r.lda = *lda; r.a = a; r.tau = tau; r.work = work; r.lwork = *lwork;
	r.legal = (*m >= 0 && *n >= 0 && *lda >= std::max(1, *m) && (*lwork == -1 || *lwork >= std::max(1, *n))) ? 1 : 0;
	real(m, n, a, lda, tau, work, lwork, info);
	r.info = *info; r.work0 = work[0];
	the_log().push_back(r);
}

void dgesvd_(char const* jobu, char const* jobvt, int const* m, int const* n, double* a, int const* lda, double* s,
             double* u, int const* ldu, double* vt, int const* ldvt, double* work, int const* lwork, int* info) {
	using fn = void (*)(char const*, char const*, int const*, int const*, double*, int const*, double*, double*, int const*,
	                    double*, int const*, double*, int const*, int*, std::size_t, std::size_t);
	static fn real = sym<fn>("dgesvd_");
	c14_rec r = blank(2);
	r.c1 = *jobu; r.c2 = *jobvt; r.m = *m; r.n = *n; r.a = a; r.lda = *lda; r.s = s; r.u = u; r.ldu = *ldu; r.vt = vt; r.ldvt = *ldvt;
	r.work = work; r.lwork = *lwork;
	int const mn = std::min(*m, *n), mx = std::max(*m, *n);
	int const minwork = std::max(1, std::max(3 * mn + mx, 5 * mn));
	bool const wantua = (*jobu == 'A'), wantvta = (*jobvt == 'A');
	r.legal = (wantua && wantvta && *m >= 0 && *n >= 0 && *lda >= std::max(1, *m) && *ldu >= std::max(1, *m) &&
	           *ldvt >= std::max(1, *n) && (*lwork == -1 || *lwork >= minwork)) ? 1 : 0;
	real(jobu, jobvt, m, n, a, lda, s, u, ldu, vt, ldvt, work, lwork, info, 1, 1);
	r.info = *info; r.work0 = work[0];
	the_log().push_back(r);
}

void dsyev_(char const* jobz, char const* uplo, int const* n, double* a, int const* lda, double* w, double* work,
            int const* lwork, int* info) {
	using fn = void (*)(char const*, char const*, int const*, double*, int const*, double*, double*, int const*, int*,
	                    std::size_t, std::size_t);
	static fn real = sym<fn>("dsyev_");
	c14_rec r = blank(3);
	r.c1 = *jobz; r.c2 = *uplo; r.n = *n; r.a = a; r.lda = *lda; r.w = w; r.work = work; r.lwork = *lwork;
	r.legal = ((*jobz == 'V') && (*uplo == 'U' || *uplo == 'L') && *n >= 0 && *lda >= std::max(1, *n) &&
	           *lwork >= std::max(1, 3 * *n - 1)) ? 1 : 0;
	real(jobz, uplo, n, a, lda, w, work, lwork, info, 1, 1);
	r.info = *info; r.work0 = work[0];
	the_log().push_back(r);
}

void c14_real_dorgqr(int m, int n, int k, double* a, int lda, double const* tau, double* work, int lwork, int* info) {
	using fn = void (*)(int const*, int const*, int const*, double*, int const*, double const*, double*, int const*, int*);
	static fn real = sym<fn>("dorgqr_");
	real(&m, &n, &k, a, &lda, tau, work, &lwork, info);
}

}  // extern "C"

// C12 compile-time probe (syntax only): an array of an element type that is only EXPLICITLY constructible from the
// source's element type (and not assignable from it), constructed from a VIEW.  The explicit constructor
// static_array(const_subarray<TT,D,...> const&) (array.hpp) exists for exactly this case but delegates to
// static_array(const_subarray const&, allocator const&), which is constrained on std::is_assignable although it
// only constructs (uninitialized_copy): hard error inside the delegating constructor.  From an array or array_ref
// of the same element type the same conversion compiles.  (For rank 1 the constructor is not offered at all: its
// second constraint, decltype(adl_copy(first, last, iterator)), is not satisfiable -- is_constructible is false, no hard error.)
#include <boost/multi/array.hpp>
#include <memory>
namespace multi = boost::multi;
struct meters { explicit meters(int v) : value{v} {} int value; };
int probe() {
	multi::array<int, 2> A({3, 4});
	multi::array<meters, 2> from_array(A);                                     // compiles at the pinned commit
	multi::array<meters, 2> from_view(A());                                    // does not
	multi::array<meters, 2> from_block(A({0, 2}, {1, 3}), std::allocator<meters>{});
	return from_array[1][1].value + from_view[1][1].value + from_block[1][1].value;
}

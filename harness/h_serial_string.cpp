// h_serial: instantiations for element type std::string
#include "h_serial_impl.hpp"
void run_case_string(Case const& c, std::ostream& out) { hs::run_case_t<std::string>(c, out); }

// h_views: runs view programs on the real library and prints API-level observables.
// Input (stdin):   case <id> / root <D> f0 l0 f1 l1 ... / op <name> args / probe i j k / end
// Output (stdout): S lines (shape after root and after every op) and P lines (one per probe).
#include "common/viewprog.hpp"

int main() {
	std::string line;
	std::string id;
	Root root;
	int step = 0;
	bool dead = false;  // after an unsupported op the rest of the case is skipped
	while(std::getline(std::cin, line)) {
		if(line.empty() || line[0] == '#') { continue; }
		std::istringstream is(line);
		std::string kw;
		is >> kw;
		try {
			if(kw == "case") {
				is >> id;
				step = 0;
				dead = false;
			} else if(kw == "root") {
				int D = 0;
				is >> D;
				std::vector<std::pair<idx_t, idx_t>> e(static_cast<std::size_t>(D));
				for(auto& p : e) { is >> p.first >> p.second; }
				root = make_root_dyn(D, e);
				print_shape(id, step, *root.view);
			} else if(kw == "op") {
				if(dead) { continue; }
				auto op = dv::parse_op(is);
				++step;
				auto nv = root.view->apply(op);
				root.view = std::move(nv);
				print_shape(id, step, *root.view);
			} else if(kw == "probe") {
				if(dead) { continue; }
				std::vector<idx_t> x;
				idx_t i = 0;
				while(is >> i) { x.push_back(i); }
				std::cout << "P " << id << ' ' << step << " idx=" << dv::join(x.begin(), x.end());
				auto ex = root.view->extensions();
				bool ok = (x.size() == ex.size());
				for(std::size_t k = 0; ok && k != x.size(); ++k) { ok = (ex[k].first <= x[k] && x[k] < ex[k].second); }
				if(!ok) { std::cout << " invalid\n"; continue; }
				int* b = root.view->at_brackets(x);
				int* c = root.view->at_call(x);
				int* t = root.view->at_tuple(x);
				int* h = root.view->at_cursor(x);
				auto rel = [&](int* p) { return p - root.data; };
				std::cout << " B=" << rel(b) << " C=" << rel(c) << " T=" << rel(t) << " H=" << rel(h);
				// the value is read only when the address lies inside the root array
				if(rel(b) >= 0 && rel(b) < root.n) { std::cout << " V=" << *b; } else { std::cout << " V=oob"; }
				std::cout << '\n';
			} else if(kw == "bprobe") {
				if(dead) { continue; }
				idx_t i = 0;
				is >> i;
				std::cout << "Q " << id << ' ' << step << " broadcasted i=" << i << " same=" << root.view->broadcast_same(i) << '\n';
			} else if(kw == "end") {
				std::cout << "E " << id << '\n';
			}
		} catch(dv::unsupported const& u) {
			std::cout << "U " << id << ' ' << step << ' ' << u.what() << '\n';
			dead = true;
		}
	}
	return 0;
}

// h_views: runs view programs on the real library and prints API-level observables.
// Input (stdin):   case <id> / root <D> f0 l0 f1 l1 ... / op <name> args / probe i j k / end
// Output (stdout): S lines (shape after root and after every op) and P lines (one per probe).
#include "common/dynview.hpp"

#include <cstdio>
#include <fstream>
#include <map>

using dv::idx_t;

template<int D, std::size_t... I>
auto make_ext(std::vector<std::pair<idx_t, idx_t>> const& e, std::index_sequence<I...> /*unused*/) {
	return multi::extensions_t<D>{multi::iextension{e[I].first, e[I].second}...};
}

struct Root {
	std::shared_ptr<void> keep;
	int* data = nullptr;
	idx_t n = 0;
	std::unique_ptr<dv::Base<int>> view;
};

template<int D> Root make_root(std::vector<std::pair<idx_t, idx_t>> const& e) {
	auto x = make_ext<D>(e, std::make_index_sequence<D>{});
	Root r;
	if(multi::layout_t<D>(x).num_elements() == 0) {
		// An empty owning array has a null data pointer, and slicing it at a non-zero index trips the
		// "it is UB to offset a nullptr" assertion (array_ref.hpp:1264), which is C20's business, not C01's:
		// empty roots are array_refs over a one-element buffer, same layout code, non-null base.
		auto buf = std::make_shared<std::vector<int>>(1, 0);
		multi::array_ref<int, D> ref(buf->data(), x);
		r.n = 0;
		r.data = buf->data();
		r.view = std::make_unique<dv::Holder<int, D>>(ref.layout(), ref.base());
		r.keep = buf;
		return r;
	}
	auto arr = std::make_shared<multi::array<int, D>>(x);
	r.n = arr->num_elements();
	r.data = arr->data_elements();
	for(idx_t k = 0; k != r.n; ++k) { r.data[k] = static_cast<int>(k); }  // value == address
	r.view = std::make_unique<dv::Holder<int, D>>(arr->layout(), arr->base());
	r.keep = arr;
	return r;
}

Root make_root_dyn(int D, std::vector<std::pair<idx_t, idx_t>> const& e) {
	switch(D) {
		case 1: return make_root<1>(e);
		case 2: return make_root<2>(e);
		case 3: return make_root<3>(e);
		case 4: return make_root<4>(e);
		case 5: return make_root<5>(e);
		default: throw dv::unsupported("root rank");
	}
}

static void print_shape(std::string const& id, int step, dv::Base<int>& v) {
	auto sz = v.sizes();
	auto st = v.strides();
	auto ex = v.extensions();
	std::cout << "S " << id << ' ' << step << " rank=" << v.rank() << " sizes=" << dv::join(sz.begin(), sz.end()) << " ext=";
	for(std::size_t k = 0; k != ex.size(); ++k) { std::cout << (k ? "," : "") << ex[k].first << ':' << ex[k].second; }
	std::cout << " strides=";
	for(std::size_t k = 0; k != st.size(); ++k) {
		// the stride of a dimension with fewer than two valid indices is not an observable of the property
		std::cout << (k ? "," : "");
		if(sz[k] >= 2) { std::cout << st[k]; } else { std::cout << '*'; }
	}
	std::cout << " nel=" << v.num_elements() << " size=" << v.size() << " empty=" << (v.is_empty() ? 1 : 0) << '\n';
}

int main() {
	std::string line;
	std::string id;
	Root root;
	int step = 0;
	bool dead = false;  // after an unsupported op the rest of the case is skipped
	while(std::getline(std::cin, line)) {
		if(line.empty() || line[0] == '#') { continue; }
		std::istringstream is(line);
		std::string kw;
		is >> kw;
		try {
			if(kw == "case") {
				is >> id;
				step = 0;
				dead = false;
			} else if(kw == "root") {
				int D = 0;
				is >> D;
				std::vector<std::pair<idx_t, idx_t>> e(static_cast<std::size_t>(D));
				for(auto& p : e) { is >> p.first >> p.second; }
				root = make_root_dyn(D, e);
				print_shape(id, step, *root.view);
			} else if(kw == "op") {
				if(dead) { continue; }
				auto op = dv::parse_op(is);
				++step;
				auto nv = root.view->apply(op);
				root.view = std::move(nv);
				print_shape(id, step, *root.view);
			} else if(kw == "probe") {
				if(dead) { continue; }
				std::vector<idx_t> x;
				idx_t i = 0;
				while(is >> i) { x.push_back(i); }
				std::cout << "P " << id << ' ' << step << " idx=" << dv::join(x.begin(), x.end());
				auto ex = root.view->extensions();
				bool ok = (x.size() == ex.size());
				for(std::size_t k = 0; ok && k != x.size(); ++k) { ok = (ex[k].first <= x[k] && x[k] < ex[k].second); }
				if(!ok) { std::cout << " invalid\n"; continue; }
				int* b = root.view->at_brackets(x);
				int* c = root.view->at_call(x);
				int* t = root.view->at_tuple(x);
				int* h = root.view->at_cursor(x);
				auto rel = [&](int* p) { return p - root.data; };
				std::cout << " B=" << rel(b) << " C=" << rel(c) << " T=" << rel(t) << " H=" << rel(h);
				// the value is read only when the address lies inside the root array
				if(rel(b) >= 0 && rel(b) < root.n) { std::cout << " V=" << *b; } else { std::cout << " V=oob"; }
				std::cout << '\n';
			} else if(kw == "end") {
				std::cout << "E " << id << '\n';
			}
		} catch(dv::unsupported const& u) {
			std::cout << "U " << id << ' ' << step << ' ' << u.what() << '\n';
			dead = true;
		}
	}
	return 0;
}

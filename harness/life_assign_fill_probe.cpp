// Compile-time probe (C06): array::assign(extensions, value) must be callable.
// At the pinned commit the member assigned the layout through an inaccessible base class and did not compile.
#include <boost/multi/array.hpp>
int main() {
	boost::multi::array<int, 2> a({2, 3}, 1);
	a.assign(boost::multi::extensions_t<2>{2, 2}, 5);
	return (a.num_elements() == 4 && a[1][1] == 5) ? 0 : 1;
}

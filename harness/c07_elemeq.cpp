// C07, element types whose == is not the identity on storage: (1) double arrays holding NaNs (a NaN is not equal to
// itself, so a view is NOT always equal to itself), (2) two element_transformed views of ONE array through function
// pointers of the same type but different value (same base pointer, same layout, same static type, different elements).
// Both defeat any shortcut of == on the identity of the operands (same base / same layout / same extensions).
// Output, one line per comparison, consumed by vlib/c07.py (which evaluates Model/CompareBy.v eq_flat_by on it in Coq):
//   E <id> <what> | f:l,f:l,... | f:l,... | codes of a, canonical order | codes of b | <a==b> <a!=b>
// A NaN is written as code 999; every other element is a small integer.
#include <boost/multi/array.hpp>

#include <cmath>
#include <cstdlib>
#include <iostream>
#include <limits>
#include <sstream>
#include <string>
#include <vector>

namespace multi = boost::multi;

namespace {
int next_id = 0;  // NOLINT

auto code(double x) -> long { return std::isnan(x) ? 999L : static_cast<long>(x); }
auto code(int x) -> long { return x; }

template<class V> void flat(V const& v, std::vector<long>& out) {
	if constexpr(V::rank_v == 1) {
		for(auto i : v.extension()) { out.push_back(code(static_cast<typename V::element>(v[i]))); }
	} else {
		for(auto i : v.extension()) { flat(v[i], out); }
	}
}
template<class V> void exts(V const& v, std::ostringstream& os) {
	os << v.extension().first() << ':' << v.extension().last();
	if constexpr(V::rank_v > 1) {
		os << ',';
		exts(*v.begin(), os);  // every case has non-empty leading dimensions when rank > 1
	}
}
template<class A, class B> void emit(std::string const& what, A const& a, B const& b) {
	std::ostringstream os;
	os << "E " << next_id++ << ' ' << what << " | ";
	exts(a, os);
	os << " | ";
	exts(b, os);
	os << " |";
	std::vector<long> fa, fb;
	flat(a, fa);
	flat(b, fb);
	for(auto x : fa) { os << ' ' << x; }
	os << " |";
	for(auto x : fb) { os << ' ' << x; }
	os << " | " << ((a == b) ? 1 : 0) << ' ' << ((a != b) ? 1 : 0);
	std::cout << os.str() << '\n';
}

template<class A, class B> void emit_el(std::string const& what, A const& a, B const& b) {  // elements() ranges
	std::ostringstream os;
	os << "E " << next_id++ << ' ' << what << " | 0:" << a.size() << " | 0:" << b.size() << " |";
	for(auto it = a.begin(); it != a.end(); ++it) { os << ' ' << code(*it); }
	os << " |";
	for(auto it = b.begin(); it != b.end(); ++it) { os << ' ' << code(*it); }
	os << " | " << ((a == b) ? 1 : 0) << ' ' << ((a != b) ? 1 : 0);
	std::cout << os.str() << '\n';
}

auto twice(int const& x) -> int { return 2 * x; }
auto negated(int const& x) -> int { return -x; }
auto same(int const& x) -> int { return x; }
auto absolute(int const& x) -> int { return x < 0 ? -x : x; }
using fun_t = int (*)(int const&);

unsigned long long rng_state = 1;  // NOLINT
auto rnd(int n) -> int {
	rng_state = rng_state * 6364136223846793005ULL + 1442695040888963407ULL;
	return static_cast<int>((rng_state >> 33U) % static_cast<unsigned>(n));
}

template<class Arr> void pairs2(std::string const& tag, Arr& A) {  // A: 2-D, non-empty
	auto const& cA = A;
	emit(tag + ":A==A", A, A);
	emit(tag + ":A()==A()", A(), A());
	emit(tag + ":cA()==cA()", cA(), cA());
	emit(tag + ":A()==cA()", A(), cA());
	emit(tag + ":A==A()", A, A());
	emit(tag + ":tr==tr", A.transposed(), A.transposed());
	emit(tag + ":row0==row0", A[0], A[0]);
	emit(tag + ":crow0==crow0", cA[0], cA[0]);
	emit(tag + ":col0==col0", A.rotated()[0], A.rotated()[0]);
	emit_el(tag + ":elements==elements", A().elements(), A().elements());
	emit_el(tag + ":tr.elements==tr.elements", A.transposed().elements(), A.transposed().elements());
	emit_el(tag + ":elements==tr.elements", A().elements(), A.transposed().elements());
	if(A.size() == A[0].size()) {  // same base, same extensions, different strides
		emit(tag + ":A()==tr", A(), A.transposed());
		emit(tag + ":cA()==ctr", cA(), cA.transposed());
		emit(tag + ":row0==col0", A[0], A.rotated()[0]);
		emit(tag + ":crow0==ccol0", cA[0], cA.rotated()[0]);
		emit(tag + ":diag==row0", A.diagonal(), A[0]);
	}
	if(A.size() >= 2) {
		emit(tag + ":sl==sl", A.sliced(0, A.size() - 1), A.sliced(0, A.size() - 1));
		emit(tag + ":sl==dropped", A.sliced(0, A.size() - 1), A.sliced(1, A.size()));
		emit(tag + ":row0==row1", A[0], A[1]);
		if(A.size() % 2 == 0) { emit(tag + ":st==st", A.strided(2), A.strided(2)); }
		emit(tag + ":crow0==crow1", cA[0], cA[1]);
	}
	auto B = A;  // an owning copy: bitwise the same elements in other storage
	emit(tag + ":A==copy", A, B);
	emit(tag + ":A()==copy()", A(), B());
	emit(tag + ":tr==copy.tr", A.transposed(), B.transposed());
}

template<class Arr> void pairs1(std::string const& tag, Arr& A) {  // A: 1-D
	auto const& cA = A;
	emit(tag + ":A==A", A, A);
	emit(tag + ":A()==A()", A(), A());
	emit(tag + ":cA()==cA()", cA(), cA());
	emit(tag + ":A==A()", A, A());
	if(A.size() >= 2) {
		emit(tag + ":sl==sl", A.sliced(0, A.size() - 1), A.sliced(0, A.size() - 1));
		emit(tag + ":sl==dropped", A.sliced(0, A.size() - 1), A.sliced(1, A.size()));
		emit(tag + ":csl==csl", cA.sliced(0, A.size() - 1), cA.sliced(0, A.size() - 1));
		emit(tag + ":rev==rev", A.reversed(), A.reversed());
		emit(tag + ":A()==rev", A(), A.reversed());
	}
	if(A.size() % 2 == 0 && A.size() > 0) { emit(tag + ":st==st", A.strided(2), A.strided(2)); }
	auto B = A;
	emit(tag + ":A==copy", A, B);
	emit(tag + ":A()==copy()", A(), B());
}
}  // namespace

auto main(int argc, char** argv) -> int {
	rng_state = (argc > 1) ? std::strtoull(argv[1], nullptr, 10) * 2654435761ULL + 1 : 1;
	double const nan = std::numeric_limits<double>::quiet_NaN();

	// (1) doubles with NaNs: no NaN, one NaN at every position, and random placements
	for(int n = 0; n <= 4; ++n) {
		for(int pos = -1; pos < n; ++pos) {
			multi::array<double, 1> A(multi::extensions_t<1>{n});
			for(int i = 0; i != n; ++i) { A[i] = rnd(3); }
			if(pos >= 0) { A[pos] = nan; }
			pairs1("d1[" + std::to_string(n) + "]nan@" + std::to_string(pos), A);
		}
	}
	for(int r = 1; r <= 3; ++r) {
		for(int c = 1; c <= 3; ++c) {
			for(int pos = -1; pos < r * c; ++pos) {
				multi::array<double, 2> A({r, c});
				bool const symmetric = rnd(2) == 0;
				for(int i = 0; i != r; ++i) {
					for(int j = 0; j != c; ++j) { A[i][j] = symmetric ? ((i * j + i + j) % 3) : rnd(3); }
				}
				if(pos >= 0) { A[pos / c][pos % c] = nan; }
				pairs2("d2[" + std::to_string(r) + "x" + std::to_string(c) + "]nan@" + std::to_string(pos), A);
			}
		}
	}
	{
		multi::array<double, 3> A({2, 2, 2});
		for(int pos = -1; pos < 8; ++pos) {
			for(int k = 0; k != 8; ++k) { A.elements()[k] = rnd(3); }
			if(pos >= 0) { A.elements()[pos] = nan; }
			auto const& cA = A;
			std::string const tag = "d3[2x2x2]nan@" + std::to_string(pos);
			emit(tag + ":A==A", A, A);
			emit(tag + ":A()==A()", A(), A());
			emit(tag + ":cA()==cA()", cA(), cA());
			emit(tag + ":rot==rot", A.rotated(), A.rotated());
			emit(tag + ":A()==rot", A(), A.rotated());
			emit(tag + ":A()==unrot", A(), A.unrotated());
			emit(tag + ":A[0]==A[0]", A[0], A[0]);
			emit(tag + ":A[0]==rot[0]", A[0], A.rotated()[0]);
			emit(tag + ":A[1]==tr[1]", A[1], A.transposed()[1]);
		}
	}

	// (2) element_transformed views of one array through function pointers of one type
	fun_t const funs[] = {&twice, &negated, &same, &absolute};
	for(int rep = 0; rep != 6; ++rep) {
		int const r = 1 + rnd(3);
		int const c = 1 + rnd(3);
		multi::array<int, 2> A({r, c});
		for(int i = 0; i != r; ++i) {
			for(int j = 0; j != c; ++j) { A[i][j] = rnd(5) - 2; }
		}
		auto const& cA = A;
		multi::array<int, 1> V(multi::extensions_t<1>{r * c});
		for(int i = 0; i != r * c; ++i) { V[i] = rnd(5) - 2; }
		auto const& cV = V;
		for(int p = 0; p != 4; ++p) {
			for(int q = 0; q != 4; ++q) {
				std::string const tag = "t[" + std::to_string(r) + "x" + std::to_string(c) + "]f" + std::to_string(p) + "g" + std::to_string(q);
				auto const& vf = cA.element_transformed(fun_t{funs[p]});
				auto const& vg = cA.element_transformed(fun_t{funs[q]});
				emit(tag + ":2d", vf, vg);
				emit(tag + ":2d-row", vf[r - 1], vg[r - 1]);
				emit(tag + ":2d-tr", vf.transposed(), vg.transposed());
				auto const& wf = cV.element_transformed(fun_t{funs[p]});
				auto const& wg = cV.element_transformed(fun_t{funs[q]});
				emit(tag + ":1d", wf, wg);
				auto const& mf = A.element_transformed(fun_t{funs[p]});
				auto const& mg = A.element_transformed(fun_t{funs[q]});
				emit(tag + ":2d-from-mutable", mf, mg);
			}
		}
	}
	return 0;
}

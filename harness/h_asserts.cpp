// h_asserts: death tests for the library's debug contracts (C20).  Built WITH assertions (no NDEBUG, no
// BOOST_MULTI_ASSERT_DISABLE); in the thorough tier additionally with -fsanitize=address.
// Every test runs in a forked child whose stderr is captured:
//   res=abort  : killed by SIGABRT and stderr holds a glibc assertion message naming a file under include/boost/multi
//   res=ok     : the child finished the operation (and read the element it designated) and exited 0
//   res=asan   : AddressSanitizer reported an error (an out-of-bounds access happened before/instead of an assertion)
//   res=sigN / res=abort-other / res=exitN : anything else
// Input:
//   case ID / root D f l ... / op NAME args / oob PATH i0 i1 ... / end        PATH: B brackets, C call syntax, T tuple apply
//        PATH may also be ENTRY@RECV: the entry point (B C T U F K I S N H E A Ax) invoked on a receiver of the named class and
//        value category (cv_l .. sta_r) built from the current view: harness/common/c20_recv.hpp
//   case ID / droot D f l ... / dop ... / sroot D f l ... / sop ... / asg KIND / end
//        KIND: assign (subarray& = subarray const&), assign_const (= const_subarray const&), assign_rv (subarray&& = lvalue),
//              move (= element_moved()), swap, assign_move (= std::move(s)), assign_rv_rv (rvalue = rvalue),
//              assign_elems (elements() = elements()), assign_elems_const (elements() = const elements())
//        further KINDs: swap_member, assign_elems_named (named range = const range), swap_elems, swap_elems_named, and the
//              array_ref overloads over whole roots: aref_lv, aref_rv, aref_conv_lv, aref_conv_rv, aref_from_rv, aref_rv_from_rv,
//              aref_from_array
//   case ID / cap N / droot D f l ... / dop ... / salias D f l ... / sop ... / asg KIND / end
//        salias: the source root is an array_ref over the DESTINATION's buffer (cap N = at least N elements): aliasing operands
//   ... / xop NAME args / ...             (after the ops of an index case) a view-forming call outside its domain, in a child
//   case ID / probe NAME / end            fixed programs for the known tensions (see vlib/c20.py)
// Output: S lines (shapes, as h_views), D / A / K result lines, L info lines (file:line of the assertion), E.
#include "common/viewprog.hpp"
#include "common/c20_site_probes.hpp"
#include "common/c20_recv.hpp"

#include <fcntl.h>
#include <sys/resource.h>
#include <sys/wait.h>
#include <unistd.h>

#include <csignal>
#include <cstring>
#include <functional>
#include <regex>

#ifdef C20_COVERAGE
extern "C" void __gcov_dump(void);  // the children leave through _exit: write their counters first (site-coverage build only)
extern "C" void __gcov_reset(void);
#endif

struct ChildResult {
	std::string res;   // abort | ok | asan | sigN | abort-other | exitN
	std::string file;  // assertion file (path as printed by glibc) or "-"
	long line = 0;
	int rank = -1;     // dimensionality named in the assertion's function signature, when present
	std::string expr;  // asserted expression (shortened)
	std::string fn;    // the member function that holds the assertion: at_aux_ | operator[] | elements_at | ... | -
	std::string hash;  // what the child reported after finishing (assignment statements), or "-"
	std::string val;   // the element value an index test read, or "-"
};

static ChildResult in_child(std::function<void()> const& body) {
	int fds[2];
	if(pipe(fds) != 0) { std::perror("pipe"); std::exit(3); }
	std::cout.flush();
	std::fflush(nullptr);
	pid_t const pid = fork();
	if(pid < 0) { std::perror("fork"); std::exit(3); }
	if(pid == 0) {
		struct rlimit rl{0, 0};
		setrlimit(RLIMIT_CORE, &rl);
		close(fds[0]);
		dup2(fds[1], 2);
		int const devnull = open("/dev/null", O_WRONLY);
		if(devnull >= 0) { dup2(devnull, 1); }
#ifdef C20_COVERAGE
		__gcov_reset();  // count only what the child itself executes
#endif
		try { body(); } catch(dv::unsupported const&) { _exit(76); }  // never return into the parent's read loop
#ifdef C20_COVERAGE
		__gcov_dump();
#endif
		_exit(0);
	}
	close(fds[1]);
	std::string err;
	char buf[4096];
	for(;;) {
		ssize_t const n = read(fds[0], buf, sizeof buf);
		if(n <= 0) { break; }
		if(err.size() < 65536) { err.append(buf, static_cast<std::size_t>(n)); }
	}
	close(fds[0]);
	int status = 0;
	waitpid(pid, &status, 0);
	ChildResult r;
	r.file = "-";
	r.hash = "-";
	r.val = "-";
	{
		static std::regex const reh(R"(HASH (\d+))");
		std::smatch mh;
		if(std::regex_search(err, mh, reh)) { r.hash = mh[1]; }
		static std::regex const rev(R"(VAL (-?\d+))");
		if(std::regex_search(err, mh, rev)) { r.val = mh[1]; }
	}
	bool const asan = err.find("AddressSanitizer") != std::string::npos || err.find("runtime error:") != std::string::npos;
	static std::regex const re(R"(: ([^\s:]+):(\d+): (.*): Assertion `(.*)' failed\.)");
	std::smatch m;
	bool const has_msg = std::regex_search(err, m, re);
	if(has_msg) {
		r.file = m[1];
		r.line = std::stol(m[2]);
		std::string const fn = m[3];
		r.expr = m[4];
		{
			// "... boost::multi::const_subarray<T, D, ElementPtr, Layout>::at_aux_(boost::multi::index) const [with ..."
			static std::regex const ref(R"(>::(operator\[\]|[A-Za-z_][A-Za-z_0-9]*)\()");
			std::smatch mf;
			r.fn = std::regex_search(fn, mf, ref) ? std::string(mf[1]) : std::string("-");
		}
		std::smatch d;
		static std::regex const red(R"(long int D = (\d+))");
		static std::regex const re1(R"(const_subarray<T, 1)");
		if(std::regex_search(fn, d, red)) { r.rank = std::stoi(d[1]); }
		else if(std::regex_search(fn, re1)) { r.rank = 1; }
	}
	if(asan) { r.res = "asan"; }
	else if(WIFSIGNALED(status)) {
		int const sig = WTERMSIG(status);
		if(sig == SIGABRT) {
			bool const in_lib = has_msg && r.file.find("include/boost/multi/") != std::string::npos;
			r.res = in_lib ? "abort" : "abort-other";
		} else { r.res = "sig" + std::to_string(sig); }
	} else if(WIFEXITED(status) && WEXITSTATUS(status) == 0) { r.res = "ok"; }
	else { r.res = "exit" + std::to_string(WIFEXITED(status) ? WEXITSTATUS(status) : -1); }
	return r;
}

static std::string base_name(std::string const& p) {
	auto const k = p.find("include/boost/multi/");
	return k == std::string::npos ? p : p.substr(k);
}

static void info_line(std::string const& id, int n, ChildResult const& r) {
	std::cout << "L " << id << ' ' << n << " file=" << base_name(r.file) << " line=" << r.line << " expr=";
	for(char c : r.expr.substr(0, 70)) { std::cout << (c == ' ' ? '_' : c); }
	std::cout << " fn=" << (r.fn.empty() ? std::string("-") : r.fn) << '\n';
}

// ---- assignment between two views over array_refs on two separate buffers ----
template<int D> std::unique_ptr<dv::Base<int>> make_ref(int* p, std::vector<std::pair<idx_t, idx_t>> const& e) {
	multi::array_ref<int, D> ref(p, make_ext<D>(e, std::make_index_sequence<D>{}));
	return std::make_unique<dv::Holder<int, D>>(ref.layout(), ref.base());
}
static std::unique_ptr<dv::Base<int>> make_ref_dyn(int D, int* p, std::vector<std::pair<idx_t, idx_t>> const& e) {
	switch(D) {
		case 1: return make_ref<1>(p, e);
		case 2: return make_ref<2>(p, e);
		case 3: return make_ref<3>(p, e);
		case 4: return make_ref<4>(p, e);
		case 5: return make_ref<5>(p, e);
		default: throw dv::unsupported("root rank");
	}
}

struct Assigner : dv::Typed<int, Assigner> {
	dv::Base<int>* src = nullptr;
	std::string kind;
	template<int D> void go(dv::V<int, D>& dcv) {
		auto* sh = dynamic_cast<dv::Holder<int, D>*>(src);
		if(sh == nullptr) { throw dv::unsupported("rank mismatch"); }
		multi::subarray<int, D, int*> d(dcv.layout(), const_cast<int*>(dcv.base()));        // NOLINT
		multi::subarray<int, D, int*> s(sh->v.layout(), const_cast<int*>(sh->v.base()));  // NOLINT
		if(kind == "assign") { d = s; }
		else if(kind == "assign_const") { d = sh->v; }
		else if(kind == "assign_rv") { std::move(d) = s; }
		else if(kind == "move") { d = s.element_moved(); }
		else if(kind == "swap") { swap(std::move(d), std::move(s)); }
		else if(kind == "assign_move") { d = std::move(s); }
		else if(kind == "assign_rv_rv") { std::move(d) = std::move(s); }
		else if(kind == "swap_member") { std::move(d).swap(std::move(s)); }
		else if(kind == "assign_elems") { d.elements() = s.elements(); }
		else if(kind == "assign_elems_const") { d.elements() = std::as_const(s).elements(); }
		else if(kind == "assign_elems_named") { auto&& e = d.elements(); e = std::as_const(s).elements(); }
		else if(kind == "swap_elems") { d.elements().swap(s.elements()); }
		else if(kind == "swap_elems_named") { auto&& e = d.elements(); auto&& f = s.elements(); e.swap(f); }
		else if(kind.rfind("aref_", 0) == 0) {  // the array_ref overloads (contiguous references over whole roots)
			using CP = int const*;
			multi::array_ref<int, D> dref(d.base(), d.extensions());
			multi::array_ref<int, D> sref(s.base(), s.extensions());
			if(!(dref.layout() == d.layout()) || !(sref.layout() == s.layout())) { throw dv::unsupported("aref on a non-contiguous view"); }
			multi::array_ref<int, D, CP> cref(CP(s.base()), s.extensions());
			if(kind == "aref_lv") { dref = sref; }                                  // operator=(array_ref const&) &
			else if(kind == "aref_rv") { std::move(dref) = sref; }                  // operator=(array_ref const&) &&
			else if(kind == "aref_conv_lv") { dref = cref; }                        // template operator=(array_ref<TT, DD, As...> const&) &
			else if(kind == "aref_conv_rv") { std::move(dref) = cref; }             // template ... &&
			else if(kind == "aref_from_rv") { dref = std::move(sref); }             // operator=(array_ref&&) &
			else if(kind == "aref_rv_from_rv") { std::move(dref) = std::move(sref); }  // operator=(array_ref&&) &&
			else if(kind == "aref_from_array") { multi::array<int, D> A(sref); dref = A; }
			else { throw dv::unsupported("unknown asg " + kind); }
		}
		else { throw dv::unsupported("unknown asg " + kind); }
	}
};

// ---- fixed programs for the known tensions (DESIGN 5/C20 "On the pinned tree") ----
static bool run_probe(std::string const& name) {
	if(name == "diag_rebased") {  // valid: diagonal() of an array indexed [1,4)x[2,5)
		multi::array<int, 2> A(multi::extensions_t<2>{{1, 4}, {2, 5}}, 7);
		auto&& dg = A.diagonal();
		volatile auto n = dg.size(); (void)n;
		return true;
	}
	if(name == "diag_zero_based") {  // control: must not abort
		multi::array<int, 2> A({3, 4}, 7);
		auto&& dg = A.diagonal();
		volatile int x = dg[2]; (void)x;
		return true;
	}
	if(name == "null_base_slice") {  // valid: a slice of a non-empty dimension of an EMPTY owning array (null base)
		multi::array<int, 2> A({0, 5});
		auto&& B = A.rotated().sliced(1, 3);
		volatile auto n = B.size(); (void)n;
		return true;
	}
	if(name == "null_base_slice_first") {  // control: slicing from the first index never offsets the null pointer
		multi::array<int, 2> A({0, 5});
		auto&& B = A.rotated().sliced(0, 3);
		volatile auto n = B.size(); (void)n;
		return true;
	}
	if(name == "reextent_rebased") {  // valid (fixed by 97e4116): reextent of a re-based array to extensions with another first index
		multi::array<int, 2> A(multi::extensions_t<2>{{1, 4}, {2, 5}}, 0);
		for(auto i : A.extension()) { for(auto j : A[i].extension()) { A[i][j] = 10*static_cast<int>(i) + static_cast<int>(j); } }
		A.reextent(multi::extensions_t<2>{{2, 6}, {2, 5}}, -1);
		if(A.extension().first() != 2 || A.extension().last() != 6) { _exit(78); }
		if(A[2][2] != 22 || A[3][4] != 34 || A[4][2] != -1 || A[5][4] != -1) { _exit(78); }  // common block kept, new cells filled
		multi::array<int, 2> B(multi::extensions_t<2>{{1, 4}, {2, 5}}, 7);
		B.reextent(multi::extensions_t<2>{{0, 3}, {3, 6}});  // the overload without a fill value
		if(B[1][3] != 7 || B[2][4] != 7) { _exit(78); }
		return true;
	}
	if(name == "reextent_disjoint") {  // valid (3905732): nothing in common, from and to empty arrays (null base)
		multi::array<int, 2> A({2, 3}, 7);
		A.reextent(multi::extensions_t<2>{{5, 7}, {0, 3}}, 1);
		if(A[5][0] != 1 || A[6][2] != 1) { _exit(78); }
		multi::array<int, 2> E({0, 5});
		E.reextent({2, 5}, 4);
		if(E[1][4] != 4) { _exit(78); }
		E.reextent({0, 5}, 4);
		if(E.num_elements() != 0) { _exit(78); }
		E.reextent({3, 0});
		return true;
	}
	if(name == "reshape_count_differs") {  // mismatched: reshape to another element count must be stopped (array.hpp:1239)
		multi::array<int, 2> A({2, 3}, 7);
		A.reshape({2, 4});
		volatile int x = A[1][3]; (void)x;
		return true;
	}
	if(name == "reshape_same_count") {  // control: valid reshape, elements stay in flat order
		multi::array<int, 2> A({2, 3}, 0);
		for(int k = 0; k != 6; ++k) { A.data_elements()[k] = k; }
		A.reshape({3, 2});
		if(A.size() != 3 || A[2][1] != 5 || A[1][0] != 2) { _exit(78); }
		return true;
	}
	if(name == "reextent_same_base") {  // control: same first indices
		multi::array<int, 2> A(multi::extensions_t<2>{{1, 4}, {2, 5}}, 7);
		A.reextent(multi::extensions_t<2>{{1, 6}, {2, 4}}, 0);
		volatile int x = A[5][3]; (void)x;
		return true;
	}
	if(name == "reextent_zero_inner") {  // valid (fixed by cbe7c87): reextent to a zero inner extent, both overloads, and back
		multi::array<int, 2> A({2, 3}, 7);
		A.reextent({4, 0}, 1);
		if(A.num_elements() != 0) { _exit(78); }
		multi::array<int, 2> B({2, 3}, 7);
		B.reextent({4, 0});
		B.reextent({2, 2}, 5);
		if(B[1][1] != 5) { _exit(78); }
		return true;
	}
	if(name == "array_ref_assign_transposed") {  // mismatched: array_ref 3x2 = array_ref 2x3 (same number of elements)
		int a[6] = {1, 2, 3, 4, 5, 6};
		int b[6] = {0, 0, 0, 0, 0, 0};
		multi::array_ref<int, 2> RA(a, {2, 3});
		multi::array_ref<int, 2> RB(b, {3, 2});
		RB = RA;
		volatile int x = RB[2][1]; (void)x;
		return true;
	}
	// ---- regression probes for the defects closed by 6c4fe5c: each must now abort by assertion ----
	if(name == "assign_views_inner_permuted") {  // (2,3,2) := (2,2,3), named views: leading extension and count coincide
		multi::array<int, 3> A({2, 3, 2}, 1);
		multi::array<int, 3> B({2, 2, 3}, 2);
		auto&& a = A(); auto&& b = B();
		a = b;
		return true;
	}
	if(name == "move_assign_views_count_differs") {  // (2,3) := std::move (2,4)
		multi::array<int, 2> A({2, 3}, 1);
		multi::array<int, 2> B({2, 4}, 2);
		auto&& a = A(); auto&& b = B();
		a = std::move(b);
		return true;
	}
	if(name == "swap_views_count_differs") {  // swap((2,4), (2,3))
		multi::array<int, 2> A({2, 4}, 1);
		multi::array<int, 2> B({2, 3}, 2);
		auto&& a = A(); auto&& b = B();
		swap(std::move(a), std::move(b));
		return true;
	}
	if(name == "elements_assign_count_differs") {  // 6 <- 8 elements through elements_range_t::operator=(elements_range_t&&)
		multi::array<int, 2> A({2, 3}, 1);
		multi::array<int, 2> B({2, 4}, 2);
		A().elements() = B().elements();
		return true;
	}
	if(name == "assign_views_equal") {  // control: equal extents through the same statements: must not abort
		multi::array<int, 3> A({2, 3, 2}, 1);
		multi::array<int, 3> B({2, 3, 2}, 2);
		auto&& a = A(); auto&& b = B();
		a = b;
		swap(std::move(a), std::move(b));
		a = std::move(b);
		A().elements() = B().elements();
		volatile int x = A[1][2][1]; (void)x;
		return true;
	}
	if(name == "array_ref_assign_count_differs") {  // control: mismatched and different counts: must abort
		int a[6] = {1, 2, 3, 4, 5, 6};
		int b[8] = {0, 0, 0, 0, 0, 0, 0, 0};
		multi::array_ref<int, 2> RA(a, {2, 3});
		multi::array_ref<int, 2> RB(b, {2, 4});
		RB = RA;
		return true;
	}
	if(name == "elements_zero_inner") {  // valid (fixed by 1e6770c): flat iteration of a 3x0 view
		multi::array<int, 2> A({2, 3}, 7);
		multi::array<int, 2> F({2, 3}, 8);
		A.sliced(1, 1).rotated() = F.sliced(1, 1).rotated();
		volatile auto n = A.sliced(1, 1).rotated().elements().size(); (void)n;
		return true;
	}
	if(name == "strided_rebased") {  // valid (fixed by cbad8c3): extension() of a strided re-based view
		multi::array<int, 2> A(multi::extensions_t<2>{{1, 7}, {2, 5}}, 7);
		auto&& S = A.strided(2);
		volatile auto f = S.extension().first(); (void)f;
		volatile int x = S[S.extension().first()][2]; (void)x;
		return true;
	}
	// ---- aliasing operands (seed C20-s4): two named views of one array ----
	if(name == "assign_aliasing_same_first_2d") {  // mismatched: 2x3 := 3x3, both views start at A[0][0] with the strides of A
		multi::array<int, 2> A({4, 4}, 1);
		auto&& dst = A({0, 2}, {0, 3});
		auto&& src = A({0, 3}, {0, 3});
		dst = src;
		return true;
	}
	if(name == "assign_aliasing_same_first_1d") {  // mismatched: 2 := 4, both views start at V[2]
		multi::array<int, 1> V({6}, 1);
		auto&& dst = V({2, 4});
		auto&& src = V({2, 6});
		dst = src;
		return true;
	}
	if(name == "assign_aliasing_same_view") {  // valid: the very same elements through two view objects
		multi::array<int, 2> A({4, 4}, 0);
		for(int k = 0; k != 16; ++k) { A.data_elements()[k] = k; }
		auto&& v1 = A({0, 2}, {0, 3});
		auto&& v2 = A({0, 2}, {0, 3});
		v1 = v2;
		swap(std::move(v1), std::move(v2));
		v1 = std::move(v2);
		if(A[0][0] != 0 || A[1][2] != 6 || A[3][3] != 15) { _exit(78); }
		return true;
	}
	return c20sp::run(name);
}

int main() {
	std::string line;
	std::string id;
	Root root;
	int step = 0;
	int ndeath = 0;
	int nasg = 0;
	int nxop = 0;
	bool dead = false;
	std::vector<int> bufd;
	std::vector<int> bufs;
	idx_t cap = 0;
	std::unique_ptr<dv::Base<int>> dst;
	std::unique_ptr<dv::Base<int>> src;
	while(std::getline(std::cin, line)) {
		if(line.empty() || line[0] == '#') { continue; }
		std::istringstream is(line);
		std::string kw;
		is >> kw;
		try {
			if(kw == "case") {
				is >> id;
				step = 0;
				ndeath = 0;
				nasg = 0;
				nxop = 0;
				dead = false;
				dst.reset();
				src.reset();
				cap = 0;
			} else if(kw == "cap") {
				is >> cap;
			} else if(kw == "root") {
				int D = 0;
				is >> D;
				std::vector<std::pair<idx_t, idx_t>> e(static_cast<std::size_t>(D));
				for(auto& p : e) { is >> p.first >> p.second; }
				root = make_root_dyn(D, e);
				print_shape(id, step, *root.view);
			} else if(kw == "op") {
				if(dead) { continue; }
				auto op = dv::parse_op(is);
				++step;
				auto nv = root.view->apply(op);
				root.view = std::move(nv);
				print_shape(id, step, *root.view);
			} else if(kw == "oob") {
				if(dead) { continue; }
				std::string path;
				is >> path;
				std::vector<idx_t> x;
				idx_t i = 0;
				while(is >> i) { x.push_back(i); }
				++ndeath;
				auto const at = path.find('@');
				auto r = in_child([&] {
					int value = 0;
					if(at == std::string::npos) {
						int* p = nullptr;
						if(path == "B") { p = root.view->at_brackets(x); }
						else if(path == "C") { p = root.view->at_call(x); }
						else { p = root.view->at_tuple(x); }
						volatile int sink = *p;  // the access the assertion must prevent
						value = sink;
					} else {
						c20r::Access a;
						a.entry = path.substr(0, at);
						a.kind = c20r::recv_of(path.substr(at + 1));
						a.x = x;
						try { root.view->accept(a); } catch(c20r::not_available const&) { _exit(79); }
						volatile int sink = a.value;
						value = sink;
					}
					std::string const msg = "VAL " + std::to_string(value) + "\n";
					if(write(2, msg.data(), msg.size()) < 0) { _exit(75); }
				});
				if(r.res == "exit79") { r.res = "unavailable"; }  // the entry point does not exist on this receiver
				if(r.res == "exit76") { r.res = "unsupported"; }
				std::cout << "D " << id << ' ' << ndeath << " path=" << path << " idx=" << dv::join(x.begin(), x.end()) << " res=" << r.res
				          << " rank=";
				if(r.res == "abort" && r.rank >= 0) { std::cout << r.rank; } else { std::cout << '-'; }
				if(r.res == "ok") { std::cout << " val=" << r.val; }
				std::cout << '\n';
				if(r.res != "ok") { info_line(id, ndeath, r); }
			} else if(kw == "xop") {  // a view-forming call outside its documented domain: must be stopped by an assertion
				if(dead) { continue; }
				std::string rest;
				std::getline(is, rest);
				std::istringstream is2(rest);
				auto op = dv::parse_op(is2);
				++nxop;
				auto r = in_child([&] {
					auto nv = root.view->apply(op);
					volatile auto n = nv->rank(); (void)n;
				});
				std::string txt;
				{ std::istringstream w(rest); std::string t; while(w >> t) { txt += (txt.empty() ? "" : "_") + t; } }
				std::cout << "O " << id << ' ' << nxop << " op=" << txt << " res=" << (r.res == "exit76" ? std::string("unsupported") : r.res) << '\n';
				if(r.res != "ok") { info_line(id, 1000 + nxop, r); }
			} else if(kw == "droot" || kw == "sroot" || kw == "salias") {
				int D = 0;
				is >> D;
				std::vector<std::pair<idx_t, idx_t>> e(static_cast<std::size_t>(D));
				idx_t n = 1;
				for(auto& p : e) { is >> p.first >> p.second; n *= (p.second - p.first); }
				if(kw == "salias") {  // a second array_ref over the destination's buffer
					if(static_cast<std::size_t>(n) + 1 > bufd.size()) { throw dv::unsupported("salias beyond the capacity of the destination buffer"); }
					src = make_ref_dyn(D, bufd.data(), e);
					continue;
				}
				auto& buf = (kw == "droot") ? bufd : bufs;
				buf.assign(static_cast<std::size_t>(std::max(n, kw == "droot" ? cap : idx_t{0})) + 1, 0);
				for(std::size_t k = 0; k != buf.size(); ++k) { buf[k] = static_cast<int>(k); }
				if(kw == "droot") { dst = make_ref_dyn(D, buf.data(), e); } else { src = make_ref_dyn(D, buf.data(), e); }
			} else if(kw == "dop" || kw == "sop") {
				if(dead) { continue; }
				auto op = dv::parse_op(is);
				auto& v = (kw == "dop") ? dst : src;
				auto nv = v->apply(op);
				v = std::move(nv);
			} else if(kw == "asg") {
				if(dead) { continue; }
				std::string kind;
				is >> kind;
				Assigner a;
				a.kind = kind;
				a.src = src.get();
				if(dst->rank() != src->rank()) { throw dv::unsupported("rank mismatch"); }
				auto r = in_child([&] {
					dst->accept(a);
					// the statement ran to completion: report the contents of both buffers (compared across the three build
					// configurations for valid statements: a copy or swap that lives inside an assertion disappears under NDEBUG)
					unsigned long long h = 1469598103934665603ULL;
					for(auto const* b : {&bufd, &bufs}) { for(int x : *b) { h = (h ^ static_cast<unsigned long long>(static_cast<unsigned>(x))) * 1099511628211ULL; } }
					std::string const msg = "HASH " + std::to_string(h) + "\n";
					if(write(2, msg.data(), msg.size()) < 0) { _exit(75); }
				});
				++nasg;
				if(r.res == "exit76") { r.res = "unsupported"; }  // e.g. an array_ref statement on a collapsed (empty) layout: not judged
				std::cout << "A " << id << " kind=" << kind << " res=" << r.res;
				// what the library itself reports about the two operands (for the model-independent monitor)
				for(auto* v : {dst.get(), src.get()}) {
					auto ex = v->extensions();
					std::cout << (v == dst.get() ? " dext=" : " sext=");
					for(std::size_t k = 0; k != ex.size(); ++k) { std::cout << (k ? "," : "") << ex[k].first << ':' << ex[k].second; }
				}
				std::cout << " dnel=" << dst->num_elements() << " snel=" << src->num_elements() << " hash=" << (r.res == "ok" ? r.hash : std::string("-")) << '\n';
				if(r.res != "ok" && r.res != "unsupported") { info_line(id, nasg, r); }
			} else if(kw == "probe") {
				std::string name;
				is >> name;
				bool known = true;
				auto r = in_child([&] { if(!run_probe(name)) { _exit(77); } });
				if(r.res == "exit77") { known = false; }
				std::cout << "K " << id << ' ' << name << " res=" << (known ? r.res : std::string("unknown-probe")) << '\n';
				if(r.res != "ok") { info_line(id, 0, r); }
			} else if(kw == "end") {
				std::cout << "E " << id << '\n';
			}
		} catch(dv::unsupported const& u) {
			std::cout << "U " << id << ' ' << step << ' ' << u.what() << '\n';
			dead = true;
		}
	}
	return 0;
}

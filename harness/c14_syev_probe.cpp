// C14: does boost/multi/adaptors/lapack/syev.hpp compile and instantiate for the calls the harness
// makes?  (Before "fix: lapack/syev.hpp compiles again" it did not: malformed #include lines,
// ::core::syev commented out, free functions base()/rotated() that no longer exist.)  Compiled with
// -c by vlib/c14.py; a failure is reported as a violation and syev cases are then not run.
#include <boost/multi/adaptors/lapack/syev.hpp>
#include <boost/multi/array.hpp>

namespace multi = boost::multi;

auto c14_probe_syev(multi::array<double, 2>& a, multi::array<double, 1>& w, multi::array<double, 1>& work) -> long {
	auto&& r1 = multi::lapack::syev(multi::blas::filling::upper, a({0, 2}, {0, 2}), w({0, 2}), work);
	auto at = a.transposed();
	auto ws = w({0, 2});
	auto&& r2 = multi::lapack::syev(multi::blas::filling::lower, at, ws);
	return r1.size() + r2.size();
}

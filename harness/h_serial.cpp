// h_serial: main program -- parses case blocks (format in h_serial.hpp) and dispatches on the element type.
#include "h_serial.hpp"

#include <iostream>
#include <stdexcept>

static std::vector<std::string> words(std::istringstream& is) {
	std::vector<std::string> r;
	std::string              w;
	while(is >> w) { r.push_back(w); }
	return r;
}
static std::vector<std::string> elems(std::vector<std::string> const& w) {
	std::vector<std::string> out;
	for(std::size_t k = 0; k < w.size(); ++k) {
		if(w[k] == "{") {
			std::string g = "{";
			++k;
			while(k < w.size() && w[k] != "}") { g += " " + w[k]; ++k; }
			out.push_back(g + " }");
		} else {
			out.push_back(w[k]);
		}
	}
	return out;
}
static std::vector<std::pair<idx_t, idx_t>> pairs(std::vector<std::string> const& w) {
	std::vector<std::pair<idx_t, idx_t>> r;
	for(std::size_t k = 0; k + 1 < w.size(); k += 2) { r.emplace_back(std::stol(w[k]), std::stol(w[k + 1])); }
	return r;
}
static void parse_root(std::vector<std::string> const& w, ViewSpec& v) {
	v.base = std::stol(w.at(0));
	auto r = static_cast<std::size_t>(std::stol(w.at(1)));
	v.sizes.clear();
	for(std::size_t k = 0; k != r; ++k) { v.sizes.push_back(std::stol(w.at(2 + k))); }
}
static void parse_ops(std::vector<std::string> const& w, ViewSpec& v) {
	v.ops.clear();
	for(std::size_t k = 0; k < w.size();) {
		DimOp o;
		if(w[k] == "i") {
			o.kind = 'i';
			o.a    = std::stol(w.at(k + 1));
			k += 2;
		} else if(w[k] == "r") {
			o.kind = 'r';
			o.a    = std::stol(w.at(k + 1));
			o.b    = std::stol(w.at(k + 2));
			o.s    = std::stol(w.at(k + 3));
			k += 4;
		} else {
			throw std::runtime_error("bad dim op " + w[k]);
		}
		v.ops.push_back(o);
	}
}

int main() {
	std::string line;
	Case        c;
	while(std::getline(std::cin, line)) {
		if(line.empty() || line[0] == '#') { continue; }
		std::istringstream is(line);
		std::string        kw;
		is >> kw;
		if(kw == "case") { c = Case{}; is >> c.id; continue; }
		auto w = words(is);
		if(kw == "kind") { c.kind = w.at(0); }
		else if(kw == "arch") { c.arch = w.at(0); }
		else if(kw == "elem") { c.elem = w.at(0); }
		else if(kw == "rank") { c.rank = std::stoi(w.at(0)); }
		else if(kw == "src") { c.src = pairs(w); }
		else if(kw == "prior") { c.prior = pairs(w); }
		else if(kw == "pmode") { c.pmode = w.at(0); }
		else if(kw == "sv") { if(c.kind == "view") { c.s.vals = elems(w); } else { c.sv = elems(w); } }
		else if(kw == "pv") { c.pv = elems(w); }
		else if(kw == "dv") { c.d.vals = elems(w); }
		else if(kw == "sbuf") { c.s.nbuf = std::stol(w.at(0)); }
		else if(kw == "dbuf") { c.d.nbuf = std::stol(w.at(0)); }
		else if(kw == "sroot") { parse_root(w, c.s); }
		else if(kw == "droot") { parse_root(w, c.d); }
		else if(kw == "sops") { parse_ops(w, c.s); }
		else if(kw == "dops") { parse_ops(w, c.d); }
		else if(kw == "sperm") { c.s.rots = std::stoi(w.at(0)); c.s.transp = (w.at(1) == "1"); }
		else if(kw == "dperm") { c.d.rots = std::stoi(w.at(0)); c.d.transp = (w.at(1) == "1"); }
		else if(kw == "sconst") { c.sconst = (w.at(0) == "1"); }
		else if(kw == "end") {
			std::ostringstream out;
			try {
				if(c.elem == "int") { run_case_int(c, out); }
				else if(c.elem == "double") { run_case_double(c, out); }
				else if(c.elem == "string") { run_case_string(c, out); }
				else if(c.elem == "nested") { run_case_nested(c, out); }
				else { throw std::runtime_error("unknown element type " + c.elem); }
			} catch(std::exception const& e) {
				out << "ERR " << c.id << ' ' << e.what() << '\n';
			}
			std::cout << out.str() << "E " << c.id << '\n' << std::flush;
		}
	}
	return 0;
}

// Can every kind of read-only view be SAVED to an archive?  (compile probe for C17: "a view saves exactly its own
// elements"; -fsyntax-only).  Views of const arrays are const_subarray<T, D, T*>: read-only, with a mutable pointer type.
#include <boost/multi/array.hpp>
#include <boost/archive/text_oarchive.hpp>
#include <boost/archive/xml_oarchive.hpp>
#include <boost/serialization/nvp.hpp>
#include <sstream>
#include <utility>
namespace multi = boost::multi;
template<class Ar, class V> void save(Ar& ar, V const& v) { ar << boost::serialization::make_nvp("v", v); }
void probe(multi::array<int, 1> const& c1, multi::array<int, 2> const& c2, multi::array<int, 3> const& c3,
           multi::array<int, 2>& m2) {
	std::ostringstream os;
	boost::archive::text_oarchive ta(os);
	boost::archive::xml_oarchive xa(os);
	save(ta, c1({0, 1})); save(xa, c1({0, 1}));           // 1-D block of a const 1-D array
	save(ta, c2[0]); save(xa, c2[0]);                     // row of a const 2-D array
	save(ta, c2.rotated()[0]); save(xa, c2.rotated()[0]); // column of a const 2-D array
	save(ta, c2({0, 1}, {0, 1})); save(xa, c2({0, 1}, {0, 1}));
	save(ta, c3[0]); save(ta, c3[0][0]); save(xa, c3[0][0]);
	save(ta, std::as_const(m2)[0]); save(ta, m2[0]); save(ta, m2({0, 1}, {0, 1}));
	{ auto const& r = m2[0]; save(ta, r); }
}

// h_assign: assignment through views on the real library (C05).
// One buffer of tracked elements: [guard | root A | guard | root B | guard]; destination view = program over A,
// source view = program over B.  After the operation the WHOLE buffer is dumped (value, moved-from flag).
// Input:  case <id> / buf G NA NB / droot D f l ... / dop <op> / sroot D f l ... / sop <op> /
//         do assign|assign_elems|fill X|swap|move|vals v0 v1 ... / end
#include "common/dynview.hpp"

#include <algorithm>
#include <numeric>

using dv::idx_t;

struct TE {
	int v = 0;
	bool moved = false;
	TE() = default;
	TE(int x) : v(x) {}  // NOLINT
	TE(TE const& o) : v(o.v) {}
	TE(TE&& o) noexcept : v(o.v) { o.moved = true; }
	auto operator=(TE const& o) -> TE& { v = o.v; moved = false; return *this; }
	auto operator=(TE&& o) noexcept -> TE& { v = o.v; moved = false; o.moved = true; return *this; }
	~TE() = default;
};

template<int D, std::size_t... I>
auto make_ext(std::vector<std::pair<idx_t, idx_t>> const& e, std::index_sequence<I...> /*unused*/) {
	return multi::extensions_t<D>{multi::iextension{e[I].first, e[I].second}...};
}
template<int D> std::unique_ptr<dv::Base<TE>> make_ref(TE* p, std::vector<std::pair<idx_t, idx_t>> const& e) {
	multi::array_ref<TE, D> ref(p, make_ext<D>(e, std::make_index_sequence<D>{}));
	return std::make_unique<dv::Holder<TE, D>>(ref.layout(), ref.base());
}
std::unique_ptr<dv::Base<TE>> make_ref_dyn(int D, TE* p, std::vector<std::pair<idx_t, idx_t>> const& e) {
	switch(D) {
		case 1: return make_ref<1>(p, e);
		case 2: return make_ref<2>(p, e);
		case 3: return make_ref<3>(p, e);
		case 4: return make_ref<4>(p, e);
		case 5: return make_ref<5>(p, e);
		default: throw dv::unsupported("root rank");
	}
}

struct Doer : dv::Typed<TE, Doer> {
	dv::Base<TE>* src = nullptr;
	std::string what;
	std::vector<int> args;
	bool done = false;

	template<int D> void go(dv::V<TE, D>& dcv) {
		multi::subarray<TE, D, TE*> d(dcv.layout(), const_cast<TE*>(dcv.base()));  // NOLINT
		if(what == "fill") {
			if constexpr(D == 1) { d.fill(TE{args[0]}); } else { std::fill(d.elements().begin(), d.elements().end(), TE{args[0]}); }
			done = true;
			return;
		}
		if(what == "vals") {
			if constexpr(D == 1) {
				std::vector<TE> r(args.begin(), args.end());
				d = r;
				done = true;
			} else if constexpr(D == 2) {
				auto const n1 = dv::tup_to_vec(d.sizes())[1];
				std::vector<multi::array<TE, 1>> rows;
				for(idx_t i = 0; i != d.size(); ++i) {
					multi::array<TE, 1> row({n1}, TE{0});
					for(idx_t j = 0; j != n1; ++j) { row[j] = TE{args[static_cast<std::size_t>(i * n1 + j)]}; }
					rows.push_back(std::move(row));
				}
				d = rows;
				done = true;
			}
			return;
		}
		auto* sh = dynamic_cast<dv::Holder<TE, D>*>(src);
		if(sh == nullptr) { throw dv::unsupported("rank mismatch"); }
		multi::subarray<TE, D, TE*> s(sh->v.layout(), const_cast<TE*>(sh->v.base()));  // NOLINT
		// a third of the view assignments take their source through a pointer-to-const view (another static type than
		// the destination's: the converting overloads operator=(const_subarray<TT, D, As...> const&) & / &&); which
		// third is a function of the operands, so that a replay takes the same path
		multi::const_subarray<TE, D, TE const*> cs(sh->v.layout(), static_cast<TE const*>(sh->v.base()));
		auto const hsum = static_cast<long>(d.num_elements()) * 7 + static_cast<long>(dv::tup_to_vec(s.strides())[0]) * 3 + static_cast<long>(dv::tup_to_vec(d.strides())[0]);
		bool const conv = ((hsum % 3) + 3) % 3 == 0;
		if(what == "assign") { if(conv) { d = cs; } else { d = s; } }
		else if(what == "assign_const") { if(conv) { d = std::as_const(cs); } else { d = sh->v; } }
		else if(what == "assign_elems") { d.elements() = s.elements(); }
		else if(what == "assign_rv") { if(conv) { std::move(d) = cs; } else { std::move(d) = s; } }
		else if(what == "assign_elems_named") { auto&& e = d.elements(); e = std::as_const(sh->v).elements(); }
		else if(what == "swap") { swap(std::move(d), std::move(s)); }
		else if(what == "move") { d = s.element_moved(); }
		else if(what.rfind("marr_", 0) == 0) {  // moved sub-views of an rvalue OWNING array (array.hpp:210-216)
			multi::array<TE, D> S(s);  // an owning copy of the source view (copy construction sets no moved-from flag)
			if(what == "marr_call") { d = std::move(S)(); }
			else if(what == "marr_taked") { d = std::move(S).taked(args[0]); }
			else if(what == "marr_dropped") { d = std::move(S).dropped(args[0]); }
			else { throw dv::unsupported("unknown do " + what); }
			// make S's state (value, moved-from flag per element) visible in the source region of the dumped buffer
			auto&& se = s.elements();
			auto&& Se = S.elements();
			auto it = Se.begin();
			for(auto&& x : se) { x.v = (*it).v; x.moved = (*it).moved; ++it; }
		}
		else if(what == "assign_from_rv") { d = std::move(s); }             // lvalue view = rvalue view of the same type: a copy
		else if(what == "assign_rv_rv") { std::move(d) = std::move(s); }
		else if(what.rfind("aref_", 0) == 0) {  // the array_ref overloads (contiguous references over whole roots)
			using MP = TE*;
			using CP = typename std::pointer_traits<MP>::template rebind<TE const>;
			MP dp = const_cast<TE*>(dcv.base());
			MP sp = const_cast<TE*>(sh->v.base());
			multi::array_ref<TE, D, MP> dref(dp, d.extensions());
			multi::array_ref<TE, D, MP> sref(sp, s.extensions());
			if(!(dref.layout() == d.layout()) || !(sref.layout() == s.layout())) { throw dv::unsupported("aref on a non-contiguous view"); }
			multi::array_ref<TE, D, CP> cref(CP(sp), s.extensions());
			if(what == "aref_lv") { dref = sref; }
			else if(what == "aref_rv") { std::move(dref) = sref; }
			else if(what == "aref_conv_lv") { dref = cref; }
			else if(what == "aref_conv_rv") { std::move(dref) = cref; }
			else if(what == "aref_from_rv") { dref = std::move(sref); }
			else if(what == "aref_from_array") { multi::array<TE, D> A(sref); dref = A; }
			else { throw dv::unsupported("unknown do " + what); }
		}
		else { throw dv::unsupported("unknown do " + what); }
		done = true;
	}
};

int main() {
	std::string line;
	std::string id;
	std::vector<TE> buf;
	idx_t G = 0;
	idx_t NA = 0;
	idx_t NB = 0;
	std::unique_ptr<dv::Base<TE>> dst;
	std::unique_ptr<dv::Base<TE>> src;
	bool dead = false;
	while(std::getline(std::cin, line)) {
		if(line.empty() || line[0] == '#') { continue; }
		std::istringstream is(line);
		std::string kw;
		is >> kw;
		try {
			if(kw == "case") {
				is >> id;
				dead = false;
				dst.reset();
				src.reset();
			} else if(kw == "buf") {
				is >> G >> NA >> NB;
				buf.assign(static_cast<std::size_t>(3 * G + NA + NB), TE{});
				for(std::size_t k = 0; k != buf.size(); ++k) { buf[k].v = static_cast<int>(1000 + k); buf[k].moved = false; }
			} else if(kw == "droot" || kw == "sroot") {
				int D = 0;
				is >> D;
				std::vector<std::pair<idx_t, idx_t>> e(static_cast<std::size_t>(D));
				for(auto& p : e) { is >> p.first >> p.second; }
				if(kw == "droot") { dst = make_ref_dyn(D, buf.data() + G, e); } else { src = make_ref_dyn(D, buf.data() + 2 * G + NA, e); }
			} else if(kw == "dop" || kw == "sop") {
				if(dead) { continue; }
				auto op = dv::parse_op(is);
				auto& v = (kw == "dop") ? dst : src;
				auto nv = v->apply(op);
				v = std::move(nv);
			} else if(kw == "do") {
				if(dead) { continue; }
				Doer doer;
				is >> doer.what;
				int x = 0;
				while(is >> x) { doer.args.push_back(x); }
				doer.src = src.get();
				auto sz = dst->sizes();
				std::cout << "V " << id << " dsizes=" << dv::join(sz.begin(), sz.end()) << " dnel=" << dst->num_elements();
				if(src) { auto s2 = src->sizes(); std::cout << " ssizes=" << dv::join(s2.begin(), s2.end()); }
				std::cout << '\n';
				dst->accept(doer);
				if(!doer.done) { throw dv::unsupported("do " + doer.what + " at this rank"); }
				std::cout << "B " << id;
				for(auto const& c : buf) { std::cout << ' ' << c.v << (c.moved ? "!" : ""); }
				std::cout << '\n';
			} else if(kw == "end") {
				std::cout << "E " << id << '\n';
			}
		} catch(dv::unsupported const& u) {
			std::cout << "U " << id << " 0 " << u.what() << '\n';
			dead = true;
		}
	}
	return 0;
}

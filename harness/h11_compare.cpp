// h11_compare: C11 copy of h_compare.cpp over the pointer policy (-DPTR11_KIND=0|1|2: raw, fancy, checked pointer).
// Roots are array_refs over policy buffers, given exactly their n elements; owning copies use the policy allocator.
// "K" lines carry the checked pointer's violation log (must be absent).
// h_compare: all relational operators on pairs of views / arrays (C07).
// Input: case <id> / xroot <a|b|c> D f l ... / xop <name> <op> / xdata <name> v... / cmp / end
// Output: V lines (sizes), C lines: for each ordered pair the results of == != < <= > (>= for D = 1) on the views,
// on owning copies of them, and == != between a view and an owning copy.
#include "common/ptr11_dynview.hpp"

using dv11::idx_t;
using dv11::P;
using dv11::Ptr;

template<int D, std::size_t... I>
auto make_ext(std::vector<std::pair<idx_t, idx_t>> const& e, std::index_sequence<I...> /*unused*/) {
	return multi::extensions_t<D>{multi::iextension{e[I].first, e[I].second}...};
}
struct Rt { std::shared_ptr<typename P::template buffer<int>> keep; idx_t n = 0; std::unique_ptr<dv11::Base<int>> view; };
template<int D> Rt make_root(std::vector<std::pair<idx_t, idx_t>> const& e) {
	auto x = make_ext<D>(e, std::make_index_sequence<D>{});
	idx_t n = 1;
	for(auto const& p : e) { n *= (p.second - p.first); }
	auto buf = std::make_shared<typename P::template buffer<int>>(n + 1);
	multi::array_ref<int, D, Ptr<int>> ref(buf->at(0, n), x);
	Rt r;
	r.n = n;
	r.view = std::make_unique<dv11::Holder<int, D>>(ref.layout(), P::template unconst<int>(ref.base()));
	r.keep = buf;
	return r;
}
Rt make_root_dyn(int D, std::vector<std::pair<idx_t, idx_t>> const& e) {
	switch(D) {
		case 1: return make_root<1>(e);
		case 2: return make_root<2>(e);
		case 3: return make_root<3>(e);
		case 4: return make_root<4>(e);
		case 5: return make_root<5>(e);
		default: throw dv11::unsupported("root rank");
	}
}

struct Cmp : dv11::Typed<int, Cmp> {
	dv11::Base<int>* other = nullptr;
	std::string out;
	template<int D> void go(dv11::V<int, D>& a) {
		auto* oh = dynamic_cast<dv11::Holder<int, D>*>(other);
		if(oh == nullptr) { throw dv11::unsupported("rank mismatch"); }
		auto const& b = oh->v;
		auto bit = [](bool x) { return x ? '1' : '0'; };
		std::string s = "view=";
		s += bit(a == b); s += bit(a != b); s += bit(a < b); s += bit(a <= b); s += bit(a > b);
#ifdef C07_HAS_GE
		s += bit(a >= b);
#else
		if constexpr(D == 1) { s += bit(a >= b); } else { s += '-'; }
#endif
		multi::array<int, D, typename P::template alloc<int>> A(a);
		multi::array<int, D, typename P::template alloc<int>> B(b);
		s += " array=";
		s += bit(A == B); s += bit(A != B); s += bit(A < B); s += bit(A <= B); s += bit(A > B);
		s += " mixed=";
		s += bit(a == B); s += bit(a != B);
		out = s;
	}
};

int main() {
	std::string line;
	std::string id;
	Rt roots[3];
	bool dead = false;
	auto idx = [](std::string const& n) { return n == "a" ? 0 : (n == "b" ? 1 : 2); };
	while(std::getline(std::cin, line)) {
		if(line.empty() || line[0] == '#') { continue; }
		std::istringstream is(line);
		std::string kw;
		is >> kw;
		try {
			if(kw == "case") { is >> id; dead = false; }
			else if(kw == "xroot") {
				std::string n; int D = 0;
				is >> n >> D;
				std::vector<std::pair<idx_t, idx_t>> e(static_cast<std::size_t>(D));
				for(auto& p : e) { is >> p.first >> p.second; }
				roots[idx(n)] = make_root_dyn(D, e);
			} else if(kw == "xop") {
				if(dead) { continue; }
				std::string n;
				is >> n;
				auto op = dv11::parse_op(is);
				auto& r = roots[idx(n)];
				auto nv = r.view->apply(op);
				r.view = std::move(nv);
			} else if(kw == "xdata") {
				std::string n;
				is >> n;
				auto& r = roots[idx(n)];
				int x = 0;
				idx_t k = 0;
				while(is >> x && k < r.n) { r.keep->cell(k++) = x; }
			} else if(kw == "cmp") {
				if(dead) { continue; }
				char const* names[3] = {"a", "b", "c"};
				for(int k = 0; k != 3; ++k) {
					auto sz = roots[k].view->sizes();
					std::cout << "V " << id << ' ' << names[k] << " sizes=" << dv11::join(sz.begin(), sz.end()) << '\n';
				}
				int const pairs[7][2] = {{0, 1}, {1, 0}, {0, 2}, {2, 0}, {1, 2}, {2, 1}, {0, 0}};
				for(auto const& pq : pairs) {
					Cmp c;
					c.other = roots[pq[1]].view.get();
					roots[pq[0]].view->accept(c);
					std::cout << "C " << id << ' ' << names[pq[0]] << names[pq[1]] << ' ' << c.out << '\n';
				}
			} else if(kw == "end") { ptr11::report_case(std::cout, id, true); std::cout << "E " << id << '\n'; }
		} catch(dv11::unsupported const& u) {
			std::cout << "U " << id << " 0 " << u.what() << '\n';
			dead = true;
		}
	}
	return 0;
}

// C12 compile-time probe (syntax only): iterating a CONST rank-1 element_transformed view, or the rows of a const
// rank-2 one.  At the pinned commit const_subarray<T,1,P>::begin() const& / end() const& return `begin_aux_()`
// (an `iterator`) as `const_iterator`; the implicit converting constructor of array_iterator<T,1,P> is constrained
// on `typename Other::pointer{}`, and transform_ptr is not default-constructible, so there is no conversion.
#include <boost/multi/array.hpp>
namespace multi = boost::multi;
struct S { int a; int b; double c; };
int probe() {
	int sum = 0;
	multi::array<S, 1> A(multi::extensions_t<1>{4});
	auto const& t = A.element_transformed(&S::b);
	for(auto x : t) { sum += x; }                                   // begin() const&
	multi::array<S, 2> B({2, 3});
	auto const& u = B.element_transformed(&S::b);
	for(auto const& row : u) { for(auto x : row) { sum += x; } }    // rows are const
	return sum;
}

// PMPI profiling layer for C18: this translation unit DEFINES the MPI datatype entry points that
// boost/multi/adaptors/mpi.hpp calls; each logs an event and forwards to the PMPI_ entry point of the
// installed MPI library.  Handles are renumbered in creation order (MPI reuses handle values after
// MPI_Type_free): predefined datatypes are 0, created ones 1, 2, 3, ...
// Any other datatype constructor is logged as `other(<name>)`, so that a library change that builds
// its types differently shows up in the ledger line rather than silently bypassing the log.
#define OMPI_SKIP_MPICXX 1
#include <mpi.h>

#include <map>
#include <sstream>
#include <string>

// interface (declared identically in h_mpi_c18.cpp)
namespace c18log {
void begin();        // clear the log and the handle numbering
std::string take();  // the events since begin(), `;`-separated (or "-"), then begin()
}  // namespace c18log

namespace c18log {
namespace {
std::ostringstream& log() { static std::ostringstream s; return s; }
std::map<MPI_Datatype, long>& ids() { static std::map<MPI_Datatype, long> m; return m; }
std::map<MPI_Datatype, bool>& committed() { static std::map<MPI_Datatype, bool> m; return m; }
long& next_id() { static long n = 1; return n; }
bool& first() { static bool f = true; return f; }

long id_of(MPI_Datatype t) {
	auto it = ids().find(t);
	if(it != ids().end()) { return it->second; }
	// predefined datatypes are recognised by value: asking the MPI library about an unknown handle is not
	// safe (it may be a handle that was already freed)
	for(MPI_Datatype p : {MPI_INT, MPI_FLOAT, MPI_DOUBLE, MPI_CHAR, MPI_SIGNED_CHAR, MPI_UNSIGNED_CHAR, MPI_BYTE, MPI_SHORT,
	                      MPI_UNSIGNED_SHORT, MPI_UNSIGNED, MPI_LONG, MPI_UNSIGNED_LONG, MPI_LONG_LONG, MPI_UNSIGNED_LONG_LONG,
	                      MPI_LONG_DOUBLE, MPI_C_BOOL, MPI_WCHAR}) {
		if(t == p) { return 0; }
	}
	return -1;  // a handle this layer has never seen created (or already freed)
}
long fresh(MPI_Datatype t) {
	long const n = next_id()++;
	ids()[t] = n;
	committed()[t] = false;
	return n;
}
void sep() { if(!first()) { log() << ';'; } first() = false; }
}  // namespace

void begin() { log().str(""); log().clear(); ids().clear(); committed().clear(); next_id() = 1; first() = true; }
std::string take() { auto s = log().str(); begin(); return s.empty() ? std::string("-") : s; }
}  // namespace c18log

using namespace c18log;  // NOLINT

extern "C" {

int MPI_Type_vector(int count, int blocklength, int stride, MPI_Datatype oldtype, MPI_Datatype* newtype) {
	long const o = id_of(oldtype);
	int const rc = PMPI_Type_vector(count, blocklength, stride, oldtype, newtype);
	sep(); log() << "vc(" << fresh(*newtype) << ',' << count << ',' << blocklength << ',' << stride << ',' << o << ')';
	return rc;
}
int MPI_Type_create_hvector(int count, int blocklength, MPI_Aint stride, MPI_Datatype oldtype, MPI_Datatype* newtype) {
	long const o = id_of(oldtype);
	int const rc = PMPI_Type_create_hvector(count, blocklength, stride, oldtype, newtype);
	sep(); log() << "hv(" << fresh(*newtype) << ',' << count << ',' << blocklength << ',' << static_cast<long>(stride) << ',' << o << ')';
	return rc;
}
int MPI_Type_create_resized(MPI_Datatype oldtype, MPI_Aint lb, MPI_Aint extent, MPI_Datatype* newtype) {
	long const o = id_of(oldtype);
	int const rc = PMPI_Type_create_resized(oldtype, lb, extent, newtype);
	sep(); log() << "rs(" << fresh(*newtype) << ',' << o << ',' << static_cast<long>(lb) << ',' << static_cast<long>(extent) << ')';
	return rc;
}
int MPI_Type_dup(MPI_Datatype oldtype, MPI_Datatype* newtype) {
	long const o = id_of(oldtype);
	int const rc = PMPI_Type_dup(oldtype, newtype);
	sep(); log() << "dp(" << fresh(*newtype) << ',' << o << ')';
	return rc;
}
// A handle that is neither predefined nor currently live in this layer (-1: never created or already
// freed; -2: MPI_DATATYPE_NULL) is logged and NOT forwarded: passing a dangling handle to the MPI
// library is undefined behaviour, and the ledger line already shows the defect.  The same for
// MPI_Pack/MPI_Unpack with a live but uncommitted datatype (erroneous per MPI-3.1 4.1.9).
int MPI_Type_commit(MPI_Datatype* datatype) {
	long const h = (*datatype == MPI_DATATYPE_NULL) ? -2 : id_of(*datatype);
	sep(); log() << "cm(" << h << ')';
	if(h < 0) { return MPI_ERR_TYPE; }
	if(h > 0) { committed()[*datatype] = true; }
	return PMPI_Type_commit(datatype);
}
int MPI_Type_free(MPI_Datatype* datatype) {
	long const h = (*datatype == MPI_DATATYPE_NULL) ? -2 : id_of(*datatype);
	sep(); log() << "fr(" << h << ')';
	if(h < 0) { return MPI_ERR_TYPE; }
	ids().erase(*datatype);
	committed().erase(*datatype);
	return PMPI_Type_free(datatype);
}
int MPI_Pack(void const* inbuf, int incount, MPI_Datatype datatype, void* outbuf, int outsize, int* position, MPI_Comm comm) {
	long const h = (datatype == MPI_DATATYPE_NULL) ? -2 : id_of(datatype);
	sep(); log() << "us(" << h << ',' << incount << ')';
	if(h < 0 || (h > 0 && !committed()[datatype])) { return MPI_ERR_TYPE; }  // uncommitted: erroneous, not forwarded
	return PMPI_Pack(inbuf, incount, datatype, outbuf, outsize, position, comm);
}
int MPI_Unpack(void const* inbuf, int insize, int* position, void* outbuf, int outcount, MPI_Datatype datatype, MPI_Comm comm) {
	long const h = (datatype == MPI_DATATYPE_NULL) ? -2 : id_of(datatype);
	sep(); log() << "us(" << h << ',' << outcount << ')';
	if(h < 0 || (h > 0 && !committed()[datatype])) { return MPI_ERR_TYPE; }  // uncommitted: erroneous, not forwarded
	return PMPI_Unpack(inbuf, insize, position, outbuf, outcount, datatype, comm);
}

// constructors mpi.hpp does not call at the pinned commit
int MPI_Type_contiguous(int count, MPI_Datatype oldtype, MPI_Datatype* newtype) {
	int const rc = PMPI_Type_contiguous(count, oldtype, newtype);
	sep(); log() << "other(contiguous," << fresh(*newtype) << ')';
	return rc;
}
int MPI_Type_create_subarray(int ndims, int const sizes[], int const subsizes[], int const starts[], int order, MPI_Datatype oldtype, MPI_Datatype* newtype) {
	int const rc = PMPI_Type_create_subarray(ndims, sizes, subsizes, starts, order, oldtype, newtype);
	sep(); log() << "other(subarray," << fresh(*newtype) << ')';
	return rc;
}
int MPI_Type_create_struct(int count, int const bl[], MPI_Aint const disp[], MPI_Datatype const types[], MPI_Datatype* newtype) {
	int const rc = PMPI_Type_create_struct(count, bl, disp, types, newtype);
	sep(); log() << "other(struct," << fresh(*newtype) << ')';
	return rc;
}
int MPI_Type_indexed(int count, int const bl[], int const disp[], MPI_Datatype oldtype, MPI_Datatype* newtype) {
	int const rc = PMPI_Type_indexed(count, bl, disp, oldtype, newtype);
	sep(); log() << "other(indexed," << fresh(*newtype) << ')';
	return rc;
}
int MPI_Type_create_hindexed(int count, int const bl[], MPI_Aint const disp[], MPI_Datatype oldtype, MPI_Datatype* newtype) {
	int const rc = PMPI_Type_create_hindexed(count, bl, disp, oldtype, newtype);
	sep(); log() << "other(hindexed," << fresh(*newtype) << ')';
	return rc;
}

}  // extern "C"

// h_const_witness (C16): runs, on the real library, the write attempts that the property forbids through a const
// access path (each guarded by the detection idiom, so the harness compiles whether or not the library accepts
// them), their twins on a mutable array, and the rebinding / resizing / copying checks of reference types.
// Output: one line per case:  W <id> compiled=<0|1> modified=<0|1>      (write attempts)
//                             T <id> <key>=<value> ...                  (reference-type checks)
// The array behind the const access path is itself a non-const object, so a write that the library lets through
// is well defined and can be observed.
#include <boost/multi/array.hpp>

#include <array>
#include <cstdio>
#include <numeric>
#include <type_traits>
#include <utility>

namespace multi = boost::multi;

template<class F, class A> auto attempt(F fun, A&& arr, int /*prefer*/) -> decltype(fun(std::forward<A>(arr)), bool()) {
	fun(std::forward<A>(arr));
	return true;
}
template<class F, class A> auto attempt(F /*fun*/, A&& /*arr*/, long /*fallback*/) -> bool { return false; }

template<class Arr> auto checksum(Arr const& arr) -> long {
	long s = 0;
	long k = 1;
	for(auto const& e : arr.elements()) { s += k * e; ++k; }
	return s;
}

#define WRITE_CASE(ID, ROOT, ...)                                                                                 \
	{                                                                                                             \
		auto before = checksum(B);                                                                                \
		bool compiled = attempt([](auto&& a) -> decltype((void)(__VA_ARGS__)) { (void)(__VA_ARGS__); }, ROOT, 0);               \
		std::printf("W %s compiled=%d modified=%d\n", ID, compiled ? 1 : 0, (checksum(B) != before) ? 1 : 0);     \
	}

template<int D> auto exts() {
	if constexpr(D == 1) { return multi::extensions_t<1>{4}; }
	else if constexpr(D == 2) { return multi::extensions_t<2>{4, 4}; }
	else { return multi::extensions_t<3>{4, 4, 4}; }
}

template<int D> auto other() -> multi::array<int, D>& {   // a second array of the same shape, as a source of values
	static multi::array<int, D> O(exts<D>(), -7);
	return O;
}

template<int D> void write_cases(char const* tag) {
	multi::array<int, D> B(exts<D>(), 0);
	std::iota(B.elements().begin(), B.elements().end(), 1);
	multi::array<int, D> const& cA = B;            // the const access path
	auto const& cV = B();                          // a view held by auto const&
	auto&& fV = B();                               // a view held by auto&&
	char id[64];
#define ID(NAME) (std::snprintf(id, sizeof id, "%s.%s", tag, NAME), id)
	// ---- through const: the property says none of these may be accepted
	if constexpr(D >= 2) {
		WRITE_CASE(ID("const.iter_index"), cA, a.begin()[1].elements()[0] = -42)                                  // was DESIGN 7 item 14, repaired by 0cc5cd0
		WRITE_CASE(ID("const.iter_call"), cA, a.begin()(1).elements()[0] = -43)
		WRITE_CASE(ID("const.iter_base"), cA, *(a.begin().base()) = -44)
		WRITE_CASE(ID("const.view_iter_index"), cV, a.begin()[1].elements()[0] = -45)
	}
	WRITE_CASE(ID("const.csub_elements_it"), cA, *(a().elements().begin()) = -46)                      // was DESIGN 7 item 15, repaired by c42ae62
	WRITE_CASE(ID("const.csub_elements_idx"), cA, a().elements()[1] = -47)
	WRITE_CASE(ID("const.csub_elements_assign"), cA, a().elements() = other<D>()().elements())
	WRITE_CASE(ID("const.csub_origin"), cA, *(a().origin()) = -48)
	WRITE_CASE(ID("const.view_origin"), cV, *(a.origin()) = -49)
	WRITE_CASE(ID("const.view_elements"), cV, *(a.elements().begin()) = -50)
	WRITE_CASE(ID("const.view_addrof_base"), cV, *((&a).base()) = -63)                                  // const_subarray_ptr::base(): repaired by f94579a
	WRITE_CASE(ID("const.ctl_view_addrof"), cV, *((*(&a)).base()) = -64)
	if constexpr(D >= 2) {
		WRITE_CASE(ID("const.csub_addrof"), cA, (*(&a())).elements()[0] = -65)                          // operator& of the const_subarray prvalue: repaired by 49fc935
		WRITE_CASE(ID("const.csub_addressof"), cA, (*(a().addressof())).elements()[0] = -66)
		WRITE_CASE(ID("const.iter_arrow_base"), cA, *(a.begin().operator->().base()) = -67)
	}
	WRITE_CASE(ID("const.view_call0_elements"), cV, *(a().elements().begin()) = -51)
	// controls: ordinary const access must be rejected
	WRITE_CASE(ID("const.ctl_elements"), cA, *(a.elements().begin()) = -52)
	WRITE_CASE(ID("const.ctl_home"), cA, *(a.home()) = -53)
	WRITE_CASE(ID("const.ctl_base"), cA, *(a.base()) = -54)
	WRITE_CASE(ID("const.ctl_data_elements"), cA, *(a.data_elements()) = -55)
	WRITE_CASE(ID("const.ctl_origin_array"), cA, *(a.origin()) = -56)
	WRITE_CASE(ID("const.ctl_fill"), cA, a().fill(*other<D>().begin()))
	WRITE_CASE(ID("const.ctl_assign_view"), cV, a = other<D>())
	WRITE_CASE(ID("const.ctl_celements"), fV, *(a.elements().cbegin()) = -57)
	if constexpr(D == 1) {
		WRITE_CASE(ID("const.ctl_index"), cA, a[1] = -58)
		WRITE_CASE(ID("const.ctl_call"), cA, a(1) = -59)
		WRITE_CASE(ID("const.ctl_cbegin"), fV, *(a.cbegin()) = -60)
	} else {
		WRITE_CASE(ID("const.index_elements"), cA, a[1].elements()[0] = -58)              // item 15 again (a[1] is a const_subarray prvalue), repaired by c42ae62
		WRITE_CASE(ID("const.cbegin_elements"), fV, (*a.cbegin()).elements()[0] = -60)
		WRITE_CASE(ID("const.ctl_index"), cA, *(a[1].base()) = -58)
		WRITE_CASE(ID("const.ctl_index_home"), cA, *(a[1].home()) = -58)
		WRITE_CASE(ID("const.ctl_cbegin"), fV, *((*a.cbegin()).base()) = -60)
	}
	// ---- the same paths from the mutable array / the forwarded view: must be accepted and must write
	if constexpr(D >= 2) {
		WRITE_CASE(ID("mut.iter_index"), B, a.begin()[1].elements()[0] = -142)
		WRITE_CASE(ID("mut.iter_base"), B, *(a.begin().base()) = -144)
		WRITE_CASE(ID("mut.view_iter_index"), fV, a.begin()[1].elements()[0] = -145)
	}
	WRITE_CASE(ID("mut.sub_elements_it"), B, *(a().elements().begin()) = -146)
	WRITE_CASE(ID("mut.sub_elements_idx"), B, a().elements()[1] = -147)
	WRITE_CASE(ID("mut.sub_origin"), B, *(a().origin()) = -148)
	WRITE_CASE(ID("mut.addrof"), fV, (*(&a)).elements()[0] = -168)
	WRITE_CASE(ID("mut.view_elements"), fV, *(a.elements().begin()) = -150)
	WRITE_CASE(ID("mut.elements"), B, *(a.elements().begin()) = -152)
	WRITE_CASE(ID("mut.home"), B, *(a.home()) = -153)
	WRITE_CASE(ID("mut.base"), B, *(a.base()) = -154)
	WRITE_CASE(ID("mut.data_elements"), B, *(a.data_elements()) = -155)
	WRITE_CASE(ID("mut.origin_array"), B, *(a.origin()) = -156)
	if constexpr(D == 1) {
		WRITE_CASE(ID("mut.index"), B, a[1] = -158)
		WRITE_CASE(ID("mut.call"), B, a(1) = -159)
		WRITE_CASE(ID("mut.fill"), B, a().fill(-161))
	} else {
		WRITE_CASE(ID("mut.index"), B, a[1].elements()[0] = -158)
	}
#undef ID
}

// ---- reference types: assignment is element assignment; no rebinding, no resizing, no copy construction
template<int D> void reference_cases(char const* tag) {
	multi::array<int, D> X(exts<D>(), 1);
	multi::array<int, D> Y(exts<D>(), 2);
	{
		auto&& v = X.sliced(0, 2);
		auto&& w = Y.sliced(1, 3);
		auto const* base0 = v.base();
		auto ext0 = v.extensions();
		v = w;
		std::printf("T %s.view_assign rebound=%d resized=%d copied=%d source_intact=%d\n", tag,
			(v.base() != base0) ? 1 : 0, (v.extensions() == ext0) ? 0 : 1, (X.elements()[0] == 2) ? 1 : 0, (Y.elements()[0] == 2) ? 1 : 0);
	}
	{
		multi::array<int, D> P(exts<D>(), 3);
		multi::array<int, D> Q(exts<D>(), 4);
		multi::array_ref<int, D> r(P.data_elements(), P.extensions());
		multi::array_ref<int, D> s(Q.data_elements(), Q.extensions());
		auto* base0 = r.data_elements();
		auto ext0 = r.extensions();
		r = s;
		std::printf("T %s.array_ref_assign rebound=%d resized=%d copied=%d\n", tag,
			(r.data_elements() != base0) ? 1 : 0, (r.extensions() == ext0) ? 0 : 1, (P.elements()[0] == 4) ? 1 : 0);
	}
	{
		multi::array<int, D> P(exts<D>(), 3);
		auto ext0 = P.extensions();
		multi::array<int, D> Q(Y.sliced(0, 2));
		P = Q;   // an owning array, by contrast, takes the extents of the source
		std::printf("T %s.array_assign resized=%d\n", tag, (P.extensions() == ext0) ? 0 : 1);
	}
	using sub_t = multi::subarray<int, D>;
	using csub_t = multi::const_subarray<int, D>;
	using ref_t = multi::array_ref<int, D>;
	using er_t = typename csub_t::elements_range;
	std::printf("T %s.traits sub_copy=%d csub_copy=%d aref_copy=%d aref_move=%d erange_copy=%d array_copy=%d csub_copy_assign=%d csub_move_assign=%d iter_copy=%d cursor_copy=%d\n", tag,
		std::is_copy_constructible_v<sub_t> ? 1 : 0, std::is_copy_constructible_v<csub_t> ? 1 : 0,
		std::is_copy_constructible_v<ref_t> ? 1 : 0, std::is_move_constructible_v<ref_t> ? 1 : 0,
		std::is_copy_constructible_v<er_t> ? 1 : 0, std::is_copy_constructible_v<multi::array<int, D>> ? 1 : 0,
		std::is_copy_assignable_v<csub_t> ? 1 : 0, (D >= 2 && std::is_move_assignable_v<csub_t>) ? 1 : 0,
		std::is_copy_constructible_v<typename sub_t::iterator> ? 1 : 0, std::is_copy_constructible_v<typename sub_t::cursor> ? 1 : 0);
}

int main() {
	write_cases<1>("D1");
	write_cases<2>("D2");
	write_cases<3>("D3");
	reference_cases<1>("D1");
	reference_cases<2>("D2");
	reference_cases<3>("D3");
	std::printf("E done\n");
	return 0;
}

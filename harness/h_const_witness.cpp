// h_const_witness (C16): runs, on the real library, the write attempts that the property forbids through a const
// access path (each guarded by the detection idiom, so the harness compiles whether or not the library accepts
// them), their twins on a mutable array, and the rebinding / resizing / copying checks of reference types.
// Output: one line per case:  W <id> compiled=<0|1> modified=<0|1>      (write attempts)
//                             T <id> <key>=<value> ...                  (reference-type checks)
// The array behind the const access path is itself a non-const object, so a write that the library lets through
// is well defined and can be observed.
#include <boost/multi/array.hpp>

#include <array>
#include <cstdio>
#include <numeric>
#include <type_traits>
#include <utility>

namespace multi = boost::multi;

template<class F, class A> auto attempt(F fun, A&& arr, int /*prefer*/) -> decltype(fun(std::forward<A>(arr)), bool()) {
	fun(std::forward<A>(arr));
	return true;
}
template<class F, class A> auto attempt(F /*fun*/, A&& /*arr*/, long /*fallback*/) -> bool { return false; }

template<class Arr> auto checksum(Arr const& arr) -> long {
	long s = 0;
	long k = 1;
	for(auto const& e : arr.elements()) { s += k * e; ++k; }
	return s;
}

#define WRITE_CASE(ID, ROOT, ...)                                                                                 \
	{                                                                                                             \
		auto before = checksum(B);                                                                                \
		bool compiled = attempt([](auto&& a) -> decltype((void)(__VA_ARGS__)) { (void)(__VA_ARGS__); }, ROOT, 0);               \
		std::printf("W %s compiled=%d modified=%d\n", ID, compiled ? 1 : 0, (checksum(B) != before) ? 1 : 0);     \
	}

template<int D> auto exts() {
	if constexpr(D == 1) { return multi::extensions_t<1>{4}; }
	else if constexpr(D == 2) { return multi::extensions_t<2>{4, 4}; }
	else { return multi::extensions_t<3>{4, 4, 4}; }
}

template<int D> auto other() -> multi::array<int, D>& {   // a second array of the same shape, as a source of values
	static multi::array<int, D> O(exts<D>(), -7);
	return O;
}

template<int D> void write_cases(char const* tag) {
	multi::array<int, D> B(exts<D>(), 0);
	std::iota(B.elements().begin(), B.elements().end(), 1);
	multi::array<int, D> const& cA = B;            // the const access path
	auto const& cV = B();                          // a view held by auto const&
	auto&& fV = B();                               // a view held by auto&&
	char id[64];
#define ID(NAME) (std::snprintf(id, sizeof id, "%s.%s", tag, NAME), id)
	// ---- through const: the property says none of these may be accepted
	if constexpr(D >= 2) {
		WRITE_CASE(ID("const.iter_index"), cA, a.begin()[1].elements()[0] = -42)                                  // was DESIGN 7 item 14, repaired by 0cc5cd0
		WRITE_CASE(ID("const.iter_call"), cA, a.begin()(1).elements()[0] = -43)
		WRITE_CASE(ID("const.iter_base"), cA, *(a.begin().base()) = -44)
		WRITE_CASE(ID("const.view_iter_index"), cV, a.begin()[1].elements()[0] = -45)
	}
	WRITE_CASE(ID("const.csub_elements_it"), cA, *(a().elements().begin()) = -46)                      // was DESIGN 7 item 15, repaired by c42ae62
	WRITE_CASE(ID("const.csub_elements_idx"), cA, a().elements()[1] = -47)
	WRITE_CASE(ID("const.csub_elements_assign"), cA, a().elements() = other<D>()().elements())
	WRITE_CASE(ID("const.csub_origin"), cA, *(a().origin()) = -48)
	WRITE_CASE(ID("const.view_origin"), cV, *(a.origin()) = -49)
	WRITE_CASE(ID("const.view_elements"), cV, *(a.elements().begin()) = -50)
	WRITE_CASE(ID("const.view_addrof_base"), cV, *((&a).base()) = -63)                                  // const_subarray_ptr::base(): repaired by f94579a
	WRITE_CASE(ID("const.ctl_view_addrof"), cV, *((*(&a)).base()) = -64)
	if constexpr(D >= 2) {
		WRITE_CASE(ID("const.csub_addrof"), cA, (*(&a())).elements()[0] = -65)                          // operator& of the const_subarray prvalue: repaired by 49fc935
		WRITE_CASE(ID("const.csub_addressof"), cA, (*(a().addressof())).elements()[0] = -66)
		WRITE_CASE(ID("const.iter_arrow_base"), cA, *(a.begin().operator->().base()) = -67)
	}
	WRITE_CASE(ID("const.view_call0_elements"), cV, *(a().elements().begin()) = -51)
	// controls: ordinary const access must be rejected
	WRITE_CASE(ID("const.ctl_elements"), cA, *(a.elements().begin()) = -52)
	WRITE_CASE(ID("const.ctl_home"), cA, *(a.home()) = -53)
	WRITE_CASE(ID("const.ctl_base"), cA, *(a.base()) = -54)
	WRITE_CASE(ID("const.ctl_data_elements"), cA, *(a.data_elements()) = -55)
	WRITE_CASE(ID("const.ctl_origin_array"), cA, *(a.origin()) = -56)
	WRITE_CASE(ID("const.ctl_fill"), cA, a().fill(*other<D>().begin()))
	WRITE_CASE(ID("const.ctl_assign_view"), cV, a = other<D>())
	WRITE_CASE(ID("const.ctl_celements"), fV, *(a.elements().cbegin()) = -57)
	if constexpr(D == 1) {
		WRITE_CASE(ID("const.ctl_index"), cA, a[1] = -58)
		WRITE_CASE(ID("const.ctl_call"), cA, a(1) = -59)
		WRITE_CASE(ID("const.ctl_cbegin"), fV, *(a.cbegin()) = -60)
	} else {
		WRITE_CASE(ID("const.index_elements"), cA, a[1].elements()[0] = -58)              // item 15 again (a[1] is a const_subarray prvalue), repaired by c42ae62
		WRITE_CASE(ID("const.cbegin_elements"), fV, (*a.cbegin()).elements()[0] = -60)
		WRITE_CASE(ID("const.ctl_index"), cA, *(a[1].base()) = -58)
		WRITE_CASE(ID("const.ctl_index_home"), cA, *(a[1].home()) = -58)
		WRITE_CASE(ID("const.ctl_cbegin"), fV, *((*a.cbegin()).base()) = -60)
	}
	// ---- the same paths from the mutable array / the forwarded view: must be accepted and must write
	if constexpr(D >= 2) {
		WRITE_CASE(ID("mut.iter_index"), B, a.begin()[1].elements()[0] = -142)
		WRITE_CASE(ID("mut.iter_base"), B, *(a.begin().base()) = -144)
		WRITE_CASE(ID("mut.view_iter_index"), fV, a.begin()[1].elements()[0] = -145)
	}
	WRITE_CASE(ID("mut.sub_elements_it"), B, *(a().elements().begin()) = -146)
	WRITE_CASE(ID("mut.sub_elements_idx"), B, a().elements()[1] = -147)
	WRITE_CASE(ID("mut.sub_origin"), B, *(a().origin()) = -148)
	WRITE_CASE(ID("mut.addrof"), fV, (*(&a)).elements()[0] = -168)
	WRITE_CASE(ID("mut.view_elements"), fV, *(a.elements().begin()) = -150)
	WRITE_CASE(ID("mut.elements"), B, *(a.elements().begin()) = -152)
	WRITE_CASE(ID("mut.home"), B, *(a.home()) = -153)
	WRITE_CASE(ID("mut.base"), B, *(a.base()) = -154)
	WRITE_CASE(ID("mut.data_elements"), B, *(a.data_elements()) = -155)
	WRITE_CASE(ID("mut.origin_array"), B, *(a.origin()) = -156)
	if constexpr(D == 1) {
		WRITE_CASE(ID("mut.index"), B, a[1] = -158)
		WRITE_CASE(ID("mut.call"), B, a(1) = -159)
		WRITE_CASE(ID("mut.fill"), B, a().fill(-161))
	} else {
		WRITE_CASE(ID("mut.index"), B, a[1].elements()[0] = -158)
	}
#undef ID
}

// ---- projections, casts and conversions between handle kinds (follow-up 2) -----------------------------------------
struct S { int a; int b; };
inline constexpr int S::* pmb = &S::b;   // named: g++ 12 cannot mangle &S::b inside the lambdas' trailing return types
template<class Arr> auto checksumS(Arr const& arr) -> long {
	long s = 0;
	long k = 1;
	for(auto const& e : arr.elements()) { s += k * (e.a + 3 * e.b); ++k; }
	return s;
}
template<class T, class X> auto take(X&& x) -> std::enable_if_t<std::is_convertible_v<X&&, T>, T> { return std::forward<X>(x); }   // implicit conversion to T
#define WRITE_CASE_S(ID, ROOT, ...)                                                                               \
	{                                                                                                             \
		auto before = checksumS(BS);                                                                              \
		bool compiled = attempt([](auto&& a) -> decltype((void)(__VA_ARGS__)) { (void)(__VA_ARGS__); }, ROOT, 0); \
		std::printf("W %s compiled=%d modified=%d\n", ID, compiled ? 1 : 0, (checksumS(BS) != before) ? 1 : 0);  \
	}

template<int D> void projection_cases(char const* tag) {
	multi::array<S, D> BS(exts<D>(), S{1, 2});
	multi::array<S, D> const& cAS = BS;
	auto&& fP = BS.element_transformed(&S::b);        // projection view held by auto&&
	auto const& cP = fP;                               // ... by auto const&
	auto&& fL = BS.element_transformed([](S& s) -> int& { return s.b; });
	auto const& cL = fL;
	using tptr_mut = decltype(fP.base());             // transform_ptr<int, int S::*, S*, int&>
	char id[64];
#define ID(NAME) (std::snprintf(id, sizeof id, "%s.%s", tag, NAME), id)
	// through the const-qualified projection view: nothing may be accepted
	WRITE_CASE_S(ID("const.proj_elements_idx"), cP, a.elements()[1] = -201)
	WRITE_CASE_S(ID("const.proj_elements_it"), cP, *(a.elements().begin()) = -202)
	WRITE_CASE_S(ID("const.proj_home"), cP, *(a.home()) = -203)
	WRITE_CASE_S(ID("const.proj_base"), cP, *(a.base()) = -204)
	WRITE_CASE_S(ID("const.proj_call0_elements"), cP, a().elements()[0] = -205)
	WRITE_CASE_S(ID("const.proj_lambda_elements"), cL, a.elements()[1] = -206)
	WRITE_CASE_S(ID("const.proj_lambda_home"), cL, *(a.home()) = -207)
	if constexpr(D == 1) {
		WRITE_CASE_S(ID("const.proj_index"), cP, a[1] = -208)
		WRITE_CASE_S(ID("const.proj_begin"), cP, *(a.begin()) = -209)
		WRITE_CASE_S(ID("const.proj_front"), cP, a.front() = -210)
		WRITE_CASE_S(ID("const.proj_sliced"), cP, a.sliced(0, 2)[0] = -211)
	} else {
		WRITE_CASE_S(ID("const.proj_index"), cP, a[1].elements()[0] = -208)
		WRITE_CASE_S(ID("const.proj_begin"), cP, (*a.begin()).elements()[0] = -209)
		WRITE_CASE_S(ID("const.proj_front"), cP, a.front().elements()[0] = -210)
		WRITE_CASE_S(ID("const.proj_rotated"), cP, a.rotated().elements()[0] = -212)
		WRITE_CASE_S(ID("const.proj_arrow"), cP, *(a.begin()->base()) = -213)
	}
	// the projections of a const struct-element array / of the const_subarray it hands out
	WRITE_CASE_S(ID("const.etrans_array"), cAS, a.element_transformed(pmb).elements()[0] = -214)
	WRITE_CASE_S(ID("const.csub_etrans"), cAS, a().element_transformed(pmb).elements()[0] = -215)                   // const_subarray::element_transformed() &&
	if constexpr(D == 1) {
		WRITE_CASE_S(ID("const.member_cast_1d"), cAS, a.template member_cast<int>(pmb)[0] = -216)                     // 1-D member_cast() const -> subarray<int, 1, int*>
	} else {
		WRITE_CASE_S(ID("const.ctl_member_cast"), cAS, a.template member_cast<int>(pmb).elements()[0] = -216)
		WRITE_CASE_S(ID("const.csub_member_cast"), cAS, a().template member_cast<int>(pmb).elements()[0] = -217)      // const_subarray::member_cast() &&
	}
	WRITE_CASE_S(ID("const.ctl_reinterpret_n"), cAS, a.template reinterpret_array_cast<int>(2).elements()[0] = -218)
	// transform_ptr: its rebind to const converts back; base() is the wrapped S*
	WRITE_CASE_S(ID("const.tptr_conv"), cP, *take<tptr_mut>(a.base()) = -219)
	WRITE_CASE_S(ID("const.tptr_base"), cP, a.base().base()->b = -220)
	// mutable twins
	WRITE_CASE_S(ID("mut.proj_elements_idx"), fP, a.elements()[1] = -301)
	WRITE_CASE_S(ID("mut.proj_home"), fP, *(a.home()) = -303)
	WRITE_CASE_S(ID("mut.proj_lambda_elements"), fL, a.elements()[1] = -306)
	WRITE_CASE_S(ID("mut.member_cast"), BS, a.template member_cast<int>(pmb).elements()[0] = -316)
	WRITE_CASE_S(ID("mut.reinterpret_n"), BS, a.template reinterpret_array_cast<int>(2).elements()[0] = -318)
#undef ID
}

template<int D> void conversion_cases(char const* tag) {
	multi::array<int, D> B(exts<D>(), 0);
	std::iota(B.elements().begin(), B.elements().end(), 1);
	multi::array<int, D> const& cA = B;
	auto&& fV = B();
	auto&& fM = B().element_moved();
	auto const& cM = fM;
	using it_mut = typename multi::array<int, D>::iterator;
	using sp_mut = multi::subarray_ptr<int, D, int*, multi::layout_t<D>, false>;
	using ei_mut = typename multi::subarray<int, D>::elements_range::iterator;
	char id[64];
#define ID(NAME) (std::snprintf(id, sizeof id, "%s.%s", tag, NAME), id)
	if constexpr(D == 1) {
		WRITE_CASE(ID("const.ctl_iter_conv_implicit"), cA, *take<it_mut>(a.begin()) = -401)
		WRITE_CASE(ID("const.ctl_iter_conv_explicit"), cA, *static_cast<it_mut>(a.begin()) = -402)
		WRITE_CASE(ID("mut.iter_conv"), B, *take<it_mut>(a.begin()) = -403)
	} else {
		WRITE_CASE(ID("const.ctl_iter_conv_implicit"), cA, (*take<it_mut>(a.begin())).elements()[0] = -401)
		WRITE_CASE(ID("const.ctl_iter_conv_explicit"), cA, (*static_cast<it_mut>(a.begin())).elements()[0] = -402)
		WRITE_CASE(ID("const.ctl_iter_conv_assign"), cA, (*(std::declval<it_mut&>() = a.begin())).elements()[0] = -404)
		WRITE_CASE(ID("mut.iter_conv"), B, (*take<it_mut>(a.begin())).elements()[0] = -403)
	}
	WRITE_CASE(ID("const.sptr_conv"), cA, (*take<sp_mut>(&a())).elements()[0] = -405)                        // subarray_ptr<.., IsConst = true> -> <.., false>
	WRITE_CASE(ID("const.ctl_eiter_conv"), cA, *take<ei_mut>(a().elements().begin()) = -406)
	WRITE_CASE(ID("const.static_cast"), cA, a.template static_array_cast<int>().elements()[0] = -407)        // [[deprecated("violates constness")]]
	WRITE_CASE(ID("const.ctl_reinterpret"), cA, a.template reinterpret_array_cast<int>().elements()[0] = -408)
	WRITE_CASE(ID("const.escape_mutable_base"), cA, *(a.mutable_base()) = -409)
	if constexpr(D >= 2) {
		WRITE_CASE(ID("const.escape_const_array_cast"), cA, a.const_array_cast().elements()[0] = -410)
	}
	WRITE_CASE(ID("const.ctl_moved_view"), cM, a.elements()[0] = -411)
	WRITE_CASE(ID("const.ctl_apply"), cA, a.apply(std::array<multi::index, D>{}) = -412)
	WRITE_CASE(ID("const.ctl_elements_at"), cA, a.elements_at(0) = -413)
	WRITE_CASE(ID("mut.static_cast"), B, a.template static_array_cast<int>().elements()[0] = -414)
	WRITE_CASE(ID("mut.reinterpret"), B, a.template reinterpret_array_cast<int>().elements()[0] = -415)
	(void)fV;
#undef ID
}

// ---- reference types: assignment is element assignment; no rebinding, no resizing, no copy construction
template<int D> void reference_cases(char const* tag) {
	multi::array<int, D> X(exts<D>(), 1);
	multi::array<int, D> Y(exts<D>(), 2);
	{
		auto&& v = X.sliced(0, 2);
		auto&& w = Y.sliced(1, 3);
		auto const* base0 = v.base();
		auto ext0 = v.extensions();
		v = w;
		std::printf("T %s.view_assign rebound=%d resized=%d copied=%d source_intact=%d\n", tag,
			(v.base() != base0) ? 1 : 0, (v.extensions() == ext0) ? 0 : 1, (X.elements()[0] == 2) ? 1 : 0, (Y.elements()[0] == 2) ? 1 : 0);
	}
	{
		multi::array<int, D> P(exts<D>(), 3);
		multi::array<int, D> Q(exts<D>(), 4);
		multi::array_ref<int, D> r(P.data_elements(), P.extensions());
		multi::array_ref<int, D> s(Q.data_elements(), Q.extensions());
		auto* base0 = r.data_elements();
		auto ext0 = r.extensions();
		r = s;
		std::printf("T %s.array_ref_assign rebound=%d resized=%d copied=%d\n", tag,
			(r.data_elements() != base0) ? 1 : 0, (r.extensions() == ext0) ? 0 : 1, (P.elements()[0] == 4) ? 1 : 0);
	}
	{
		multi::array<int, D> P(exts<D>(), 3);
		auto ext0 = P.extensions();
		multi::array<int, D> Q(Y.sliced(0, 2));
		P = Q;   // an owning array, by contrast, takes the extents of the source
		std::printf("T %s.array_assign resized=%d\n", tag, (P.extensions() == ext0) ? 0 : 1);
	}
	using sub_t = multi::subarray<int, D>;
	using csub_t = multi::const_subarray<int, D>;
	using ref_t = multi::array_ref<int, D>;
	using er_t = typename csub_t::elements_range;
	std::printf("T %s.traits sub_copy=%d csub_copy=%d aref_copy=%d aref_move=%d erange_copy=%d array_copy=%d csub_copy_assign=%d csub_move_assign=%d iter_copy=%d cursor_copy=%d\n", tag,
		std::is_copy_constructible_v<sub_t> ? 1 : 0, std::is_copy_constructible_v<csub_t> ? 1 : 0,
		std::is_copy_constructible_v<ref_t> ? 1 : 0, std::is_move_constructible_v<ref_t> ? 1 : 0,
		std::is_copy_constructible_v<er_t> ? 1 : 0, std::is_copy_constructible_v<multi::array<int, D>> ? 1 : 0,
		std::is_copy_assignable_v<csub_t> ? 1 : 0, (D >= 2 && std::is_move_assignable_v<csub_t>) ? 1 : 0,
		std::is_copy_constructible_v<typename sub_t::iterator> ? 1 : 0, std::is_copy_constructible_v<typename sub_t::cursor> ? 1 : 0);
}

int main() {
	write_cases<1>("D1");
	write_cases<2>("D2");
	write_cases<3>("D3");
	projection_cases<1>("D1");
	projection_cases<2>("D2");
	projection_cases<3>("D3");
	conversion_cases<1>("D1");
	conversion_cases<2>("D2");
	conversion_cases<3>("D3");
	reference_cases<1>("D1");
	reference_cases<2>("D2");
	reference_cases<3>("D3");
	std::printf("E done\n");
	return 0;
}
